#!/usr/bin/env bash
# ./check.sh <Cxx> quick|thorough [--replay <file>] [--only rule,rule]
# Decides the property's structural clauses from /repo's current working tree.
# exit 0 = held; 1 + "VIOLATION property=… replay=…" = violated; 3 = undecided.
cd "$(dirname "$0")"
. ./env.sh
if [ ! -x bin/kapcheck ] || [ ! -f pc/flux.pc ] || [ -n "$(find kapcheck -name '*.go' -newer bin/kapcheck 2>/dev/null | head -1)" ]; then
  ./setup.sh >/dev/null || { echo "UNDECIDED property=$1 setup failed"; exit 3; }
fi
prop=$1; tier=${2:-quick}; shift; shift || true
args=()
while [ $# -gt 0 ]; do
  case "$1" in
    --replay) args+=(-replay "$2"); shift 2;;
    --only) args+=(-only "$2"); shift 2;;
    *) shift;;
  esac
done
exec bin/kapcheck -property "$prop" -tier "$tier" -repo "$REPO" -root "$VERIF_ROOT" "${args[@]}"
