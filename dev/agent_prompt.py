#!/usr/bin/env python3
import json,sys
pid=sys.argv[1]
k0=int(sys.argv[2]) if len(sys.argv)>2 else 1
focus=sys.argv[3] if len(sys.argv)>3 else ''
FOCUS={'':'','wide':"\nFOCUS OF THIS ROUND: pick sites a reviewer who stares at the listed mechanisms would overlook — callers and helpers of those mechanisms, sibling implementations (the batch form vs the stream form, other node kinds or back ends that share the mechanism), constructors, defaults and validation, cleanup and error paths, and contracts that span two files. At most ONE of your three changes may lie inside the line ranges listed under Mechanisms; the others must be elsewhere and still break THIS property.\n"}[focus]
for l in open('/verif/properties.jsonl'):
    p=json.loads(l)
    if p['id']==pid: break
wt=f"/tmp/wt/{pid}"
out=f"/tmp/wt/{pid}-out"
print(f"""You are helping evaluate a verification effort by playing the role of a careful saboteur. You get ONE semantic property of the Go project influxdata/kapacitor and your own scratch git worktree of it at {wt} (work ONLY there and in {out}; never touch /repo or /verif, do not read /verif).

THE PROPERTY ({p['id']}: {p['title']})
Statement: {p['statement']}
Quantified over: {p['quantifier']['text']}
Why ordinary tests do not settle it: {p['why_tests_cant']}
Code it is anchored in: {', '.join(p['anchors']['files'])}
Mechanisms: {'; '.join(m['name']+' ('+m.get('where','')+')' for m in p['anchors']['mechanism'])}

YOUR TASK
Produce up to THREE independent source changes to kapacitor (non-test .go files), each of which BREAKS this property while
 (a) the project still compiles:  cd {wt} && PKG_CONFIG_PATH=/opt/fluxstub/pc go build -ldflags '-extldflags "-L/opt/fluxstub -lflux"' ./...
 (b) the pinned existing test suite still passes, unedited:
     cd {wt} && go test -vet=off -count=1 ./alert/... ./auth/... ./clock/... ./services/bigpanda/... ./services/config/override/... ./services/httppost/... ./tick/... ./timer/... ./udf/agent/... ./waiter/...
 (c) the breakage needs something SPECIFIC to manifest — a particular interleaving, a crash/fault at a particular point, a multi-step sequence of operations, an unusual input or configuration, or two cooperating sites that each look fine alone — NOT something ordinary use would expose at once. Prefer realistic bugs a tired maintainer could plausibly introduce (a dropped copy, a weakened guard, a reordered step, a swapped argument, an off-by-one, a missing lock, an error swallowed, a table entry mis-keyed, ...), small (1-15 changed lines), and subtle. Make the three changes different in kind and in location.
{FOCUS}For EACH change also write a demonstration: a new Go test file (or small program) that FAILS with the change applied and PASSES on the untouched tree. 

PRACTICALITIES (the sandbox is offline)
- Many packages import libflux (cgo). A link-only stub exists: to build/run tests of ANY package (root package, ./integrations, ./edge, ./pipeline, ./services/..., ./server) use
     PKG_CONFIG_PATH=/opt/fluxstub/pc go test -count=1 -ldflags '-extldflags "-L/opt/fluxstub -lflux"' -run <TestName> <pkg>
  e.g. ./integrations has large end-to-end tests (streamer_test.go, batcher_test.go) with helpers you can reuse in a demo test placed in that package. Packages under ./tick, ./alert, ./auth, ./udf/agent, ./models link without the stub.
- Plain `go` in the worktree works as is (do not set GOFLAGS/GOPROXY; no network is available and nothing can be downloaded).
- Keep builds targeted (one package at a time); the machine is shared.
- Do not commit, and never run git stash, git reset, git branch/checkout of other revisions, or git worktree commands: the git directory is shared with other engineers. For each change k={k0}..{k0+2} (use exactly these numbers in the file names): start from a clean tree (git -C {wt} checkout -- . && git -C {wt} clean -fdq), make the source change, save it with  git -C {wt} diff > {out}/change<k>.diff  (source change ONLY, no test files in the diff), and save the demo test file(s) as {out}/change<k>_demo/<path relative to repo root>. Verify: demo fails with the diff applied, passes without it; (a) and (b) hold with the diff applied.
- Leave the worktree clean at the end (git checkout -- . ; git clean -fdq).

FINAL ANSWER: for each change: file of the diff, one-paragraph description (what was changed, why it breaks the property, what it needs to manifest), the demo path and the exact command to run it, and the observed fail/pass outputs (short). If you could only produce fewer than three solid changes, say so; quality over quantity.""")
