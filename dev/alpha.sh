#!/usr/bin/env bash
# dev/alpha.sh <Cxx> — robustness self-test: rename every local variable/parameter/receiver (x → x_ar) in the property's
# packages (in memory: overlay under /tmp), run the rules, print what they report. Expected: nothing.
cd /verif; . ./env.sh
p=$1; d=$(mktemp -d /tmp/kapalpha.XXXX)
bin/kapcheck -property $p -alpha-out $d >/dev/null 2>&1
KAPVARIANT_VERBOSE=1 bin/kapcheck -property $p -variant-overlay $d 2>&1 | grep -v "^VARIANT" | cut -c1-${2:-420}
bin/kapcheck -property $p -variant-overlay $d 2>/dev/null | grep VARIANT
rm -rf $d
