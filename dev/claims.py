# One entry per claimed property: what MANIFEST.json says about it.
NOTES = ("Family: static analysis. Every check decides from /repo's type-checked source on each run; none runs kapacitor code. "
         "All claims are level `other`: named structural necessary conditions on every path of the anchored code; "
         "DESIGN.md §3 lists per property which clauses are decided and which are not. Exit 3 + UNDECIDED = anchor not found / construct unreadable (no verdict).")

CLAIMS = {
 "C01": dict(
  text="Every path of the alert emission code (stream and batch form), of the level decision, of history bookkeeping, episode start and topic fan-out is compared with a reference guard/effect table written from the statement; the values carried by the event are shown to be the recorded ones by provenance. This is a proof over all paths of those functions of the *structural* clauses only.",
  ref="§3 C01", technique="path-sensitive guard/effect tables over uninterpreted atoms (AST paths + type-resolved atoms), value provenance keys, field-writer confinement",
  note="Trusted: go/types; the reference tables in props/c01.go; purity of message getters. Not decided: level ranges scanned by the two searches, flapping/percentChange and duration arithmetic, batch min/max scan."),
 "C04": dict(
  text="All 61 entries of the evaluator's operator table are analysed on every path and compared with the documented operator×type matrix (operand Eval kinds, error-side flags, the Go operator with left on the left, result kind, conversion only of the int side of mixed pairs, AND/OR short-circuit, no value on error paths); the key set equals the matrix; the re-specialisation protocol and the signature check before evaluation are compared with reference tables. Decides the table's structure for all expressions; Go's arithmetic is trusted.",
  ref="§3 C04", technique="table/key agreement over the type-checked AST + path-sensitive effect tables + normal-form term matching per table entry",
  note="Trusted: go/types; the documented matrix in props/c04.go; Go operators as the mathematical reference. Not decided: numeric results of built-in functions, stateful functions' per-group history, scope binding beyond the signature check."),
 "C13": dict(
  text="Writer/reader agreement of every serialisation behind the round trips: AST node JSON (typeOf three-way, key sets, same field, reader kind, Equal-field completeness, no nil factory call), pipeline node JSON (typeOf written=accepted, registry membership, factory yields the node type, accepted dynamic argument types, parent acceptance, overridden fields parsed back), and existence+arity of every name a pipeline→TICKscript builder emits. A mismatch on any one row makes some program fail its round trip.",
  ref="§3 C13", technique="table and registry agreement extracted from the type-checked AST (writer vs reader vs factory), path analysis of the factory",
  note="Trusted: encoding/json semantics for embedded alias structs; tick's reflection naming rule. Not decided: escaping, operator precedence/parentheses, comments, idempotence of formatting (properties of all programs)."),
 "C20": dict(
  text="The authorisation guarantee is decided as structure on every path: who may register a route and with which wrapper chain; in authenticate, inner handler only as admin when auth is off or with a user returned without error, never after an error response; authorize* dominance; the method→privilege table; the resource expression checked; AuthorizeAction's cleaned-key provenance, nearest-grant-decides and refusal of non-absolute resources; the write path's check on the very database written; the mux's redirect of non-canonical paths; injectivity of DatabaseResource (violated: known finding F17).",
  ref="§3 C20", technique="who-may-call + provenance keys of the registered handler, path-sensitive guard/effect tables (dominance of the check over the use), switch-table agreement, syntactic def-use provenance of lookup keys, injectivity lint",
  note="Trusted: path.Clean/Dir, strings.TrimPrefix, bcrypt/JWT libraries, httprouter-free own mux matching (pathMatch) beyond the redirect rule. Quick tier loads services/httpd+auth only; the who-may-call rule covers every module package in the thorough tier."),
 "C06": dict(
  text="Group independence decided as structure: node-level stateful expressions are used only through CopyReset() (violated by AlertNode: known finding F13), CopyReset hands out fresh function state, the grouped consumer keeps exactly one receiver per looked-up id and dispatches each message to its own group's receiver, the group id covers name-iff-by-name and every dimension's name and value and must be injective (violated: known finding F14), Dimensions.Equal compares every field, node-level caches are guarded by their key, NewGroup returns fresh receivers.",
  ref="§3 C06", technique="type-directed use-site confinement of expression fields, path-sensitive guard/effect tables, field-completeness of the comparator guarding a cache, key-injectivity lint",
  note="Trusted: go/types. Not decided: the two-run relation itself (same output with/without other groups), computeTagNames, write confinement of arbitrary stores through the back-pointer to the node."),
 "C02": dict(
  text="Routing decided as structure on every path: key roles agree between registration and lookup, the registration is the full dbrp×measurement product over every from() node, every fan-out Collect is on an edge found under a declared key, with the point itself, in loops never left early, a task under both keys is served once, unsubscribe removes only the task's own entries and closes its edge once, the tables are touched under tm.mu only, FromNode.matches and the ingestion entry points equal their reference tables.",
  ref="§3 C02", technique="writer/reader key-role agreement, AST loop-shape rules following same-package helpers, path-sensitive guard/effect tables, syntactic guarded-by (lock held or required-by-helper at every call site)",
  note="Trusted: edge channels are FIFO; pipeline.Walk visits all nodes. Not decided: order under concurrent writers, loss/duplication across start/stop interleavings (schedule quantifier), lock discipline beyond 'a Lock/RLock precedes the access in the function'."),
}

_pending = "check not built yet in this round (see DESIGN.md §3 for the planned structural rules); will move to `checks` once armed and exact on the tree"
NOT_APPLICABLE = {p: _pending for p in ["C%02d" % i for i in range(1, 21)]}
