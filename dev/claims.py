# One entry per claimed property: what MANIFEST.json says about it.
NOTES = ("Family: static analysis. Every check decides from /repo's type-checked source on each run; none runs kapacitor code. "
         "All claims are level `other`: named structural necessary conditions on every path of the anchored code; "
         "DESIGN.md §3 lists per property which clauses are decided and which are not. Exit 3 + UNDECIDED = anchor not found / construct unreadable (no verdict).")

CLAIMS = {
 "C01": dict(
  text="Every path of the alert emission code (stream and batch form), of the level decision, of history bookkeeping, episode start and topic fan-out is compared with a reference guard/effect table written from the statement; the values carried by the event are shown to be the recorded ones by provenance. This is a proof over all paths of those functions of the *structural* clauses only.",
  ref="§3 C01", technique="path-sensitive guard/effect tables over uninterpreted atoms (AST paths + type-resolved atoms), value provenance keys, field-writer confinement",
  note="Trusted: go/types; the reference tables in props/c01.go; purity of message getters. Not decided: level ranges scanned by the two searches, flapping/percentChange and duration arithmetic, batch min/max scan."),
}

_pending = "check not built yet in this round (see DESIGN.md §3 for the planned structural rules); will move to `checks` once armed and exact on the tree"
NOT_APPLICABLE = {p: _pending for p in ["C%02d" % i for i in range(1, 21)]}
