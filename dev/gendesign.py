#!/usr/bin/env python3
"""dev/gendesign.py — regenerates the generated blocks of DESIGN.md (between <!-- gen:NAME --> and <!-- /gen:NAME -->):
   rules    : per property, the rules as built with today's obligation counts (from evidence/*.json)
   findings : known_findings.json as a table
   seeds    : seeded/*/meta.json as the catch matrix
Run after the checks (evidence must be current)."""
import json, glob, os, re

root = '/verif'

def rules_block():
    out = []
    for f in sorted(glob.glob(root + '/evidence/C*.json')):
        d = json.load(open(f))
        c = d['coverage']
        out.append(f"**{d['property_id']}** — {c.get('obligations', '?')} obligations on today's tree, {c.get('functions_analysed_n', '?')} anchored functions; "
                   f"{c.get('known_findings_n', 0)} known finding(s).\n")
        for r in c.get('rules', []):
            m = re.match(r'(\S+) \[(\d+)/(\d+)\]: (.*)', r)
            if m:
                out.append(f"- `{m.group(1)}` ({m.group(2)}/{m.group(3)}): {m.group(4)}")
            else:
                out.append(f"- {r}")
        out.append('')
    return '\n'.join(out)

def findings_block():
    d = json.load(open(root + '/known_findings.json'))
    rows = ['| id | property | rule @ construct | status | commit | what fails |', '|---|---|---|---|---|---|']
    # entries of one finding that differ only in the construct (F34: one per builder) are one row
    merged = []
    for f in d['findings']:
        what = f['what'].replace('|', '\\|')
        what = re.sub(r'^fixed: property=\S+ \S+ ', '', what)
        key = (f['id'], f['rule'], f['status'], f.get('commit'))
        if merged and merged[-1]['key'] == key and merged[-1]['n'] >= 1 and f['id'] in ('F34',):
            merged[-1]['n'] += 1
            merged[-1]['constructs'].append(f['construct'])
            continue
        merged.append({'key': key, 'f': f, 'what': what, 'n': 1, 'constructs': [f['construct']]})
    for m in merged:
        f = m['f']
        cons = f['construct'] if m['n'] == 1 else f"{m['constructs'][0]} … ({m['n']} constructs: one per builder)"
        rows.append(f"| {f['id']} | {f['property']} | `{f['rule']}@{cons}` | {f['status']} | {f.get('commit') or '—'} | {m['what']} |")
    return '\n'.join(rows)

def seeds_block():
    rows = ['| seed | property | what the change breaks | needs | result | rule that reports it |', '|---|---|---|---|---|---|']
    n = {'caught': 0, 'caught-after-strengthening': 0, 'missed': 0}
    for m in sorted(glob.glob(root + '/seeded/C*/meta.json')):
        d = json.load(open(m))
        name = os.path.basename(os.path.dirname(m))
        n[d['check_result']] = n.get(d['check_result'], 0) + 1
        rows.append(f"| {name} | {d['property']} | {d['breaks'].replace('|', '/')} | {d['needs_to_manifest'].replace('|', '/')} | {d['check_result']} | {d['caught_by'].replace('|', '/')} |")
    total = sum(n.values())
    head = (f"{total} confirmed seeds: {n.get('caught', 0)} reported by the rules as they stood when the seed was first run, "
            f"{n.get('caught-after-strengthening', 0)} reported only after a rule was added or generalised because of the seed, {n.get('missed', 0)} not reported.\n\n")
    return head + '\n'.join(rows)

blocks = {'rules': rules_block, 'findings': findings_block, 'seeds': seeds_block}
p = root + '/DESIGN.md'
s = open(p).read()
for name, fn in blocks.items():
    a, b = f'<!-- gen:{name} -->', f'<!-- /gen:{name} -->'
    if a in s and b in s:
        i, j = s.index(a) + len(a), s.index(b)
        s = s[:i] + '\n' + fn() + '\n' + s[j:]
    else:
        print('marker missing:', name)
open(p, 'w').write(s)
print('DESIGN.md blocks regenerated')
