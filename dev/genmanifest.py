#!/usr/bin/env python3
"""Regenerates /verif/MANIFEST.json from the table below (one place to edit) and validates it."""
import json, os, sys
ROOT = os.path.dirname(os.path.dirname(os.path.abspath(__file__)))
sys.path.insert(0, os.path.join(ROOT, "dev"))
from claims import CLAIMS, NOT_APPLICABLE, NOTES

ids = [json.loads(l)["id"] for l in open(os.path.join(ROOT, "properties.jsonl"))]
checks = []
for pid in ids:
    if pid not in CLAIMS:
        continue
    c = CLAIMS[pid]
    checks.append({
        "property_id": pid,
        "quick_cmd": f"./check.sh {pid} quick",
        "thorough_cmd": f"./check.sh {pid} thorough",
        "evidence_file": f"/verif/evidence/{pid}.json",
        "replay_cmd_template": f"./check.sh {pid} quick --replay {{path}}",
        "engine": "kapcheck",
        "level_claimed": {"category": "other", "text": c["text"], "design_ref": c["ref"]},
        "level_note": c["note"],
        "technique": c["technique"],
    })
na = [{"property_id": p, "reason": NOT_APPLICABLE[p]} for p in ids if p not in CLAIMS]
missing = [p for p in ids if p not in CLAIMS and p not in NOT_APPLICABLE]
assert not missing, missing
m = {
    "version": 1,
    "setup_cmd": "./setup.sh",
    "hooks": {
        "guard": "verif",
        "enable": "none needed: the checks are static and read /repo's source; no hook or instrumentation exists in /repo",
        "baseline_off_cmd": "cd /repo && go test -vet=off -count=1 ./alert/... ./auth/... ./clock/... ./services/bigpanda/... ./services/config/override/... ./services/httppost/... ./tick/... ./timer/... ./udf/agent/... ./waiter/...",
        "source_commits": [],
        "add_only": True,
    },
    "engines": [{
        "name": "kapcheck",
        "path": "/verif/kapcheck",
        "serves_properties": [c["property_id"] for c in checks],
        "kind_free_text": "repository-specific static analyser (Go; go/packages + go/types + go/ast path-sensitive guard/effect tables, provenance keys, table/registry agreement, comparator enumeration, ownership, lockset, call-graph confinement). Never executes kapacitor code.",
    }],
    "checks": checks,
    "not_applicable": na,
    "notes": NOTES,
}
json.dump(m, open(os.path.join(ROOT, "MANIFEST.json"), "w"), indent=1)
try:
    import jsonschema
    jsonschema.validate(m, json.load(open("/root/.vp/MANIFEST.schema.json")))
    print("MANIFEST.json valid:", len(checks), "checks,", len(na), "not applicable")
except ImportError:
    print("written (jsonschema not available to validate)")
