#!/usr/bin/env python3
"""dev/genregress.py — for every 'fixed' entry of known_findings.json write seeded/_regress/<id>/{fix.diff,meta.json}:
the fix commit's diff (non-test .go files). The thorough self-test applies it in reverse as an in-memory overlay (the defect
comes back) and expects the entry's rule to report; entries whose reverse diff no longer applies are skipped there."""
import json,subprocess,os,re,shutil
root='/verif'
d=json.load(open(root+'/known_findings.json'))
out=root+'/seeded/_regress'
shutil.rmtree(out,ignore_errors=True)
n=0
for f in d['findings']:
    if f['status']!='fixed' or not f.get('commit') or f.get('no_regress'): continue
    c=f['commit']
    r=subprocess.run(['git','-C','/repo','show','--format=',c,'--','*.go',':!*_test.go'],capture_output=True,text=True)
    if r.returncode!=0 or not r.stdout.strip():
        print('no diff for',f['id'],c); continue
    p=f"{out}/{f['id']}"
    os.makedirs(p,exist_ok=True)
    open(p+'/fix.diff','w').write(r.stdout)
    # does the reverse still apply to HEAD? otherwise try a three-way revert in a scratch worktree
    chk=subprocess.run(['git','-C','/repo','apply','-R','--check',p+'/fix.diff'],capture_output=True)
    if chk.returncode!=0:
        wt='/tmp/regress_wt'
        subprocess.run(['git','-C','/repo','worktree','remove','--force',wt],capture_output=True)
        subprocess.run(['git','-C','/repo','worktree','add','-q','--detach',wt,'HEAD'],check=True)
        # later fixes of the same lines (revert_with) are taken back first
        for extra in f.get('revert_with',[]):
            subprocess.run(['git','-C',wt,'revert','--no-commit',extra],capture_output=True,text=True)
        rv=subprocess.run(['git','-C',wt,'revert','--no-commit',c],capture_output=True,text=True)
        if rv.returncode==0:
            dd=subprocess.run(['git','-C',wt,'diff','HEAD','--','*.go',':!*_test.go'],capture_output=True,text=True).stdout
            if dd.strip():
                open(p+'/revert.diff','w').write(dd); print('three-way revert stored for',f['id'],c)
        else:
            print('revert conflicts for',f['id'],c,'(the self-test skips it)')
        subprocess.run(['git','-C','/repo','worktree','remove','--force',wt],capture_output=True)
    json.dump({'id':f['id'],'property':f['property'],'rule':f['rule'],'construct':f['construct'],'commit':c},open(p+'/meta.json','w'),indent=1)
    n+=1
print(n,'regress entries')
