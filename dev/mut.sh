#!/usr/bin/env bash
# dev aid: dev/mut.sh <Cxx> <file> <python-regex> <replacement>  — apply one edit to /repo, run the check, undo.
prop=$1; file=$2; pat=$3; rep=$4
cd /repo || exit 9
python3 - "$file" "$pat" "$rep" <<'PY' || { echo "pattern not found"; exit 9; }
import re,sys
f,pat,rep=sys.argv[1:4]
s=open(f).read()
n=len(re.findall(pat,s,flags=re.S))
if n!=1:
    print("matches:",n); sys.exit(1)
open(f,'w').write(re.sub(pat,rep,s,count=1,flags=re.S))
PY
(cd /repo && . /verif/env.sh && go build ./$(dirname $file)/ 2>&1 | head -5)
/verif/check.sh $prop quick | grep -v "^C.. quick" | cut -c1-400
echo "exit=${PIPESTATUS[0]}"
git -C /repo checkout -- .
