#!/usr/bin/env bash
# dev/mutsurvey.sh <Cxx> [max] [seed]  — dev aid: small syntactic mutants of the analysed functions through the quick rules; lists the silent ones
cd /verif && . ./env.sh
./check.sh $1 quick >/dev/null 2>&1   # current evidence + current binary
(cd kapcheck && go build -o ../bin/mutsurvey ./cmd/mutsurvey) || exit 2
bin/mutsurvey -property $1 -max ${2:-300} -seed ${3:-1}
