#!/usr/bin/env bash
# dev/noise.sh <Cxx> — robustness self-test: a no-op statement at the start of every block; the rules must stay silent.
cd /verif; . ./env.sh
p=$1; d=$(mktemp -d /tmp/kapnoise.XXXX)
bin/kapcheck -property $p -noise-out $d >/dev/null 2>&1
KAPVARIANT_VERBOSE=1 bin/kapcheck -property $p -variant-overlay $d 2>&1 | grep -v "^VARIANT" | cut -c1-${2:-420}
bin/kapcheck -property $p -variant-overlay $d 2>/dev/null | grep VARIANT
rm -rf $d
