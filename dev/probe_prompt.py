#!/usr/bin/env python3
"""dev/probe_prompt.py <Cxx> <worktree-name> — prompt for a helper agent that hunts for genuine defects of one property on the
UNTOUCHED tree with a generated-input differential/model-based test (dynamic; used only to discover defects, never as a check)."""
import json,sys
pid,wtname=sys.argv[1],sys.argv[2]
for l in open('/verif/properties.jsonl'):
    p=json.loads(l)
    if p['id']==pid: break
wt=f"/tmp/wt/{wtname}"
print(f"""You are a test engineer hunting for GENUINE defects in the Go project influxdata/kapacitor with respect to ONE semantic property. You have your own scratch git worktree at {wt} (work ONLY there; never touch /repo or /verif, do not read /verif). Do NOT change any non-test .go file: the goal is to find inputs on which the code AS IT IS violates the property.

THE PROPERTY ({p['id']}: {p['title']})
Statement: {p['statement']}
Quantified over: {p['quantifier']['text']}
Why ordinary tests do not settle it: {p['why_tests_cant']}
Code it is anchored in: {', '.join(p['anchors']['files'])}
Mechanisms: {'; '.join(m['name']+' ('+m.get('where','')+')' for m in p['anchors']['mechanism'])}
Suggested observation points: {'; '.join(p['anchors'].get('observe_at',[]))}

YOUR TASK
1. Write a Go test (new *_test.go file(s) in the most convenient package, test names prefixed TestProbe{pid}_) that GENERATES many inputs deterministically (math/rand with fixed seeds; a few thousand cases; bounded sizes) over the quantified space and compares the real code against an independent ORACLE that you write from the property statement and the user documentation, not from the implementation: a simple reference model, a metamorphic relation (e.g. same result with/without unrelated data, same result under another arrival order, round trip equality), or two sibling implementations that must agree. Cover the unusual corners the quantifier names.
2. Run it. For every failure, MINIMISE the input, find the root cause in the source (file:line) and group failures by root cause. Distinguish carefully: (i) a genuine violation of the property statement, (ii) behaviour that is documented/intended and your oracle was wrong (fix the oracle and say so), (iii) flaky/timing artefacts of your harness. Be sceptical of your own oracle: re-read the docs/comments before calling something a defect.
3. For each root cause that is a genuine violation, give: the minimal failing input/history/schedule, expected vs actual, root cause with file:line, how severe/realistic it is, and (if it is a small, safe, maintainer-acceptable patch of a few lines that corrects the behaviour without removing it) the patch as a suggestion — but do not apply it except temporarily to confirm it makes the probe pass (revert afterwards).

PRACTICALITIES (the sandbox is offline)
- Many packages import libflux (cgo). A link-only stub exists: to build/run tests of ANY package (root package, ./integrations, ./edge, ./pipeline, ./services/..., ./server) use
     PKG_CONFIG_PATH=/opt/fluxstub/pc go test -count=1 -vet=off -ldflags '-extldflags "-L/opt/fluxstub -lflux"' -run <TestName> <pkg>
  ./integrations has large end-to-end test helpers (streamer_test.go, batcher_test.go: testStreamerWithOutput, createTaskMaster, recordings under testdata/) you can reuse from a test placed in that package; the root package can drive nodes directly. Packages under ./tick, ./alert, ./auth, ./udf/agent, ./models link without the stub.
- If plain `go` fails with a toolchain error: export PATH=/root/go/pkg/mod/golang.org/toolchain@v0.0.1-go1.25.7.linux-amd64/bin:$PATH . Do not set GOFLAGS/GOPROXY; nothing can be downloaded.
- Keep builds targeted (one package at a time); the machine is shared with other engineers. Never run git stash, git reset, git checkout of other revisions, or git worktree commands: the git directory is shared.
- Leave your probe test file(s) in the worktree at the end (they are the deliverable) and no other modification.

FINAL ANSWER: path(s) of the probe, how to run it, how many cases it generates and how long it takes; then one section per root cause (genuine violations first, with the minimal reproduction and file:line; then oracle corrections you made; then areas that were covered and showed no failure). If you found nothing genuine, say so plainly and list what was covered.""")
