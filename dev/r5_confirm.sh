#!/usr/bin/env bash
# dev/r5_confirm.sh <Cxx>…  — confirm every round-5 change of the given saboteurs in their own worktrees (does not touch /repo)
export PATH=/root/go/pkg/mod/golang.org/toolchain@v0.0.1-go1.25.7.linux-amd64/bin:$PATH GOFLAGS=-mod=mod GOPROXY=off GOSUMDB=off
for p in "$@"; do
  for k in 13 14 15; do
    d=/tmp/wt/$p-out/change${k}_demo; [ -d $d ] || continue
    [ -d /verif/seeded/$p-$k-r5 ] && continue
    # one package per run: the first package that has a test file
    for dir in $(cd $d && find . -name '*_test.go' -printf '%h\n' | sort -u); do
      re=$(grep -ho "^func Test[A-Za-z0-9_]*" $d/$dir/*_test.go | sed 's/func //' | paste -sd'|')
      echo "#### $p $k $dir $re"
      /verif/dev/seed_confirm.sh $p $k $dir "^($re)\$" r5 2>&1 | grep "CONFIRMED\|NOT CONFIRMED\|does not apply\|^FAIL\|^ok" | head -6
      [ -d /verif/seeded/$p-$k-r5 ] && break
    done
  done
done
