#!/usr/bin/env bash
# dev/r5_first.sh <Cxx> [other props…] — first-run verdicts of the round-5 changes of one saboteur
p=$1; shift; others=("$@")
for k in 13 14 15; do
  f=/tmp/wt/$p-out/change$k.diff; [ -f $f ] || continue
  echo "== $p $k: $(grep '^+++ b/' $f | sed 's/+++ b\///' | tr '\n' ' ')"
  git -C /repo apply $f || { echo "  does not apply"; git -C /repo checkout -- .; continue; }
  for q in $p "${others[@]}"; do /verif/check.sh $q quick 2>&1 | grep "violated:\|UNDECIDED" | cut -c1-240 | head -3 | sed "s/^/  [$q]/"; done
  git -C /repo checkout -- .
done
