#!/usr/bin/env bash
# dev/r5_process.sh <Cxx> <k> <pkg> <test-regex>   — confirm one round-5 change in its worktree, store it, run the property's check on it
set -u
prop=$1; k=$2; pkg=$3; re=$4
export PATH=/root/go/pkg/mod/golang.org/toolchain@v0.0.1-go1.25.7.linux-amd64/bin:$PATH GOFLAGS=-mod=mod GOPROXY=off GOSUMDB=off
/verif/dev/seed_confirm.sh $prop $k $pkg "$re" r5 2>&1 | tail -12
if [ -d /verif/seeded/$prop-$k-r5 ]; then /verif/dev/seed_check.sh $prop-$k-r5 $prop 2>&1 | grep "exit=\|violated:" | cut -c1-260 | head -4; fi
