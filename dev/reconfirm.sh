#!/usr/bin/env bash
# dev/reconfirm.sh <seed>… — demo passes on main, fails with the (rebased) patch; in the scratch worktree /tmp/wt/X2
export PATH=/root/go/pkg/mod/golang.org/toolchain@v0.0.1-go1.25.7.linux-amd64/bin:$PATH PKG_CONFIG_PATH=/opt/fluxstub/pc GOFLAGS=-mod=mod GOPROXY=off GOSUMDB=off
LD=(-ldflags '-extldflags "-L/opt/fluxstub -lflux"')
cd /tmp/wt/X2 || exit 9
for s in "$@"; do
  d=/verif/seeded/$s
  git checkout -q -- . && git clean -fdq && git checkout -q --detach main
  cp -r $d/demo/. .
  res=""
  for dir in $(cd $d/demo && find . -name '*_test.go' -printf '%h\n' | sort -u); do
    re=$(grep -ho "^func Test[A-Za-z0-9_]*" $d/demo/$dir/*_test.go | sed 's/func //' | paste -sd'|')
    clean=$(go test -count=1 -vet=off "${LD[@]}" -run "^($re)\$" $dir 2>&1 | tail -1)
    git apply $d/patch.diff 2>/dev/null || { res="$res $dir:NOAPPLY"; continue; }
    mut=$(go test -count=1 -vet=off "${LD[@]}" -run "^($re)\$" $dir 2>&1 | tail -1)
    git checkout -q -- . 
    res="$res $dir: clean[$(echo $clean | cut -c1-12)] patched[$(echo $mut | cut -c1-12)]"
  done
  echo "$s$res"
  git checkout -q -- . && git clean -fdq
done
