#!/bin/bash
# dev/revtest.sh <commit>[,<commit>…] <Cxx> [tier] — reverse-apply fix commits (newest first) on /repo's working tree, run the check, restore.
cs=$1; p=$2; t=${3:-quick}
cd /repo || exit 2
git diff --quiet && git diff --cached --quiet || { echo "/repo not clean"; exit 2; }
ok=1
for c in ${cs//,/ }; do
  git diff $c $c~1 > /tmp/revtest.$$.diff
  git apply /tmp/revtest.$$.diff 2>/dev/null || git apply --3way /tmp/revtest.$$.diff >/dev/null 2>&1 || { echo "reverse patch of $c does not apply"; ok=0; break; }
done
rm -f /tmp/revtest.$$.diff
if [ $ok = 1 ]; then
  (cd /verif && ./check.sh $p $t 2>&1 | grep -v "^KNOWN-FINDING" | grep "violated:\|VIOLATION\|UNDECIDED\|undecided:\|obligations" | cut -c1-420)
fi
git -C /repo reset -q --hard HEAD
