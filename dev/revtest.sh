#!/bin/bash
# dev/revtest.sh <commit> <Cxx> [tier] — reverse-apply a fix commit on /repo's working tree, run the check, restore.
c=$1; p=$2; t=${3:-quick}
cd /repo || exit 2
git diff --quiet || { echo "/repo not clean"; exit 2; }
git diff $c $c~1 > /tmp/revtest.$$.diff
git apply /tmp/revtest.$$.diff 2>/dev/null || git apply --3way /tmp/revtest.$$.diff 2>/dev/null || { echo "reverse patch does not apply"; rm -f /tmp/revtest.$$.diff; exit 2; }
(cd /verif && ./check.sh $p $t 2>&1 | grep -v "^KNOWN-FINDING" | grep "violated:\|VIOLATION\|UNDECIDED\|undecided:\|obligations" | cut -c1-420)
git -C /repo checkout HEAD -- . ; rm -f /tmp/revtest.$$.diff
