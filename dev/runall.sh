#!/usr/bin/env bash
# dev/runall.sh [quick|thorough|both] — run every registered check on the current tree; print exit codes that are not 0.
cd /verif; . ./env.sh
tiers=${1:-both}; [ "$tiers" = both ] && tiers="quick thorough"
bad=0
# seeds whose patch no longer applies to the current tree would be skipped silently by the self-test: say so here
for d in seeded/C*/; do git -C /repo apply --check /verif/$d/patch.diff 2>/dev/null || echo "!! seed patch does not apply: $(basename $d)"; done
for t in $tiers; do
  for p in $(jq -r '.checks[].property_id' MANIFEST.json); do
    out=$(./check.sh $p $t 2>&1); code=$?
    line=$(echo "$out" | grep -E "^$p $t:" | cut -c1-150)
    st=$(echo "$out" | grep -E "^selftest" | sed 's/selftest [A-Z0-9]*: //' | cut -c1-60 | tr '\n' ';')
    if [ $code -ne 0 ]; then bad=$((bad+1)); echo "!! exit=$code $line"; echo "$out" | grep -E "violated:|UNDECIDED|VIOLATION|SELFTEST" | cut -c1-240 | head -5
    else echo "ok $line ${st:+| $st}"; fi
  done
done
echo "non-zero exits: $bad"
