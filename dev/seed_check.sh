#!/usr/bin/env bash
# dev/seed_check.sh <seed-dir-name> [props...]  — apply the seeded patch to /repo, run the checks, undo.
d=/verif/seeded/$1; shift
props=("$@"); [ ${#props[@]} -eq 0 ] && props=($(echo $(basename $d) | cut -d- -f1))
cd /repo && git apply $d/patch.diff || { echo "patch does not apply to current /repo"; git -C /repo checkout -- .; exit 9; }
for p in "${props[@]}"; do
  out=$(/verif/check.sh $p quick 2>&1); code=$?
  echo "[$1 $(basename $d)] $p exit=$code"; echo "$out" | grep -E "violated:|VIOLATION|UNDECIDED" | cut -c1-330 | head -6
done
git -C /repo checkout -- .
