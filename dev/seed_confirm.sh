#!/usr/bin/env bash
# dev/seed_confirm.sh <Cxx> <k> <pkg-for-demo> <test-regex> [slug]
# Confirms a saboteur's change in its scratch worktree (/tmp/wt/<Cxx>): demo passes clean, fails with the diff,
# tree builds, pinned suite passes; then stores it under /verif/seeded/<Cxx>-<k>[-slug]/.
set -u
prop=$1; k=$2; pkg=$3; re=$4; slug=${5:-}
wt=/tmp/wt/$prop; out=/tmp/wt/$prop-out
LD=(-ldflags '-extldflags "-L/opt/fluxstub -lflux"')
export PKG_CONFIG_PATH=/opt/fluxstub/pc
cd $wt || exit 9
git checkout -q -- . && git clean -fdq && git checkout -q --detach main
cp -r $out/change${k}_demo/. $wt/
echo "== demo on clean tree"; go test -count=1 -vet=off "${LD[@]}" -run "$re" $pkg 2>&1 | tail -3 > /tmp/seed_${prop}_clean.txt; cat /tmp/seed_${prop}_clean.txt
git apply $out/change$k.diff 2>/dev/null || patch -p1 -s -F3 --no-backup-if-mismatch < $out/change$k.diff || { echo "diff does not apply"; git checkout -q -- .; git clean -fdq; exit 8; }
find . -name "*.orig" -o -name "*.rej" | xargs -r rm -f
git diff -- . ':!*_test.go' > /tmp/seed_${prop}_rebased.diff
echo "== demo with change"; go test -count=1 -vet=off "${LD[@]}" -run "$re" $pkg 2>&1 | tail -12 > /tmp/seed_${prop}_mut.txt; cat /tmp/seed_${prop}_mut.txt
git clean -fdq   # remove the demo, keep the change
echo "== build"; go build "${LD[@]}" ./... 2>&1 | tail -3; b=$?
echo "== pinned suite"; go test -vet=off -count=1 ./alert/... ./auth/... ./clock/... ./services/bigpanda/... ./services/config/override/... ./services/httppost/... ./tick/... ./timer/... ./udf/agent/... ./waiter/... 2>&1 | grep -v "no test files" | grep -v "^ok" | head -5
git checkout -q -- . && git clean -fdq
if grep -q "^ok" /tmp/seed_${prop}_clean.txt && grep -q "FAIL" /tmp/seed_${prop}_mut.txt; then
  d=/verif/seeded/$prop-$k${slug:+-$slug}; mkdir -p $d
  cp /tmp/seed_${prop}_rebased.diff $d/patch.diff; rm -rf $d/demo; cp -r $out/change${k}_demo $d/demo
  echo "CONFIRMED -> $d"
else
  echo "NOT CONFIRMED"
fi
