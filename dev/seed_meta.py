#!/usr/bin/env python3
"""dev/seed_meta.py <seed-dir> <property> <status> <caught_by> <needs> <what>   — writes meta.json
status: caught | caught-after-strengthening | missed"""
import json,sys,os
d,prop,status,by,needs,what=sys.argv[1:7]
p=os.path.join('/verif/seeded',d)
m={"property":prop,"breaks":what,"needs_to_manifest":needs,
   "confirmed":"scratch worktree: demo passes on the untouched tree, fails with patch.diff; go build ./... ok; pinned suite (147) passes with the patch (dev/seed_confirm.sh)",
   "demo":"demo/ (copy into the tree; integration demos need the link-only libflux stub, see seeded/_stub/README.md)",
   "check_result":status,"caught_by":by,
   "ran":"git -C /repo apply patch.diff; ./check.sh %s quick; git -C /repo checkout -- ."%prop}
json.dump(m,open(os.path.join(p,'meta.json'),'w'),indent=1)
print("wrote",p)
