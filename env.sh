# Sourced by setup.sh and check.sh: the one environment every command runs in.
export VERIF_ROOT="${VERIF_ROOT:-$(cd "$(dirname "${BASH_SOURCE[0]}")" && pwd)}"
export REPO="${REPO:-/repo}"
export PATH=/opt/veriftools/go1.26.8/bin:$PATH
export GOFLAGS=-mod=mod GOPROXY=off GOTOOLCHAIN=local GOWORK=off CARGO_NET_OFFLINE=true
unset GOSUMDB
export GONOSUMCHECK=1 GONOSUMDB='*' GOFLAGS="-mod=mod"
export PKG_CONFIG_PATH="$VERIF_ROOT/pc"
# pkg-config must be the system one, not the repo's wrapper
export PKG_CONFIG=$(command -v pkg-config)
