// Package an holds the analyses shared by the property checks.
//
// paths.go is analysis A1 (guard/effect tables): a path-sensitive *effect*
// analysis of one function body over a predicate abstraction. Branch
// conditions are decomposed into uninterpreted boolean atoms (field reads,
// comparisons, boolean call results), identified by a canonical key in which
// local variables are replaced by what defines them, so that a renamed local,
// an introduced temporary, De Morgan rewrites, nested-if vs. early-return all
// produce the same atoms. Every path through the body is enumerated (an atom
// met for the first time forks the path); along a path the analysis records
// the ordered list of tracked effects (calls, stores, returns). No program
// value is ever computed and no solver is involved: atoms stay names.
package an

import (
	"fmt"
	"go/ast"
	"go/constant"
	"go/token"
	"go/types"
	"sort"
	"strings"

	"kapcheck/core"
)

// Event is one tracked effect on a path.
type Event struct {
	Kind string   // "call", "store", "defer", "go", "loop", "endloop", "break", "continue", "send", "recv"
	Name string   // effect name chosen by the rule
	Args []string // canonical keys of the arguments (calls) or the stored value (stores)
	Recv string   // canonical key of the receiver / store target
	Pos  token.Pos
	Node ast.Node
}

func (e Event) String() string {
	if e.Kind == "call" {
		return e.Name
	}
	return e.Kind + ":" + e.Name
}

// Lit is one atom decision on a path.
type Lit struct {
	Key  string // canonical key of the atom
	Name string // name given by Classify ("" = unknown)
	Val  bool   // value of the *named* atom (polarity already applied)
	Pos  token.Pos
	Expr ast.Expr
	At   int // number of effects recorded on the path when the atom was decided
}

// Path is one explored path.
type Path struct {
	Lits   []Lit
	Events []Event
	Exit   string   // "return" | "panic" | "end"
	Rets   []string // canonical keys of the returned values
	RetX   []ast.Expr
	RetPos token.Pos
	env    *env
}

// Assign returns the named atoms decided on the path.
func (p *Path) Assign() map[string]bool {
	m := map[string]bool{}
	for _, l := range p.Lits {
		if l.Name != "" {
			m[l.Name] = l.Val
		}
	}
	return m
}

// Unknown returns the unclassified atoms decided on the path.
func (p *Path) Unknown() []Lit {
	var out []Lit
	for _, l := range p.Lits {
		if l.Name == "" {
			out = append(out, l)
		}
	}
	return out
}

// Cond renders the path condition.
func (p *Path) Cond() string {
	var s []string
	for _, l := range p.Lits {
		n := l.Name
		if n == "" {
			n = "‹" + l.Key + "›"
		}
		if l.Val {
			s = append(s, n)
		} else {
			s = append(s, "¬"+n)
		}
	}
	return strings.Join(s, " ∧ ")
}

// Word renders the effect word.
func (p *Path) Word() string {
	var s []string
	for _, e := range p.Events {
		s = append(s, e.String())
	}
	return strings.Join(s, ",")
}

// Has reports whether an effect with the name occurs.
func (p *Path) Has(name string) bool { return p.Index(name) >= 0 }

// Index of the first effect with the name, or -1.
func (p *Path) Index(name string) int {
	for i, e := range p.Events {
		if e.Name == name {
			return i
		}
	}
	return -1
}

// Count of effects with the name.
func (p *Path) Count(name string) int {
	n := 0
	for _, e := range p.Events {
		if e.Name == name {
			n++
		}
	}
	return n
}

// Find returns the first event with the name.
func (p *Path) Find(name string) *Event {
	if i := p.Index(name); i >= 0 {
		return &p.Events[i]
	}
	return nil
}

// Key computes the canonical key of an expression in the path's final environment.
func (p *Path) Key(e *Engine, x ast.Expr) string { return e.key(p.env, x) }

// Atom is handed to Classify.
type Atom struct {
	Key  string
	Expr ast.Expr // the source expression (after normalisation the polarity may differ)
	Op   token.Token
	L, R string   // operand keys for comparison atoms
	LX   ast.Expr // operand expressions for comparison atoms
	RX   ast.Expr
	Call *types.Func // callee for boolean call atoms
}

// Engine configures one analysis.
type Engine struct {
	Prog *core.Prog
	Info *types.Info
	// TrackCall names a call as an effect ("" = not tracked).
	TrackCall func(call *ast.CallExpr, callee *types.Func) string
	// GoLitCalls: record the tracked calls inside the literal of a `go func() {…}()` statement at the go statement.
	GoLitCalls bool
	// TrackStore names an assignment target as an effect ("" = not tracked).
	TrackStore func(lhs ast.Expr, key string) string
	// Classify maps a code atom to a reference atom (name, negated). "" = unknown.
	Classify func(a Atom) (string, bool)
	// Inline: boolean helper methods whose body is a single return expression
	// are evaluated in place when this returns true.
	Inline func(callee *types.Func) bool
	// Opaque bool calls are atoms; PureCall says the call result may be
	// re-used when the same call is evaluated twice on a path.
	MaxPaths int
	// ModDepth bounds the mod-set computation through static callees.
	ModDepth int
	// BoolReturns: decide returned boolean expressions into true/false.
	BoolReturns bool
	// LoopOnce: execute loop bodies that contain tracked effects once,
	// bracketed by loop/endloop events (default true).
	NoLoopBody bool
	// Impure: calls whose result differs between invocations (l.next()); every
	// evaluation gets its own number in the key.
	Impure func(callee *types.Func) bool
	// Alias maps the source name of a receiver/parameter to the name the rule's patterns use for that role.
	Alias map[string]string
	// TrackExpr names an expression node (slice, index, division) as an effect.
	TrackExpr func(x ast.Expr) string
	// Forward: a value stored into a field is what a later read of the same
	// field (same version, i.e. no intervening write or modifying call) yields.
	Forward bool
	// ElemKeys: the value variable of `range X` is known as key(X)+"[*]".
	ElemKeys bool

	labels   map[ast.Stmt]string // statement -> its label
	paths    []*Path
	err      error
	modCache map[*types.Func]map[*types.Var]bool
	fn       *core.Func
	callSeq  int
}

type env struct {
	bind    map[types.Object]string // local variable -> key of its current value
	boolv   map[types.Object]*bool  // local bool variable with a decided value
	version map[*types.Var]int      // field -> version (bumped by stores / callee mod-sets)
	atoms   map[string]bool         // decided atoms (by key)
	lits    []Lit
	events  []Event
	defers  []Event
	seen    map[string]int // call keys already produced (distinct invocations)
	inst    map[*ast.CallExpr]int
	instN   int
	fresh   int
	fbind   map[string]string // field lvalue key (with version) -> key of the value stored
	label   string            // label of a labelled break/continue on its way to its statement
}

func (v *env) clone() *env {
	n := &env{bind: make(map[types.Object]string, len(v.bind)), boolv: make(map[types.Object]*bool, len(v.boolv)),
		version: make(map[*types.Var]int, len(v.version)), atoms: make(map[string]bool, len(v.atoms)),
		seen: make(map[string]int, len(v.seen)), fresh: v.fresh, inst: make(map[*ast.CallExpr]int, len(v.inst)), instN: v.instN, label: v.label}
	for k, x := range v.inst {
		n.inst[k] = x
	}
	if v.fbind != nil {
		n.fbind = make(map[string]string, len(v.fbind))
		for k, x := range v.fbind {
			n.fbind[k] = x
		}
	}
	for k, x := range v.bind {
		n.bind[k] = x
	}
	for k, x := range v.boolv {
		n.boolv[k] = x
	}
	for k, x := range v.version {
		n.version[k] = x
	}
	for k, x := range v.atoms {
		n.atoms[k] = x
	}
	for k, x := range v.seen {
		n.seen[k] = x
	}
	n.lits = append([]Lit(nil), v.lits...)
	n.events = append([]Event(nil), v.events...)
	n.defers = append([]Event(nil), v.defers...)
	return n
}

type ctl int

const (
	ctlNext ctl = iota
	ctlReturn
	ctlBreak
	ctlContinue
	ctlPanic
	ctlFallthrough
)

type undecidedErr struct {
	pos token.Pos
	msg string
}

func (u undecidedErr) Error() string { return u.msg }

// Run explores every path of the function body.
func (e *Engine) Run(fn *core.Func) ([]*Path, error) {
	e.fn = fn
	e.Info = fn.Pkg.TypesInfo
	return e.RunBody(fn.Decl.Type, fn.Decl.Recv, fn.Decl.Body)
}

// RunRegion explores the top-level statements of fn's body from the first one
// for which start returns true to the end of the body (variables assigned
// before the region are free: they appear under their own names).
func (e *Engine) RunRegion(fn *core.Func, start func(ast.Stmt) bool) ([]*Path, error) {
	e.fn = fn
	e.Info = fn.Pkg.TypesInfo
	for i, s := range fn.Decl.Body.List {
		if start(s) {
			return e.RunBody(fn.Decl.Type, fn.Decl.Recv, &ast.BlockStmt{Lbrace: s.Pos(), List: fn.Decl.Body.List[i:], Rbrace: fn.Decl.Body.Rbrace})
		}
	}
	return nil, fmt.Errorf("%s: region start not found in %s", e.Prog.Pos(fn.Decl.Pos()), fn.Name())
}

// RunBody explores a function literal or declaration body.
func (e *Engine) RunBody(ft *ast.FuncType, recv *ast.FieldList, body *ast.BlockStmt) (paths []*Path, err error) {
	if e.MaxPaths == 0 {
		e.MaxPaths = 20000
	}
	if e.ModDepth == 0 {
		e.ModDepth = 3
	}
	e.paths = nil
	e.err = nil
	if e.modCache == nil {
		e.modCache = map[*types.Func]map[*types.Var]bool{}
	}
	defer func() {
		if r := recover(); r != nil {
			if u, ok := r.(undecidedErr); ok {
				err = fmt.Errorf("%s: %s", e.Prog.Pos(u.pos), u.msg)
				return
			}
			panic(r)
		}
	}()
	v := &env{bind: map[types.Object]string{}, boolv: map[types.Object]*bool{}, version: map[*types.Var]int{},
		atoms: map[string]bool{}, seen: map[string]int{}, inst: map[*ast.CallExpr]int{}}
	e.execBlock(v, body.List, func(v *env, c ctl) {
		if c == ctlNext {
			e.finish(v, "end", nil, body.Rbrace)
		}
	})
	return e.paths, e.err
}

func (e *Engine) finish(v *env, exit string, rets []ast.Expr, pos token.Pos) {
	if len(e.paths) >= e.MaxPaths {
		panic(undecidedErr{pos, fmt.Sprintf("more than %d paths", e.MaxPaths)})
	}
	p := &Path{Lits: v.lits, Exit: exit, RetX: rets, RetPos: pos, env: v}
	p.Events = append(p.Events, v.events...)
	for i := len(v.defers) - 1; i >= 0; i-- {
		p.Events = append(p.Events, v.defers[i])
	}
	for _, r := range rets {
		p.Rets = append(p.Rets, e.key(v, r))
	}
	e.paths = append(e.paths, p)
}

type cont func(v *env, c ctl)

func (e *Engine) execBlock(v *env, list []ast.Stmt, k cont) {
	if len(list) == 0 {
		k(v, ctlNext)
		return
	}
	e.execStmt(v, list[0], func(v *env, c ctl) {
		if c != ctlNext {
			k(v, c)
			return
		}
		e.execBlock(v, list[1:], k)
	})
}

func (e *Engine) execStmt(v *env, s ast.Stmt, k cont) {
	switch s := s.(type) {
	case nil:
		k(v, ctlNext)
	case *ast.BlockStmt:
		e.execBlock(v, s.List, k)
	case *ast.EmptyStmt:
		k(v, ctlNext)
	case *ast.ExprStmt:
		e.effects(v, s.X, func(v *env) {
			if call, ok := ast.Unparen(s.X).(*ast.CallExpr); ok && core.IsBuiltin(e.Info, call, "panic") {
				e.finish(v, "panic", nil, call.Pos())
				k(v, ctlPanic)
				return
			}
			k(v, ctlNext)
		})
	case *ast.DeclStmt:
		gd, ok := s.Decl.(*ast.GenDecl)
		if ok && gd.Tok == token.VAR {
			e.declVars(v, gd, 0, 0, k)
			return
		}
		k(v, ctlNext)
	case *ast.AssignStmt:
		e.assign(v, s, k)
	case *ast.IncDecStmt:
		e.store(v, s.X, "("+e.key(v, s.X)+s.Tok.String()+")", s.Pos())
		k(v, ctlNext)
	case *ast.IfStmt:
		e.execStmt(v, s.Init, func(v *env, c ctl) {
			e.cond(v, s.Cond, func(v *env, b bool) {
				if b {
					e.execBlock(v, s.Body.List, k)
				} else if s.Else != nil {
					e.execStmt(v, s.Else, k)
				} else {
					k(v, ctlNext)
				}
			})
		})
	case *ast.ReturnStmt:
		e.doReturn(v, s, k)
	case *ast.SwitchStmt:
		e.execStmt(v, s.Init, func(v *env, c ctl) { e.switchStmt(v, s, k) })
	case *ast.TypeSwitchStmt:
		e.execStmt(v, s.Init, func(v *env, c ctl) { e.typeSwitch(v, s, k) })
	case *ast.ForStmt:
		e.execStmt(v, s.Init, func(v *env, c ctl) { e.forLoop(v, s, k) })
	case *ast.RangeStmt:
		e.loop(v, s, s.Body, s, k)
	case *ast.BranchStmt:
		if s.Label != nil && s.Tok != token.CONTINUE && s.Tok != token.BREAK {
			panic(undecidedErr{s.Pos(), "goto/labelled branch"})
		}
		if s.Label != nil {
			v.label = s.Label.Name
		}
		switch s.Tok {
		case token.BREAK:
			k(v, ctlBreak)
		case token.CONTINUE:
			k(v, ctlContinue)
		case token.FALLTHROUGH:
			k(v, ctlFallthrough)
		default:
			panic(undecidedErr{s.Pos(), "goto"})
		}
	case *ast.DeferStmt:
		e.effectsArgs(v, s.Call, func(v *env) {
			name := e.deferName(s.Call)
			v.defers = append(v.defers, Event{Kind: "defer", Name: name, Pos: s.Pos(), Node: s})
			k(v, ctlNext)
		})
	case *ast.GoStmt:
		e.effectsArgs(v, s.Call, func(v *env) {
			v.events = append(v.events, Event{Kind: "go", Name: e.deferName(s.Call), Pos: s.Pos(), Node: s})
			// GoLitCalls: the tracked calls of `go func() { … }()` are recorded here, with the values their arguments have
			// when the goroutine is started (the literal captures them; a rule that needs more must say so)
			if lit, ok := ast.Unparen(s.Call.Fun).(*ast.FuncLit); ok && e.GoLitCalls && e.TrackCall != nil {
				ast.Inspect(lit.Body, func(n ast.Node) bool {
					if _, nested := n.(*ast.FuncLit); nested {
						return false
					}
					if c, ok := n.(*ast.CallExpr); ok {
						if nm := e.TrackCall(c, core.Callee(e.Info, c)); nm != "" {
							ev := Event{Kind: "call", Name: nm, Pos: c.Pos(), Node: c}
							for _, a := range c.Args {
								ev.Args = append(ev.Args, e.key(v, a))
							}
							if sel, ok := ast.Unparen(c.Fun).(*ast.SelectorExpr); ok {
								if _, isSel := e.Info.Selections[sel]; isSel {
									ev.Recv = e.key(v, sel.X)
								}
							}
							v.events = append(v.events, ev)
						}
					}
					return true
				})
			}
			k(v, ctlNext)
		})
	case *ast.SendStmt:
		e.effects(v, s.Value, func(v *env) {
			if e.TrackStore != nil {
				if n := e.TrackStore(s.Chan, e.key(v, s.Chan)); n != "" {
					v.events = append(v.events, Event{Kind: "send", Name: n, Args: []string{e.key(v, s.Value)}, Pos: s.Pos(), Node: s})
				}
			}
			k(v, ctlNext)
		})
	case *ast.LabeledStmt:
		if e.labels == nil {
			e.labels = map[ast.Stmt]string{}
		}
		e.labels[s.Stmt] = s.Label.Name
		e.execStmt(v, s.Stmt, k)
	case *ast.SelectStmt:
		e.selectStmt(v, s, k)
	default:
		panic(undecidedErr{s.Pos(), fmt.Sprintf("statement %T", s)})
	}
}

func (e *Engine) deferName(call *ast.CallExpr) string {
	if fn := core.Callee(e.Info, call); fn != nil {
		return fn.Name()
	}
	if _, ok := ast.Unparen(call.Fun).(*ast.FuncLit); ok {
		return "func"
	}
	return types.ExprString(call.Fun)
}

func (e *Engine) declVars(v *env, gd *ast.GenDecl, si, ni int, k cont) {
	for ; si < len(gd.Specs); si++ {
		vs := gd.Specs[si].(*ast.ValueSpec)
		if len(vs.Values) == 0 {
			for _, n := range vs.Names {
				obj := e.Info.Defs[n]
				if obj == nil {
					continue
				}
				v.bind[obj] = "zero:" + types.TypeString(obj.Type(), e.qual)
				if b, ok := obj.Type().Underlying().(*types.Basic); ok && b.Kind() == types.Bool {
					f := false
					v.boolv[obj] = &f
					v.bind[obj] = "false"
				}
			}
			continue
		}
		// var a, b = x, y  /  var a, b = f()
		as := &ast.AssignStmt{Tok: token.DEFINE, TokPos: vs.Pos(), Rhs: vs.Values}
		for _, n := range vs.Names {
			as.Lhs = append(as.Lhs, n)
		}
		next := si + 1
		e.assign(v, as, func(v *env, c ctl) { e.declVars(v, gd, next, 0, k) })
		return
	}
	k(v, ctlNext)
}

func (e *Engine) qual(p *types.Package) string { return p.Name() }

// assign handles =, := and op=.
func (e *Engine) assign(v *env, s *ast.AssignStmt, k cont) {
	if s.Tok != token.ASSIGN && s.Tok != token.DEFINE {
		// op=
		e.effects(v, s.Rhs[0], func(v *env) {
			val := "(" + e.key(v, s.Lhs[0]) + " " + strings.TrimSuffix(s.Tok.String(), "=") + " " + e.key(v, s.Rhs[0]) + ")"
			e.store(v, s.Lhs[0], val, s.Pos())
			k(v, ctlNext)
		})
		return
	}
	if len(s.Lhs) == len(s.Rhs) {
		e.assignPairs(v, s, 0, nil, k)
		return
	}
	// tuple assignment from one call / comma-ok form
	rhs := s.Rhs[0]
	e.effects(v, rhs, func(v *env) {
		base := e.key(v, rhs)
		for i, l := range s.Lhs {
			e.storeTyped(v, l, fmt.Sprintf("%s.%d", base, i), s.Pos(), nil)
		}
		k(v, ctlNext)
	})
}

type pendingStore struct {
	val  string
	bval *bool
}

func (e *Engine) assignPairs(v *env, s *ast.AssignStmt, i int, vals []pendingStore, k cont) {
	if i == len(s.Rhs) {
		for j, l := range s.Lhs {
			e.storeTyped(v, l, vals[j].val, s.Pos(), vals[j].bval)
		}
		k(v, ctlNext)
		return
	}
	r := s.Rhs[i]
	// boolean right-hand sides are decided now, so that a local flag is a value
	if e.isBool(r) && e.isLocalIdent(s.Lhs[i]) {
		e.cond(v, r, func(v *env, b bool) {
			bb := b
			e.assignPairs(v, s, i+1, append(append([]pendingStore(nil), vals...), pendingStore{val: fmt.Sprint(b), bval: &bb}), k)
		})
		return
	}
	e.effects(v, r, func(v *env) {
		e.assignPairs(v, s, i+1, append(append([]pendingStore(nil), vals...), pendingStore{val: e.key(v, r)}), k)
	})
}

func (e *Engine) isBool(x ast.Expr) bool {
	tv, ok := e.Info.Types[x]
	if !ok || tv.Type == nil {
		return false
	}
	b, ok := tv.Type.Underlying().(*types.Basic)
	return ok && b.Info()&types.IsBoolean != 0
}

func (e *Engine) localObj(x ast.Expr) types.Object {
	id, ok := ast.Unparen(x).(*ast.Ident)
	if !ok {
		return nil
	}
	obj := e.Info.Defs[id]
	if obj == nil {
		obj = e.Info.Uses[id]
	}
	vr, ok := obj.(*types.Var)
	if !ok || vr.IsField() {
		return nil
	}
	if vr.Parent() == nil || vr.Pkg() == nil || vr.Parent() == vr.Pkg().Scope() {
		return nil // package-level
	}
	return vr
}

func (e *Engine) isLocalIdent(x ast.Expr) bool { return e.localObj(x) != nil }

func (e *Engine) storeTyped(v *env, lhs ast.Expr, val string, pos token.Pos, bval *bool) {
	if id, ok := ast.Unparen(lhs).(*ast.Ident); ok && id.Name == "_" {
		return
	}
	if obj := e.localObj(lhs); obj != nil {
		v.bind[obj] = val
		if bval != nil {
			v.boolv[obj] = bval
		} else {
			delete(v.boolv, obj)
		}
		if e.TrackStore != nil {
			if n := e.TrackStore(lhs, obj.Name()); n != "" {
				v.events = append(v.events, Event{Kind: "store", Name: n, Args: []string{val}, Recv: obj.Name(), Pos: pos, Node: lhs})
			}
		}
		return
	}
	e.store(v, lhs, val, pos)
}

// store to a non-local location: field, element, dereference, package variable.
func (e *Engine) store(v *env, lhs ast.Expr, val string, pos token.Pos) {
	if obj := e.localObj(lhs); obj != nil {
		v.bind[obj] = val
		delete(v.boolv, obj)
		if e.TrackStore != nil {
			if n := e.TrackStore(lhs, obj.Name()); n != "" {
				v.events = append(v.events, Event{Kind: "store", Name: n, Args: []string{val}, Recv: obj.Name(), Pos: pos, Node: lhs})
			}
		}
		return
	}
	key := e.key(v, lhs)
	if e.TrackStore != nil {
		if n := e.TrackStore(lhs, key); n != "" {
			v.events = append(v.events, Event{Kind: "store", Name: n, Args: []string{val}, Recv: key, Pos: pos, Node: lhs})
		}
	}
	if f := e.fieldOf(lhs); f != nil {
		v.version[f]++
		if e.Forward {
			if _, isSel := ast.Unparen(lhs).(*ast.SelectorExpr); isSel {
				if v.fbind == nil {
					v.fbind = map[string]string{}
				}
				v.fbind[e.key(v, lhs)] = val
			}
		}
	}
	// stores through an index/deref of a local invalidate nothing we track by name
}

func (e *Engine) fieldOf(x ast.Expr) *types.Var {
	switch x := ast.Unparen(x).(type) {
	case *ast.SelectorExpr:
		if sel, ok := e.Info.Selections[x]; ok && sel.Kind() == types.FieldVal {
			return sel.Obj().(*types.Var)
		}
	case *ast.IndexExpr:
		return e.fieldOf(x.X)
	case *ast.StarExpr:
		return e.fieldOf(x.X)
	case *ast.SliceExpr:
		return e.fieldOf(x.X)
	}
	return nil
}

func (e *Engine) doReturn(v *env, s *ast.ReturnStmt, k cont) {
	var rec func(v *env, i int, decided []ast.Expr)
	rec = func(v *env, i int, decided []ast.Expr) {
		if i == len(s.Results) {
			e.finish(v, "return", decided, s.Pos())
			k(v, ctlReturn)
			return
		}
		r := s.Results[i]
		if e.BoolReturns && e.isBool(r) {
			e.cond(v, r, func(v *env, b bool) {
				id := ast.NewIdent(fmt.Sprint(b))
				id.NamePos = r.Pos()
				rec(v, i+1, append(append([]ast.Expr(nil), decided...), id))
			})
			return
		}
		e.effects(v, r, func(v *env) { rec(v, i+1, append(append([]ast.Expr(nil), decided...), r)) })
	}
	rec(v, 0, nil)
}

func (e *Engine) switchStmt(v *env, s *ast.SwitchStmt, k cont) {
	var all []*ast.CaseClause
	var clauses []*ast.CaseClause
	var def *ast.CaseClause
	for _, c := range s.Body.List {
		cc := c.(*ast.CaseClause)
		all = append(all, cc)
		if cc.List == nil {
			def = cc
		} else {
			clauses = append(clauses, cc)
		}
	}
	var run func(v *env, cc *ast.CaseClause)
	run = func(v *env, cc *ast.CaseClause) {
		e.execBlock(v, cc.Body, func(v *env, c ctl) {
			switch c {
			case ctlBreak:
				if e.foreign(v, s) {
					k(v, c) // labelled for an outer statement
					return
				}
				k(v, ctlNext)
			case ctlFallthrough:
				for i, x := range all {
					if x == cc && i+1 < len(all) {
						run(v, all[i+1])
						return
					}
				}
				k(v, ctlNext)
			default:
				k(v, c)
			}
		})
	}
	var try func(v *env, ci, xi int)
	try = func(v *env, ci, xi int) {
		if ci == len(clauses) {
			if def != nil {
				run(v, def)
			} else {
				k(v, ctlNext)
			}
			return
		}
		cc := clauses[ci]
		if xi == len(cc.List) {
			try(v, ci+1, 0)
			return
		}
		var c ast.Expr = cc.List[xi]
		if s.Tag != nil {
			c = &ast.BinaryExpr{X: s.Tag, Op: token.EQL, Y: cc.List[xi], OpPos: cc.List[xi].Pos()}
		}
		e.cond(v, c, func(v *env, b bool) {
			if b {
				run(v, cc)
			} else {
				try(v, ci, xi+1)
			}
		})
	}
	if s.Tag != nil {
		e.effects(v, s.Tag, func(v *env) { try(v, 0, 0) })
	} else {
		try(v, 0, 0)
	}
}

func (e *Engine) typeSwitch(v *env, s *ast.TypeSwitchStmt, k cont) {
	var x ast.Expr
	var bound *ast.Ident
	switch a := s.Assign.(type) {
	case *ast.ExprStmt:
		x = a.X.(*ast.TypeAssertExpr).X
	case *ast.AssignStmt:
		x = a.Rhs[0].(*ast.TypeAssertExpr).X
		bound, _ = a.Lhs[0].(*ast.Ident)
	}
	xk := e.key(v, x)
	after := func(v *env, c ctl) {
		if c == ctlBreak && !e.foreign(v, s) {
			c = ctlNext
		}
		k(v, c)
	}
	var def *ast.CaseClause
	var clauses []*ast.CaseClause
	for _, c := range s.Body.List {
		cc := c.(*ast.CaseClause)
		if cc.List == nil {
			def = cc
		} else {
			clauses = append(clauses, cc)
		}
	}
	bind := func(v *env, cc *ast.CaseClause) {
		if bound != nil {
			if obj := e.Info.Implicits[cc]; obj != nil {
				v.bind[obj] = xk
			}
		}
	}
	var try func(v *env, ci int)
	try = func(v *env, ci int) {
		if ci == len(clauses) {
			if def != nil {
				bind(v, def)
				e.execBlock(v, def.Body, after)
			} else {
				k(v, ctlNext)
			}
			return
		}
		cc := clauses[ci]
		var ts []string
		for _, t := range cc.List {
			ts = append(ts, types.ExprString(t))
		}
		key := "typeis(" + xk + "," + strings.Join(ts, "|") + ")"
		e.atom(v, Atom{Key: key, Expr: x}, cc.Pos(), func(v *env, b bool) {
			if b {
				bind(v, cc)
				e.execBlock(v, cc.Body, after)
			} else {
				try(v, ci+1)
			}
		})
	}
	try(v, 0)
}

func (e *Engine) selectStmt(v *env, s *ast.SelectStmt, k cont) {
	after := func(v *env, c ctl) {
		if c == ctlBreak && !e.foreign(v, s) {
			c = ctlNext
		}
		k(v, c)
	}
	for i, c := range s.Body.List {
		cc := c.(*ast.CommClause)
		nv := v.clone()
		key := fmt.Sprintf("select@%s#%d", e.Prog.Pos(s.Pos()), i)
		nv.lits = append(nv.lits, Lit{Key: key, Val: true, Pos: cc.Pos()})
		e.execStmt(nv, cc.Comm, func(v *env, c ctl) { e.execBlock(v, cc.Body, after) })
	}
}

// tracked reports whether a subtree contains anything the rule tracks, or an exit.
func (e *Engine) tracked(n ast.Node) bool {
	found := false
	ast.Inspect(n, func(n ast.Node) bool {
		if found {
			return false
		}
		switch x := n.(type) {
		case *ast.FuncLit:
			return false
		case *ast.ReturnStmt:
			found = true
		case *ast.CallExpr:
			if core.IsBuiltin(e.Info, x, "panic") {
				found = true
			} else if e.TrackCall != nil && e.TrackCall(x, core.Callee(e.Info, x)) != "" {
				found = true
			}
		case *ast.AssignStmt:
			if e.TrackStore != nil {
				for _, l := range x.Lhs {
					if e.TrackStore(l, types.ExprString(l)) != "" {
						found = true
					}
				}
			}
		case *ast.IncDecStmt:
			if e.TrackStore != nil && e.TrackStore(x.X, types.ExprString(x.X)) != "" {
				found = true
			}
		case *ast.SendStmt:
			if e.TrackStore != nil && e.TrackStore(x.Chan, types.ExprString(x.Chan)) != "" {
				found = true
			}
		case *ast.SliceExpr:
			if e.TrackExpr != nil && e.TrackExpr(x) != "" {
				found = true
			}
		case *ast.IndexExpr:
			if e.TrackExpr != nil && e.TrackExpr(x) != "" {
				found = true
			}
		case *ast.BinaryExpr:
			if e.TrackExpr != nil && (x.Op == token.QUO || x.Op == token.REM) && e.TrackExpr(x) != "" {
				found = true
			}
		}
		return true
	})
	return found
}

// havoc gives every location assigned inside n a fresh unknown value.
func (e *Engine) havoc(v *env, n ast.Node) {
	ast.Inspect(n, func(n ast.Node) bool {
		switch x := n.(type) {
		case *ast.FuncLit:
			return false
		case *ast.AssignStmt:
			for _, l := range x.Lhs {
				e.havocLoc(v, l)
			}
		case *ast.IncDecStmt:
			e.havocLoc(v, x.X)
		case *ast.RangeStmt:
			if x.Key != nil {
				e.havocLoc(v, x.Key)
			}
			if x.Value != nil {
				e.havocLoc(v, x.Value)
			}
		case *ast.CallExpr:
			e.applyMod(v, x)
		}
		return true
	})
}

func (e *Engine) havocLoc(v *env, l ast.Expr) {
	if id, ok := ast.Unparen(l).(*ast.Ident); ok && id.Name == "_" {
		return
	}
	if obj := e.localObj(l); obj != nil {
		v.fresh++
		v.bind[obj] = fmt.Sprintf("%s~%d", obj.Name(), v.fresh)
		delete(v.boolv, obj)
		return
	}
	if f := e.fieldOf(l); f != nil {
		v.version[f]++
	}
}

// foreign reports whether a break/continue that reached statement s is labelled for another (outer) statement; when it is
// meant for s itself the pending label is cleared.
func (e *Engine) foreign(v *env, s ast.Stmt) bool {
	if v.label == "" {
		return false
	}
	if e.labels[s] == v.label {
		v.label = ""
		return false
	}
	return true
}

// forLoop: a three-clause loop whose condition or post statement carries
// tracked effects is modelled as "condition false: skip | condition true: body,
// post, leave"; otherwise as loop().
func (e *Engine) forLoop(v *env, s *ast.ForStmt, k cont) {
	hdr := (s.Cond != nil && e.tracked(s.Cond)) || (s.Post != nil && e.tracked(s.Post))
	if !hdr {
		e.loop(v, s, s.Body, nil, k)
		return
	}
	e.cond(v, s.Cond, func(v *env, b bool) {
		if !b {
			k(v, ctlNext)
			return
		}
		v.events = append(v.events, Event{Kind: "loop", Name: "for", Pos: s.Pos(), Node: s})
		e.execBlock(v, s.Body.List, func(v *env, c ctl) {
			switch c {
			case ctlReturn, ctlPanic:
				k(v, c)
				return
			case ctlBreak, ctlContinue:
				if e.foreign(v, s) {
					v.events = append(v.events, Event{Kind: "endloop", Name: "for", Pos: s.End(), Node: s})
					k(v, c)
					return
				}
				if c == ctlBreak {
					v.events = append(v.events, Event{Kind: "break", Name: "for", Pos: s.Pos(), Node: s})
					v.events = append(v.events, Event{Kind: "endloop", Name: "for", Pos: s.End(), Node: s})
					k(v, ctlNext)
					return
				}
			}
			e.execStmt(v, s.Post, func(v *env, c ctl) {
				v.events = append(v.events, Event{Kind: "endloop", Name: "for", Pos: s.End(), Node: s})
				k(v, ctlNext)
			})
		})
	})
}

func (e *Engine) loop(v *env, s ast.Stmt, body *ast.BlockStmt, rs *ast.RangeStmt, k cont) {
	if e.NoLoopBody || !e.tracked(body) {
		e.havoc(v, s)
		k(v, ctlNext)
		return
	}
	// The body is executed once, bracketed by loop/endloop, standing for
	// "each iteration": what the loop assigns is unknown at its head.
	e.havoc(v, s)
	name := "for"
	if rs != nil {
		name = "range " + e.key(v, rs.X)
		if rs.Key != nil {
			e.havocLoc(v, rs.Key)
		}
		if rs.Value != nil {
			e.havocLoc(v, rs.Value)
			if e.ElemKeys {
				if obj := e.localObj(rs.Value); obj != nil {
					v.bind[obj] = e.key(v, rs.X) + "[*]"
				}
			}
		}
	}
	v.events = append(v.events, Event{Kind: "loop", Name: name, Pos: s.Pos(), Node: s})
	e.execBlock(v, body.List, func(v *env, c ctl) {
		switch c {
		case ctlReturn, ctlPanic:
			k(v, c)
			return
		case ctlBreak, ctlContinue:
			if e.foreign(v, s) {
				// labelled for an outer statement: this loop is left, the branch travels on
				v.events = append(v.events, Event{Kind: "endloop", Name: name, Pos: s.End(), Node: s})
				k(v, c)
				return
			}
			if c == ctlBreak {
				// the iteration that breaks is the last one: what it assigned is what the code after the loop sees
				v.events = append(v.events, Event{Kind: "break", Name: name, Pos: s.Pos(), Node: s})
				v.events = append(v.events, Event{Kind: "endloop", Name: name, Pos: s.End(), Node: s})
				k(v, ctlNext)
				return
			}
			v.events = append(v.events, Event{Kind: "continue", Name: name, Pos: s.Pos(), Node: s})
		}
		v.events = append(v.events, Event{Kind: "endloop", Name: name, Pos: s.End(), Node: s})
		e.havoc(v, s)
		k(v, ctlNext)
	})
}

// cond decides a boolean expression, forking on atoms not yet decided.
func (e *Engine) cond(v *env, x ast.Expr, k func(v *env, b bool)) {
	if x == nil {
		k(v, true)
		return
	}
	x = ast.Unparen(x)
	if tv, ok := e.Info.Types[x]; ok && tv.Value != nil && tv.Value.Kind() == constant.Bool {
		k(v, constant.BoolVal(tv.Value))
		return
	}
	switch x := x.(type) {
	case *ast.UnaryExpr:
		if x.Op == token.NOT {
			e.cond(v, x.X, func(v *env, b bool) { k(v, !b) })
			return
		}
	case *ast.BinaryExpr:
		switch x.Op {
		case token.LAND:
			e.cond(v, x.X, func(v *env, b bool) {
				if !b {
					k(v, false)
				} else {
					e.cond(v, x.Y, k)
				}
			})
			return
		case token.LOR:
			e.cond(v, x.X, func(v *env, b bool) {
				if b {
					k(v, true)
				} else {
					e.cond(v, x.Y, k)
				}
			})
			return
		case token.EQL, token.NEQ, token.LSS, token.GTR, token.LEQ, token.GEQ:
			e.effects(v, x.X, func(v *env) {
				e.effects(v, x.Y, func(v *env) { e.cmpAtom(v, x, k) })
			})
			return
		}
	case *ast.Ident:
		if obj := e.localObj(x); obj != nil {
			if b, ok := v.boolv[obj]; ok {
				k(v, *b)
				return
			}
		}
	case *ast.CallExpr:
		callee := core.Callee(e.Info, x)
		if callee != nil && e.Inline != nil && e.Inline(callee) {
			if body := e.inlineBody(callee); body != nil && len(x.Args) == 0 {
				// single-expression boolean helper on the same receiver: evaluate in place
				recvKey := ""
				if sel, ok := ast.Unparen(x.Fun).(*ast.SelectorExpr); ok {
					recvKey = e.key(v, sel.X)
				}
				e.inlineCond(v, callee, body, recvKey, k)
				return
			}
		}
		e.effects(v, x, func(v *env) {
			key := e.callKey(v, x, false)
			e.atom(v, Atom{Key: key, Expr: x, Call: callee}, x.Pos(), k)
		})
		return
	}
	e.effects(v, x, func(v *env) {
		e.atom(v, Atom{Key: e.key(v, x), Expr: x}, x.Pos(), k)
	})
}

// inlineBody returns the single returned expression of a helper, if that is its whole body.
func (e *Engine) inlineBody(fn *types.Func) ast.Expr {
	d := e.declOf(fn)
	if d == nil || d.Decl.Body == nil || len(d.Decl.Body.List) != 1 {
		return nil
	}
	r, ok := d.Decl.Body.List[0].(*ast.ReturnStmt)
	if !ok || len(r.Results) != 1 {
		return nil
	}
	return r.Results[0]
}

func (e *Engine) inlineCond(v *env, fn *types.Func, body ast.Expr, recvKey string, k func(*env, bool)) {
	d := e.declOf(fn)
	// bind the helper's receiver to the caller's receiver key, evaluate with the helper's types.Info
	saved := e.Info
	e.Info = d.Pkg.TypesInfo
	if d.Decl.Recv != nil && len(d.Decl.Recv.List) == 1 && len(d.Decl.Recv.List[0].Names) == 1 {
		if obj := e.Info.Defs[d.Decl.Recv.List[0].Names[0]]; obj != nil {
			v.bind[obj] = recvKey
		}
	}
	e.cond(v, body, func(v *env, b bool) {
		e.Info = saved
		k(v, b)
		e.Info = d.Pkg.TypesInfo
	})
	e.Info = saved
}

func (e *Engine) declOf(fn *types.Func) *core.Func {
	if fn == nil || fn.Pkg() == nil {
		return nil
	}
	pkg := e.Prog.ByPath[fn.Pkg().Path()]
	if pkg == nil {
		return nil
	}
	for _, f := range pkg.Syntax {
		if f.Pos() <= fn.Pos() && fn.Pos() < f.End() {
			for _, d := range f.Decls {
				if fd, ok := d.(*ast.FuncDecl); ok && fd.Name.Pos() == fn.Pos() {
					return &core.Func{Pkg: pkg, Decl: fd, Obj: fn}
				}
			}
		}
	}
	return nil
}

var flip = map[token.Token]token.Token{token.LSS: token.GTR, token.GTR: token.LSS, token.LEQ: token.GEQ, token.GEQ: token.LEQ, token.EQL: token.EQL, token.NEQ: token.NEQ}

// cmpAtom normalises a comparison to one of `l == r` or `l < r` (operands in a
// canonical order) with a polarity.
func (e *Engine) cmpAtom(v *env, x *ast.BinaryExpr, k func(*env, bool)) {
	l, r := e.key(v, x.X), e.key(v, x.Y)
	lx, rx := x.X, x.Y
	op := x.Op
	neg := false
	switch op {
	case token.NEQ:
		op, neg = token.EQL, true
	case token.GEQ: // a >= b  ==  !(a < b)
		op, neg = token.LSS, true
	case token.GTR: // a > b == b < a
		op = token.LSS
		l, r, lx, rx = r, l, rx, lx
	case token.LEQ: // a <= b == !(b < a)
		op, neg = token.LSS, true
		l, r, lx, rx = r, l, rx, lx
	}
	if op == token.EQL && e.constLike(lx) && !e.constLike(rx) {
		l, r, lx, rx = r, l, rx, lx
	} else if op == token.EQL && e.constLike(lx) == e.constLike(rx) && r < l {
		l, r, lx, rx = r, l, rx, lx
	}
	// a declared-and-never-assigned nilable variable compared with nil is decided
	if op == token.EQL && r == "nil" && strings.HasPrefix(l, "zero:") {
		k(v, !neg)
		return
	}
	if op == token.EQL && r == "nil" && (addrKey(l) || e.isNonNilExpr(lx)) {
		k(v, neg)
		return
	}
	key := l + " " + op.String() + " " + r
	e.atom(v, Atom{Key: key, Expr: x, Op: op, L: l, R: r, LX: lx, RX: rx}, x.Pos(), func(v *env, b bool) { k(v, b != neg) })
}

// addrKey: the key is an address-of value itself (`&T{…}`, `&x.f`), not a field read through one (`&T{…}.f`).
func addrKey(k string) bool {
	if !strings.HasPrefix(k, "&") {
		return false
	}
	if !strings.ContainsAny(k, "{(") {
		return true
	}
	return strings.HasSuffix(k, "}")
}

// isNonNilExpr: composite literals, address-of and function literals are never nil.
func (e *Engine) isNonNilExpr(x ast.Expr) bool {
	switch y := ast.Unparen(x).(type) {
	case *ast.CompositeLit, *ast.FuncLit:
		return true
	case *ast.UnaryExpr:
		return y.Op == token.AND
	}
	return false
}

func (e *Engine) constLike(x ast.Expr) bool {
	tv, ok := e.Info.Types[x]
	if ok && (tv.Value != nil || tv.IsNil()) {
		return true
	}
	return false
}

// atom decides one atom: re-uses the decision made earlier on the path, else forks.
func (e *Engine) atom(v *env, a Atom, pos token.Pos, k func(*env, bool)) {
	if b, ok := v.atoms[a.Key]; ok {
		k(v, b)
		return
	}
	name, neg := "", false
	if e.Classify != nil {
		name, neg = e.Classify(a)
	}
	for _, b := range []bool{true, false} {
		nv := v.clone()
		nv.atoms[a.Key] = b
		nv.lits = append(nv.lits, Lit{Key: a.Key, Name: name, Val: b != neg, Pos: pos, Expr: a.Expr, At: len(v.events)})
		k(nv, b)
	}
}

// effects walks an expression in evaluation order and records tracked calls.
func (e *Engine) effects(v *env, x ast.Expr, k func(v *env)) {
	if x == nil {
		k(v)
		return
	}
	var calls []*ast.CallExpr
	ast.Inspect(x, func(n ast.Node) bool {
		switch n := n.(type) {
		case *ast.FuncLit:
			return false
		case *ast.CallExpr:
			calls = append(calls, n)
		}
		return true
	})
	// post-order: inner calls first (arguments are evaluated before the call)
	sort.SliceStable(calls, func(i, j int) bool {
		ci, cj := calls[i], calls[j]
		if ci.Pos() <= cj.Pos() && cj.End() <= ci.End() && ci != cj {
			return false // ci encloses cj → cj first
		}
		if cj.Pos() <= ci.Pos() && ci.End() <= cj.End() && ci != cj {
			return true
		}
		return ci.Pos() < cj.Pos()
	})
	for _, c := range calls {
		e.recordCall(v, c)
	}
	if e.TrackExpr != nil {
		ast.Inspect(x, func(n ast.Node) bool {
			switch y := n.(type) {
			case *ast.FuncLit:
				return false
			case *ast.SliceExpr:
				if name := e.TrackExpr(y); name != "" {
					v.events = append(v.events, Event{Kind: "expr", Name: name, Recv: e.key(v, y.X), Args: []string{e.key(v, y.Low), e.key(v, y.High)}, Pos: y.Pos(), Node: y})
				}
			case *ast.IndexExpr:
				if name := e.TrackExpr(y); name != "" {
					v.events = append(v.events, Event{Kind: "expr", Name: name, Recv: e.key(v, y.X), Args: []string{e.key(v, y.Index)}, Pos: y.Pos(), Node: y})
				}
			case *ast.BinaryExpr:
				if y.Op == token.QUO || y.Op == token.REM {
					if name := e.TrackExpr(y); name != "" {
						v.events = append(v.events, Event{Kind: "expr", Name: name, Args: []string{e.key(v, y.X), e.key(v, y.Y)}, Pos: y.Pos(), Node: y})
					}
				}
			}
			return true
		})
	}
	k(v)
}

// effectsArgs records tracked calls among the arguments only (defer/go).
func (e *Engine) effectsArgs(v *env, call *ast.CallExpr, k func(v *env)) {
	for _, a := range call.Args {
		e.effects(v, a, func(*env) {})
	}
	k(v)
}

func (e *Engine) recordCall(v *env, c *ast.CallExpr) {
	callee := core.Callee(e.Info, c)
	if e.Impure != nil && callee != nil && e.Impure(callee) {
		v.instN++
		v.inst[c] = v.instN
	}
	if e.TrackCall != nil {
		if n := e.TrackCall(c, callee); n != "" {
			ev := Event{Kind: "call", Name: n, Pos: c.Pos(), Node: c}
			for _, a := range c.Args {
				ev.Args = append(ev.Args, e.key(v, a))
			}
			if sel, ok := ast.Unparen(c.Fun).(*ast.SelectorExpr); ok {
				if _, isSel := e.Info.Selections[sel]; isSel {
					ev.Recv = e.key(v, sel.X)
				}
			}
			v.events = append(v.events, ev)
		}
	}
	e.applyMod(v, c)
}

// applyMod bumps the version of every field the callee may assign.
func (e *Engine) applyMod(v *env, c *ast.CallExpr) {
	callee := core.Callee(e.Info, c)
	if callee == nil {
		return
	}
	for f := range e.modSet(callee, e.ModDepth) {
		v.version[f]++
	}
}

func (e *Engine) modSet(fn *types.Func, depth int) map[*types.Var]bool {
	if m, ok := e.modCache[fn]; ok {
		return m
	}
	m := map[*types.Var]bool{}
	e.modCache[fn] = m
	d := e.declOf(fn)
	if d == nil || d.Decl.Body == nil {
		return m
	}
	info := d.Pkg.TypesInfo
	saved := e.Info
	e.Info = info
	ast.Inspect(d.Decl.Body, func(n ast.Node) bool {
		switch x := n.(type) {
		case *ast.AssignStmt:
			for _, l := range x.Lhs {
				if f := e.fieldOf(l); f != nil {
					m[f] = true
				}
			}
		case *ast.IncDecStmt:
			if f := e.fieldOf(x.X); f != nil {
				m[f] = true
			}
		case *ast.CallExpr:
			if depth > 0 {
				if cal := core.Callee(info, x); cal != nil && cal != fn {
					e.Info = saved
					sub := e.modSet(cal, depth-1)
					e.Info = info
					for f := range sub {
						m[f] = true
					}
				}
			}
		}
		return true
	})
	e.Info = saved
	return m
}

// callKey: canonical key of a call; a repeated identical call on the same path
// gets a prime so that two invocations are two values.
func (e *Engine) callKey(v *env, c *ast.CallExpr, fresh bool) string {
	return e.key(v, c)
}

// key computes the canonical key of an expression: locals are replaced by the
// key of their current value, fields carry a version, constants their value.
func (e *Engine) key(v *env, x ast.Expr) string {
	switch x := x.(type) {
	case nil:
		return ""
	case *ast.ParenExpr:
		return e.key(v, x.X)
	case *ast.Ident:
		if x.Name == "nil" || x.Name == "true" || x.Name == "false" || x.Name == "_" {
			return x.Name
		}
		obj := e.Info.Uses[x]
		if obj == nil {
			obj = e.Info.Defs[x]
		}
		if obj == nil {
			return x.Name
		}
		if b, ok := v.bind[obj]; ok {
			return b
		}
		switch o := obj.(type) {
		case *types.Const:
			if o.Pkg() != nil {
				return o.Pkg().Name() + "." + o.Name()
			}
		case *types.Var:
			if o.Pkg() != nil && o.Parent() == o.Pkg().Scope() {
				return o.Pkg().Name() + "." + o.Name()
			}
			// an unbound local (receiver, parameter, named result): printed under the rule's alias for it, so that the rule's
			// patterns do not depend on what the source calls it
			if a, ok := e.Alias[o.Name()]; ok && !o.IsField() {
				return a
			}
		case *types.Func:
			if o.Pkg() != nil {
				return o.Pkg().Name() + "." + o.Name()
			}
		case *types.TypeName:
			return types.TypeString(o.Type(), e.qual)
		}
		return x.Name
	case *ast.BasicLit:
		return x.Value
	case *ast.SelectorExpr:
		if sel, ok := e.Info.Selections[x]; ok {
			base := e.key(v, x.X)
			if sel.Kind() == types.FieldVal {
				f := sel.Obj().(*types.Var)
				k := base + "." + x.Sel.Name
				if n := v.version[f]; n > 0 {
					k = fmt.Sprintf("%s.%s#%d", base, x.Sel.Name, n)
				}
				if e.Forward && v.fbind != nil {
					if b, ok := v.fbind[k]; ok {
						return b
					}
				}
				return k
			}
			return base + "." + x.Sel.Name
		}
		// qualified identifier
		if obj := e.Info.Uses[x.Sel]; obj != nil && obj.Pkg() != nil {
			return obj.Pkg().Name() + "." + obj.Name()
		}
		return types.ExprString(x)
	case *ast.CallExpr:
		var args []string
		for _, a := range x.Args {
			args = append(args, e.key(v, a))
		}
		if tv, ok := e.Info.Types[x.Fun]; ok && tv.IsType() {
			return types.TypeString(tv.Type, e.qual) + "(" + strings.Join(args, ", ") + ")"
		}
		if n, ok := v.inst[x]; ok {
			return fmt.Sprintf("%s(%s)#%d", e.key(v, x.Fun), strings.Join(args, ", "), n)
		}
		return e.key(v, x.Fun) + "(" + strings.Join(args, ", ") + ")"
	case *ast.StarExpr:
		return "*" + e.key(v, x.X)
	case *ast.UnaryExpr:
		return x.Op.String() + e.key(v, x.X)
	case *ast.BinaryExpr:
		return "(" + e.key(v, x.X) + " " + x.Op.String() + " " + e.key(v, x.Y) + ")"
	case *ast.IndexExpr:
		return e.key(v, x.X) + "[" + e.key(v, x.Index) + "]"
	case *ast.SliceExpr:
		return e.key(v, x.X) + "[" + e.key(v, x.Low) + ":" + e.key(v, x.High) + "]"
	case *ast.TypeAssertExpr:
		if x.Type == nil {
			return e.key(v, x.X) + ".(type)"
		}
		return e.key(v, x.X) + ".(" + types.ExprString(x.Type) + ")"
	case *ast.CompositeLit:
		var parts []string
		for _, el := range x.Elts {
			if kv, ok := el.(*ast.KeyValueExpr); ok {
				kk := types.ExprString(kv.Key)
				if _, isId := kv.Key.(*ast.Ident); !isId {
					kk = e.key(v, kv.Key)
				}
				parts = append(parts, kk+": "+e.key(v, kv.Value))
			} else {
				parts = append(parts, e.key(v, el))
			}
		}
		t := ""
		if tv, ok := e.Info.Types[x]; ok && tv.Type != nil {
			t = types.TypeString(tv.Type, e.qual)
		}
		return t + "{" + strings.Join(parts, ", ") + "}"
	case *ast.FuncLit:
		return "func@" + e.Prog.Pos(x.Pos())
	case *ast.KeyValueExpr:
		return e.key(v, x.Key) + ": " + e.key(v, x.Value)
	}
	return types.ExprString(x)
}

// ParamKey is the key under which parameter i is known (its name: parameters
// are never re-bound unless assigned).
func ParamName(ft *ast.FuncType, i int) string {
	n := 0
	for _, f := range ft.Params.List {
		for _, id := range f.Names {
			if n == i {
				return id.Name
			}
			n++
		}
	}
	return ""
}

// RecvVarName returns the receiver variable's name.
func RecvVarName(fd *ast.FuncDecl) string {
	if fd.Recv != nil && len(fd.Recv.List) == 1 && len(fd.Recv.List[0].Names) == 1 {
		return fd.Recv.List[0].Names[0].Name
	}
	return ""
}

// LastCall returns the name of the outermost (last, top-level) method or
// function called in a canonical key such as "tx.Bucket([]byte(x)).Put(k, v).1" → "Put".
func LastCall(key string) string {
	depth := 0
	name := ""
	start := -1
	for i, r := range key {
		switch r {
		case '(', '[', '{':
			if r == '(' && depth == 0 && start >= 0 {
				name = key[start:i]
			}
			depth++
			start = -1
		case ')', ']', '}':
			depth--
			start = -1
		case '.', ' ', ',', '&', '*', '!':
			if depth == 0 {
				start = i + 1
			}
		default:
			if depth == 0 && start < 0 && i == 0 {
				start = 0
			}
		}
	}
	return name
}
