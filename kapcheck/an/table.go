package an

import (
	"fmt"
	"go/ast"
	"go/token"
	"go/types"
	"sort"
	"strings"

	"kapcheck/core"
)

// Table is a reference guard/effect table: for a complete assignment of the
// reference atoms it gives the expected outcome word ("*" = don't care).
type Table struct {
	Atoms   []string
	Expect  func(a map[string]bool) string
	Outcome func(p *Path) string
	// Relevant optionally restricts which paths are compared (default all).
	Relevant func(p *Path) bool
}

// CheckTable compares every explored path with the reference table. A path that
// did not decide a reference atom must produce the expected outcome for both
// values of that atom (so a dropped test is a mismatch, too).
func CheckTable(c *core.Ctx, rule, construct string, paths []*Path, t Table) (okN, badN int) {
	type group struct {
		n   int
		bad string
		pos token.Pos
	}
	groups := map[string]*group{}
	var order []string
	for _, p := range paths {
		if t.Relevant != nil && !t.Relevant(p) {
			continue
		}
		got := t.Outcome(p)
		assign := p.Assign()
		var free []string
		for _, a := range t.Atoms {
			if _, ok := assign[a]; !ok {
				free = append(free, a)
			}
		}
		if len(free) > 12 {
			c.Undecided(rule, construct, p.RetPos, "path leaves %d reference atoms undecided", len(free))
			continue
		}
		bad := ""
		for m := 0; m < 1<<len(free); m++ {
			full := map[string]bool{}
			for k, v := range assign {
				full[k] = v
			}
			for i, a := range free {
				full[a] = m&(1<<i) != 0
			}
			want := t.Expect(full)
			if want == "*" {
				continue
			}
			if !MatchOutcome(want, got) {
				bad = fmt.Sprintf("under %s the reference table requires [%s] but this path does [%s]; path condition: %s", assignString(full, t.Atoms), want, got, p.Cond())
				break
			}
		}
		// one obligation per assignment of the *reference* atoms: paths that differ
		// only in atoms the table does not know must all agree with it
		key := construct + "#" + namedCond(p)
		g := groups[key]
		if g == nil {
			g = &group{}
			groups[key] = g
			order = append(order, key)
		}
		g.n++
		if bad != "" && g.bad == "" {
			g.bad, g.pos = bad, p.RetPos
		}
	}
	for _, key := range order {
		g := groups[key]
		if g.bad == "" {
			okN++
			c.Ok(rule, key, fmt.Sprintf("%d path(s)", g.n))
		} else {
			badN++
			c.Fail(rule, key, g.pos, "%s", g.bad)
		}
	}
	return
}

// MatchOutcome: want may list alternatives separated by " | ".
func MatchOutcome(want, got string) bool {
	for _, w := range strings.Split(want, " | ") {
		if strings.TrimSpace(w) == got {
			return true
		}
	}
	return false
}

func assignString(a map[string]bool, order []string) string {
	var s []string
	for _, n := range order {
		if v, ok := a[n]; ok {
			if v {
				s = append(s, n)
			} else {
				s = append(s, "¬"+n)
			}
		}
	}
	return strings.Join(s, "∧")
}

func namedCond(p *Path) string {
	var s []string
	seen := map[string]bool{}
	unknown := 0
	for _, l := range p.Lits {
		if l.Name == "" {
			unknown++
			continue
		}
		if seen[l.Name] {
			continue
		}
		seen[l.Name] = true
		if l.Val {
			s = append(s, l.Name)
		} else {
			s = append(s, "!"+l.Name)
		}
	}
	_ = unknown
	return strings.Join(s, ",")
}

func shorten(s string) string {
	if len(s) > 40 {
		return s[:18] + "…" + s[len(s)-18:]
	}
	return s
}

// Seq renders the sub-sequence of the path's effects whose names are in keep.
func Seq(p *Path, keep ...string) string {
	set := map[string]bool{}
	for _, k := range keep {
		set[k] = true
	}
	var s []string
	for _, e := range p.Events {
		if set[e.Name] {
			s = append(s, e.Name)
		}
	}
	return strings.Join(s, ",")
}

// --- small type/AST predicates used by Classify functions -------------------

// FieldSel reports whether x selects the field `field` of a struct type named
// `typ` (any package); typ=="" matches any struct.
func FieldSel(info *types.Info, x ast.Expr, typ, field string) bool {
	sel, ok := ast.Unparen(x).(*ast.SelectorExpr)
	if !ok || sel.Sel.Name != field {
		return false
	}
	s, ok := info.Selections[sel]
	if !ok || s.Kind() != types.FieldVal {
		return false
	}
	if typ == "" {
		return true
	}
	// the struct that declares the field: walk the selection's receiver through embedded fields
	recv := s.Recv()
	idx := s.Index()
	for i := 0; i < len(idx)-1; i++ {
		st := structOf(recv)
		if st == nil {
			return false
		}
		recv = st.Field(idx[i]).Type()
	}
	n := core.NamedOf(recv)
	return n != nil && n.Obj().Name() == typ
}

func structOf(t types.Type) *types.Struct {
	if p, ok := t.Underlying().(*types.Pointer); ok {
		t = p.Elem()
	}
	st, _ := t.Underlying().(*types.Struct)
	return st
}

// ConstNamed reports whether x is a use of the constant pkgname.name.
func ConstNamed(info *types.Info, x ast.Expr, pkgname, name string) bool {
	var id *ast.Ident
	switch y := ast.Unparen(x).(type) {
	case *ast.Ident:
		id = y
	case *ast.SelectorExpr:
		id = y.Sel
	default:
		return false
	}
	c, ok := info.Uses[id].(*types.Const)
	return ok && c.Name() == name && c.Pkg() != nil && c.Pkg().Name() == pkgname
}

// TypeNamed reports whether the expression's type is the named type pkgname.name.
func TypeNamed(info *types.Info, x ast.Expr, pkgname, name string) bool {
	tv, ok := info.Types[x]
	if !ok || tv.Type == nil {
		return false
	}
	n := core.NamedOf(tv.Type)
	return n != nil && n.Obj().Name() == name && n.Obj().Pkg() != nil && n.Obj().Pkg().Name() == pkgname
}

// IsNil reports whether x is the nil literal.
func IsNil(info *types.Info, x ast.Expr) bool {
	tv, ok := info.Types[x]
	return ok && tv.IsNil()
}

// IsErrorType reports whether x has type error.
func IsErrorType(info *types.Info, x ast.Expr) bool {
	tv, ok := info.Types[x]
	if !ok || tv.Type == nil {
		return false
	}
	return types.Identical(tv.Type, types.Universe.Lookup("error").Type())
}

// ErrNilAtom: for an atom `X == nil` with X of type error, returns the key of X.
func ErrNilAtom(info *types.Info, a Atom) (string, bool) {
	if a.Op != token.EQL || a.LX == nil {
		return "", false
	}
	if IsNil(info, a.RX) && IsErrorType(info, a.LX) {
		return a.L, true
	}
	return "", false
}

// CallResultOf: does key denote result #i of a call whose function key ends in .name( ?
func CallResultOf(key, name string, i int) bool {
	suffix := fmt.Sprintf(").%d", i)
	if !strings.HasSuffix(key, suffix) {
		return false
	}
	head := key[:strings.Index(key, "(")]
	return head == name || strings.HasSuffix(head, "."+name)
}

// FlattenLit flattens nested keyed composite literals into path -> expression
// ("State.Level" -> expr).
func FlattenLit(x ast.Expr) map[string]ast.Expr {
	out := map[string]ast.Expr{}
	var rec func(prefix string, x ast.Expr)
	rec = func(prefix string, x ast.Expr) {
		x = ast.Unparen(x)
		if u, ok := x.(*ast.UnaryExpr); ok && u.Op == token.AND {
			x = u.X
		}
		cl, ok := x.(*ast.CompositeLit)
		if !ok {
			out[prefix] = x
			return
		}
		keyed := false
		for _, el := range cl.Elts {
			if kv, ok := el.(*ast.KeyValueExpr); ok {
				if id, ok := kv.Key.(*ast.Ident); ok {
					keyed = true
					p := id.Name
					if prefix != "" {
						p = prefix + "." + id.Name
					}
					rec(p, kv.Value)
				}
			}
		}
		if !keyed {
			out[prefix] = x
		}
	}
	rec("", x)
	return out
}

// SortedKeys of a string-keyed map.
func SortedKeys[V any](m map[string]V) []string {
	var ks []string
	for k := range m {
		ks = append(ks, k)
	}
	sort.Strings(ks)
	return ks
}

// Effective drops the statements of a block that have no effect whatever they are given (assignments of call-free expressions to
// the blank identifier, empty statements): rules that ask for "the first statement" or "exactly this statement" of a block ask
// it of what is left.
func Effective(list []ast.Stmt) []ast.Stmt {
	var out []ast.Stmt
	for _, st := range list {
		switch x := st.(type) {
		case *ast.EmptyStmt:
			continue
		case *ast.AssignStmt:
			blank := true
			for _, l := range x.Lhs {
				if id, ok := l.(*ast.Ident); !ok || id.Name != "_" {
					blank = false
				}
			}
			pure := true
			for _, r := range x.Rhs {
				ast.Inspect(r, func(n ast.Node) bool {
					switch n.(type) {
					case *ast.CallExpr, *ast.UnaryExpr, *ast.IndexExpr, *ast.StarExpr, *ast.TypeAssertExpr:
						pure = false
					}
					return true
				})
			}
			if blank && pure {
				continue
			}
		}
		out = append(out, st)
	}
	return out
}
