package main

import (
	"bytes"
	"fmt"
	"go/ast"
	"go/printer"
	"go/types"
	"os"
	"path/filepath"
	"strings"

	"kapcheck/core"
	"kapcheck/props"
)

// alphaVariant writes, under outDir, a copy of every kapacitor source file loaded for the property in which every
// local variable, parameter, result and receiver is consistently renamed (x → x_ar). The variant is behaviourally
// identical to the tree; the rules must be silent on it (robustness self-test: no rule may depend on what a local is called).
func alphaVariant(p *props.Property, repo, outDir string) error {
	prog, err := core.Load(repo, nil, p.Patterns...)
	if err != nil {
		return err
	}
	n := 0
	for _, pkg := range prog.ModPkgs {
		info := pkg.TypesInfo
		for _, f := range pkg.Syntax {
			fname := prog.Fset.Position(f.Pos()).Filename
			if !strings.HasPrefix(fname, repo+"/") || strings.Contains(fname, "/go-build/") {
				continue // cgo-generated files
			}
			renamed := false
			ast.Inspect(f, func(nd ast.Node) bool {
				id, ok := nd.(*ast.Ident)
				if !ok || id.Name == "_" {
					return true
				}
				obj := info.Defs[id]
				if obj == nil {
					obj = info.Uses[id]
				}
				v, ok := obj.(*types.Var)
				if !ok || v.IsField() || v.Pkg() == nil || v.Parent() == nil || v.Parent() == v.Pkg().Scope() || v.Parent() == types.Universe {
					return true
				}
				id.Name = id.Name + "_ar"
				renamed = true
				return true
			})
			// implicit objects of type switches (`switch x := y.(type)`): the symbolic variable is in Implicits per clause; its
			// uses are Uses → renamed above, the declaring identifier is in Defs with a nil object: rename it too
			ast.Inspect(f, func(nd ast.Node) bool {
				ts, ok := nd.(*ast.TypeSwitchStmt)
				if !ok {
					return true
				}
				if as, ok := ts.Assign.(*ast.AssignStmt); ok && len(as.Lhs) == 1 {
					if id, ok := as.Lhs[0].(*ast.Ident); ok && !strings.HasSuffix(id.Name, "_ar") && id.Name != "_" {
						id.Name += "_ar"
					}
				}
				return true
			})
			if !renamed {
				continue
			}
			var buf bytes.Buffer
			if err := (&printer.Config{Mode: printer.UseSpaces | printer.TabIndent, Tabwidth: 8}).Fprint(&buf, prog.Fset, f); err != nil {
				return err
			}
			rel, _ := filepath.Rel(repo, fname)
			out := filepath.Join(outDir, rel)
			os.MkdirAll(filepath.Dir(out), 0o755)
			if err := os.WriteFile(out, buf.Bytes(), 0o644); err != nil {
				return err
			}
			n++
		}
	}
	fmt.Printf("alpha variant: %d files written under %s\n", n, outDir)
	return nil
}
