package main

import (
	"sort"
	"bytes"
	"fmt"
	"go/ast"
	"go/printer"
	"go/types"
	"os"
	"path/filepath"
	"strings"

	"kapcheck/core"
	"kapcheck/props"
)

// alphaVariant writes, under outDir, a copy of every kapacitor source file loaded for the property in which every
// local variable, parameter, result and receiver is consistently renamed (x → x_ar). The variant is behaviourally
// identical to the tree; the rules must be silent on it (robustness self-test: no rule may depend on what a local is called).
func alphaVariant(p *props.Property, repo, outDir string) error {
	prog, err := core.Load(repo, nil, p.Patterns...)
	if err != nil {
		return err
	}
	n := 0
	for _, pkg := range prog.ModPkgs {
		info := pkg.TypesInfo
		for _, f := range pkg.Syntax {
			fname := prog.Fset.Position(f.Pos()).Filename
			if !strings.HasPrefix(fname, repo+"/") || strings.Contains(fname, "/go-build/") {
				continue // cgo-generated files
			}
			renamed := false
			ast.Inspect(f, func(nd ast.Node) bool {
				id, ok := nd.(*ast.Ident)
				if !ok || id.Name == "_" {
					return true
				}
				obj := info.Defs[id]
				if obj == nil {
					obj = info.Uses[id]
				}
				v, ok := obj.(*types.Var)
				if !ok || v.IsField() || v.Pkg() == nil || v.Parent() == nil || v.Parent() == v.Pkg().Scope() || v.Parent() == types.Universe {
					return true
				}
				id.Name = id.Name + "_ar"
				renamed = true
				return true
			})
			// implicit objects of type switches (`switch x := y.(type)`): the symbolic variable is in Implicits per clause; its
			// uses are Uses → renamed above, the declaring identifier is in Defs with a nil object: rename it too
			ast.Inspect(f, func(nd ast.Node) bool {
				ts, ok := nd.(*ast.TypeSwitchStmt)
				if !ok {
					return true
				}
				if as, ok := ts.Assign.(*ast.AssignStmt); ok && len(as.Lhs) == 1 {
					if id, ok := as.Lhs[0].(*ast.Ident); ok && !strings.HasSuffix(id.Name, "_ar") && id.Name != "_" {
						id.Name += "_ar"
					}
				}
				return true
			})
			if !renamed {
				continue
			}
			var buf bytes.Buffer
			if err := (&printer.Config{Mode: printer.UseSpaces | printer.TabIndent, Tabwidth: 8}).Fprint(&buf, prog.Fset, f); err != nil {
				return err
			}
			rel, _ := filepath.Rel(repo, fname)
			out := filepath.Join(outDir, rel)
			os.MkdirAll(filepath.Dir(out), 0o755)
			if err := os.WriteFile(out, buf.Bytes(), 0o644); err != nil {
				return err
			}
			n++
		}
	}
	fmt.Printf("alpha variant: %d files written under %s\n", n, outDir)
	return nil
}

// noiseVariant writes a copy of the property's packages in which a statement without effect (`_ = struct{}{}`) is inserted
// at the start of every block of every function (function bodies, if/else, for, range, switch and select clauses). The
// variant behaves exactly like the tree; rules must not depend on a block having exactly the statements it has today.
func noiseVariant(p *props.Property, repo, outDir string) error {
	prog, err := core.Load(repo, nil, p.Patterns...)
	if err != nil {
		return err
	}
	n := 0
	const noop = "\n_ = struct{}{}\n"
	for _, pkg := range prog.ModPkgs {
		for _, f := range pkg.Syntax {
			fname := prog.Fset.Position(f.Pos()).Filename
			if !strings.HasPrefix(fname, repo+"/") || strings.Contains(fname, "/go-build/") {
				continue
			}
			src, err := os.ReadFile(fname)
			if err != nil {
				return err
			}
			var offs []int
			ast.Inspect(f, func(nd ast.Node) bool {
				switch x := nd.(type) {
				case *ast.BlockStmt:
					if x != nil && x.Lbrace.IsValid() && len(x.List) > 0 {
						switch x.List[0].(type) {
						case *ast.CaseClause, *ast.CommClause:
							// the body of a switch/select: statements go into its clauses
						default:
							offs = append(offs, prog.Fset.Position(x.Lbrace).Offset+1)
						}
					}
				case *ast.CaseClause:
					if len(x.Body) > 0 {
						offs = append(offs, prog.Fset.Position(x.Colon).Offset+1)
					}
				case *ast.CommClause:
					if len(x.Body) > 0 {
						offs = append(offs, prog.Fset.Position(x.Colon).Offset+1)
					}
				}
				return true
			})
			if len(offs) == 0 {
				continue
			}
			sort.Sort(sort.Reverse(sort.IntSlice(offs)))
			out := append([]byte(nil), src...)
			for _, o := range offs {
				if o < 0 || o > len(out) {
					continue
				}
				out = append(out[:o], append([]byte(noop), out[o:]...)...)
			}
			rel, _ := filepath.Rel(repo, fname)
			dst := filepath.Join(outDir, rel)
			os.MkdirAll(filepath.Dir(dst), 0o755)
			if err := os.WriteFile(dst, out, 0o644); err != nil {
				return err
			}
			n++
		}
	}
	fmt.Printf("noise variant: %d files written under %s\n", n, outDir)
	return nil
}
