package main

import (
	"fmt"
	"go/ast"
	"go/types"

	"kapcheck/an"
	"kapcheck/core"
)

// dumpPaths prints every path of one function with all calls tracked: the
// development aid used to write the reference tables.
func dumpPaths(repo, rel, recv, name string, pats []string) {
	prog, err := core.Load(repo, nil, pats...)
	if err != nil {
		fmt.Println(err)
		return
	}
	fn := prog.FindFunc(rel, recv, name)
	if fn == nil {
		fmt.Println("not found")
		return
	}
	eng := &an.Engine{Prog: prog, BoolReturns: true,
		TrackCall: func(call *ast.CallExpr, callee *types.Func) string {
			if callee == nil {
				return ""
			}
			return callee.Name()
		},
		TrackStore: func(lhs ast.Expr, key string) string {
			if _, ok := ast.Unparen(lhs).(*ast.Ident); ok {
				return ""
			}
			return key
		},
		Inline: func(*types.Func) bool { return true },
	}
	paths, err := eng.Run(fn)
	if err != nil {
		fmt.Println("ERR", err)
	}
	for i, p := range paths {
		fmt.Printf("#%d [%s]\n   => %s\n   exit=%s %v\n", i, p.Cond(), p.Word(), p.Exit, p.Rets)
	}
}
