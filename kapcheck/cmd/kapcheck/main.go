// kapcheck decides structural necessary conditions of the properties C01..C20
// from the type-checked source of /repo's working tree. It never runs
// kapacitor code.
package main

import (
	"flag"
	"fmt"
	"os"
	"runtime/debug"
	"strconv"
	"strings"

	"kapcheck/core"
	"kapcheck/props"
)

func main() {
	prop := flag.String("property", "", "property id (C01..C20)")
	tier := flag.String("tier", "quick", "quick|thorough")
	repo := flag.String("repo", "/repo", "repository root")
	root := flag.String("root", "/verif", "verif root (known_findings.json, evidence/)")
	only := flag.String("only", "", "comma separated rule ids to run (replay)")
	replay := flag.String("replay", "", "replay file written by a failing run")
	version := flag.Bool("version", false, "print version")
	list := flag.Bool("list", false, "list properties")
	dump := flag.String("dump", "", "dev aid: rel,recv,func — print all paths of a function")
	dumpPat := flag.String("dump-pkgs", ".", "patterns to load for -dump")
	alpha := flag.String("alpha-out", "", "dev/self-test: write an alpha-renamed copy (every local x → x_ar) of the property's packages under this directory")
	noise := flag.String("noise-out", "", "dev/self-test: write a copy of the property's packages with a no-op statement at the start of every block")
	variant := flag.String("variant-overlay", "", "internal (thorough self-test): run the quick rules on /repo overlaid with the files under this directory, print one VARIANT line, write nothing")
	flag.Parse()
	if *dump != "" {
		f := strings.Split(*dump, ",")
		dumpPaths(*repo, f[0], f[1], f[2], strings.Split(*dumpPat, ","))
		return
	}
	if *version {
		fmt.Println("kapcheck 1 (static analysis; go/packages+go/types+go/cfg+go/ssa)")
		return
	}
	if *list {
		for _, p := range props.All() {
			fmt.Println(p.ID, strings.Join(p.Patterns, " "))
		}
		return
	}
	seed := int64(1)
	if s := os.Getenv("VERIF_SEED"); s != "" {
		if v, err := strconv.ParseInt(s, 10, 64); err == nil {
			seed = v
		}
	}
	if t := os.Getenv("VERIF_TIER"); t == "thorough" && *tier == "quick" {
		// the command line wins; VERIF_TIER is informational
		_ = t
	}
	p := props.Get(*prop)
	if p == nil {
		fmt.Fprintf(os.Stderr, "unknown property %q\n", *prop)
		os.Exit(2)
	}
	if *alpha != "" {
		if err := alphaVariant(p, *repo, *alpha); err != nil {
			fmt.Fprintln(os.Stderr, "alpha:", err)
			os.Exit(2)
		}
		return
	}
	if *noise != "" {
		if err := noiseVariant(p, *repo, *noise); err != nil {
			fmt.Fprintln(os.Stderr, "noise:", err)
			os.Exit(2)
		}
		return
	}
	if *variant != "" {
		os.Exit(runVariant(p, *repo, *root, *variant))
	}
	onlySet := map[string]bool{}
	if *replay != "" {
		rr, err := core.ReadReplayRules(*replay)
		if err != nil {
			fmt.Fprintln(os.Stderr, "replay:", err)
			os.Exit(2)
		}
		for _, r := range rr {
			onlySet[r] = true
		}
	}
	for _, r := range strings.Split(*only, ",") {
		if r != "" {
			onlySet[r] = true
		}
	}
	os.Exit(run(p, *tier, seed, *repo, *root, onlySet))
}

func run(p *props.Property, tier string, seed int64, repo, root string, only map[string]bool) (code int) {
	pats := p.Patterns
	if tier == "thorough" && len(p.ThoroughPatterns) > 0 {
		pats = p.ThoroughPatterns
	}
	prog, err := core.Load(repo, nil, pats...)
	if err != nil {
		// A tree that does not type-check decides nothing: not a verdict.
		fmt.Printf("UNDECIDED property=%s load failed: %v\n", p.ID, err)
		return 3
	}
	ctx := core.NewCtx(p.ID, tier, seed, root, prog)
	ctx.Only = only
	defer func() {
		if r := recover(); r != nil {
			fmt.Printf("UNDECIDED property=%s analysis panic: %v\n%s\n", p.ID, r, debug.Stack())
			code = 3
		}
	}()
	p.Run(ctx)
	if tier == "thorough" && p.Thorough != nil {
		p.Thorough(ctx)
	}
	misses := 0
	if tier == "thorough" && len(only) == 0 {
		var rows []selfRow
		rows, misses = selfTest(p, repo, root)
		reported, skipped := 0, 0
		for _, r := range rows {
			switch r.Outcome {
			case "reported":
				reported++
			case "skipped":
				skipped++
			}
		}
		if ctx.Extra == nil {
			ctx.Extra = map[string]any{}
		}
		ctx.Extra["selftest"] = map[string]any{"what": "each seeded change under seeded/" + p.ID + "-* applied as an in-memory overlay and checked with the quick rules; /repo untouched",
			"variants": len(rows), "reported": reported, "skipped": skipped, "misses": misses, "rows": rows}
		fmt.Printf("selftest %s: %d seeded variants, %d reported, %d skipped, %d missed that were recorded as caught\n", p.ID, len(rows), reported, skipped, misses)
		for _, r := range rows {
			if r.Outcome == "silent" && r.Expected != "missed" {
				fmt.Printf("SELFTEST-MISS property=%s seed=%s (recorded as %s, the rules are silent on it now)\n", p.ID, r.Seed, r.Expected)
			}
		}
	}
	alphaOK := true
	if tier == "thorough" && len(only) == 0 {
		var rep []string
		var note string
		alphaOK, rep, note = alphaSelfTest(p, repo, root)
		ctx.Extra["selftest_alpha"] = map[string]any{"what": "every local variable, parameter and receiver of the property's packages renamed (x → x_ar) in an in-memory copy; the rules must report nothing on it",
			"silent": alphaOK, "reported_rules": rep, "note": note}
		if alphaOK {
			fmt.Printf("selftest %s: alpha-renamed variant: silent %s\n", p.ID, note)
		} else {
			fmt.Printf("SELFTEST-ALPHA property=%s the rules report %v on a behaviour-preserving renaming of locals (%s)\n", p.ID, rep, note)
		}
	}
	if tier == "thorough" && len(only) == 0 {
		nOK, rep, note := noiseSelfTest(p, repo, root)
		ctx.Extra["selftest_noise"] = map[string]any{"what": "a statement without effect inserted at the start of every block of the property's packages (in-memory copy); the rules must report nothing on it",
			"silent": nOK, "reported_rules": rep, "note": note}
		if nOK {
			fmt.Printf("selftest %s: no-op-statement variant: silent %s\n", p.ID, note)
		} else {
			fmt.Printf("SELFTEST-NOISE property=%s the rules report %v when a no-op statement is added to every block (%s)\n", p.ID, rep, note)
			alphaOK = false
		}
	}
	code = ctx.Finish(p.Explanation, p.Assumptions)
	if code == 0 && !alphaOK {
		fmt.Printf("UNDECIDED property=%s some rules depend on the names of local variables or on the exact statement list of a block; their silence on today's tree is not trusted\n", p.ID)
		return 3
	}
	if code == 0 && misses > 0 {
		fmt.Printf("UNDECIDED property=%s the rules no longer report %d of their own seeded positive examples; a silent run proves nothing\n", p.ID, misses)
		return 3
	}
	return code
}
