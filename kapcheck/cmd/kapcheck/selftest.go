package main

import (
	"encoding/json"
	"fmt"
	"os"
	"os/exec"
	"path/filepath"
	"sort"
	"strings"
	"sync"

	"kapcheck/core"
	"kapcheck/props"
)

// Sensitivity self-test of the thorough tier: every seeded change of the
// property (seeded/<ID>-*/patch.diff) is applied to a scratch copy of the files
// it touches — /repo itself is never written — and handed to a child checker
// as a go/packages overlay. A seed recorded as caught that the rules no longer
// report is a SELFTEST-MISS. One child process per variant keeps memory bounded.

type variantResult struct {
	Violated  []string `json:"violated"`
	Undecided int      `json:"undecided"`
	LoadError string   `json:"load_error,omitempty"`
}

type selfRow struct {
	Seed     string   `json:"seed"`
	Expected string   `json:"expected"`
	Outcome  string   `json:"outcome"` // reported | silent | skipped
	Rules    []string `json:"rules,omitempty"`
	Note     string   `json:"note,omitempty"`
}

// overlayFromDir maps every file under dir onto the same relative path under repo.
func overlayFromDir(repo, dir string) (map[string][]byte, error) {
	ov := map[string][]byte{}
	err := filepath.Walk(dir, func(path string, info os.FileInfo, err error) error {
		if err != nil || info.IsDir() {
			return err
		}
		rel, _ := filepath.Rel(dir, path)
		b, err := os.ReadFile(path)
		if err != nil {
			return err
		}
		ov[filepath.Join(repo, rel)] = b
		return nil
	})
	return ov, err
}

// runVariant: child mode. Prints one JSON line, writes nothing else.
func runVariant(p *props.Property, repo, root, overlayDir string) int {
	res := variantResult{}
	ov, err := overlayFromDir(repo, overlayDir)
	if err == nil {
		var prog *core.Prog
		prog, err = core.Load(repo, ov, p.Patterns...)
		if err == nil {
			ctx := core.NewCtx(p.ID, "quick", 1, root, prog)
			ctx.Quiet = true
			func() {
				defer func() {
					if r := recover(); r != nil {
						res.Undecided++
					}
				}()
				p.Run(ctx)
			}()
			seen := map[string]bool{}
			for _, o := range ctx.Obligations() {
				switch o.Verdict {
				case core.Violated:
					if os.Getenv("KAPVARIANT_VERBOSE") != "" {
						d := o.Detail
						if len(d) > 400 {
							d = d[:400]
						}
						fmt.Fprintf(os.Stderr, "  %s@%s %s: %s\n", o.Rule, o.Construct, o.Pos, d)
					}
					if !seen[o.Rule] {
						seen[o.Rule] = true
						res.Violated = append(res.Violated, o.Rule)
					}
				case core.Undecided:
					if os.Getenv("KAPVARIANT_VERBOSE") != "" {
						fmt.Fprintf(os.Stderr, "  UNDECIDED %s@%s %s: %s\n", o.Rule, o.Construct, o.Pos, o.Detail)
					}
					res.Undecided++
				}
			}
			sort.Strings(res.Violated)
		}
	}
	if err != nil {
		res.LoadError = err.Error()
	}
	b, _ := json.Marshal(res)
	fmt.Println("VARIANT " + string(b))
	return 0
}

func selfTest(p *props.Property, repo, root string) (rows []selfRow, misses int) {
	dirs, _ := filepath.Glob(filepath.Join(root, "seeded", p.ID+"-*"))
	sort.Strings(dirs)
	// regression variants: the diff of every repaired finding of this property, applied in reverse (the defect comes back)
	rdirs, _ := filepath.Glob(filepath.Join(root, "seeded", "_regress", "*"))
	sort.Strings(rdirs)
	for _, d := range rdirs {
		var m struct {
			Property string `json:"property"`
		}
		if b, err := os.ReadFile(filepath.Join(d, "meta.json")); err == nil && json.Unmarshal(b, &m) == nil && m.Property == p.ID {
			dirs = append(dirs, d)
		}
	}
	self, _ := os.Executable()
	rows = make([]selfRow, len(dirs))
	var wg sync.WaitGroup
	sem := make(chan struct{}, 4)
	for i, d := range dirs {
		wg.Add(1)
		go func(i int, d string) {
			defer wg.Done()
			sem <- struct{}{}
			defer func() { <-sem }()
			rows[i] = oneSeed(self, p, repo, root, d)
		}(i, d)
	}
	wg.Wait()
	for _, r := range rows {
		if r.Outcome == "silent" && r.Expected != "missed" {
			misses++
		}
	}
	return rows, misses
}

func oneSeed(self string, p *props.Property, repo, root, dir string) selfRow {
	row := selfRow{Seed: filepath.Base(dir), Expected: "caught"}
	var meta struct {
		CheckResult string `json:"check_result"`
		CaughtBy    string `json:"caught_by"`
	}
	if b, err := os.ReadFile(filepath.Join(dir, "meta.json")); err == nil {
		json.Unmarshal(b, &meta)
		if meta.CheckResult != "" {
			row.Expected = meta.CheckResult
		}
	}
	patch := filepath.Join(dir, "patch.diff")
	reverse := false
	wantRule := ""
	if filepath.Base(filepath.Dir(dir)) == "_regress" {
		patch = filepath.Join(dir, "fix.diff")
		reverse = true
		// a fix whose lines were changed again by a later commit cannot be reversed textually; dev/genregress.py then stores
		// the three-way revert against the tree it ran on as revert.diff (applied forward)
		if _, err := os.Stat(filepath.Join(dir, "revert.diff")); err == nil {
			patch = filepath.Join(dir, "revert.diff")
			reverse = false
		}
		var rm struct {
			Rule string `json:"rule"`
		}
		if b, err := os.ReadFile(filepath.Join(dir, "meta.json")); err == nil {
			json.Unmarshal(b, &rm)
		}
		wantRule = rm.Rule
		row.Seed = "regress:" + filepath.Base(dir)
		row.Expected = "caught"
	}
	pb, err := os.ReadFile(patch)
	if err != nil {
		row.Outcome, row.Note = "skipped", "no patch.diff"
		return row
	}
	tmp, err := os.MkdirTemp("", "kapself-")
	if err != nil {
		row.Outcome, row.Note = "skipped", err.Error()
		return row
	}
	defer os.RemoveAll(tmp)
	// copy the files the patch touches
	for _, line := range strings.Split(string(pb), "\n") {
		if !strings.HasPrefix(line, "+++ b/") {
			continue
		}
		rel := strings.TrimSpace(strings.TrimPrefix(line, "+++ b/"))
		src, err := os.ReadFile(filepath.Join(repo, rel))
		if err != nil {
			row.Outcome, row.Note = "skipped", "patched file missing in /repo: "+rel
			return row
		}
		os.MkdirAll(filepath.Dir(filepath.Join(tmp, rel)), 0o755)
		os.WriteFile(filepath.Join(tmp, rel), src, 0o644)
	}
	args := []string{"-p1", "-s", "--no-backup-if-mismatch", "-F0", "-d", tmp, "-i", patch}
	if reverse {
		args = append([]string{"-R"}, args...)
	}
	cmd := exec.Command("patch", args...)
	if out, err := cmd.CombinedOutput(); err != nil {
		row.Outcome, row.Note = "skipped", "patch does not apply to the current tree: "+firstLine(string(out))
		return row
	}
	// a seed may be reported by the rules of a neighbouring property (recorded in meta.json: caught_by "Cxx.rule …")
	runProp := p.ID
	if len(meta.CaughtBy) > 4 && meta.CaughtBy[0] == 'C' && meta.CaughtBy[3] == '.' && props.Get(meta.CaughtBy[:3]) != nil {
		runProp = meta.CaughtBy[:3]
	}
	child := exec.Command(self, "-property", runProp, "-repo", repo, "-root", root, "-variant-overlay", tmp)
	child.Env = os.Environ()
	out, _ := child.Output()
	var res variantResult
	found := false
	for _, l := range strings.Split(string(out), "\n") {
		if strings.HasPrefix(l, "VARIANT ") {
			found = json.Unmarshal([]byte(strings.TrimPrefix(l, "VARIANT ")), &res) == nil
		}
	}
	switch {
	case !found:
		row.Outcome, row.Note = "skipped", "variant run produced no result"
	case res.LoadError != "":
		row.Outcome, row.Note = "skipped", "variant does not type-check: "+firstLine(res.LoadError)
	case len(res.Violated) > 0:
		row.Outcome, row.Rules = "reported", res.Violated
		if wantRule != "" {
			hit := false
			for _, r := range res.Violated {
				if r == wantRule {
					hit = true
				}
			}
			if !hit {
				row.Note = "reported by other rules than the one recorded for the finding (" + wantRule + ")"
			}
		}
	default:
		row.Outcome = "silent"
		if res.Undecided > 0 {
			row.Note = fmt.Sprintf("%d undecided obligations", res.Undecided)
		}
	}
	return row
}

func firstLine(s string) string {
	s = strings.TrimSpace(s)
	if i := strings.Index(s, "\n"); i >= 0 {
		s = s[:i]
	}
	if len(s) > 200 {
		s = s[:200]
	}
	return s
}

// alphaSelfTest: robustness half of the thorough self-test. The property's packages are copied with every local variable,
// parameter and receiver renamed (x → x_ar) — a variant that behaves exactly like the tree — and the quick rules are run on
// it. They must be silent: a rule that reports something here depends on what a local is called.
func alphaSelfTest(p *props.Property, repo, root string) (ok bool, reported []string, note string) {
	return variantSelfTest(p, repo, root, "-alpha-out")
}

// noiseSelfTest: the same with a no-op statement inserted at the start of every block.
func noiseSelfTest(p *props.Property, repo, root string) (ok bool, reported []string, note string) {
	return variantSelfTest(p, repo, root, "-noise-out")
}

func variantSelfTest(p *props.Property, repo, root, genFlag string) (ok bool, reported []string, note string) {
	self, _ := os.Executable()
	tmp, err := os.MkdirTemp("", "kapalpha-")
	if err != nil {
		return true, nil, "skipped: " + err.Error()
	}
	defer os.RemoveAll(tmp)
	gen := exec.Command(self, "-property", p.ID, "-repo", repo, "-root", root, genFlag, tmp)
	gen.Env = os.Environ()
	if out, err := gen.CombinedOutput(); err != nil {
		return true, nil, "skipped: alpha variant could not be written: " + firstLine(string(out))
	}
	child := exec.Command(self, "-property", p.ID, "-repo", repo, "-root", root, "-variant-overlay", tmp)
	child.Env = os.Environ()
	out, _ := child.Output()
	var res variantResult
	found := false
	for _, l := range strings.Split(string(out), "\n") {
		if strings.HasPrefix(l, "VARIANT ") {
			found = json.Unmarshal([]byte(strings.TrimPrefix(l, "VARIANT ")), &res) == nil
		}
	}
	switch {
	case !found:
		return true, nil, "skipped: variant run produced no result"
	case res.LoadError != "":
		return true, nil, "skipped: alpha variant does not type-check: " + firstLine(res.LoadError)
	case len(res.Violated) > 0 || res.Undecided > 0:
		return false, res.Violated, fmt.Sprintf("%d undecided", res.Undecided)
	}
	return true, nil, ""
}
