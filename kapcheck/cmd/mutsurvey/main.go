// mutsurvey — dev aid, not a registered check: systematic small syntactic mutations of the functions a property's rules analyse
// (evidence/<P>.json functions_analysed), each run through the quick rules as an in-memory overlay. Lists the mutants the rules
// stay silent on: candidates for blind spots (many are equivalent or irrelevant to the property; they are read by hand).
package main

import (
	"encoding/json"
	"flag"
	"fmt"
	"go/ast"
	"go/parser"
	"go/token"
	"math/rand"
	"os"
	"os/exec"
	"path/filepath"
	"regexp"
	"sort"
	"strings"
	"sync"
)

type mutant struct {
	File       string // relative to repo
	Start, End int    // byte offsets
	Repl       string
	Line       int
	Desc       string
	Func       string
}

type result struct {
	m       mutant
	outcome string // reported | silent | skipped
	rules   []string
	note    string
}

func main() {
	prop := flag.String("property", "", "Cxx")
	repo := flag.String("repo", "/repo", "")
	root := flag.String("root", "/verif", "")
	max := flag.Int("max", 300, "mutants to sample")
	jobs := flag.Int("jobs", 14, "")
	seed := flag.Int64("seed", 1, "")
	bin := flag.String("bin", "/verif/bin/kapcheck", "")
	extra := flag.String("funcs", "", "comma separated extra functions (same naming as functions_analysed)")
	showReported := flag.Bool("v", false, "")
	flag.Parse()

	b, err := os.ReadFile(filepath.Join(*root, "evidence", *prop+".json"))
	if err != nil {
		fmt.Fprintln(os.Stderr, err)
		os.Exit(2)
	}
	var ev struct {
		Coverage struct {
			Funcs []string `json:"functions_analysed"`
		} `json:"coverage"`
	}
	json.Unmarshal(b, &ev)
	names := ev.Coverage.Funcs
	if *extra != "" {
		names = append(names, strings.Split(*extra, ",")...)
	}

	// index all declarations
	type key struct{ dir, recv, name string }
	type decl struct {
		file string
		fd   *ast.FuncDecl
		fset *token.FileSet
		src  []byte
	}
	idx := map[key]decl{}
	byTM := map[string][]decl{}
	filepath.Walk(*repo, func(p string, fi os.FileInfo, err error) error {
		if err != nil {
			return nil
		}
		if fi.IsDir() {
			n := fi.Name()
			if n == "vendor" || n == "testdata" || n == ".git" || n == "node_modules" {
				return filepath.SkipDir
			}
			return nil
		}
		if !strings.HasSuffix(p, ".go") || strings.HasSuffix(p, "_test.go") {
			return nil
		}
		src, err := os.ReadFile(p)
		if err != nil {
			return nil
		}
		fset := token.NewFileSet()
		f, err := parser.ParseFile(fset, p, src, parser.ParseComments)
		if err != nil {
			return nil
		}
		rel, _ := filepath.Rel(*repo, p)
		dir := filepath.Dir(rel)
		if dir == "." {
			dir = "kapacitor"
		}
		for _, d := range f.Decls {
			fd, ok := d.(*ast.FuncDecl)
			if !ok || fd.Body == nil {
				continue
			}
			recv := ""
			if fd.Recv != nil && len(fd.Recv.List) > 0 {
				t := fd.Recv.List[0].Type
				if s, ok := t.(*ast.StarExpr); ok {
					t = s.X
				}
				if ix, ok := t.(*ast.IndexExpr); ok {
					t = ix.X
				}
				if id, ok := t.(*ast.Ident); ok {
					recv = id.Name
				}
			}
			dd := decl{rel, fd, fset, src}
			idx[key{dir, recv, fd.Name.Name}] = dd
			byTM[recv+"."+fd.Name.Name] = append(byTM[recv+"."+fd.Name.Name], dd)
		}
		return nil
	})
	reM := regexp.MustCompile(`^\(\*?([^)]*)\.([A-Za-z0-9_]+)\)\.([A-Za-z0-9_]+)$`)
	reF := regexp.MustCompile(`^(.*)\.([A-Za-z0-9_]+)$`)
	var decls []decl
	var declNames []string
	seen := map[*ast.FuncDecl]bool{}
	for _, n := range names {
		var d decl
		ok := false
		if m := reM.FindStringSubmatch(n); m != nil {
			d, ok = idx[key{m[1], m[2], m[3]}]
		} else if m := reF.FindStringSubmatch(n); m != nil {
			d, ok = idx[key{m[1], "", m[2]}]
			if !ok {
				if l := byTM[m[1]+"."+m[2]]; len(l) == 1 {
					d, ok = l[0], true
				}
			}
		}
		if ok && !seen[d.fd] {
			seen[d.fd] = true
			decls = append(decls, d)
			declNames = append(declNames, n)
		}
	}
	fmt.Printf("%s: %d analysed functions, %d resolved\n", *prop, len(names), len(decls))

	var muts []mutant
	for i, d := range decls {
		muts = append(muts, gen(d.file, d.fd, d.fset, d.src, declNames[i])...)
	}
	rng := rand.New(rand.NewSource(*seed))
	rng.Shuffle(len(muts), func(i, j int) { muts[i], muts[j] = muts[j], muts[i] })
	total := len(muts)
	if len(muts) > *max {
		muts = muts[:*max]
	}
	fmt.Printf("%s: %d mutants generated, %d sampled\n", *prop, total, len(muts))

	results := make([]result, len(muts))
	var wg sync.WaitGroup
	sem := make(chan struct{}, *jobs)
	for i := range muts {
		wg.Add(1)
		sem <- struct{}{}
		go func(i int) {
			defer wg.Done()
			defer func() { <-sem }()
			results[i] = run(*bin, *prop, *repo, *root, muts[i])
		}(i)
	}
	wg.Wait()
	cnt := map[string]int{}
	for _, r := range results {
		cnt[r.outcome]++
	}
	fmt.Printf("%s: reported %d, silent %d, skipped (does not compile) %d\n", *prop, cnt["reported"], cnt["silent"], cnt["skipped"])
	sort.Slice(results, func(i, j int) bool {
		if results[i].m.File != results[j].m.File {
			return results[i].m.File < results[j].m.File
		}
		return results[i].m.Line < results[j].m.Line
	})
	for _, r := range results {
		if r.outcome == "silent" {
			fmt.Printf("SILENT %s:%d [%s] %s\n", r.m.File, r.m.Line, shortFn(r.m.Func), r.m.Desc)
		} else if *showReported && r.outcome == "reported" {
			fmt.Printf("reported %s:%d %s -> %v\n", r.m.File, r.m.Line, r.m.Desc, r.rules)
		}
	}
}

func shortFn(s string) string {
	if i := strings.LastIndex(s, ")."); i >= 0 {
		j := strings.LastIndex(s[:i], ".")
		return s[j+1:i] + "." + s[i+2:]
	}
	if i := strings.LastIndex(s, "."); i >= 0 {
		return s[i+1:]
	}
	return s
}

func gen(file string, fd *ast.FuncDecl, fset *token.FileSet, src []byte, fname string) []mutant {
	var out []mutant
	off := func(p token.Pos) int { return fset.Position(p).Offset }
	line := func(p token.Pos) int { return fset.Position(p).Line }
	text := func(n ast.Node) string { return string(src[off(n.Pos()):off(n.End())]) }
	clip := func(s string) string {
		s = strings.Join(strings.Fields(s), " ")
		if len(s) > 70 {
			s = s[:70] + "…"
		}
		return s
	}
	add := func(start, end int, repl string, ln int, desc string) {
		out = append(out, mutant{file, start, end, repl, ln, desc, fname})
	}
	swaps := map[token.Token]string{token.LSS: "<=", token.LEQ: "<", token.GTR: ">=", token.GEQ: ">", token.EQL: "!=", token.NEQ: "==", token.LAND: "||", token.LOR: "&&", token.ADD: "-", token.SUB: "+"}
	ast.Inspect(fd.Body, func(n ast.Node) bool {
		switch x := n.(type) {
		case *ast.IfStmt:
			add(off(x.Cond.Pos()), off(x.Cond.End()), "!("+text(x.Cond)+")", line(x.Cond.Pos()), "negate if: "+clip(text(x.Cond)))
		case *ast.ForStmt:
			// skip
		case *ast.BinaryExpr:
			if r, ok := swaps[x.Op]; ok {
				add(off(x.OpPos), off(x.OpPos)+len(x.Op.String()), r, line(x.OpPos), fmt.Sprintf("%s→%s in: %s", x.Op, r, clip(text(x))))
			}
			if x.Op == token.LAND || x.Op == token.LOR {
				// drop one operand
				add(off(x.Pos()), off(x.End()), text(x.X), line(x.Pos()), "drop right operand: "+clip(text(x)))
				add(off(x.Pos()), off(x.End()), text(x.Y), line(x.Pos()), "drop left operand: "+clip(text(x)))
			}
		case *ast.UnaryExpr:
			if x.Op == token.NOT {
				add(off(x.Pos()), off(x.End()), text(x.X), line(x.Pos()), "drop !: "+clip(text(x)))
			}
		case *ast.BasicLit:
			if x.Kind == token.INT {
				switch x.Value {
				case "0":
					add(off(x.Pos()), off(x.End()), "1", line(x.Pos()), "0→1")
				case "1":
					add(off(x.Pos()), off(x.End()), "0", line(x.Pos()), "1→0")
					add(off(x.Pos()), off(x.End()), "2", line(x.Pos()), "1→2")
				}
			}
		case *ast.Ident:
			if x.Name == "true" {
				add(off(x.Pos()), off(x.End()), "false", line(x.Pos()), "true→false")
			} else if x.Name == "false" {
				add(off(x.Pos()), off(x.End()), "true", line(x.Pos()), "false→true")
			}
		case *ast.ExprStmt:
			add(off(x.Pos()), off(x.End()), "", line(x.Pos()), "delete: "+clip(text(x)))
		case *ast.AssignStmt:
			if x.Tok != token.DEFINE {
				add(off(x.Pos()), off(x.End()), "", line(x.Pos()), "delete: "+clip(text(x)))
			}
		case *ast.IncDecStmt:
			add(off(x.Pos()), off(x.End()), "", line(x.Pos()), "delete: "+clip(text(x)))
		case *ast.DeferStmt:
			add(off(x.Pos()), off(x.End()), "", line(x.Pos()), "delete: "+clip(text(x)))
		case *ast.BranchStmt:
			if x.Tok == token.BREAK || x.Tok == token.CONTINUE {
				add(off(x.Pos()), off(x.End()), "", line(x.Pos()), "delete: "+clip(text(x)))
			}
		case *ast.CallExpr:
			// swap two arguments of the same textual shape is not decidable here; swap the first two when there are exactly two identifiers
			if len(x.Args) >= 2 {
				a, b := x.Args[0], x.Args[1]
				add(off(a.Pos()), off(b.End()), text(b)+string(src[off(a.End()):off(b.Pos())])+text(a), line(x.Pos()), "swap args 1,2: "+clip(text(x)))
			}
			// Before↔After
			if sel, ok := x.Fun.(*ast.SelectorExpr); ok {
				switch sel.Sel.Name {
				case "Before":
					add(off(sel.Sel.Pos()), off(sel.Sel.End()), "After", line(x.Pos()), "Before→After: "+clip(text(x)))
				case "After":
					add(off(sel.Sel.Pos()), off(sel.Sel.End()), "Before", line(x.Pos()), "After→Before: "+clip(text(x)))
				case "Lock":
					// handled by deletion of the statement
				}
			}
		case *ast.ReturnStmt:
			// return nil for an error result: `return err` → `return nil`
			if len(x.Results) > 0 {
				last := x.Results[len(x.Results)-1]
				if id, ok := last.(*ast.Ident); ok && id.Name == "err" {
					add(off(last.Pos()), off(last.End()), "nil", line(x.Pos()), "return err→nil: "+clip(text(x)))
				}
			}
		}
		return true
	})
	return out
}

func run(bin, prop, repo, root string, m mutant) result {
	r := result{m: m}
	src, err := os.ReadFile(filepath.Join(repo, m.File))
	if err != nil {
		r.outcome, r.note = "skipped", err.Error()
		return r
	}
	tmp, err := os.MkdirTemp("", "mutsurvey-")
	if err != nil {
		r.outcome = "skipped"
		return r
	}
	defer os.RemoveAll(tmp)
	mutated := append(append(append([]byte{}, src[:m.Start]...), []byte(m.Repl)...), src[m.End:]...)
	os.MkdirAll(filepath.Dir(filepath.Join(tmp, m.File)), 0o755)
	os.WriteFile(filepath.Join(tmp, m.File), mutated, 0o644)
	cmd := exec.Command(bin, "-property", prop, "-repo", repo, "-root", root, "-variant-overlay", tmp)
	cmd.Env = os.Environ()
	out, _ := cmd.Output()
	var res struct {
		Violated  []string `json:"violated"`
		Undecided int      `json:"undecided"`
		LoadError string   `json:"load_error"`
	}
	found := false
	for _, l := range strings.Split(string(out), "\n") {
		if strings.HasPrefix(l, "VARIANT ") {
			found = json.Unmarshal([]byte(strings.TrimPrefix(l, "VARIANT ")), &res) == nil
		}
	}
	switch {
	case !found:
		r.outcome, r.note = "skipped", "no result"
	case res.LoadError != "":
		r.outcome, r.note = "skipped", res.LoadError
	case len(res.Violated) > 0 || res.Undecided > 0:
		r.outcome, r.rules = "reported", res.Violated
	default:
		r.outcome = "silent"
	}
	return r
}
