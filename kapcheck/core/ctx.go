package core

import (
	"encoding/json"
	"fmt"
	"go/token"
	"math/rand"
	"os"
	"path/filepath"
	"sort"
	"strings"
	"time"
)

// Verdict of one obligation.
type Verdict string

const (
	Discharged Verdict = "discharged"
	Violated   Verdict = "violated"
	Known      Verdict = "known-finding"
	Undecided  Verdict = "undecided"
)

// Obligation is one rule instance: a rule applied to one construct.
type Obligation struct {
	Rule      string  `json:"rule"`
	Construct string  `json:"construct"`
	Verdict   Verdict `json:"verdict"`
	Pos       string  `json:"pos,omitempty"`
	Detail    string  `json:"detail,omitempty"`
}

func (o Obligation) Key() string { return o.Rule + "@" + o.Construct }

// Finding is one entry of known_findings.json.
type Finding struct {
	Property  string `json:"property"`
	Rule      string `json:"rule"`
	Construct string `json:"construct"`
	Status    string `json:"status"` // "known" | "fixed"
	Commit    string `json:"commit,omitempty"`
	What      string `json:"what"`
	ID        string `json:"id,omitempty"` // F-number in DESIGN.md
}

// Ctx collects what one run of one property's check establishes.
// ProcessStart is when the checker started (loading and type-checking included in the reported wall time).
var ProcessStart = time.Now()

type Ctx struct {
	Prop     string
	Tier     string
	Seed     int64
	P        *Prog
	Root     string // /verif
	Only     map[string]bool
	start    time.Time
	obs      []Obligation
	seen     map[string]int
	notes    []string
	findings []Finding
	funcs    map[string]bool
	sites    int
	rules    map[string]string // rule -> statement of the rule applied
	floors   []string
	Extra    map[string]any
	Quiet    bool
	remap    map[string]string // rule id → rule id while a neighbouring property's rule runs under this property's name (As)
}

func NewCtx(prop, tier string, seed int64, root string, p *Prog) *Ctx {
	c := &Ctx{Prop: prop, Tier: tier, Seed: seed, P: p, Root: root, start: ProcessStart,
		seen: map[string]int{}, funcs: map[string]bool{}, rules: map[string]string{}, Extra: map[string]any{}}
	c.loadFindings()
	return c
}

func (c *Ctx) loadFindings() {
	b, err := os.ReadFile(filepath.Join(c.Root, "known_findings.json"))
	if err != nil {
		return
	}
	var all struct {
		Findings []Finding `json:"findings"`
	}
	if err := json.Unmarshal(b, &all); err != nil {
		fmt.Fprintf(os.Stderr, "known_findings.json: %v\n", err)
		os.Exit(3)
	}
	for _, f := range all.Findings {
		if f.Property == c.Prop {
			c.findings = append(c.findings, f)
		}
	}
}

// Rule registers the text of a rule (shown in evidence).
func (c *Ctx) Rule(id, text string) { c.rules[c.ruleID(id)] = text }

// As runs f with every obligation, rule text and floor of rule `from` recorded under `to`: a rule written for one property is a
// necessary condition of a neighbouring one too, and is then reported under that property's own name.
func (c *Ctx) As(from, to string, f func()) {
	if c.remap == nil {
		c.remap = map[string]string{}
	}
	old, had := c.remap[from]
	c.remap[from] = to
	f()
	if had {
		c.remap[from] = old
	} else {
		delete(c.remap, from)
	}
}

func (c *Ctx) ruleID(id string) string {
	if to, ok := c.remap[id]; ok {
		return to
	}
	return id
}

// Enabled reports whether a rule runs (all do unless -only was given).
func (c *Ctx) Enabled(rule string) bool {
	rule = c.ruleID(rule)
	if len(c.Only) == 0 {
		return true
	}
	for k := range c.Only {
		if rule == k || strings.HasPrefix(rule, k+".") || strings.HasPrefix(rule, k) {
			return true
		}
	}
	return false
}

func (c *Ctx) add(o Obligation) {
	o.Rule = c.ruleID(o.Rule)
	k := o.Key()
	if _, dup := c.seen[k]; dup && o.Verdict == Discharged {
		return // the same obligation met again on another path
	}
	if n, dup := c.seen[k]; dup {
		// the same construct fails again on another path: one obligation, counted
		c.seen[k] = n + 1
		for i := range c.obs {
			if c.obs[i].Key() == k && c.obs[i].Verdict == Discharged {
				c.obs[i] = o // a failure overrides an earlier discharge of the same construct
				return
			}
		}
		return
	} else {
		c.seen[k] = 1
	}
	c.obs = append(c.obs, o)
}

// Ok records a discharged obligation.
func (c *Ctx) Ok(rule, construct string, detail ...string) {
	c.add(Obligation{Rule: rule, Construct: construct, Verdict: Discharged, Detail: strings.Join(detail, " ")})
}

// Fail records a violated obligation (or a known finding when listed).
func (c *Ctx) Fail(rule, construct string, pos token.Pos, format string, args ...any) {
	msg := fmt.Sprintf(format, args...)
	o := Obligation{Rule: rule, Construct: construct, Verdict: Violated, Pos: c.pos(pos), Detail: msg}
	for _, f := range c.findings {
		if f.Status == "known" && f.Rule == rule && f.Construct == construct {
			o.Verdict = Known
			o.Detail = msg + " [" + f.ID + ": " + f.What + "]"
		}
	}
	c.add(o)
}

// Check is Ok when cond holds, Fail otherwise.
func (c *Ctx) Check(cond bool, rule, construct string, pos token.Pos, format string, args ...any) bool {
	if cond {
		c.Ok(rule, construct)
	} else {
		c.Fail(rule, construct, pos, format, args...)
	}
	return cond
}

// Undecided records that the rule could not read a construct (exit 3, no VIOLATION).
func (c *Ctx) Undecided(rule, construct string, pos token.Pos, format string, args ...any) {
	c.add(Obligation{Rule: rule, Construct: construct, Verdict: Undecided, Pos: c.pos(pos), Detail: fmt.Sprintf(format, args...)})
}

// Floor asserts a minimum instance count confirmed by hand; a rule that matches
// fewer sites than were confirmed fails instead of passing vacuously.
func (c *Ctx) Floor(rule, what string, got, min int) {
	rule = c.ruleID(rule)
	c.floors = append(c.floors, fmt.Sprintf("%s: %s = %d (floor %d)", rule, what, got, min))
	if got < min {
		c.Undecided(rule, "floor:"+what, token.NoPos, "instance count %d below the floor %d confirmed by hand: the rule no longer finds its anchors", got, min)
	}
}

func (c *Ctx) Note(format string, args ...any) {
	c.notes = append(c.notes, fmt.Sprintf(format, args...))
}
func (c *Ctx) Analysed(f *Func) {
	if f != nil {
		c.funcs[f.Name()] = true
	}
}
func (c *Ctx) AnalysedName(n string) { c.funcs[n] = true }
func (c *Ctx) Sites(n int)           { c.sites += n }

func (c *Ctx) pos(p token.Pos) string {
	if c.P == nil {
		return "-"
	}
	return c.P.Pos(p)
}

// Need resolves a function anchor or records Undecided.
func (c *Ctx) Need(rule, rel, recv, name string) *Func {
	f := c.P.FindFunc(rel, recv, name)
	if f == nil || f.Decl.Body == nil {
		n := name
		if recv != "" {
			n = recv + "." + name
		}
		c.Undecided(rule, "anchor:"+rel+"/"+n, token.NoPos, "anchor function not found in package %q", ModPath(rel))
		return nil
	}
	c.Analysed(f)
	return f
}

// Counts by verdict.
func (c *Ctx) Counts() (total, ok, viol, known, und int) {
	for _, o := range c.obs {
		total++
		switch o.Verdict {
		case Discharged:
			ok++
		case Violated:
			viol++
		case Known:
			known++
		case Undecided:
			und++
		}
	}
	return
}

// Obligations returns the recorded obligations.
func (c *Ctx) Obligations() []Obligation { return c.obs }

type evidence struct {
	PropertyID  string         `json:"property_id"`
	Tier        string         `json:"tier"`
	Seed        int64          `json:"seed"`
	Level       string         `json:"level"`
	Coverage    map[string]any `json:"coverage"`
	Assumptions []string       `json:"assumptions"`
	WallS       float64        `json:"wall_s"`
	Violations  int            `json:"violations"`
}

// Finish writes evidence and the replay file, prints the verdict lines and
// returns the process exit code.
func (c *Ctx) Finish(explanation string, assumptions []string) int {
	total, ok, viol, known, und := c.Counts()
	// stale "known" entries: listed but no longer reported → just a note (the
	// file is never modified at run time).
	for _, f := range c.findings {
		if f.Status != "known" {
			continue
		}
		hit := false
		for _, o := range c.obs {
			if o.Verdict == Known && o.Rule == f.Rule && strings.TrimRight(strings.SplitN(o.Construct, "~", 2)[0], "") == f.Construct {
				hit = true
			}
		}
		if !hit && c.Enabled(f.Rule) {
			c.Note("known finding %s (%s@%s) was not reported by this run", f.ID, f.Rule, f.Construct)
		}
	}
	sort.SliceStable(c.obs, func(i, j int) bool { return c.obs[i].Key() < c.obs[j].Key() })

	var viols, knowns, undec []Obligation
	perRule := map[string][2]int{}
	for _, o := range c.obs {
		pr := perRule[o.Rule]
		pr[0]++
		if o.Verdict == Discharged {
			pr[1]++
		}
		perRule[o.Rule] = pr
		switch o.Verdict {
		case Violated:
			viols = append(viols, o)
		case Known:
			knowns = append(knowns, o)
		case Undecided:
			undec = append(undec, o)
		}
	}
	// samples: seed-chosen obligations, written out
	rng := rand.New(rand.NewSource(c.Seed))
	var samples []any
	if len(c.obs) > 0 {
		n := 8
		if n > len(c.obs) {
			n = len(c.obs)
		}
		for _, i := range rng.Perm(len(c.obs))[:n] {
			samples = append(samples, c.obs[i])
		}
	}
	for _, o := range append(append([]Obligation{}, viols...), knowns...) {
		samples = append(samples, o)
	}
	var rules []string
	for id, t := range c.rules {
		pr := perRule[id]
		rules = append(rules, fmt.Sprintf("%s [%d/%d]: %s", id, pr[1], pr[0], t))
	}
	sort.Strings(rules)
	var funcs []string
	for f := range c.funcs {
		funcs = append(funcs, f)
	}
	sort.Strings(funcs)
	var pkgs []string
	if c.P != nil {
		for _, p := range c.P.ModPkgs {
			pkgs = append(pkgs, strings.TrimPrefix(p.PkgPath, Module))
		}
	}
	cov := map[string]any{
		"explanation":             explanation,
		"obligations":             total,
		"discharged":              ok,
		"violated":                viol,
		"known_findings":          knowns,
		"undecided":               undec,
		"rule":                    "obligation = rule instance keyed rule@construct over the type-checked source of /repo's working tree; see rules[]",
		"rules":                   rules,
		"samples":                 samples,
		"functions_analysed":      funcs,
		"functions_analysed_n":    len(funcs),
		"call_sites":              c.sites,
		"packages_loaded":         len(pkgs),
		"instance_floors":         c.floors,
		"notes":                   c.notes,
		"exhaustive":              false,
		"checker_cmd":             fmt.Sprintf("./check.sh %s %s", c.Prop, c.Tier),
		"trusted_base":            []string{"go/types, go/packages, go/cfg, go/ssa (x/tools v0.50.0, go1.26.8)", "the reference tables in kapcheck/props (hand-written from the property statements)"},
		"evaluations":             total,
		"distinct_nontrivial":     len(c.seen),
		"obligations_per_rule":    perRule,
		"kapacitor_packages":      pkgs,
		"violations_listed":       viols,
		"known_findings_n":        known,
		"undecided_n":             und,
		"deciding_step_is_static": true,
	}
	for k, v := range c.Extra {
		cov[k] = v
	}
	ev := evidence{PropertyID: c.Prop, Tier: c.Tier, Seed: c.Seed, Level: "other", Coverage: cov,
		Assumptions: assumptions, WallS: time.Since(c.start).Seconds(), Violations: viol}
	if ev.Assumptions == nil {
		ev.Assumptions = []string{}
	}
	if len(c.Only) == 0 {
		writeJSON(filepath.Join(c.Root, "evidence", c.Prop+".json"), ev)
	}

	for _, o := range knowns {
		d := o.Detail
		if len(d) > 300 {
			d = d[:300] + "…"
		}
		fmt.Printf("KNOWN-FINDING: property=%s %s@%s %s %s\n", c.Prop, o.Rule, o.Construct, o.Pos, d)
	}
	for _, o := range undec {
		fmt.Printf("UNDECIDED property=%s %s@%s %s %s\n", c.Prop, o.Rule, o.Construct, o.Pos, o.Detail)
	}
	if !c.Quiet {
		fmt.Printf("%s %s: %d obligations, %d discharged, %d violated, %d known findings, %d undecided; %d functions, %d packages, %.1fs\n",
			c.Prop, c.Tier, total, ok, viol, known, und, len(funcs), len(pkgs), time.Since(c.start).Seconds())
	}
	if viol > 0 {
		dir := filepath.Join(c.Root, "out", "violations")
		os.MkdirAll(dir, 0o755)
		path := filepath.Join(dir, c.Prop+".json")
		var rr []string
		seenR := map[string]bool{}
		for _, o := range viols {
			if !seenR[o.Rule] {
				seenR[o.Rule] = true
				rr = append(rr, o.Rule)
			}
		}
		writeJSON(path, map[string]any{"property": c.Prop, "tier": c.Tier, "rules": rr, "violations": viols,
			"replay": fmt.Sprintf("./check.sh %s %s --replay %s", c.Prop, c.Tier, path)})
		for i, o := range viols {
			if i == 12 {
				fmt.Printf("  … %d more violated obligations in %s\n", len(viols)-12, path)
				break
			}
			d := o.Detail
			if len(d) > 700 {
				d = d[:700] + "…"
			}
			fmt.Printf("  violated: %s@%s %s: %s\n", o.Rule, o.Construct, o.Pos, d)
		}
		fmt.Printf("VIOLATION property=%s replay=%s\n", c.Prop, path)
		return 1
	}
	if und > 0 {
		return 3
	}
	return 0
}

func writeJSON(path string, v any) {
	os.MkdirAll(filepath.Dir(path), 0o755)
	b, err := json.MarshalIndent(v, "", " ")
	if err != nil {
		fmt.Fprintln(os.Stderr, "evidence:", err)
		os.Exit(3)
	}
	if err := os.WriteFile(path, append(b, '\n'), 0o644); err != nil {
		fmt.Fprintln(os.Stderr, "evidence:", err)
		os.Exit(3)
	}
}

// ReadReplayRules returns the rule ids named in a replay file.
func ReadReplayRules(path string) ([]string, error) {
	b, err := os.ReadFile(path)
	if err != nil {
		return nil, err
	}
	var r struct {
		Rules []string `json:"rules"`
	}
	if err := json.Unmarshal(b, &r); err != nil {
		return nil, err
	}
	return r.Rules, nil
}
