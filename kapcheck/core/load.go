// Package core holds the plumbing shared by every property check: loading the
// type-checked program from /repo's working tree, resolving anchors through the
// type checker, recording obligations and writing evidence.
package core

import (
	"fmt"
	"go/ast"
	"go/token"
	"go/types"
	"os"
	"sort"
	"strings"

	"golang.org/x/tools/go/packages"
	"golang.org/x/tools/go/ssa"
	"golang.org/x/tools/go/ssa/ssautil"
)

const Module = "github.com/influxdata/kapacitor"

// Prog is the type-checked program (and, on demand, its SSA form).
type Prog struct {
	Repo    string
	Fset    *token.FileSet
	Roots   []*packages.Package
	ByPath  map[string]*packages.Package // every package of the closure
	ModPkgs []*packages.Package          // kapacitor packages only, sorted by path

	ssaProg *ssa.Program
	ssaPkgs map[*types.Package]*ssa.Package
}

// Load type-checks the given package patterns (relative to the repo root, e.g.
// ".", "./tick/...") from source, together with their whole dependency closure.
// Any type error is fatal: the checks decide nothing on a program they cannot
// read completely.
func Load(repo string, overlay map[string][]byte, patterns ...string) (*Prog, error) {
	fset := token.NewFileSet()
	cfg := &packages.Config{
		Mode:    packages.LoadAllSyntax,
		Dir:     repo,
		Fset:    fset,
		Env:     os.Environ(),
		Tests:   false,
		Overlay: overlay,
	}
	roots, err := packages.Load(cfg, patterns...)
	if err != nil {
		return nil, fmt.Errorf("load: %v", err)
	}
	if len(roots) == 0 {
		return nil, fmt.Errorf("load: zero packages matched %v", patterns)
	}
	p := &Prog{Repo: repo, Fset: fset, Roots: roots, ByPath: map[string]*packages.Package{}}
	var errs []string
	packages.Visit(roots, nil, func(pkg *packages.Package) {
		p.ByPath[pkg.PkgPath] = pkg
		if pkg.PkgPath == Module || strings.HasPrefix(pkg.PkgPath, Module+"/") {
			p.ModPkgs = append(p.ModPkgs, pkg)
			for _, e := range pkg.Errors {
				errs = append(errs, e.Error())
			}
			if pkg.Types == nil || pkg.TypesInfo == nil || (len(pkg.Syntax) == 0 && len(pkg.GoFiles) > 0) {
				errs = append(errs, pkg.PkgPath+": not type-checked from source")
			}
		} else if pkg.IllTyped {
			for _, e := range pkg.Errors {
				errs = append(errs, e.Error())
			}
		}
	})
	sort.Slice(p.ModPkgs, func(i, j int) bool { return p.ModPkgs[i].PkgPath < p.ModPkgs[j].PkgPath })
	if len(errs) > 0 {
		if len(errs) > 12 {
			errs = append(errs[:12], fmt.Sprintf("… %d more", len(errs)-12))
		}
		return nil, fmt.Errorf("load: type errors:\n  %s", strings.Join(errs, "\n  "))
	}
	if len(p.ModPkgs) == 0 {
		return nil, fmt.Errorf("load: no kapacitor package in closure of %v", patterns)
	}
	return p, nil
}

// Pkg returns the kapacitor package with the given path relative to the module
// ("" = root package), or nil.
func (p *Prog) Pkg(rel string) *packages.Package {
	path := Module
	if rel != "" {
		path = Module + "/" + rel
	}
	return p.ByPath[path]
}

// SSA builds (once) the SSA form of the whole loaded closure.
func (p *Prog) SSA() *ssa.Program {
	if p.ssaProg != nil {
		return p.ssaProg
	}
	prog, _ := ssautil.AllPackages(p.Roots, ssa.InstantiateGenerics)
	prog.Build()
	p.ssaProg = prog
	return prog
}

// SSAPkg returns the SSA package for a loaded package.
func (p *Prog) SSAPkg(pkg *packages.Package) *ssa.Package {
	return p.SSA().Package(pkg.Types)
}

// Pos renders a position relative to the repo root.
func (p *Prog) Pos(pos token.Pos) string {
	if !pos.IsValid() {
		return "-"
	}
	ps := p.Fset.Position(pos)
	f := strings.TrimPrefix(ps.Filename, p.Repo+"/")
	return fmt.Sprintf("%s:%d", f, ps.Line)
}

// Func is a resolved function or method declaration.
type Func struct {
	Pkg  *packages.Package
	Decl *ast.FuncDecl
	Obj  *types.Func
}

func (f *Func) Name() string {
	if f == nil || f.Obj == nil {
		return "<nil>"
	}
	return FuncName(f.Obj)
}

// FuncName renders pkg.(*T).m / pkg.f with the module prefix stripped.
func FuncName(fn *types.Func) string {
	s := fn.FullName()
	s = strings.ReplaceAll(s, Module+"/", "")
	s = strings.ReplaceAll(s, Module, "kapacitor")
	return s
}

// FindFunc resolves a top-level function (recv == "") or a method (recv is the
// bare name of the receiver's named type) in a loaded kapacitor package.
func (p *Prog) FindFunc(rel, recv, name string) *Func {
	pkg := p.Pkg(rel)
	if pkg == nil {
		return nil
	}
	for _, f := range pkg.Syntax {
		for _, d := range f.Decls {
			fd, ok := d.(*ast.FuncDecl)
			if !ok || fd.Name.Name != name {
				continue
			}
			if RecvName(fd) != recv {
				continue
			}
			obj, _ := pkg.TypesInfo.Defs[fd.Name].(*types.Func)
			if obj == nil {
				continue
			}
			return &Func{Pkg: pkg, Decl: fd, Obj: obj}
		}
	}
	return nil
}

// RecvName returns the bare receiver type name of a declaration ("" for functions).
func RecvName(fd *ast.FuncDecl) string {
	if fd.Recv == nil || len(fd.Recv.List) == 0 {
		return ""
	}
	t := fd.Recv.List[0].Type
	for {
		switch x := t.(type) {
		case *ast.StarExpr:
			t = x.X
		case *ast.ParenExpr:
			t = x.X
		case *ast.IndexExpr:
			t = x.X
		case *ast.IndexListExpr:
			t = x.X
		case *ast.Ident:
			return x.Name
		default:
			return ""
		}
	}
}

// AllFuncs lists every function declaration with a body in a package.
func AllFuncs(pkg *packages.Package) []*Func {
	var out []*Func
	for _, f := range pkg.Syntax {
		for _, d := range f.Decls {
			fd, ok := d.(*ast.FuncDecl)
			if !ok || fd.Body == nil {
				continue
			}
			obj, _ := pkg.TypesInfo.Defs[fd.Name].(*types.Func)
			if obj == nil {
				continue
			}
			out = append(out, &Func{Pkg: pkg, Decl: fd, Obj: obj})
		}
	}
	return out
}

// Callee resolves the statically known callee of a call (function, method or
// interface method), or nil for calls of function values and conversions.
func Callee(info *types.Info, call *ast.CallExpr) *types.Func {
	fun := ast.Unparen(call.Fun)
	switch f := fun.(type) {
	case *ast.IndexExpr:
		fun = f.X
	case *ast.IndexListExpr:
		fun = f.X
	}
	var obj types.Object
	switch f := fun.(type) {
	case *ast.Ident:
		obj = info.Uses[f]
	case *ast.SelectorExpr:
		if sel, ok := info.Selections[f]; ok {
			obj = sel.Obj()
		} else {
			obj = info.Uses[f.Sel]
		}
	}
	fn, _ := obj.(*types.Func)
	return fn
}

// IsBuiltin reports whether call is a call of the named builtin.
func IsBuiltin(info *types.Info, call *ast.CallExpr, name string) bool {
	id, ok := ast.Unparen(call.Fun).(*ast.Ident)
	if !ok || id.Name != name {
		return false
	}
	_, ok = info.Uses[id].(*types.Builtin)
	return ok
}

// NamedOf strips pointers and returns the named type, if any.
func NamedOf(t types.Type) *types.Named {
	for {
		switch x := t.(type) {
		case *types.Pointer:
			t = x.Elem()
		case *types.Alias:
			t = types.Unalias(x)
		case *types.Named:
			return x
		default:
			return nil
		}
	}
}

// TypeIs reports whether t (through pointers) is the named type pkgpath.name.
func TypeIs(t types.Type, pkgpath, name string) bool {
	n := NamedOf(t)
	if n == nil || n.Obj() == nil || n.Obj().Pkg() == nil {
		return false
	}
	return n.Obj().Name() == name && n.Obj().Pkg().Path() == pkgpath
}

// RecvTypeName of a method object ("" for plain functions).
func RecvTypeName(fn *types.Func) string {
	sig, _ := fn.Type().(*types.Signature)
	if sig == nil || sig.Recv() == nil {
		return ""
	}
	if n := NamedOf(sig.Recv().Type()); n != nil {
		return n.Obj().Name()
	}
	return ""
}

// IsMethod reports whether fn is method `name` on type `recv` declared in the
// kapacitor package `rel` (or any package when rel == "*").
func IsMethod(fn *types.Func, rel, recv, name string) bool {
	if fn == nil || fn.Name() != name {
		return false
	}
	if RecvTypeName(fn) != recv {
		return false
	}
	if rel == "*" {
		return true
	}
	return fn.Pkg() != nil && fn.Pkg().Path() == modPath(rel)
}

func modPath(rel string) string {
	if rel == "" {
		return Module
	}
	return Module + "/" + rel
}

// ModPath exposes modPath.
func ModPath(rel string) string { return modPath(rel) }
