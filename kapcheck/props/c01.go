package props

import (
	"fmt"
	"go/ast"
	"go/token"
	"go/types"
	"strings"

	"kapcheck/an"
	"kapcheck/core"
)

func init() {
	register(&Property{
		ID:       "C01",
		Patterns: []string{"."},
		Run:      runC01,
		Explanation: "Structural necessary conditions of the alert level/recovery state machine, decided on every path of " +
			"alertState.Point/BufferedBatch/addEvent/triggered, AlertNode.determineLevel/findFirstMatchLevel/handleEvent/event/restoreEventState: " +
			"the emission guard equals the reference table written from the statement (fire iff level≠OK or changed, held back by state-changes-only unless changed or expired, " +
			"recovery withheld by no-recoveries), effects occur in the order triggered<duration<event<handleEvent, the event carries the very level/time/duration values that were recorded, " +
			"the level decision stages are ordered up-search, reset hold-back, down-search, OK, history bookkeeping is ordered and confined, and one event fans out to each configured topic. " +
			"NOT decided: the level ranges scanned, percentChange/flapping arithmetic, duration arithmetic, the batch all()/min/max scan.",
		Assumptions: []string{
			"getter methods on messages (Time, Name, Tags…) are pure: two syntactically equal getter calls on one path denote one value",
			"atoms are uninterpreted: infeasible combinations are also compared (conservative)",
			"rows with UseFlapping∧flapping are don't-care except that they may not emit more than the non-flapping row (the statement does not define flapping)",
		},
	})
}

func alertClassify(info *types.Info) func(a an.Atom) (string, bool) {
	return func(a an.Atom) (string, bool) {
		x := a.Expr
		switch {
		case an.FieldSel(info, x, "alertState", "changed"):
			return "chg", false
		case an.FieldSel(info, x, "alertState", "expired"):
			return "exp", false
		case an.FieldSel(info, x, "alertState", "flapping"):
			return "flap", false
		case an.FieldSel(info, x, "AlertNodeData", "UseFlapping"):
			return "useflap", false
		case an.FieldSel(info, x, "AlertNodeData", "IsStateChangesOnly"):
			return "sco", false
		case an.FieldSel(info, x, "AlertNodeData", "NoRecoveriesFlag"):
			return "norec", false
		case an.FieldSel(info, x, "AlertNodeData", "AllFlag"):
			return "all", false
		}
		if a.Op == token.EQL && a.LX != nil {
			if an.ConstNamed(info, a.RX, "alert", "OK") && an.TypeNamed(info, a.LX, "alert", "Level") {
				return "ok", false
			}
			if k, ok := an.ErrNilAtom(info, a); ok {
				if an.CallResultOf(k, "renderID", 1) {
					return "iderr", true
				}
				if an.CallResultOf(k, "event", 1) {
					return "everr", true
				}
			}
			if strings.HasPrefix(a.L, "len(") && strings.Contains(a.L, ".Points()") && a.R == "0" {
				return "empty", false
			}
		}
		return "", false
	}
}

func runC01(c *core.Ctx) {
	c.Rule("C01.emit", "A1: on every path of alertState.Point and .BufferedBatch the effects after addEvent equal the reference table: triggered iff (level≠OK ∨ changed) ∧ ¬(stateChangesOnly ∧ ¬changed ∧ ¬expired); event+handleEvent iff additionally ¬(noRecoveries ∧ level=OK); a message is returned iff handleEvent was called; order triggered<duration<event<handleEvent")
	c.Rule("C01.carry", "A3: the level given to event() is the value given to addEvent; the time given to event() is the value given to addEvent and triggered; the duration is the result of duration() called after triggered; the id is renderID's result; the `ok` atom tests that same level value")
	c.Rule("C01.eventlit", "A7: AlertNode.event maps level→State.Level, t→State.Time, d→State.Duration, id→State.ID, !NoRecoveriesFlag→Data.Recoverable")
	c.Rule("C01.book", "A2/A3: addEvent computes `changed` from the history element at the pre-increment index and the new level, before the index store, and runs updateExpired after both and after updateFlapping's input is in place")
	c.Rule("C01.writers", "A6: lastTriggered is stored only by triggered, firstTriggered by triggered and addEvent (F78: the event that leaves OK starts the incident even when it is withheld); history/idx/changed/expired/flapping only by addEvent, updateFlapping, updateExpired (and the constructor literal)")
	c.Rule("C01.seed", "A1: restoreEventState calls addEvent then triggered exactly when the restored level ≠ OK")
	c.Rule("C01.level", "A1: determineLevel returns the upward search result if found; else the current level if a reset expression is configured, evaluated without error and did not pass; else the downward search result if found; else OK")
	c.Rule("C01.match", "A1: findFirstMatchLevel reports a match only for a level whose expression evaluated without error to true, and returns that same level")
	c.Rule("C01.batchlevel", "A1: in BufferedBatch every point of the batch is compared with both the running lowest level (started at Critical) and the running highest level (started at OK, or no point yet): on every path through one iteration the lowest level is stored iff the point's level is lower, the highest level and point iff it is higher or none was seen; neither comparison may be skipped")
	c.Rule("C01.episode", "A1: triggered stores lastTriggered on every path and firstTriggered exactly under a `== OK` test of a history element; addEvent stores firstTriggered = t exactly when the level at the not yet advanced idx is OK and the new level is not (F78)")
	c.Rule("C01.fanout", "A1/A3: handleEvent: inhibited ⇒ no Collect; otherwise Collect once per configured topic kind, each with event.Topic set to that topic just before; a Collect error does not prevent the other Collect")

	c.Rule("C01.pools", "A7: in newAlertNode, for every level index the scope pool stored next to a compiled expression is built from the reference variables of that same expression (levels↔scopePools, levelResets↔lrScopePools): a pool built from another expression leaves variables undefined and silently disables the condition")
	c.Rule("C01.flapwalk", "A8: F77: for every ring size 2…7, newest slot idx and step i, the index expressions of percentChange's loop (evaluated by the checker over that finite domain) select the pair of neighbours (idx+2+i, idx+1+i) mod l: every neighbouring pair once, oldest first, never (oldest, newest)")
	c.Rule("C01.flap", "A1: updateFlapping leaves the flapping state only below the low threshold and enters it only above the high threshold (documented hysteresis); no other store to flapping")

	pkg := c.P.Pkg("")
	info := pkg.TypesInfo
	c01Pools(c, info)
	c01Flap(c, info)

	// ---- C01.emit / C01.carry on Point and BufferedBatch
	track := func(call *ast.CallExpr, callee *types.Func) string {
		if callee == nil {
			return ""
		}
		switch {
		case core.IsMethod(callee, "", "alertState", "addEvent"),
			core.IsMethod(callee, "", "alertState", "triggered"),
			core.IsMethod(callee, "", "alertState", "duration"),
			core.IsMethod(callee, "", "AlertNode", "event"),
			core.IsMethod(callee, "", "AlertNode", "handleEvent"),
			core.IsMethod(callee, "", "AlertNode", "renderID"),
			core.IsMethod(callee, "", "AlertNode", "determineLevel"),
			core.IsMethod(callee, "", "alertState", "currentLevel"):
			return callee.Name()
		}
		return ""
	}
	for _, name := range []string{"Point", "BufferedBatch"} {
		fn := c.Need("C01.emit", "", "alertState", name)
		if fn == nil {
			continue
		}
		eng := &an.Engine{Prog: c.P, TrackCall: track, Classify: alertClassify(info), Inline: func(*types.Func) bool { return true }}
		paths, err := eng.Run(fn)
		if err != nil {
			c.Undecided("C01.emit", "alertState."+name, fn.Decl.Pos(), "path enumeration: %v", err)
			continue
		}
		c.Sites(len(paths))
		batch := name == "BufferedBatch"
		outcome := func(p *an.Path) string {
			w := an.Seq(p, "addEvent", "triggered", "duration", "event", "handleEvent")
			ret := "?"
			if len(p.Rets) == 2 {
				switch {
				case p.Rets[0] == "nil" && p.Rets[1] == "nil":
					ret = "nil"
				case p.Rets[0] == "nil":
					ret = "err"
				case p.Rets[1] == "nil":
					ret = "msg"
				}
			}
			return w + "→" + ret
		}
		nonflap := func(a map[string]bool) string {
			fire := (!a["ok"] || a["chg"]) && !(a["sco"] && !a["chg"] && !a["exp"])
			if !fire {
				return "addEvent→nil"
			}
			if a["norec"] && a["ok"] {
				return "addEvent,triggered→nil"
			}
			if a["everr"] {
				return "addEvent,triggered,duration,event→err"
			}
			return "addEvent,triggered,duration,event,handleEvent→msg"
		}
		atoms := []string{"iderr", "ok", "chg", "exp", "sco", "norec", "useflap", "flap", "everr"}
		if batch {
			atoms = append(atoms, "empty")
		}
		tab := an.Table{Atoms: atoms, Outcome: outcome,
			Expect: func(a map[string]bool) string {
				if a["iderr"] {
					// F134: an ID that cannot be rendered for this point's tags is the error of this point: nothing is recorded
					// or sent for it, and the task goes on (the statement says nothing of such a point; C05 forbids ending the
					// task on it). Returning the error — what the table required before — ended the node.
					return "→nil"
				}
				if batch && a["empty"] {
					return "→nil"
				}
				if a["useflap"] && a["flap"] {
					// the statement does not define flapping: suppressing is allowed, emitting more than the plain row is not
					return "addEvent→nil | " + nonflap(a)
				}
				return nonflap(a)
			}}
		an.CheckTable(c, "C01.emit", "alertState."+name, paths, tab)

		// C01.carry on every path that reaches event()
		n := 0
		for _, p := range paths {
			add, trig, ev := p.Find("addEvent"), p.Find("triggered"), p.Find("event")
			// the `ok` atom must test the level recorded by addEvent
			for _, l := range p.Lits {
				if l.Name == "ok" && add != nil && len(add.Args) == 2 {
					be, _ := l.Expr.(*ast.BinaryExpr)
					if be != nil {
						lk := levelOperandKey(info, eng, p, be)
						if lk != "" && lk != add.Args[1] {
							c.Fail("C01.carry", "alertState."+name+"#ok-atom", l.Pos, "the level compared with OK (%s) is not the level recorded by addEvent (%s)", lk, add.Args[1])
						}
					}
				}
			}
			if ev == nil {
				continue
			}
			n++
			cons := "alertState." + name
			if add == nil || trig == nil || len(ev.Args) < 8 || len(add.Args) != 2 || len(trig.Args) != 1 {
				c.Fail("C01.carry", cons, ev.Pos, "event() reached without addEvent/triggered on the path, or with an unexpected signature")
				continue
			}
			good := true
			chk := func(cond bool, what string, args ...any) {
				if !cond {
					good = false
					c.Fail("C01.carry", cons+"#"+what, ev.Pos, "path [%s]: "+what+": %v", append([]any{p.Cond()}, args...)...)
				}
			}
			chk(ev.Args[5] == add.Args[1], "event-level-is-addEvent-level", ev.Args[5]+" vs "+add.Args[1])
			chk(ev.Args[6] == add.Args[0], "event-time-is-addEvent-time", ev.Args[6]+" vs "+add.Args[0])
			chk(ev.Args[6] == trig.Args[0], "event-time-is-triggered-time", ev.Args[6]+" vs "+trig.Args[0])
			chk(strings.HasSuffix(ev.Args[7], ".duration()") && p.Index("duration") > p.Index("triggered"), "event-duration-is-duration()-after-triggered", ev.Args[7])
			chk(an.CallResultOf(ev.Args[0], "renderID", 0), "event-id-is-renderID", ev.Args[0])
			if he := p.Find("handleEvent"); he != nil {
				chk(len(he.Args) == 1 && an.CallResultOf(he.Args[0], "event", 0), "handleEvent-gets-event()", strings.Join(he.Args, ","))
			}
			// determineLevel is given the current level read before addEvent
			if dl := p.Find("determineLevel"); dl != nil && !batch {
				chk(len(dl.Args) == 2 && strings.HasSuffix(dl.Args[1], ".currentLevel()") && p.Index("currentLevel") < p.Index("addEvent"), "determineLevel-gets-currentLevel-before-addEvent", strings.Join(dl.Args, ","))
				chk(add.Args[1] == callKeyOf(dl), "addEvent-level-is-determineLevel-result", add.Args[1])
			}
			if good {
				c.Ok("C01.carry", cons+"#"+an.Seq(p, "event", "handleEvent")+"|"+shortCond(p))
			}
		}
		c.Floor("C01.carry", "paths reaching event() in "+name, n, 2)
	}

	// ---- C01.eventlit
	if fn := c.Need("C01.eventlit", "", "AlertNode", "event"); fn != nil {
		eng := &an.Engine{Prog: c.P}
		paths, err := eng.Run(fn)
		if err != nil {
			c.Undecided("C01.eventlit", "AlertNode.event", fn.Decl.Pos(), "%v", err)
		}
		want := map[string]int{"State.ID": 0, "State.Level": 5, "State.Time": 6, "State.Duration": 7, "Data.Name": 1, "Data.Group": 2, "Data.Tags": 3, "Data.Fields": 4, "Data.Result": 8}
		found := 0
		for _, p := range paths {
			if len(p.Rets) != 2 || p.Rets[1] != "nil" {
				continue
			}
			// resolve the returned expression to the composite literal
			lit := resolveLit(fn, p.RetX[0])
			if lit == nil {
				c.Undecided("C01.eventlit", "AlertNode.event", p.RetPos, "returned event is not a composite literal")
				continue
			}
			found++
			fl := an.FlattenLit(lit)
			for path, idx := range want {
				x, ok := fl[path]
				pn := an.ParamName(fn.Decl.Type, idx)
				k := ""
				if ok {
					k = p.Key(eng, x)
				}
				okk := ok && (k == pn || k == "string("+pn+")")
				c.Check(okk, "C01.eventlit", "AlertNode.event#"+path, lit.Pos(), "%s must carry parameter %q, carries %q", path, pn, k)
			}
			x := fl["Data.Recoverable"]
			good := false
			if u, ok := x.(*ast.UnaryExpr); ok && u.Op == token.NOT && an.FieldSel(info, u.X, "AlertNodeData", "NoRecoveriesFlag") {
				good = true
			}
			c.Check(good, "C01.eventlit", "AlertNode.event#Data.Recoverable", lit.Pos(), "Data.Recoverable must be !NoRecoveriesFlag")
		}
		c.Floor("C01.eventlit", "success returns of event()", found, 1)
	}

	// ---- C01.book
	if fn := c.Need("C01.book", "", "alertState", "addEvent"); fn != nil {
		eng := &an.Engine{Prog: c.P,
			TrackCall: func(call *ast.CallExpr, callee *types.Func) string {
				if callee != nil && (callee.Name() == "updateExpired" || callee.Name() == "updateFlapping") && core.RecvTypeName(callee) == "alertState" {
					return callee.Name()
				}
				return ""
			},
			TrackStore: func(lhs ast.Expr, key string) string {
				for _, f := range []string{"changed", "idx"} {
					if an.FieldSel(info, lhs, "alertState", f) {
						return f
					}
				}
				if ix, ok := ast.Unparen(lhs).(*ast.IndexExpr); ok && an.FieldSel(info, ix.X, "alertState", "history") {
					return "history[]"
				}
				return ""
			}}
		paths, err := eng.Run(fn)
		if err != nil {
			c.Undecided("C01.book", "alertState.addEvent", fn.Decl.Pos(), "%v", err)
		}
		lvl := an.ParamName(fn.Decl.Type, 1)
		tm := an.ParamName(fn.Decl.Type, 0)
		for _, p := range paths {
			w := p.Word()
			ch, ix, hs, ue := p.Index("changed"), p.Index("idx"), p.Index("history[]"), p.Index("updateExpired")
			ordered := ch >= 0 && ix >= 0 && hs >= 0 && ue >= 0 && ch < ix && ix < hs && hs < ue
			c.Check(ordered, "C01.book", "alertState.addEvent#order", fn.Decl.Pos(), "expected store changed < store idx < store history[idx] < updateExpired on every path, got [%s]", w)
			if ch >= 0 {
				v := p.Events[ch].Args[0]
				// compares the element at the *pre-increment* index with the new level
				good := strings.Contains(v, ".history[") && strings.Contains(v, ".idx]") && !strings.Contains(v, ".idx#") && strings.Contains(v, "!= "+lvl+")")
				c.Check(good, "C01.book", "alertState.addEvent#changed-value", p.Events[ch].Pos, "changed must be history[idx(before the increment)] != %s, is %s", lvl, v)
			}
			if hs >= 0 {
				ev := p.Events[hs]
				good := ev.Args[0] == lvl && strings.Contains(ev.Recv, ".idx#")
				c.Check(good, "C01.book", "alertState.addEvent#history-store", ev.Pos, "the new level %s must be stored at the incremented index; stores %s into %s", lvl, ev.Args[0], ev.Recv)
			}
			if ue >= 0 {
				c.Check(len(p.Events[ue].Args) == 1 && p.Events[ue].Args[0] == tm, "C01.book", "alertState.addEvent#updateExpired-time", p.Events[ue].Pos, "updateExpired must get the event time %s", tm)
			}
		}
	}

	// ---- C01.writers
	{
		allowed := map[string]map[string]bool{
			"lastTriggered":  {"triggered": true},
			"firstTriggered": {"triggered": true, "addEvent": true},
			"history":        {"addEvent": true},
			"idx":            {"addEvent": true},
			"changed":        {"addEvent": true},
			"expired":        {"updateExpired": true},
			"flapping":       {"updateFlapping": true},
		}
		writers := fieldWriters(pkg.TypesInfo, core.AllFuncs(pkg), "alertState")
		n := 0
		for f, allow := range allowed {
			ws := writers[f]
			n += len(ws)
			if len(ws) == 0 {
				c.Fail("C01.writers", "alertState."+f, token.NoPos, "no store to the field found: the bookkeeping field is never updated")
				continue
			}
			for _, w := range ws {
				c.Check(allow[w.fn], "C01.writers", "alertState."+f+"<-"+w.fn, w.pos, "field %s written outside its designated writer(s)", f)
			}
		}
		c.Floor("C01.writers", "field stores", n, 7)
	}

	// ---- C01.seed
	if fn := c.Need("C01.seed", "", "AlertNode", "restoreEventState"); fn != nil {
		eng := &an.Engine{Prog: c.P, Classify: alertClassify(info),
			TrackCall: func(call *ast.CallExpr, callee *types.Func) string {
				if callee != nil && core.RecvTypeName(callee) == "alertState" && (callee.Name() == "addEvent" || callee.Name() == "triggered") {
					return callee.Name()
				}
				if callee != nil && callee.Name() == "restoreEvent" {
					return "restoreEvent"
				}
				return ""
			}}
		paths, err := eng.Run(fn)
		if err != nil {
			c.Undecided("C01.seed", "AlertNode.restoreEventState", fn.Decl.Pos(), "%v", err)
		}
		an.CheckTable(c, "C01.seed", "AlertNode.restoreEventState", paths, an.Table{Atoms: []string{"ok"},
			Outcome: func(p *an.Path) string { return an.Seq(p, "addEvent", "triggered") },
			Expect: func(a map[string]bool) string {
				if a["ok"] {
					return ""
				}
				return "addEvent,triggered"
			}})
		for _, p := range paths {
			if add := p.Find("addEvent"); add != nil {
				good := len(add.Args) == 2 && an.CallResultOf(add.Args[1], "restoreEvent", 0)
				c.Check(good, "C01.seed", "AlertNode.restoreEventState#level", add.Pos, "the seeded level must be restoreEvent's level, is %v", add.Args)
				if tr := p.Find("triggered"); tr != nil {
					c.Check(len(tr.Args) == 1 && an.CallResultOf(tr.Args[0], "restoreEvent", 1), "C01.seed", "AlertNode.restoreEventState#time", tr.Pos, "triggered must get restoreEvent's time, gets %v", tr.Args)
				}
			}
		}
	}

	// ---- C01.level
	if fn := needEither(c, "C01.level", "", []string{"alertState", "AlertNode"}, "determineLevel"); fn != nil {
		cur := an.ParamName(fn.Decl.Type, 1)
		searchKind := func(key string) string {
			// key of a findFirstMatchLevel call result: …findFirstMatchLevel(start, stop, p).i
			i := strings.Index(key, "findFirstMatchLevel(")
			if i < 0 {
				return ""
			}
			args := key[i+len("findFirstMatchLevel("):]
			switch {
			case strings.HasPrefix(args, "alert.Critical,"):
				return "up"
			case strings.HasPrefix(args, cur+","):
				return "down"
			}
			return ""
		}
		eng := &an.Engine{Prog: c.P,
			TrackCall: func(call *ast.CallExpr, callee *types.Func) string {
				if callee != nil && (callee.Name() == "findFirstMatchLevel" || callee.Name() == "EvalPredicate") {
					return callee.Name()
				}
				return ""
			},
			Classify: func(a an.Atom) (string, bool) {
				if k := searchKind(a.Key); k != "" && strings.HasSuffix(a.Key, ").1") {
					return k, false
				}
				if k, ok := an.ErrNilAtom(info, a); ok && an.CallResultOf(k, "EvalPredicate", 1) {
					return "rerr", true
				}
				if a.Op == token.EQL && a.R == "nil" && strings.HasSuffix(a.L, "["+cur+"]") && c01ExprRole(c, a.L) == "levelResets" {
					return "reset", true
				}
				if an.CallResultOf(a.Key, "EvalPredicate", 0) {
					return "pass", false
				}
				return "", false
			}}
		paths, err := eng.Run(fn)
		if err != nil {
			c.Undecided("C01.level", "AlertNode.determineLevel", fn.Decl.Pos(), "%v", err)
		}
		an.CheckTable(c, "C01.level", "AlertNode.determineLevel", paths, an.Table{Atoms: []string{"up", "reset", "rerr", "pass", "down"},
			Outcome: func(p *an.Path) string {
				if len(p.Rets) != 1 {
					return "?"
				}
				r := p.Rets[0]
				switch {
				case r == cur:
					return "cur"
				case r == "alert.OK":
					return "OK"
				case strings.HasSuffix(r, ").0") && searchKind(r) != "":
					return searchKind(r)
				}
				return r
			},
			Expect: func(a map[string]bool) string {
				switch {
				case a["up"]:
					return "up"
				case a["reset"] && !a["rerr"] && !a["pass"]:
					return "cur"
				case a["down"]:
					return "down"
				}
				return "OK"
			}})
		// provenance of the search bounds and of the reset expression (not their arithmetic)
		for _, p := range paths {
			for _, ev := range p.Events {
				if ev.Name == "findFirstMatchLevel" && len(ev.Args) == 3 {
					up := ev.Args[0] == "alert.Critical"
					if up {
						c.Check(strings.Contains(ev.Args[1], cur), "C01.level", "AlertNode.determineLevel#up-bound", ev.Pos, "the upward search must be bounded by the current level, bound is %s", ev.Args[1])
					} else {
						c.Check(ev.Args[0] == cur && ev.Args[1] == "alert.OK", "C01.level", "AlertNode.determineLevel#down-bounds", ev.Pos, "the downward search must run from the current level to OK, runs %s..%s", ev.Args[0], ev.Args[1])
					}
				}
				if ev.Name == "EvalPredicate" && len(ev.Args) == 3 {
					c.Check(strings.HasSuffix(ev.Args[0], "["+cur+"]") && c01ExprRole(c, ev.Args[0]) == "levelResets" && strings.HasSuffix(ev.Args[1], ".lrScopePools["+cur+"]"), "C01.level", "AlertNode.determineLevel#reset-expr", ev.Pos,
						"the reset expression and its scope pool must be those of the current level, are %s / %s", ev.Args[0], ev.Args[1])
				}
			}
		}
	}

	// ---- C01.match
	if fn := needEither(c, "C01.match", "", []string{"alertState", "AlertNode"}, "findFirstMatchLevel"); fn != nil {
		eng := &an.Engine{Prog: c.P,
			TrackCall: func(call *ast.CallExpr, callee *types.Func) string {
				if callee != nil && callee.Name() == "EvalPredicate" {
					return "EvalPredicate"
				}
				return ""
			},
			Classify: func(a an.Atom) (string, bool) {
				if k, ok := an.ErrNilAtom(info, a); ok && an.CallResultOf(k, "EvalPredicate", 1) {
					return "err", true
				}
				if an.CallResultOf(a.Key, "EvalPredicate", 0) {
					return "pass", false
				}
				return "", false
			}}
		paths, err := eng.Run(fn)
		if err != nil {
			c.Undecided("C01.match", "AlertNode.findFirstMatchLevel", fn.Decl.Pos(), "%v", err)
		}
		matches := 0
		for _, p := range paths {
			if len(p.Rets) != 2 {
				continue
			}
			if p.Rets[1] == "true" {
				matches++
				a := p.Assign()
				ev := p.Find("EvalPredicate")
				good := ev != nil && a["pass"] && !a["err"]
				c.Check(good, "C01.match", "AlertNode.findFirstMatchLevel#match-needs-pass", p.RetPos, "a match is reported on a path where the level's expression did not evaluate to true without error: [%s]", p.Cond())
				if ev != nil && len(ev.Args) == 3 {
					// n.levels[l] evaluated with n.scopePools[l]; returned level is that l
					lv := ""
					if i := strings.LastIndex(ev.Args[0], "["); i >= 0 && c01ExprRole(c, ev.Args[0]) == "levels" {
						lv = strings.TrimSuffix(ev.Args[0][i+1:], "]")
					}
					good := lv != "" && strings.HasSuffix(ev.Args[1], ".scopePools["+lv+"]") && (p.Rets[0] == lv || p.Rets[0] == "alert.Level("+lv+")")
					c.Check(good, "C01.match", "AlertNode.findFirstMatchLevel#same-level", p.RetPos, "expression %s, scope pool %s and returned level %s must belong to one level", ev.Args[0], ev.Args[1], p.Rets[0])
				}
			} else if p.Rets[1] == "false" {
				c.Check(p.Rets[0] == "alert.OK", "C01.match", "AlertNode.findFirstMatchLevel#nomatch", p.RetPos, "no match must return OK,false; returns %s", p.Rets[0])
			} else {
				c.Fail("C01.match", "AlertNode.findFirstMatchLevel#found-flag", p.RetPos, "the found flag is not a constant on path [%s]: %s", p.Cond(), p.Rets[1])
			}
			// an evaluation error must not end the search with a result
			for _, e := range p.Events {
				if e.Kind == "break" {
					c.Fail("C01.match", "AlertNode.findFirstMatchLevel#break", e.Pos, "the search loop is left early without a match")
				}
			}
		}
		c.Floor("C01.match", "matching return paths", matches, 1)
	}

	// ---- C01.episode
	if fn := c.Need("C01.episode", "", "alertState", "triggered"); fn != nil {
		eng := &an.Engine{Prog: c.P,
			TrackStore: func(lhs ast.Expr, key string) string {
				for _, f := range []string{"lastTriggered", "firstTriggered"} {
					if an.FieldSel(info, lhs, "alertState", f) {
						return f
					}
				}
				return ""
			},
			Classify: func(a an.Atom) (string, bool) {
				if a.Op == token.EQL && a.LX != nil && an.ConstNamed(info, a.RX, "alert", "OK") {
					if ix, ok := ast.Unparen(a.LX).(*ast.IndexExpr); ok && an.FieldSel(info, ix.X, "alertState", "history") {
						if strings.HasSuffix(a.L, ".idx]") {
							return "curok", false // the element at the current index (inhibitor state), not the previous one
						}
						return "prevok", false
					}
				}
				return "", false
			}}
		paths, err := eng.Run(fn)
		if err != nil {
			c.Undecided("C01.episode", "alertState.triggered", fn.Decl.Pos(), "%v", err)
		}
		t := an.ParamName(fn.Decl.Type, 0)
		an.CheckTable(c, "C01.episode", "alertState.triggered", paths, an.Table{Atoms: []string{"prevok"},
			Outcome: func(p *an.Path) string {
				var s []string
				for _, e := range p.Events {
					if e.Kind == "store" {
						s = append(s, e.Name+"="+e.Args[0])
					}
				}
				return strings.Join(s, ",")
			},
			Expect: func(a map[string]bool) string {
				if a["prevok"] {
					return "lastTriggered=" + t + ",firstTriggered=" + t
				}
				return "lastTriggered=" + t
			}})
		// the history element tested is the slot before the current index: idx-1, or the last slot exactly when idx-1 is negative
		slotGood, slotN := true, 0
		rv := an.RecvVarName(fn.Decl)
		for _, p := range paths {
			wrapped, wrapDecided := false, false
			prevKey := ""
			for _, l := range p.Lits {
				switch {
				case l.Key == "("+rv+".idx - 1) == -1" || l.Key == "("+rv+".idx - 1) < 0":
					wrapped, wrapDecided = l.Val, true
				case l.Name == "prevok":
					prevKey = l.Key
				}
			}
			if prevKey == "" {
				continue
			}
			slotN++
			want := rv + ".history[(" + rv + ".idx - 1)] == alert.OK"
			if wrapped {
				want = rv + ".history[(len(" + rv + ".history) - 1)] == alert.OK"
			}
			if !wrapDecided || prevKey != want {
				slotGood = false
				c.Fail("C01.episode", "alertState.triggered#previous-slot", p.RetPos, "the start of an incident is decided from %s; the previous history slot is idx-1, and the last slot exactly when idx-1 is -1 (path: %s): looking at another slot resets, or keeps, firstTriggered wrongly and the reported duration is off", prevKey, p.Cond())
			}
		}
		if slotGood && slotN > 0 {
			c.Ok("C01.episode", "alertState.triggered#previous-slot")
		}
	}

	// ---- C01.episode, addEvent side (F78) and the flapping walk (F77)
	c01EpisodeAddEvent(c, info)
	c01FlapWalk(c, info)

	// ---- C01.batchlevel
	c01BatchLevel(c, info)

	// ---- C01.fanout
	if fn := c.Need("C01.fanout", "", "AlertNode", "handleEvent"); fn != nil {
		eng := &an.Engine{Prog: c.P, Inline: func(*types.Func) bool { return true },
			TrackCall: func(call *ast.CallExpr, callee *types.Func) string {
				if callee != nil && callee.Name() == "Collect" {
					return "Collect"
				}
				return ""
			},
			TrackStore: func(lhs ast.Expr, key string) string {
				if an.FieldSel(info, lhs, "Event", "Topic") {
					return "Topic"
				}
				return ""
			},
			Classify: func(a an.Atom) (string, bool) {
				if a.Call != nil && a.Call.Name() == "IsInhibited" {
					return "inhibited", false
				}
				// the two topic predicates, when they are not one-expression helpers any more (not inlined): by what they are
				if a.Call != nil && a.Call.Name() == "hasAnonTopic" {
					return "anon", false
				}
				if a.Call != nil && a.Call.Name() == "hasTopic" {
					return "topic", false
				}
				if a.Op == token.LSS && a.L == "0" && strings.HasPrefix(a.R, "len(") && strings.HasSuffix(a.R, ".handlers)") {
					return "anon", false
				}
				if a.Op == token.EQL && strings.HasSuffix(a.L, ".topic") && a.R == `""` {
					return "topic", true
				}
				return "", false
			}}
		paths, err := eng.Run(fn)
		if err != nil {
			c.Undecided("C01.fanout", "AlertNode.handleEvent", fn.Decl.Pos(), "%v", err)
		}
		recv := an.RecvVarName(fn.Decl)
		evp := an.ParamName(fn.Decl.Type, 0)
		an.CheckTable(c, "C01.fanout", "AlertNode.handleEvent", paths, an.Table{Atoms: []string{"inhibited", "anon", "topic"},
			Outcome: func(p *an.Path) string {
				var s []string
				for _, e := range p.Events {
					switch {
					case e.Kind == "store":
						s = append(s, "Topic="+e.Args[0])
					case e.Name == "Collect":
						s = append(s, "Collect("+strings.Join(e.Args, ",")+")")
					}
				}
				return strings.Join(s, ",")
			},
			Expect: func(a map[string]bool) string {
				if a["inhibited"] {
					return ""
				}
				var s []string
				if a["anon"] {
					s = append(s, "Topic="+recv+".anonTopic,Collect("+evp+")")
				}
				if a["topic"] {
					s = append(s, "Topic="+recv+".topic,Collect("+evp+")")
				}
				return strings.Join(s, ",")
			}})
	}
}

// levelOperandKey returns the key of the non-constant operand of `x == alert.OK`.
func levelOperandKey(info *types.Info, eng *an.Engine, p *an.Path, be *ast.BinaryExpr) string {
	x := be.X
	if an.ConstNamed(info, be.X, "alert", "OK") {
		x = be.Y
	}
	// the atom was decided when it was met; locals may have been re-bound since,
	// so the comparison is only meaningful when the operand is not re-assigned later.
	return p.Key(eng, x)
}

func callKeyOf(ev *an.Event) string {
	recv := ev.Recv
	if recv != "" {
		recv += "."
	}
	return recv + ev.Name + "(" + strings.Join(ev.Args, ", ") + ")"
}

func shortCond(p *an.Path) string {
	var s []string
	for _, l := range p.Lits {
		if l.Name != "" {
			if l.Val {
				s = append(s, l.Name)
			} else {
				s = append(s, "!"+l.Name)
			}
		}
	}
	return strings.Join(s, ",")
}

// resolveLit follows `return x, nil` where x is a local assigned a composite literal once.
func resolveLit(fn *core.Func, x ast.Expr) ast.Expr {
	x = ast.Unparen(x)
	if _, ok := x.(*ast.CompositeLit); ok {
		return x
	}
	id, ok := x.(*ast.Ident)
	if !ok {
		return nil
	}
	obj := fn.Pkg.TypesInfo.Uses[id]
	var found ast.Expr
	n := 0
	ast.Inspect(fn.Decl.Body, func(nd ast.Node) bool {
		if as, ok := nd.(*ast.AssignStmt); ok {
			for i, l := range as.Lhs {
				if lid, ok := l.(*ast.Ident); ok && (fn.Pkg.TypesInfo.Defs[lid] == obj || fn.Pkg.TypesInfo.Uses[lid] == obj) && len(as.Rhs) == len(as.Lhs) {
					n++
					found = as.Rhs[i]
				}
			}
		}
		return true
	})
	if n == 1 {
		if _, ok := ast.Unparen(found).(*ast.CompositeLit); ok {
			return ast.Unparen(found)
		}
	}
	return nil
}

type writer struct {
	fn  string
	pos token.Pos
}

// fieldWriters lists, per field of the named struct, the functions that assign it
// (plain assignment, op=, ++/--, element stores through the field).
func fieldWriters(info *types.Info, funcs []*core.Func, typ string) map[string][]writer {
	out := map[string][]writer{}
	for _, f := range funcs {
		rec := func(l ast.Expr) {
			for {
				switch x := ast.Unparen(l).(type) {
				case *ast.IndexExpr:
					l = x.X
					continue
				case *ast.StarExpr:
					l = x.X
					continue
				}
				break
			}
			sel, ok := ast.Unparen(l).(*ast.SelectorExpr)
			if !ok {
				return
			}
			if an.FieldSel(info, sel, typ, sel.Sel.Name) {
				out[sel.Sel.Name] = append(out[sel.Sel.Name], writer{f.Decl.Name.Name, sel.Pos()})
			}
		}
		ast.Inspect(f.Decl.Body, func(n ast.Node) bool {
			switch x := n.(type) {
			case *ast.AssignStmt:
				for _, l := range x.Lhs {
					rec(l)
				}
			case *ast.IncDecStmt:
				rec(x.X)
			case *ast.UnaryExpr:
				if x.Op == token.AND { // address taken: a potential writer
					if sel, ok := ast.Unparen(x.X).(*ast.SelectorExpr); ok && an.FieldSel(info, sel, typ, sel.Sel.Name) {
						out[sel.Sel.Name] = append(out[sel.Sel.Name], writer{f.Decl.Name.Name + "(&)", sel.Pos()})
					}
				}
			}
			return true
		})
	}
	return out
}

// c01Pools: expression/scope-pool pairing in newAlertNode.
func c01Pools(c *core.Ctx, info *types.Info) {
	fn := c.Need("C01.pools", "", "", "newAlertNode")
	if fn == nil {
		return
	}
	slotOf := func(lhs ast.Expr) (string, ast.Expr) {
		ix, ok := ast.Unparen(lhs).(*ast.IndexExpr)
		if !ok {
			return "", nil
		}
		for _, f := range []string{"levels", "scopePools", "levelResets", "lrScopePools"} {
			if an.FieldSel(info, ix.X, "AlertNode", f) {
				return f, ix.Index
			}
		}
		return "", nil
	}
	// flow-insensitive within nested blocks: a local is resolved to the call that defined it in an enclosing block
	type store struct {
		name, idx, val string
		pos            token.Pos
	}
	var stores []store
	var walk func(list []ast.Stmt, env map[types.Object]string)
	walk = func(list []ast.Stmt, env map[types.Object]string) {
		local := map[types.Object]string{}
		for k, v := range env {
			local[k] = v
		}
		for _, st := range list {
			switch x := st.(type) {
			case *ast.AssignStmt:
				if len(x.Rhs) == 1 {
					if call, ok := ast.Unparen(x.Rhs[0]).(*ast.CallExpr); ok {
						if id, ok := x.Lhs[0].(*ast.Ident); ok {
							obj := info.Defs[id]
							if obj == nil {
								obj = info.Uses[id]
							}
							if obj != nil {
								local[obj] = types.ExprString(call)
							}
						}
					}
				}
				for i, l := range x.Lhs {
					f, idx := slotOf(l)
					if f == "" || i >= len(x.Rhs) {
						continue
					}
					val := types.ExprString(x.Rhs[i])
					if id, ok := ast.Unparen(x.Rhs[i]).(*ast.Ident); ok {
						if v, ok := local[info.Uses[id]]; ok {
							val = v
						}
					}
					stores = append(stores, store{f, types.ExprString(idx), val, x.Pos()})
				}
			case *ast.IfStmt:
				if x.Init != nil {
					walk([]ast.Stmt{x.Init}, local)
				}
				walk(x.Body.List, local)
				if x.Else != nil {
					walk([]ast.Stmt{x.Else}, local)
				}
			case *ast.BlockStmt:
				walk(x.List, local)
			case *ast.ForStmt:
				walk(x.Body.List, local)
			case *ast.RangeStmt:
				walk(x.Body.List, local)
			}
		}
	}
	walk(fn.Decl.Body.List, map[types.Object]string{})
	inner := func(v, head string) string {
		i := strings.Index(v, head)
		if i < 0 {
			return ""
		}
		r := v[i+len(head):]
		// up to the matching parenthesis
		depth := 1
		for j, ch := range r {
			switch ch {
			case '(':
				depth++
			case ')':
				depth--
				if depth == 0 {
					return r[:j]
				}
			}
		}
		return ""
	}
	type slot struct {
		expr, pool string
		pos        token.Pos
	}
	n := 0
	pairs := map[string]*slot{}
	for _, e := range stores {
		fam := "level"
		if e.name == "levelResets" || e.name == "lrScopePools" {
			fam = "reset"
		}
		k := fam + "[" + e.idx + "]"
		if pairs[k] == nil {
			pairs[k] = &slot{}
		}
		switch e.name {
		case "levels", "levelResets":
			pairs[k].expr = inner(e.val, "stateful.NewExpression(")
		default:
			pairs[k].pool = inner(e.val, "ast.FindReferenceVariables(")
		}
		pairs[k].pos = e.pos
	}
	for _, k := range an.SortedKeys(pairs) {
		s := pairs[k]
		if s.expr == "" || s.pool == "" {
			c.Fail("C01.pools", "newAlertNode#"+k, s.pos, "expression and scope pool are not both stored for this level (expression from %q, pool from %q)", s.expr, s.pool)
			continue
		}
		n++
		c.Check(s.expr == s.pool, "C01.pools", "newAlertNode#"+k, s.pos, "the scope pool is built from the reference variables of %s but the expression evaluated with it is compiled from %s", s.pool, s.expr)
	}
	c.Floor("C01.pools", "expression/pool pairs", n, 6)
}

func c01Flap(c *core.Ctx, info *types.Info) {
	fn := c.Need("C01.flap", "", "alertState", "updateFlapping")
	if fn == nil {
		return
	}
	eng := &an.Engine{Prog: c.P,
		TrackStore: func(lhs ast.Expr, key string) string {
			if an.FieldSel(info, lhs, "alertState", "flapping") {
				return "flapping"
			}
			return ""
		},
		Classify: func(a an.Atom) (string, bool) {
			switch {
			case an.FieldSel(info, a.Expr, "alertState", "flapping"):
				return "flap", false
			case an.FieldSel(info, a.Expr, "AlertNodeData", "UseFlapping"):
				return "use", false
			case a.Op == token.LSS && strings.HasSuffix(a.L, ".percentChange()") && strings.HasSuffix(a.R, ".FlapLow"):
				return "belowLow", false
			case a.Op == token.LSS && strings.HasSuffix(a.R, ".percentChange()") && strings.HasSuffix(a.L, ".FlapHigh"):
				return "aboveHigh", false
			}
			return "", false
		}}
	paths, err := eng.Run(fn)
	if err != nil {
		c.Undecided("C01.flap", "alertState.updateFlapping", fn.Decl.Pos(), "%v", err)
		return
	}
	an.CheckTable(c, "C01.flap", "alertState.updateFlapping", paths, an.Table{Atoms: []string{"use", "flap", "belowLow", "aboveHigh"},
		Outcome: func(p *an.Path) string {
			var s []string
			for _, e := range p.Events {
				if e.Kind == "store" {
					s = append(s, "flapping="+e.Args[0])
				}
			}
			return strings.Join(s, ",")
		},
		Expect: func(a map[string]bool) string {
			switch {
			case !a["use"]:
				return ""
			case a["flap"] && a["belowLow"]:
				return "flapping=false"
			case !a["flap"] && a["aboveHigh"]:
				return "flapping=true"
			}
			return ""
		}})
}

// needEither: the anchor function on the first receiver type that declares it (a method may move between the node and
// its per-group state without changing what the rule decides).
func needEither(c *core.Ctx, rule, rel string, recvs []string, name string) *core.Func {
	for _, r := range recvs[:len(recvs)-1] {
		if c.P.FindFunc(rel, r, name) != nil {
			return c.Need(rule, rel, r, name)
		}
	}
	return c.Need(rule, rel, recvs[len(recvs)-1], name)
}

// c01ExprRole: which node-level expression table ("levels" or "levelResets") the key X.F[i] reads: F is that table
// itself, or a per-group field that newAlertState fills with an index-preserving CopyReset copy of it.
func c01ExprRole(c *core.Ctx, key string) string {
	i := strings.LastIndex(key, "[")
	if i < 0 {
		return ""
	}
	base := key[:i]
	f := base[strings.LastIndex(base, ".")+1:]
	if f == "levels" && strings.HasSuffix(base, ".n.levels") || f == "levelResets" {
		return f
	}
	if src := c01PerGroupSources(c)[f]; src != "" {
		return src
	}
	if f == "levels" {
		return f
	}
	return ""
}

var c01SrcCache map[string]string

// c01PerGroupSources: alertState field → AlertNode field it copies, read from the literal in newAlertState
// (`f: helper(n.X)` where helper CopyResets every element of its parameter into the same index).
func c01PerGroupSources(c *core.Ctx) map[string]string {
	if c01SrcCache != nil {
		return c01SrcCache
	}
	c01SrcCache = map[string]string{}
	fn := c.P.FindFunc("", "AlertNode", "newAlertState")
	if fn == nil {
		return c01SrcCache
	}
	info := fn.Pkg.TypesInfo
	ast.Inspect(fn.Decl.Body, func(n ast.Node) bool {
		kv, ok := n.(*ast.KeyValueExpr)
		if !ok {
			return true
		}
		call, ok := kv.Value.(*ast.CallExpr)
		if !ok || len(call.Args) != 1 {
			return true
		}
		g := core.Callee(info, call)
		if g == nil || !c06CopyOnlyParam(c, info, g, 0) || !c01IndexPreserving(c, info, g) {
			return true
		}
		if sel, ok := call.Args[0].(*ast.SelectorExpr); ok && (an.FieldSel(info, sel, "AlertNode", "levels") || an.FieldSel(info, sel, "AlertNode", "levelResets")) {
			c01SrcCache[types.ExprString(kv.Key)] = sel.Sel.Name
		}
		return true
	})
	return c01SrcCache
}

// c01IndexPreserving: g stores the copy of element i at index i of what it returns (`out[i] = e.CopyReset()` with i, e of one range).
func c01IndexPreserving(c *core.Ctx, info *types.Info, g *types.Func) bool {
	d := declOfFunc(c.P, g)
	if d == nil {
		return false
	}
	ok := false
	ast.Inspect(d.Decl.Body, func(n ast.Node) bool {
		rs, isR := n.(*ast.RangeStmt)
		if !isR || rs.Key == nil || rs.Value == nil {
			return true
		}
		k, v := types.ExprString(rs.Key), types.ExprString(rs.Value)
		ast.Inspect(rs.Body, func(m ast.Node) bool {
			if as, isA := m.(*ast.AssignStmt); isA && len(as.Lhs) == 1 && len(as.Rhs) == 1 {
				if ix, isI := as.Lhs[0].(*ast.IndexExpr); isI && types.ExprString(ix.Index) == k && types.ExprString(as.Rhs[0]) == v+".CopyReset()" {
					ok = true
				}
			}
			return true
		})
		return true
	})
	return ok
}

func c01BatchLevel(c *core.Ctx, info *types.Info) {
	fn := c.Need("C01.batchlevel", "", "alertState", "BufferedBatch")
	if fn == nil {
		return
	}
	// the running variables by role: initialised to alert.Critical (lowest) and alert.OK (highest) before the loop over the points
	var lowObj, highObj types.Object
	var loop *ast.RangeStmt
	ast.Inspect(fn.Decl.Body, func(n ast.Node) bool {
		switch x := n.(type) {
		case *ast.AssignStmt:
			if x.Tok == token.DEFINE && len(x.Lhs) == 1 && len(x.Rhs) == 1 && loop == nil {
				if id, ok := x.Lhs[0].(*ast.Ident); ok {
					switch {
					case an.ConstNamed(info, x.Rhs[0], "alert", "Critical"):
						lowObj = info.Defs[id]
					case an.ConstNamed(info, x.Rhs[0], "alert", "OK"):
						highObj = info.Defs[id]
					}
				}
			}
		case *ast.RangeStmt:
			if loop == nil && strings.HasSuffix(types.ExprString(x.X), ".Points()") {
				loop = x
			}
		}
		return true
	})
	if lowObj == nil || highObj == nil || loop == nil {
		c.Fail("C01.batchlevel", "alertState.BufferedBatch#roles", fn.Decl.Pos(), "running lowest (:= alert.Critical) / highest (:= alert.OK) level or the loop over the batch points not found")
		return
	}
	role := func(x ast.Expr) string {
		if id, ok := ast.Unparen(x).(*ast.Ident); ok {
			switch info.Uses[id] {
			case lowObj:
				return "low"
			case highObj:
				return "high"
			}
		}
		return ""
	}
	eng := &an.Engine{Prog: c.P, Info: info,
		TrackStore: func(lhs ast.Expr, key string) string {
			if r := role(lhs); r != "" {
				return r
			}
			if id, ok := ast.Unparen(lhs).(*ast.Ident); ok {
				if v, ok := info.Uses[id].(*types.Var); ok && strings.HasSuffix(v.Type().String(), "BatchPointMessage") {
					return "point"
				}
			}
			return ""
		},
		Classify: func(a an.Atom) (string, bool) {
			switch {
			case a.Op == token.LSS && a.RX != nil && role(a.RX) == "low":
				return "lower", false
			case a.Op == token.LSS && a.LX != nil && role(a.LX) == "high":
				return "higher", false
			case a.Op == token.EQL && a.R == "nil" && a.LX != nil:
				if id, ok := ast.Unparen(a.LX).(*ast.Ident); ok {
					if v, ok := info.Uses[id].(*types.Var); ok && strings.HasSuffix(v.Type().String(), "BatchPointMessage") {
						return "none", false
					}
				}
			}
			return "", false
		}}
	paths, err := eng.RunBody(fn.Decl.Type, fn.Decl.Recv, loop.Body)
	if err != nil {
		c.Undecided("C01.batchlevel", "alertState.BufferedBatch#iteration", loop.Pos(), "%v", err)
		return
	}
	good := len(paths) > 0
	for _, p := range paths {
		a := p.Assign()
		lower, decL := a["lower"]
		higher, decH := a["higher"]
		none := a["none"]
		storesLow, storesHigh, storesPoint := p.Has("low"), p.Has("high"), p.Has("point")
		switch {
		case !decL:
			good = false
			c.Fail("C01.batchlevel", "alertState.BufferedBatch#lowest", p.RetPos, "on a path through one iteration the point's level is not compared with the running lowest level (%s): with all() a batch whose first (or only) point is the lowest raises the wrong level", p.Cond())
		case !decH:
			good = false
			c.Fail("C01.batchlevel", "alertState.BufferedBatch#highest", p.RetPos, "on a path through one iteration the point's level is not compared with the running highest level (%s)", p.Cond())
		case storesLow != lower:
			good = false
			c.Fail("C01.batchlevel", "alertState.BufferedBatch#lowest", p.RetPos, "the running lowest level is stored=%v although level<lowest=%v", storesLow, lower)
		case (storesHigh && storesPoint) != (higher || none) || storesHigh != storesPoint:
			good = false
			c.Fail("C01.batchlevel", "alertState.BufferedBatch#highest", p.RetPos, "the running highest level/point are stored=%v/%v although level>highest=%v, no point yet=%v", storesHigh, storesPoint, higher, none)
		}
	}
	if good {
		c.Ok("C01.batchlevel", "alertState.BufferedBatch#iteration")
	}
}

// c01EpisodeAddEvent: F78. The incident starts with the event that leaves OK, whether or not that event is sent (flapping and
// stateChangesOnly withhold events): addEvent stores firstTriggered = t exactly when the level before this event (history at the
// not yet advanced idx) is OK and the new level is not.
func c01EpisodeAddEvent(c *core.Ctx, info *types.Info) {
	fn := c.Need("C01.episode", "", "alertState", "addEvent")
	if fn == nil {
		return
	}
	t, lvl := an.ParamName(fn.Decl.Type, 0), an.ParamName(fn.Decl.Type, 1)
	eng := &an.Engine{Prog: c.P,
		TrackStore: func(lhs ast.Expr, key string) string {
			switch {
			case an.FieldSel(info, lhs, "alertState", "firstTriggered"):
				return "firstTriggered"
			case an.FieldSel(info, lhs, "alertState", "idx"):
				return "idx"
			}
			return ""
		},
		Classify: func(a an.Atom) (string, bool) {
			isOK := func(x ast.Expr) bool { return x != nil && an.ConstNamed(info, x, "alert", "OK") }
			if a.LX != nil && isOK(a.RX) {
				if ix, ok := ast.Unparen(a.LX).(*ast.IndexExpr); ok && an.FieldSel(info, ix.X, "alertState", "history") && a.Op == token.EQL {
					if strings.Contains(a.L, ".idx#") {
						return "other-slot", false // read after idx was advanced: that is the new level
					}
					return "prevok", false
				}
				if a.L == lvl {
					switch a.Op {
					case token.NEQ:
						return "nonok", false
					case token.EQL:
						return "nonok", true
					}
				}
			}
			return "", false
		}}
	paths, err := eng.Run(fn)
	if err != nil {
		c.Undecided("C01.episode", "alertState.addEvent#leaves-ok", fn.Decl.Pos(), "%v", err)
		return
	}
	an.CheckTable(c, "C01.episode", "alertState.addEvent#leaves-ok", paths, an.Table{Atoms: []string{"prevok", "nonok"},
		Outcome: func(p *an.Path) string {
			for i, e := range p.Events {
				if e.Kind == "store" && e.Name == "firstTriggered" {
					after := false
					for _, b := range p.Events[:i] {
						if b.Kind == "store" && b.Name == "idx" {
							after = true
						}
					}
					if after {
						return "firstTriggered stored after idx moved"
					}
					return "firstTriggered=" + e.Args[0]
				}
			}
			return ""
		},
		Expect: func(a map[string]bool) string {
			if a["prevok"] && a["nonok"] {
				return "firstTriggered=" + t
			}
			return ""
		}})
}

// c01FlapWalk: F77. percentChange walks the history ring comparing neighbours. With idx the newest slot, the pairs are
// (k, k-1) for k = idx+2 … idx+l (mod l): every pair of neighbours once, oldest first (the weight grows with i), and never the
// pair (oldest, newest), which are not neighbours in time. The index expression is evaluated by the checker for every ring size
// 2…7, every idx and every i — a finite enumeration of one integer expression, not a run of the code.
func c01FlapWalk(c *core.Ctx, info *types.Info) {
	fn := c.Need("C01.flapwalk", "", "alertState", "percentChange")
	if fn == nil {
		return
	}
	var loop *ast.ForStmt
	ast.Inspect(fn.Decl.Body, func(nd ast.Node) bool {
		if fs, ok := nd.(*ast.ForStmt); ok && loop == nil {
			loop = fs
		}
		return true
	})
	if loop == nil || loop.Init == nil {
		c.Undecided("C01.flapwalk", "alertState.percentChange#walk", fn.Decl.Pos(), "the loop over the history was not found")
		return
	}
	// the loop variable, the two index locals (defined in the body, in order), the ring length local
	var iv types.Object
	if as, ok := loop.Init.(*ast.AssignStmt); ok && len(as.Lhs) == 1 {
		if id, ok := as.Lhs[0].(*ast.Ident); ok {
			iv = info.Defs[id]
		}
	}
	var defs []*ast.AssignStmt
	for _, st := range loop.Body.List {
		if as, ok := st.(*ast.AssignStmt); ok && as.Tok == token.DEFINE && len(as.Lhs) == 1 && len(as.Rhs) == 1 {
			defs = append(defs, as)
		}
	}
	if iv == nil || len(defs) < 2 {
		c.Undecided("C01.flapwalk", "alertState.percentChange#walk", loop.Pos(), "loop variable or the two index definitions not found")
		return
	}
	cur, prev := info.Defs[defs[0].Lhs[0].(*ast.Ident)], info.Defs[defs[1].Lhs[0].(*ast.Ident)]
	// which of the two is compared as history[x] != history[y]
	var eval func(e ast.Expr, env map[types.Object]int, idx, l int) (int, bool)
	eval = func(e ast.Expr, env map[types.Object]int, idx, l int) (int, bool) {
		switch x := ast.Unparen(e).(type) {
		case *ast.BasicLit:
			if tv, ok := info.Types[x]; ok && tv.Value != nil {
				var n int
				if _, err := fmt.Sscan(tv.Value.String(), &n); err == nil {
					return n, true
				}
			}
		case *ast.Ident:
			if v, ok := env[info.Uses[x]]; ok {
				return v, true
			}
		case *ast.SelectorExpr:
			if an.FieldSel(info, x, "alertState", "idx") {
				return idx, true
			}
		case *ast.CallExpr:
			if core.IsBuiltin(info, x, "len") && len(x.Args) == 1 && an.FieldSel(info, x.Args[0], "alertState", "history") {
				return l, true
			}
		case *ast.BinaryExpr:
			a, ok1 := eval(x.X, env, idx, l)
			b, ok2 := eval(x.Y, env, idx, l)
			if !ok1 || !ok2 {
				return 0, false
			}
			switch x.Op {
			case token.ADD:
				return a + b, true
			case token.SUB:
				return a - b, true
			case token.MUL:
				return a * b, true
			case token.REM:
				if b == 0 {
					return 0, false
				}
				return a % b, true
			}
		}
		return 0, false
	}
	// the ring length local (l := len(a.history)) if any
	var lv types.Object
	ast.Inspect(fn.Decl.Body, func(nd ast.Node) bool {
		if as, ok := nd.(*ast.AssignStmt); ok && as.Tok == token.DEFINE && len(as.Lhs) == 1 && len(as.Rhs) == 1 {
			if call, ok := as.Rhs[0].(*ast.CallExpr); ok && core.IsBuiltin(info, call, "len") {
				lv = info.Defs[as.Lhs[0].(*ast.Ident)]
			}
		}
		return true
	})
	bad := ""
	for l := 2; l <= 7 && bad == ""; l++ {
		for idx := 0; idx < l && bad == ""; idx++ {
			var got [][2]int
			for i := 0; i < l-1; i++ {
				env := map[types.Object]int{iv: i}
				if lv != nil {
					env[lv] = l
				}
				cv, ok := eval(defs[0].Rhs[0], env, idx, l)
				if !ok {
					c.Undecided("C01.flapwalk", "alertState.percentChange#walk", defs[0].Pos(), "the index expression %s is not integer arithmetic over the loop variable, idx and the ring length", types.ExprString(defs[0].Rhs[0]))
					return
				}
				env[cur] = cv
				pv, ok := eval(defs[1].Rhs[0], env, idx, l)
				if !ok {
					c.Undecided("C01.flapwalk", "alertState.percentChange#walk", defs[1].Pos(), "the previous-index expression %s is not integer arithmetic", types.ExprString(defs[1].Rhs[0]))
					return
				}
				if pv < 0 {
					pv = l - 1 // the wrap-around branch of the body
				}
				got = append(got, [2]int{cv, pv})
			}
			for i, g := range got {
				wc := (idx + 2 + i) % l
				wp := (wc - 1 + l) % l
				if g[0] != wc || g[1] != wp {
					bad = fmt.Sprintf("ring of %d with the newest event at slot %d: step %d compares slots (%d, %d), the pairs of neighbours from oldest to newest are (%d, %d) at that step", l, idx, i, g[0], g[1], wc, wp)
					break
				}
			}
		}
	}
	_ = prev
	c.Check(bad == "", "C01.flapwalk", "alertState.percentChange#walk", defs[0].Pos(), "the walk over the alert history does not compare each event with the one before it, oldest pair first (%s): it compares the oldest event with the newest — not a state change — and skips a real pair, so one change is counted twice: crit(v>80).flapping(0.25,0.5).history(4) on 50 50 85 85 85 85 computes 58%% and withholds the first three CRITICAL events as flapping", bad)
}
