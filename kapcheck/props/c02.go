package props

import (
	"go/ast"
	"go/token"
	"go/types"
	"strings"

	"golang.org/x/tools/go/packages"

	"kapcheck/an"
	"kapcheck/core"
)

func init() {
	register(&Property{
		ID:       "C02",
		Patterns: []string{".", "./services/replay", "./services/udp", "./services/httpd"},
		Run:      runC02,
		Explanation: "Stream routing as structure: the routing-table key is built field by field from the same roles at registration (forkKeys: declared db/rp × every from() measurement) and at lookup (forkPoint: the point's own db/rp/name, plus the empty-measurement key); " +
			"every Collect in the fan-out is on an edge found under one of those keys, with the point itself, in loops that are never left early; when two lookups feed one point, the second skips tasks the first already served (single delivery per task edge); " +
			"registration covers every key and removal covers exactly the task's own entry and closes (never aborts) its edge once; the routing tables are only touched under tm.mu; " +
			"FromNode.matches equals its reference table. NOT decided: FIFO order through channel edges under concurrent writers, absence of loss across start/stop interleavings (schedules).",
		Assumptions: []string{"edges are FIFO channels (edge package)", "pipeline.Walk visits every node"},
	})
}

func runC02(c *core.Ctx) {
	c02ForkOwner(c)
	c02ForkNamespace(c)
	c02ReadBuf(c)
	c02BodyIntact(c)
	c.Rule("C02.keys", "A7: forkKey is built from the same roles on both sides: forkKeys{Database←dbrp.Database, RetentionPolicy←dbrp.RetentionPolicy, Measurement←measurement} as the full product dbrps×measurements; forkPoint looks up {p.Database(), p.RetentionPolicy(), p.Name()} and the same with Measurement \"\"; Task.Measurements appends the Measurement of every FromNode")
	c.Rule("C02.collect", "A3/A2: every Collect in forkPoint (and helpers it calls) is on an edge ranged from tm.forks[<one of the two lookup keys>], passes the point itself, and sits in a loop without break/return (an edge error never hides the point from later tasks)")
	c.Rule("C02.single", "A1: when forkPoint collects from more than one lookup, every loop but the first skips task ids present in the first lookup's map before Collect (a task registered under both keys gets the point once)")
	c.Rule("C02.startfork", "A2: F69: on every path of StartTask an error return that follows a successful newFork is preceded by delFork (a task that failed to start is not left subscribed to data nobody reads)")
	c.Rule("C02.register", "A2: newFork registers the task's edge under every key of forkKeys and remembers every key, and the task map published under a key is that key's existing map or one made inside the loop (never shared between keys); delFork visits every remembered key, deletes only the task's own entry, closes (not aborts) the edge at most once and forgets the keys")
	c.Rule("C02.locks", "A5: tm.forks, taskToForkKeys, forkStats, tasks are accessed only with tm.mu held — in the function itself or, for the helpers documented to need it, at every call site")
	c.Rule("C02.matches", "A1: FromNode.matches is true iff no configured selector (db, rp, name) differs from the point's and the where-expression is absent or evaluates without error to true")
	c.Rule("C02.where", "A3: the selection a from() node evaluates is the conjunction of all its where() properties: pipeline.FromNode.Where, when a condition is already set, stores BinaryNode{AND, <the condition set so far>, <the new condition>} (two different operands), otherwise the new lambda")
	c.Rule("C02.ingest", "A2/A7: WritePoints/WriteKapacitorPoint test writesClosed under writesMu before collecting, build the point with (name, database, retentionPolicy) in their roles and collect every point in order into writePointsIn; a collect error is returned")

	root := c.P.Pkg("")
	if root == nil {
		c.Undecided("C02.keys", "anchor:root", token.NoPos, "root package not loaded")
		return
	}
	c02Keys(c, root)
	c02StartFork(c, root)
	c02Collect(c, root)
	c02Register(c, root)
	c02Locks(c, root)
	c02Matches(c, root)
	c02Ingest(c, root)
	c02Where(c)
}

func litFieldsOfType(info *types.Info, body ast.Node, typ string) []*ast.CompositeLit {
	var out []*ast.CompositeLit
	ast.Inspect(body, func(n ast.Node) bool {
		if cl, ok := n.(*ast.CompositeLit); ok {
			if nt := core.NamedOf(info.Types[cl].Type); nt != nil && nt.Obj().Name() == typ {
				out = append(out, cl)
			}
		}
		return true
	})
	return out
}

func c02Keys(c *core.Ctx, root *packages.Package) {
	info := root.TypesInfo
	if fn := c.Need("C02.keys", "", "", "forkKeys"); fn != nil {
		lits := litFieldsOfType(info, fn.Decl.Body, "forkKey")
		c.Check(len(lits) == 1, "C02.keys", "forkKeys#literal", fn.Decl.Pos(), "expected one forkKey literal, found %d", len(lits))
		// the two nested ranges: outer over dbrps (param 0), inner over measurements (param 1)
		var ranges []*ast.RangeStmt
		early := false
		ast.Inspect(fn.Decl.Body, func(n ast.Node) bool {
			switch x := n.(type) {
			case *ast.RangeStmt:
				ranges = append(ranges, x)
			case *ast.BranchStmt:
				early = true
			case *ast.ReturnStmt:
				if len(ranges) > 0 && x.Pos() < ranges[0].End() {
					early = true
				}
			case *ast.IfStmt:
				if len(ranges) > 0 && x.Pos() < ranges[0].End() {
					early = true // a conditional inside the product drops keys
				}
			}
			return true
		})
		p0, p1 := an.ParamName(fn.Decl.Type, 0), an.ParamName(fn.Decl.Type, 1)
		good := len(ranges) == 2 && types.ExprString(ranges[0].X) == p0 && types.ExprString(ranges[1].X) == p1 && ranges[1].Pos() > ranges[0].Pos() && ranges[1].End() <= ranges[0].End() && !early
		c.Check(good, "C02.keys", "forkKeys#full-product", fn.Decl.Pos(), "forkKeys must be the unconditional product of %s × %s", p0, p1)
		if len(lits) == 1 && len(ranges) == 2 {
			fl := an.FlattenLit(lits[0])
			dv, mv := types.ExprString(ranges[0].Value), types.ExprString(ranges[1].Value)
			for f, want := range map[string]string{"Database": dv + ".Database", "RetentionPolicy": dv + ".RetentionPolicy", "Measurement": mv} {
				got := ""
				if fl[f] != nil {
					got = types.ExprString(fl[f])
				}
				c.Check(got == want, "C02.keys", "forkKeys#"+f, lits[0].Pos(), "forkKey.%s must be %s, is %q", f, want, got)
			}
		}
	}
	if fn := c.Need("C02.keys", "", "TaskMaster", "forkPoint"); fn != nil {
		p := an.ParamName(fn.Decl.Type, 0)
		lits := litFieldsOfType(info, fn.Decl.Body, "forkKey")
		exact, empty := 0, 0
		for _, l := range lits {
			fl := an.FlattenLit(l)
			get := func(f string) string {
				if fl[f] == nil {
					return ""
				}
				return types.ExprString(fl[f])
			}
			if get("Database") != p+".Database()" || get("RetentionPolicy") != p+".RetentionPolicy()" {
				c.Fail("C02.keys", "forkPoint#dbrp-of-point", l.Pos(), "a lookup key must carry the point's own database and retention policy; carries %s / %s", get("Database"), get("RetentionPolicy"))
				continue
			}
			switch get("Measurement") {
			case p + ".Name()":
				exact++
			case `""`:
				empty++
			default:
				c.Fail("C02.keys", "forkPoint#measurement", l.Pos(), "a lookup key's measurement must be the point's name or \"\"; is %s", get("Measurement"))
			}
		}
		c.Check(exact >= 1 && empty >= 1, "C02.keys", "forkPoint#both-keys", fn.Decl.Pos(), "forkPoint must look up the exact (db,rp,name) key and the (db,rp,\"\") key; found %d exact, %d empty-measurement", exact, empty)
	}
	// Task.Measurements
	if fn := c.P.FindFunc("", "Task", "Measurements"); fn != nil {
		c.Analysed(fn)
		good := false
		cond := false
		ast.Inspect(fn.Decl.Body, func(n ast.Node) bool {
			cc, ok := n.(*ast.CaseClause)
			if !ok {
				return true
			}
			for _, t := range cc.List {
				if strings.HasSuffix(types.ExprString(t), "pipeline.FromNode") {
					for _, s := range cc.Body {
						if as, ok := s.(*ast.AssignStmt); ok && len(as.Rhs) == 1 {
							if call, ok := as.Rhs[0].(*ast.CallExpr); ok && core.IsBuiltin(info, call, "append") && len(call.Args) == 2 {
								if sel, ok := call.Args[1].(*ast.SelectorExpr); ok && sel.Sel.Name == "Measurement" {
									good = true
								}
							}
						} else {
							cond = true
						}
					}
				}
			}
			return true
		})
		// the walk callback must never return an error (it would stop the walk)
		nonNil := false
		ast.Inspect(fn.Decl.Body, func(n ast.Node) bool {
			if fl, ok := n.(*ast.FuncLit); ok {
				ast.Inspect(fl.Body, func(m ast.Node) bool {
					if r, ok := m.(*ast.ReturnStmt); ok && len(r.Results) == 1 && !an.IsNil(info, r.Results[0]) {
						nonNil = true
					}
					return true
				})
			}
			return true
		})
		c.Check(good && !cond && !nonNil, "C02.keys", "Task.Measurements", fn.Decl.Pos(), "Measurements must unconditionally append the Measurement of every *pipeline.FromNode and never stop the walk")
	} else {
		c.Undecided("C02.keys", "anchor:Task.Measurements", token.NoPos, "function not found")
	}
}

// c02Collect analyses forkPoint with helper calls inlined one level: all Collect sites.
func c02Collect(c *core.Ctx, root *packages.Package) {
	info := root.TypesInfo
	fn := c.Need("C02.collect", "", "TaskMaster", "forkPoint")
	if fn == nil {
		return
	}
	p := an.ParamName(fn.Decl.Type, 0)
	// functions in scope: forkPoint and the same-package functions it calls directly with the point as an argument
	scope := []*core.Func{fn}
	ast.Inspect(fn.Decl.Body, func(n ast.Node) bool {
		call, ok := n.(*ast.CallExpr)
		if !ok {
			return true
		}
		callee := core.Callee(info, call)
		if callee == nil || callee.Pkg() != root.Types {
			return true
		}
		passes := false
		for _, a := range call.Args {
			if id, ok := ast.Unparen(a).(*ast.Ident); ok && id.Name == p {
				passes = true
			}
		}
		if passes {
			if d := declOfFunc(c.P, callee); d != nil && d.Decl.Body != nil {
				scope = append(scope, d)
			}
		}
		return true
	})
	nCollect := 0
	for _, f := range scope {
		c.Analysed(f)
		// parent map
		parents := map[ast.Node]ast.Node{}
		var stack []ast.Node
		ast.Inspect(f.Decl, func(n ast.Node) bool {
			if n == nil {
				stack = stack[:len(stack)-1]
				return true
			}
			if len(stack) > 0 {
				parents[n] = stack[len(stack)-1]
			}
			stack = append(stack, n)
			return true
		})
		ast.Inspect(f.Decl.Body, func(n ast.Node) bool {
			call, ok := n.(*ast.CallExpr)
			if !ok {
				return true
			}
			callee := core.Callee(info, call)
			if callee == nil || (callee.Name() != "Collect" && callee.Name() != "CollectPoint") {
				return true
			}
			sel, ok := call.Fun.(*ast.SelectorExpr)
			if !ok {
				return true
			}
			nCollect++
			cons := f.Decl.Name.Name + "#Collect@" + types.ExprString(sel.X)
			// the enclosing range loop
			var loop *ast.RangeStmt
			for cur := ast.Node(call); cur != nil; cur = parents[cur] {
				if rs, ok := cur.(*ast.RangeStmt); ok {
					loop = rs
					break
				}
			}
			if loop == nil {
				c.Fail("C02.collect", cons+"#loop", call.Pos(), "Collect outside a range over the routing table")
				return true
			}
			// receiver is the loop's value variable
			rv, _ := loop.Value.(*ast.Ident)
			id, _ := ast.Unparen(sel.X).(*ast.Ident)
			c.Check(rv != nil && id != nil && info.Uses[id] == info.Defs[rv], "C02.collect", cons+"#edge-from-table", call.Pos(), "the edge collected into is not the element of the routing-table loop")
			// no early exit inside the loop
			early := ""
			ast.Inspect(loop.Body, func(m ast.Node) bool {
				switch x := m.(type) {
				case *ast.FuncLit:
					return false
				case *ast.ReturnStmt:
					early = "return"
				case *ast.BranchStmt:
					if x.Tok == token.BREAK || x.Tok == token.GOTO {
						early = x.Tok.String()
					}
				}
				return true
			})
			c.Check(early == "", "C02.collect", cons+"#no-early-exit", loop.Pos(), "the fan-out loop is left by %s: tasks iterated after that point do not get the point", early)
			// argument is the point itself
			argOK := false
			if len(call.Args) == 1 {
				if a, ok := ast.Unparen(call.Args[0]).(*ast.Ident); ok {
					if f == fn {
						argOK = a.Name == p
					} else {
						// helper: must be one of its parameters of the message type
						if v, ok := info.Uses[a].(*types.Var); ok && strings.HasSuffix(v.Type().String(), "edge.PointMessage") {
							argOK = true
						}
					}
				}
			}
			c.Check(argOK, "C02.collect", cons+"#same-point", call.Pos(), "Collect must be handed the ingested point itself")
			// provenance of the ranged map: tm.forks[<key>] directly, a local assigned from it, or (helper) a parameter
			if f == fn {
				src := c02ForksIndex(info, f, loop.X)
				c.Check(src != "", "C02.collect", cons+"#declared-key", loop.Pos(), "the loop ranges over %s, which is not tm.forks[<lookup key>]", types.ExprString(loop.X))
			}
			return true
		})
	}
	c.Floor("C02.collect", "Collect sites in the fan-out", nCollect, 2)

	// ---- C02.single via the path engine on forkPoint
	eng := &an.Engine{Prog: c.P, Inline: func(*types.Func) bool { return false },
		TrackCall: func(call *ast.CallExpr, callee *types.Func) string {
			if callee != nil && callee.Name() == "Collect" {
				return "Collect"
			}
			return ""
		},
		Classify: func(a an.Atom) (string, bool) {
			if strings.HasSuffix(a.Key, "].1") && strings.Contains(a.Key, ".forks[") {
				return "served", false
			}
			return "", false
		}}
	paths, err := eng.Run(fn)
	if err != nil {
		c.Undecided("C02.single", "TaskMaster.forkPoint", fn.Decl.Pos(), "%v", err)
		return
	}
	good := true
	maxLoops := 0
	for _, pth := range paths {
		loopN := 0
		inLoop := false
		for _, e := range pth.Events {
			switch e.Kind {
			case "loop":
				loopN++
				inLoop = true
			case "endloop":
				inLoop = false
			case "call":
				if e.Name == "Collect" && inLoop && loopN >= 2 {
					// must be under a negative membership test
					served, decided := pth.Assign()["served"]
					if !decided || served {
						good = false
						c.Fail("C02.single", "TaskMaster.forkPoint#second-lookup", e.Pos, "the second fan-out loop collects without first skipping tasks already served through the first lookup: a task registered under both keys (from().measurement('m') and from()) gets each point of m twice")
					}
				}
			}
		}
		if loopN > maxLoops {
			maxLoops = loopN
		}
	}
	if good {
		c.Ok("C02.single", "TaskMaster.forkPoint#second-lookup")
	}
	if maxLoops < 1 {
		// the fan-out was moved into a helper: this rule reads forkPoint only (C02.collect follows helpers)
		c.Note("C02.single: no fan-out loop in forkPoint itself; the single-delivery rule was not evaluated on helper functions")
	}
}

// c02ForksIndex: x is tm.forks[k] or a local assigned exactly that; returns the key text.
func c02ForksIndex(info *types.Info, f *core.Func, x ast.Expr) string {
	x = ast.Unparen(x)
	if ix, ok := x.(*ast.IndexExpr); ok && an.FieldSel(info, ix.X, "TaskMaster", "forks") {
		return types.ExprString(ix.Index)
	}
	if id, ok := x.(*ast.Ident); ok {
		obj := info.Uses[id]
		res := ""
		n := 0
		ast.Inspect(f.Decl.Body, func(nd ast.Node) bool {
			as, ok := nd.(*ast.AssignStmt)
			if !ok {
				return true
			}
			for i, l := range as.Lhs {
				if lid, ok := l.(*ast.Ident); ok && (info.Defs[lid] == obj || info.Uses[lid] == obj) && i < len(as.Rhs) {
					n++
					if ix, ok := ast.Unparen(as.Rhs[i]).(*ast.IndexExpr); ok && an.FieldSel(info, ix.X, "TaskMaster", "forks") {
						res = types.ExprString(ix.Index)
					}
				}
			}
			return true
		})
		if n == 1 {
			return res
		}
	}
	return ""
}

func c02Register(c *core.Ctx, root *packages.Package) {
	info := root.TypesInfo
	if fn := c.Need("C02.register", "", "TaskMaster", "newFork"); fn != nil {
		task := an.ParamName(fn.Decl.Type, 0)
		eng := &an.Engine{Prog: c.P,
			TrackCall: func(call *ast.CallExpr, callee *types.Func) string {
				if callee != nil && callee.Name() == "forkKeys" {
					return "forkKeys"
				}
				return ""
			},
			TrackStore: func(lhs ast.Expr, key string) string {
				ix, ok := ast.Unparen(lhs).(*ast.IndexExpr)
				if !ok {
					return ""
				}
				switch {
				case an.FieldSel(info, ix.X, "TaskMaster", "forks"):
					return "forks[]"
				case an.FieldSel(info, ix.X, "TaskMaster", "taskToForkKeys"):
					return "taskKeys[]"
				}
				if id, ok := ix.X.(*ast.Ident); ok {
					if v, ok := info.Uses[id].(*types.Var); ok {
						if _, isMap := v.Type().Underlying().(*types.Map); isMap {
							return "taskmap[]"
						}
					}
				}
				return ""
			},
			Classify: func(a an.Atom) (string, bool) {
				if an.FieldSel(info, a.Expr, "TaskMaster", "closed") {
					return "closed", false
				}
				return "", false
			}}
		paths, err := eng.Run(fn)
		if err != nil {
			c.Undecided("C02.register", "TaskMaster.newFork", fn.Decl.Pos(), "%v", err)
		}
		good := len(paths) > 0
		for _, p := range paths {
			if p.Assign()["closed"] {
				continue
			}
			w := ""
			inLoop := false
			var loopKey string
			for _, e := range p.Events {
				switch {
				case e.Kind == "loop":
					inLoop = true
					if !strings.Contains(e.Name, "forkKeys(") {
						w += "(loop over " + e.Name + ")"
					}
				case e.Kind == "endloop":
					inLoop = false
				case e.Kind == "break" || e.Kind == "continue":
					w += e.Kind + ","
				case e.Kind == "store" && inLoop:
					switch e.Name {
					case "taskKeys[]":
						if strings.HasSuffix(e.Recv, "["+task+"]") {
							w += "remember,"
						}
					case "taskmap[]":
						if strings.HasSuffix(e.Recv, "["+task+"]") {
							w += "put-edge,"
						}
					case "forks[]":
						w += "publish,"
						loopKey = e.Recv
					}
				}
			}
			_ = loopKey
			if !strings.Contains(w, "remember,") || !strings.Contains(w, "put-edge,") || !strings.Contains(w, "publish,") || strings.Contains(w, "break") || strings.Contains(w, "continue") || strings.Contains(w, "(loop over") {
				good = false
				c.Fail("C02.register", "TaskMaster.newFork", p.RetPos, "for every key of forkKeys(dbrps, measurements) newFork must remember the key, put the task's edge into the key's task map and publish the map; path [%s] does [%s]", p.Cond(), w)
			}
		}
		if good {
			c.Ok("C02.register", "TaskMaster.newFork")
		}
		// the task map published under a key that had none is made for that key: inside the loop, once per iteration. A map
		// made before the loop is shared by all the new keys, and a task that later subscribes to one of them appears under all.
		var loop *ast.RangeStmt
		ast.Inspect(fn.Decl.Body, func(nd ast.Node) bool {
			if rs, ok := nd.(*ast.RangeStmt); ok && loop == nil {
				if call, ok := ast.Unparen(rs.X).(*ast.CallExpr); ok {
					if m := core.Callee(info, call); m != nil && m.Name() == "forkKeys" {
						loop = rs
					}
				}
			}
			return true
		})
		if loop == nil {
			c.Undecided("C02.register", "TaskMaster.newFork#fresh-map", fn.Decl.Pos(), "loop over forkKeys(...) not found")
		} else {
			var published types.Object
			ast.Inspect(loop.Body, func(nd ast.Node) bool {
				if as, ok := nd.(*ast.AssignStmt); ok && len(as.Lhs) == 1 && len(as.Rhs) == 1 {
					if ix, ok := ast.Unparen(as.Lhs[0]).(*ast.IndexExpr); ok && an.FieldSel(info, ix.X, "TaskMaster", "forks") {
						if id, ok := ast.Unparen(as.Rhs[0]).(*ast.Ident); ok {
							published = info.Uses[id]
						}
					}
				}
				return true
			})
			bad := ""
			var badPos token.Pos
			nsrc := 0
			if published == nil {
				bad, badPos = "the value published into tm.forks[key] is not a local map variable", loop.Pos()
			} else {
				ast.Inspect(fn.Decl.Body, func(nd ast.Node) bool {
					as, ok := nd.(*ast.AssignStmt)
					if !ok {
						return true
					}
					for i, l := range as.Lhs {
						id, ok := l.(*ast.Ident)
						if !ok || (info.Defs[id] != published && info.Uses[id] != published) {
							continue
						}
						var rhs ast.Expr
						if len(as.Rhs) == len(as.Lhs) {
							rhs = as.Rhs[i]
						} else if len(as.Rhs) == 1 && i == 0 {
							rhs = as.Rhs[0]
						} else {
							continue
						}
						nsrc++
						rhs = ast.Unparen(rhs)
						if ix, ok := rhs.(*ast.IndexExpr); ok && an.FieldSel(info, ix.X, "TaskMaster", "forks") {
							continue // the key's existing map
						}
						if call, ok := rhs.(*ast.CallExpr); ok && core.IsBuiltin(info, call, "make") && loop.Body.Pos() <= call.Pos() && call.End() <= loop.Body.End() {
							continue // made in this iteration
						}
						if bad == "" {
							bad, badPos = "the map published under a key comes from "+types.ExprString(rhs)+", which is neither the key's existing map nor a map made inside the loop over the keys", as.Pos()
						}
					}
					return true
				})
			}
			c.Check(bad == "" && nsrc >= 2, "C02.register", "TaskMaster.newFork#fresh-map", badPos, "%s (sources found: %d): keys that had no subscriber share one task map, so a task that later subscribes to one of them is delivered the points of all — of database/retention-policy pairs it never declared", bad, nsrc)
		}
	}
	if fn := c.Need("C02.register", "", "TaskMaster", "delFork"); fn != nil {
		id := an.ParamName(fn.Decl.Type, 0)
		eng := &an.Engine{Prog: c.P,
			TrackCall: func(call *ast.CallExpr, callee *types.Func) string {
				if callee == nil {
					if core.IsBuiltin(info, call, "delete") {
						return "delete"
					}
					return ""
				}
				switch callee.Name() {
				case "Close", "Abort":
					return callee.Name()
				}
				return ""
			},
			Classify: func(a an.Atom) (string, bool) {
				if strings.HasSuffix(a.Key, "]["+id+"].1") && strings.Contains(a.Key, ".forks[") {
					return "present", false
				}
				return "", false
			}}
		paths, err := eng.Run(fn)
		if err != nil {
			c.Undecided("C02.register", "TaskMaster.delFork", fn.Decl.Pos(), "%v", err)
		}
		good := len(paths) > 0
		sawDeleteOwn, sawForget, sawClose := false, false, false
		for _, p := range paths {
			for _, e := range p.Events {
				switch {
				case e.Name == "Abort":
					good = false
					c.Fail("C02.register", "TaskMaster.delFork#close-not-abort", e.Pos, "a task's input edge is aborted on unsubscribe: points already accepted for the task are thrown away")
				case e.Name == "Close":
					sawClose = true
				case e.Name == "delete" && len(e.Args) == 2:
					switch {
					case strings.Contains(e.Args[0], ".forks[") && e.Args[1] == id:
						sawDeleteOwn = true
						if present, ok := p.Assign()["present"]; ok && !present {
							// harmless (delete of an absent key), fine
							_ = present
						}
					case strings.HasSuffix(e.Args[0], ".taskToForkKeys") && e.Args[1] == id:
						sawForget = true
					case strings.HasSuffix(e.Args[0], ".forkEdges") && e.Args[1] == id:
						// F125: the task's own edge, kept by task id for forks without keys
					case strings.HasSuffix(e.Args[0], ".forks"):
						good = false
						c.Fail("C02.register", "TaskMaster.delFork#whole-key", e.Pos, "delFork removes a whole routing key (%s): every other task subscribed to that key stops receiving points", e.Args[1])
					default:
						good = false
						c.Fail("C02.register", "TaskMaster.delFork#other-delete", e.Pos, "delFork deletes %s[%s]; it may only remove the stopping task's own entries", e.Args[0], e.Args[1])
					}
				case e.Kind == "break":
					good = false
					c.Fail("C02.register", "TaskMaster.delFork#all-keys", e.Pos, "the loop over the task's keys is left early")
				}
			}
			if p.Count("Close") > 1 && !c02ClosesOnceByFlag(info, fn) {
				good = false
				c.Fail("C02.register", "TaskMaster.delFork#close-once", p.RetPos, "the edge can be closed more than once within one iteration")
			}
		}
		c.Check(sawDeleteOwn && sawForget && sawClose, "C02.register", "TaskMaster.delFork#effects", fn.Decl.Pos(), "delFork must close the task's edge, delete the task from each of its keys' maps and forget its keys (close %v, delete own %v, forget %v)", sawClose, sawDeleteOwn, sawForget)
		if good {
			c.Ok("C02.register", "TaskMaster.delFork")
		}
	}
}

// c02Locks: a syntactic guarded-by check for the routing tables of TaskMaster.
func c02Locks(c *core.Ctx, root *packages.Package) {
	info := root.TypesInfo
	guarded := map[string]bool{"forks": true, "taskToForkKeys": true, "forkStats": true, "tasks": true}
	// helpers that require the caller to hold tm.mu (documented / by construction)
	requires := map[string]bool{"newFork": true, "delFork": true, "stream": true}
	exempt := map[string]string{"NewTaskMaster": "constructor, before publication", "New": "constructor, before publication"}
	type acc struct {
		fn  *core.Func
		pos token.Pos
		f   string
	}
	holds := map[string]bool{}
	var accesses []acc
	calls := map[string][]acc{} // requires-fn -> call sites
	for _, f := range core.AllFuncs(root) {
		name := f.Decl.Name.Name
		lockPos := token.NoPos
		ast.Inspect(f.Decl.Body, func(n ast.Node) bool {
			call, ok := n.(*ast.CallExpr)
			if !ok {
				return true
			}
			if sel, ok := call.Fun.(*ast.SelectorExpr); ok && (sel.Sel.Name == "Lock" || sel.Sel.Name == "RLock") && an.FieldSel(info, sel.X, "TaskMaster", "mu") {
				if lockPos == token.NoPos || call.Pos() < lockPos {
					lockPos = call.Pos()
				}
			}
			if callee := core.Callee(info, call); callee != nil && core.RecvTypeName(callee) == "TaskMaster" && requires[callee.Name()] {
				calls[callee.Name()] = append(calls[callee.Name()], acc{f, call.Pos(), callee.Name()})
			}
			return true
		})
		key := f.Name()
		if lockPos != token.NoPos {
			holds[key] = true
		}
		ast.Inspect(f.Decl.Body, func(n ast.Node) bool {
			sel, ok := n.(*ast.SelectorExpr)
			if !ok || !guarded[sel.Sel.Name] || !an.FieldSel(info, sel, "TaskMaster", sel.Sel.Name) {
				return true
			}
			if _, ex := exempt[name]; ex {
				return true
			}
			if lockPos != token.NoPos && sel.Pos() > lockPos {
				return true
			}
			accesses = append(accesses, acc{f, sel.Pos(), sel.Sel.Name})
			return true
		})
	}
	n := 0
	reported := map[string]bool{}
	for _, a := range accesses {
		name := a.fn.Decl.Name.Name
		n++
		if core.RecvName(a.fn.Decl) == "TaskMaster" && requires[name] {
			continue // checked at call sites below
		}
		k := a.fn.Name() + "." + a.f
		if !reported[k] {
			reported[k] = true
			c.Fail("C02.locks", k, a.pos, "tm.%s is accessed in %s without tm.mu held (no Lock/RLock before the access and the function is not one of the documented lock-requiring helpers)", a.f, a.fn.Name())
		}
	}
	for _, rq := range an.SortedKeys(calls) {
		for _, cs := range calls[rq] {
			caller := cs.fn.Decl.Name.Name
			okk := holds[cs.fn.Name()] || (core.RecvName(cs.fn.Decl) == "TaskMaster" && requires[caller])
			c.Check(okk, "C02.locks", "call:"+cs.fn.Name()+"→"+rq, cs.pos, "%s requires tm.mu but is called from %s, which neither locks it nor requires it itself", rq, cs.fn.Name())
		}
	}
	c.Floor("C02.locks", "lock-requiring helper call sites", len(calls), 3)
}

func c02Matches(c *core.Ctx, root *packages.Package) {
	info := root.TypesInfo
	fn := c.Need("C02.matches", "", "FromNode", "matches")
	if fn == nil {
		return
	}
	p := an.ParamName(fn.Decl.Type, 0)
	recv := an.RecvVarName(fn.Decl)
	eng := &an.Engine{Prog: c.P, BoolReturns: true,
		Classify: func(a an.Atom) (string, bool) {
			sels := map[string]string{"db": "Database()", "rp": "RetentionPolicy()", "name": "Name()"}
			for f, getter := range sels {
				cfg := recv + "." + f
				if a.Op == token.EQL {
					if a.L == cfg && a.R == `""` {
						return "set_" + f, true
					}
					if (a.L == p+"."+getter && a.R == cfg) || (a.R == p+"."+getter && a.L == cfg) {
						return "eq_" + f, false
					}
				}
			}
			if a.Op == token.EQL && a.L == recv+".expression" && a.R == "nil" {
				return "hasexpr", true
			}
			if k, ok := an.ErrNilAtom(info, a); ok && an.CallResultOf(k, "EvalPredicate", 1) {
				return "err", true
			}
			if an.CallResultOf(a.Key, "EvalPredicate", 0) {
				return "pass", false
			}
			return "", false
		}}
	paths, err := eng.Run(fn)
	if err != nil {
		c.Undecided("C02.matches", "FromNode.matches", fn.Decl.Pos(), "%v", err)
		return
	}
	an.CheckTable(c, "C02.matches", "FromNode.matches", paths, an.Table{
		Atoms: []string{"set_db", "eq_db", "set_rp", "eq_rp", "set_name", "eq_name", "hasexpr", "err", "pass"},
		Outcome: func(p *an.Path) string {
			if len(p.Rets) == 1 {
				return p.Rets[0]
			}
			return "?"
		},
		Expect: func(a map[string]bool) string {
			for _, f := range []string{"db", "rp", "name"} {
				if a["set_"+f] && !a["eq_"+f] {
					return "false"
				}
			}
			if a["hasexpr"] {
				if a["err"] || !a["pass"] {
					return "false"
				}
			}
			return "true"
		}})
	// the expression evaluated is the node's own with its own scope pool against this point
	for _, pth := range paths {
		for _, l := range pth.Lits {
			if l.Name == "pass" || l.Name == "err" {
				want := "kapacitor.EvalPredicate(" + recv + ".expression, " + recv + ".scopePool, " + p + ")"
				c.Check(strings.HasPrefix(l.Key, want), "C02.matches", "FromNode.matches#predicate", l.Pos, "the where-predicate must be EvalPredicate(n.expression, n.scopePool, p); is %s", l.Key)
			}
		}
	}
}

func c02Ingest(c *core.Ctx, root *packages.Package) {
	info := root.TypesInfo
	for _, name := range []string{"WritePoints", "WriteKapacitorPoint"} {
		fn := c.Need("C02.ingest", "", "TaskMaster", name)
		if fn == nil {
			continue
		}
		eng := &an.Engine{Prog: c.P,
			TrackCall: func(call *ast.CallExpr, callee *types.Func) string {
				if callee == nil {
					return ""
				}
				switch callee.Name() {
				case "CollectPoint", "NewPointMessage":
					return callee.Name()
				case "RLock", "Lock":
					if sel, ok := call.Fun.(*ast.SelectorExpr); ok && an.FieldSel(info, sel.X, "TaskMaster", "writesMu") {
						return "lock"
					}
				}
				return ""
			},
			Classify: func(a an.Atom) (string, bool) {
				if an.FieldSel(info, a.Expr, "TaskMaster", "writesClosed") {
					return "closed", false
				}
				if k, ok := an.ErrNilAtom(info, a); ok && an.CallResultOf(k, "CollectPoint", 0) {
					return "cerr", true
				}
				return "", false
			}}
		paths, err := eng.Run(fn)
		if err != nil {
			c.Undecided("C02.ingest", "TaskMaster."+name, fn.Decl.Pos(), "%v", err)
			continue
		}
		good := len(paths) > 0
		nCollect := 0
		for _, p := range paths {
			a := p.Assign()
			ci := p.Index("CollectPoint")
			if ci < 0 {
				continue
			}
			nCollect++
			closed, decided := a["closed"]
			li := p.Index("lock")
			if !decided || closed || li < 0 || li > ci {
				good = false
				c.Fail("C02.ingest", "TaskMaster."+name+"#closed-check", p.Events[ci].Pos, "points are collected without testing writesClosed under writesMu first on path [%s]", p.Cond())
			}
			for _, e := range p.Events {
				if e.Kind == "break" {
					good = false
					c.Fail("C02.ingest", "TaskMaster."+name+"#all-points", e.Pos, "the loop over the written points is left early without an error")
				}
			}
			if np := p.Find("NewPointMessage"); np != nil && name == "WritePoints" {
				db, rp := an.ParamName(fn.Decl.Type, 0), an.ParamName(fn.Decl.Type, 1)
				okk := len(np.Args) == 7 && strings.Contains(np.Args[0], ".Name()") && np.Args[1] == db && (np.Args[2] == rp || strings.HasSuffix(np.Args[2], ".DefaultRetentionPolicy"))
				if !okk {
					good = false
					c.Fail("C02.ingest", "TaskMaster.WritePoints#roles", np.Pos, "NewPointMessage(name, database, retentionPolicy, …) gets (%s, %s, %s): the routing key of the point would be wrong", np.Args[0], np.Args[1], np.Args[2])
				}
			}
			// a collect error must be returned
			if ce, ok := a["cerr"]; ok && ce {
				if len(p.Rets) != 1 || p.Rets[0] == "nil" {
					good = false
					c.Fail("C02.ingest", "TaskMaster."+name+"#error-returned", p.RetPos, "a failed CollectPoint is not reported to the writer")
				}
			}
		}
		if nCollect == 0 {
			good = false
			c.Fail("C02.ingest", "TaskMaster."+name+"#collects", fn.Decl.Pos(), "no path collects the points")
		}
		if good {
			c.Ok("C02.ingest", "TaskMaster."+name)
		}
	}
}

func c02Where(c *core.Ctx) {
	pp := c.P.Pkg("pipeline")
	fn := c.Need("C02.where", "pipeline", "FromNode", "Where")
	if pp == nil || fn == nil {
		return
	}
	info := pp.TypesInfo
	param := an.ParamName(fn.Decl.Type, 0)
	recv := an.RecvVarName(fn.Decl)
	var lit *ast.CompositeLit
	ast.Inspect(fn.Decl.Body, func(n ast.Node) bool {
		if cl, ok := n.(*ast.CompositeLit); ok {
			if tv, ok := info.Types[cl]; ok {
				if named := core.NamedOf(tv.Type); named != nil && named.Obj().Name() == "BinaryNode" {
					lit = cl
				}
			}
		}
		return true
	})
	if lit == nil {
		c.Fail("C02.where", "FromNode.Where#and", fn.Decl.Pos(), "a second where() does not build a conjunction with the condition already set: only one of the conditions selects points")
		return
	}
	flat := map[string]string{}
	for _, el := range lit.Elts {
		if kv, ok := el.(*ast.KeyValueExpr); ok {
			flat[types.ExprString(kv.Key)] = types.ExprString(kv.Value)
		}
	}
	soFar, fresh := recv+".Lambda.Expression", param+".Expression"
	operands := (flat["Left"] == soFar && flat["Right"] == fresh) || (flat["Left"] == fresh && flat["Right"] == soFar)
	c.Check(strings.HasSuffix(flat["Operator"], "TokenAnd") && operands, "C02.where", "FromNode.Where#and", lit.Pos(), "a second where() must store (condition so far) AND (new condition); it stores %s %s %s — a from() with several where() properties then receives points that fail one of them", flat["Left"], flat["Operator"], flat["Right"])
	// the conjunction is stored as a new lambda node: nothing is written through the lambda already held, which may be a
	// TICKscript variable shared with other nodes
	through := ""
	ast.Inspect(fn.Decl.Body, func(n ast.Node) bool {
		if as, ok := n.(*ast.AssignStmt); ok {
			for _, l := range as.Lhs {
				if ls := types.ExprString(l); strings.HasPrefix(ls, recv+".Lambda.") {
					through = ls
				}
			}
		}
		return true
	})
	c.Check(through == "", "C02.where", "FromNode.Where#fresh", fn.Decl.Pos(), "a second where() assigns %s, i.e. it rewrites the lambda object the node was given: when that lambda is a TICKscript variable used by other from() nodes too, they all get the extra condition and stop receiving points their own declaration selects", through)
	// the first where() stores the lambda itself
	first := false
	ast.Inspect(fn.Decl.Body, func(n ast.Node) bool {
		if as, ok := n.(*ast.AssignStmt); ok && len(as.Lhs) == 1 && len(as.Rhs) == 1 && types.ExprString(as.Lhs[0]) == recv+".Lambda" {
			if r := types.ExprString(as.Rhs[0]); r == param || strings.HasPrefix(r, "&ast.LambdaNode{") {
				first = true
			}
		}
		return true
	})
	c.Check(first, "C02.where", "FromNode.Where#first", fn.Decl.Pos(), "the first where() must store the given condition")
}

// c02StartFork: F69. Once StartTask has subscribed the task (newFork put its edge into the fan-out table, or batch collectors were
// registered), no error return may leave the subscription behind: the edge has no reader, after one buffer of matching points
// forkPoint blocks in Collect with the read lock held and every task starves. On every path of StartTask, an error return after
// newFork is preceded by delFork.
func c02StartFork(c *core.Ctx, root *packages.Package) {
	fn := c.Need("C02.startfork", "", "TaskMaster", "StartTask")
	if fn == nil {
		return
	}
	eng := &an.Engine{Prog: c.P,
		TrackCall: func(call *ast.CallExpr, callee *types.Func) string {
			if callee != nil && core.RecvTypeName(callee) == "TaskMaster" && (callee.Name() == "newFork" || callee.Name() == "delFork") {
				return callee.Name()
			}
			return ""
		},
		Classify: func(a an.Atom) (string, bool) {
			if k, ok := an.ErrNilAtom(root.TypesInfo, a); ok && strings.Contains(k, ".newFork(") {
				return "forkerr", true
			}
			return "", false
		}}
	paths, err := eng.Run(fn)
	if err != nil {
		c.Undecided("C02.startfork", "TaskMaster.StartTask", fn.Decl.Pos(), "%v", err)
		return
	}
	good, n := true, 0
	for _, p := range paths {
		i := p.Index("newFork")
		if i < 0 || p.Assign()["forkerr"] {
			continue // not subscribed (newFork itself failed)
		}
		n++
		if len(p.Rets) == 2 && p.Rets[1] != "nil" {
			undone := false
			for _, e := range p.Events[i+1:] {
				if e.Name == "delFork" {
					undone = true
				}
			}
			if !undone && good {
				good = false
				c.Fail("C02.startfork", "TaskMaster.StartTask#error-after-subscribe", p.RetPos, "StartTask returns the error %s after newFork subscribed the task and does not remove the subscription (path [%s]): the fork edge stays in the fan-out table with nobody reading it — after 1000 matching points forkPoint blocks in Collect holding the read lock, every running task starves and every write blocks for good (a snapshot that fails to load at boot is enough)", p.Rets[1], p.Cond())
			}
		}
	}
	if good {
		c.Ok("C02.startfork", "TaskMaster.StartTask#error-after-subscribe")
	}
	c.Floor("C02.startfork", "paths of StartTask that subscribe the task", n, 2)
}

// c02ClosesOnceByFlag: every Close call of fn stands under a test `!flag` of one and the same local bool, and next to every Close
// inside a loop the flag is set to true: however often the loop runs and whatever follows it, the edge is closed at most once.
func c02ClosesOnceByFlag(info *types.Info, fn *core.Func) bool {
	var flag types.Object
	okAll, n := true, 0
	var stack []ast.Node
	ast.Inspect(fn.Decl.Body, func(nd ast.Node) bool {
		if nd == nil {
			stack = stack[:len(stack)-1]
			return true
		}
		stack = append(stack, nd)
		call, ok := nd.(*ast.CallExpr)
		if !ok {
			return true
		}
		cal := core.Callee(info, call)
		if cal == nil || cal.Name() != "Close" {
			return true
		}
		n++
		// the enclosing if conditions
		var f types.Object
		inLoop := false
		var block *ast.BlockStmt
		for i := len(stack) - 1; i >= 0; i-- {
			switch x := stack[i].(type) {
			case *ast.IfStmt:
				ast.Inspect(x.Cond, func(m ast.Node) bool {
					if u, ok := m.(*ast.UnaryExpr); ok && u.Op == token.NOT {
						if id, ok := ast.Unparen(u.X).(*ast.Ident); ok {
							if o := info.Uses[id]; o != nil {
								if b, ok := o.Type().Underlying().(*types.Basic); ok && b.Kind() == types.Bool {
									f = o
								}
							}
						}
					}
					return true
				})
				if block == nil {
					block = x.Body
				}
			case *ast.RangeStmt, *ast.ForStmt:
				inLoop = true
			}
		}
		if f == nil || (flag != nil && f != flag) {
			okAll = false
			return true
		}
		flag = f
		if inLoop {
			set := false
			if block != nil {
				ast.Inspect(block, func(m ast.Node) bool {
					if as, ok := m.(*ast.AssignStmt); ok && len(as.Lhs) == 1 && len(as.Rhs) == 1 {
						if id, ok := as.Lhs[0].(*ast.Ident); ok && info.Uses[id] == f && types.ExprString(as.Rhs[0]) == "true" {
							set = true
						}
					}
					return true
				})
			}
			if !set {
				okAll = false
			}
		}
		return true
	})
	return okAll && n >= 1
}
