package props

import (
	"go/ast"
	"go/token"
	"go/types"
	"strings"

	"golang.org/x/tools/go/packages"

	"kapcheck/an"
	"kapcheck/core"
)

func init() {
	register(&Property{
		ID:       "C03",
		Patterns: []string{"."},
		Run:      runC03,
		Explanation: "The window's control skeleton is decided on every path (the ring-buffer contents are not): windowByTime.Point and .Barrier equal their reference tables — for every()=0 insert, then (if due) purge(T-period, exclusive), batch(T), nextEmit=T; otherwise (if due) purge(nextEmit-period, inclusive), batch(old nextEmit), nextEmit=T+every truncated to `every` iff aligned, and the point is inserted after; a barrier is the same minus the insert; " +
			"the purge bound and the batch end are the same T; the constructor's first emit time follows its fillPeriod/align table; the ring buffer's fields are written only by insert/purge (count window: only by its Point) and points() returns a fresh slice; growing the ring copies the older segment first; the count window emits iff count reached nextEmit and then advances nextEmit by every; NewGroup passes period/every/align/fillPeriod in their roles. " +
			"NOT decided — the heart of the statement: ring-buffer index arithmetic (wrap, grow, drain-then-wrap, size formulas), that a window holds exactly the points of its period, emission schedule arithmetic over arbitrary timestamps.",
		Assumptions: []string{"time.Time.Add/Truncate behave as documented"},
	})
}

func runC03(c *core.Ctx) {
	c.Rule("C03.skeleton", "A1/A2/A3: windowByTime.Point and .Barrier equal the reference table of (every==0, due, align) → ordered effects insert/purge(bound, inclusive)/batch(T)/nextEmit stores, with the purge bound = X−period for the very X given to batch, X = the message time (every==0) or the old nextEmit (otherwise), inclusive = false/true respectively; Barrier = Point without insert")
	c.Rule("C03.first", "A1: newWindowByTime's first emit time: fillPeriod ⇒ t+period (aligned: the first multiple of every that is not before t+period — truncated to every, plus every only if the truncated time is before t+period); else t+every (aligned: truncated to every); the literal stores period/every/align/fillPeriod under their own names")
	c.Rule("C03.roles", "A7: WindowNode.newWindow passes (Period, Every, AlignFlag, FillPeriodFlag) resp. (PeriodCount, EveryCount, FillPeriodFlag) to the constructor parameters of the same role")
	c.Rule("C03.confine", "A6: windowTimeBuffer.{window,start,stop,size} are assigned only in insert and purge; windowByCount.{buf,start,stop,size,count,nextEmit} only in its Point (and the constructor literal); both points() build their result with make (a fresh slice)")
	c.Rule("C03.grow", "A3: when the time ring grows while wrapped, the older segment window[start:] is copied to the front of the new array and the newer segment window[:stop] behind it (time order is what purge relies on)")
	c.Rule("C03.empty", "A1: the time ring has one representation of the empty buffer: on every path of insert that finds size == 0 both start and stop are set to 0 before the point is stored (start == stop at another index is what purge and points take for a wrapped, full ring)")
	c.Rule("C03.copyout", "A4 ownership: the slice of points handed to an emitted window (windowByCount.points, windowTimeBuffer.points) is a fresh make(…) on every path that returns points, never a sub-slice of the ring: the ring is overwritten by later points while the emitted batch may still be read downstream")
	c.Rule("C03.count", "A1: windowByCount.Point stores the point at stop, advances stop modulo period, drops the oldest (advances start) iff the ring was full else grows size, counts the point, and emits iff count == nextEmit, advancing nextEmit by every exactly then")

	root := c.P.Pkg("")
	if root == nil {
		c.Undecided("C03.skeleton", "anchor:root", token.NoPos, "root package not loaded")
		return
	}
	c03Skeleton(c, root)
	c03First(c, root)
	c03Roles(c, root)
	c03Confine(c, root)
	c03Grow(c, root)
	c03Count(c, root)
	c03CopyOut(c, root)
	c03Empty(c, root)
	c03Purge(c, root)
	c03Insert(c, root)
	c03Points(c, root)
}

func c03Skeleton(c *core.Ctx, root *packages.Package) {
	info := root.TypesInfo
	for _, name := range []string{"Point", "Barrier"} {
		fn := c.Need("C03.skeleton", "", "windowByTime", name)
		if fn == nil {
			continue
		}
		w := an.RecvVarName(fn.Decl)
		m := an.ParamName(fn.Decl.Type, 0)
		T := m + ".Time()"
		norm := func(k string) string {
			k = strings.ReplaceAll(k, "(-1 * "+w+".period)", "-P")
			k = strings.ReplaceAll(k, "-"+w+".period", "-P")
			k = strings.ReplaceAll(k, T, "T")
			k = strings.ReplaceAll(k, w+".nextEmit", "N")
			k = strings.ReplaceAll(k, w+".every", "E")
			return k
		}
		eng := &an.Engine{Prog: c.P, Forward: true,
			TrackCall: func(call *ast.CallExpr, callee *types.Func) string {
				if callee == nil {
					return ""
				}
				switch {
				case core.RecvTypeName(callee) == "windowTimeBuffer" && (callee.Name() == "insert" || callee.Name() == "purge"):
					return callee.Name()
				case core.RecvTypeName(callee) == "windowByTime" && callee.Name() == "batch":
					return "batch"
				}
				return ""
			},
			TrackStore: func(lhs ast.Expr, key string) string {
				if an.FieldSel(info, lhs, "windowByTime", "nextEmit") {
					return "nextEmit"
				}
				return ""
			},
			Classify: func(a an.Atom) (string, bool) {
				switch {
				case a.Op == token.EQL && a.L == w+".every" && a.R == "0":
					return "every0", false
				case a.Key == T+".Before("+w+".nextEmit)":
					return "due", true
				case a.Key == w+".align":
					return "align", false
				}
				return "", false
			}}
		paths, err := eng.Run(fn)
		if err != nil {
			c.Undecided("C03.skeleton", "windowByTime."+name, fn.Decl.Pos(), "%v", err)
			continue
		}
		insert := ""
		if name == "Point" {
			insert = "insert(" + m + ")"
		}
		join := func(parts ...string) string {
			var s []string
			for _, p := range parts {
				if p != "" {
					s = append(s, p)
				}
			}
			return strings.Join(s, ";")
		}
		an.CheckTable(c, "C03.skeleton", "windowByTime."+name, paths, an.Table{Atoms: []string{"every0", "due", "align"},
			Outcome: func(p *an.Path) string {
				var s []string
				for _, e := range p.Events {
					switch {
					case e.Kind == "call":
						var args []string
						for _, a := range e.Args {
							args = append(args, norm(a))
						}
						s = append(s, e.Name+"("+strings.Join(args, ",")+")")
					case e.Kind == "store":
						s = append(s, "N="+norm(e.Args[0]))
					}
				}
				return strings.Join(s, ";")
			},
			Expect: func(a map[string]bool) string {
				if a["every0"] {
					if !a["due"] {
						return join(insert)
					}
					return join(insert, "purge(T.Add(-P),false)", "batch(T)", "N=T")
				}
				if !a["due"] {
					return join(insert)
				}
				next := "N=T.Add(E)"
				if a["align"] {
					next += ";N=T.Add(E).Truncate(E)"
				}
				return join("purge(N.Add(-P),true)", "batch(N)", next, insert)
			}})
	}
}

func c03First(c *core.Ctx, root *packages.Package) {
	info := root.TypesInfo
	fn := c.Need("C03.first", "", "", "newWindowByTime")
	if fn == nil {
		return
	}
	t, period, every := an.ParamName(fn.Decl.Type, 1), an.ParamName(fn.Decl.Type, 3), an.ParamName(fn.Decl.Type, 4)
	align, fill := an.ParamName(fn.Decl.Type, 5), an.ParamName(fn.Decl.Type, 6)
	eng := &an.Engine{Prog: c.P,
		Classify: func(a an.Atom) (string, bool) {
			switch {
			case a.Key == align:
				return "align", false
			case a.Key == fill:
				return "fill", false
			case strings.HasSuffix(a.Key, ".After("+t+".Add("+period+"))"):
				return "after", false
			case strings.HasSuffix(a.Key, ".Before("+t+".Add("+period+"))"):
				return "before", false
			}
			return "", false
		}}
	paths, err := eng.Run(fn)
	if err != nil {
		c.Undecided("C03.first", "newWindowByTime", fn.Decl.Pos(), "%v", err)
		return
	}
	var lit *ast.CompositeLit
	ast.Inspect(fn.Decl.Body, func(n ast.Node) bool {
		if cl, ok := n.(*ast.CompositeLit); ok && an.TypeNamed(info, cl, "kapacitor", "windowByTime") {
			lit = cl
		}
		return true
	})
	an.CheckTable(c, "C03.first", "newWindowByTime", paths, an.Table{Atoms: []string{"fill", "align", "before", "after"},
		Outcome: func(p *an.Path) string {
			if lit == nil {
				return "?"
			}
			fl := an.FlattenLit(lit)
			if fl["nextEmit"] == nil {
				return "no nextEmit"
			}
			k := p.Key(eng, fl["nextEmit"])
			k = strings.ReplaceAll(k, t+".Add("+period+")", "t+P")
			k = strings.ReplaceAll(k, t+".Add("+every+")", "t+E")
			k = strings.ReplaceAll(k, ".Truncate("+every+")", "↓E")
			k = strings.ReplaceAll(k, ".Add("+every+")", "+E")
			return k
		},
		Expect: func(a map[string]bool) string {
			switch {
			case a["fill"] && !a["align"]:
				return "t+P"
			case a["fill"] && a["before"] && a["after"]:
				return "*" // x < t+P and x > t+P: no such input
			case a["fill"] && a["before"]:
				// F119: the first emit is the first multiple of every that is not before t+period: the truncated time if it
				// is t+period itself (the period is full then), one every later only if truncation went below t+period
				return "t+P↓E+E"
			case a["fill"]:
				return "t+P↓E"
			case a["align"]:
				return "t+E↓E"
			}
			return "t+E"
		}})
	if lit != nil {
		got := litFieldSet(lit)
		for f, w := range map[string]string{"period": period, "every": every, "align": align, "fillPeriod": fill, "name": an.ParamName(fn.Decl.Type, 0), "group": an.ParamName(fn.Decl.Type, 2)} {
			c.Check(got[f] == w, "C03.first", "newWindowByTime#"+f, lit.Pos(), "field %s must hold parameter %s, holds %q", f, w, got[f])
		}
	}
}

func c03Roles(c *core.Ctx, root *packages.Package) {
	info := root.TypesInfo
	fn := c.Need("C03.roles", "", "WindowNode", "newWindow")
	if fn == nil {
		return
	}
	n := an.RecvVarName(fn.Decl)
	group, first := an.ParamName(fn.Decl.Type, 0), an.ParamName(fn.Decl.Type, 1)
	want := map[string][]string{
		"newWindowByTime":  {first + ".Name()", first + ".Time()", group, n + ".w.Period", n + ".w.Every", n + ".w.AlignFlag", n + ".w.FillPeriodFlag", n + ".diag"},
		"newWindowByCount": {first + ".Name()", group, "int(" + n + ".w.PeriodCount)", "int(" + n + ".w.EveryCount)", n + ".w.FillPeriodFlag", n + ".diag"},
	}
	seen := map[string]bool{}
	ast.Inspect(fn.Decl.Body, func(nd ast.Node) bool {
		call, ok := nd.(*ast.CallExpr)
		if !ok {
			return true
		}
		f := core.Callee(info, call)
		if f == nil {
			return true
		}
		w, ok := want[f.Name()]
		if !ok {
			return true
		}
		seen[f.Name()] = true
		if len(call.Args) != len(w) {
			c.Fail("C03.roles", f.Name()+"#arity", call.Pos(), "unexpected number of arguments")
			return true
		}
		for i := range w {
			c.Check(types.ExprString(call.Args[i]) == w[i], "C03.roles", f.Name()+"#arg"+string(rune('0'+i)), call.Args[i].Pos(), "argument %d of %s must be %s, is %s (period/every and align/fillPeriod are same-typed neighbours: a swap compiles silently)", i, f.Name(), w[i], types.ExprString(call.Args[i]))
		}
		return true
	})
	c.Check(seen["newWindowByTime"] && seen["newWindowByCount"], "C03.roles", "WindowNode.newWindow#both", fn.Decl.Pos(), "both window kinds must be constructed here")
	// the time window is chosen iff Period != 0, else the count window iff PeriodCount != 0
	eng := &an.Engine{Prog: c.P,
		TrackCall: func(call *ast.CallExpr, callee *types.Func) string {
			if callee != nil && (callee.Name() == "newWindowByTime" || callee.Name() == "newWindowByCount") {
				return callee.Name()
			}
			return ""
		},
		Classify: func(a an.Atom) (string, bool) {
			switch {
			case a.Op == token.EQL && a.L == n+".w.Period" && a.R == "0":
				return "time", true
			case a.Op == token.EQL && a.L == n+".w.PeriodCount" && a.R == "0":
				return "count", true
			}
			return "", false
		}}
	paths, err := eng.Run(fn)
	if err == nil {
		an.CheckTable(c, "C03.roles", "WindowNode.newWindow#kind", paths, an.Table{Atoms: []string{"time", "count"},
			Outcome: func(p *an.Path) string { return an.Seq(p, "newWindowByTime", "newWindowByCount") },
			Expect: func(a map[string]bool) string {
				switch {
				case a["time"]:
					return "newWindowByTime"
				case a["count"]:
					return "newWindowByCount"
				}
				return ""
			}})
	}
}

func c03Confine(c *core.Ctx, root *packages.Package) {
	info := root.TypesInfo
	funcs := core.AllFuncs(root)
	for _, spec := range []struct {
		typ    string
		fields []string
		allow  map[string]bool
	}{
		{"windowTimeBuffer", []string{"window", "start", "stop", "size"}, map[string]bool{"insert": true, "purge": true}},
		{"windowByCount", []string{"buf", "start", "stop", "size", "count", "nextEmit"}, map[string]bool{"Point": true}},
	} {
		ws := fieldWriters(info, funcs, spec.typ)
		n := 0
		for _, f := range spec.fields {
			for _, w := range ws[f] {
				n++
				c.Check(spec.allow[w.fn], "C03.confine", spec.typ+"."+f+"<-"+w.fn, w.pos, "%s.%s is written in %s; only %v may change the ring's bookkeeping", spec.typ, f, w.fn, an.SortedKeys(spec.allow))
			}
		}
		c.Floor("C03.confine", "stores to "+spec.typ+" bookkeeping fields", n, 6)
	}
	for _, typ := range []string{"windowTimeBuffer", "windowByCount"} {
		fn := c.Need("C03.confine", "", typ, "points")
		if fn == nil {
			continue
		}
		fresh := false
		shared := false
		ast.Inspect(fn.Decl.Body, func(n ast.Node) bool {
			switch x := n.(type) {
			case *ast.CallExpr:
				if core.IsBuiltin(info, x, "make") {
					fresh = true
				}
			case *ast.ReturnStmt:
				if len(x.Results) == 1 {
					if _, isSlice := ast.Unparen(x.Results[0]).(*ast.SliceExpr); isSlice {
						shared = true // returning a sub-slice of the ring itself
					}
					if sel, ok := ast.Unparen(x.Results[0]).(*ast.SelectorExpr); ok && (sel.Sel.Name == "buf" || sel.Sel.Name == "window") {
						shared = true
					}
				}
			}
			return true
		})
		c.Check(fresh && !shared, "C03.confine", typ+".points#fresh", fn.Decl.Pos(), "points() must return a freshly made slice, never (a part of) the ring itself: the emitted batch would change under its consumers as the window moves on")
	}
}

func c03Grow(c *core.Ctx, root *packages.Package) {
	info := root.TypesInfo
	fn := c.Need("C03.grow", "", "windowTimeBuffer", "insert")
	if fn == nil {
		return
	}
	b := an.RecvVarName(fn.Decl)
	type cp struct {
		dst, src string
		pos      token.Pos
	}
	var copies []cp
	ast.Inspect(fn.Decl.Body, func(n ast.Node) bool {
		if call, ok := n.(*ast.CallExpr); ok && core.IsBuiltin(info, call, "copy") && len(call.Args) == 2 {
			copies = append(copies, cp{types.ExprString(call.Args[0]), types.ExprString(call.Args[1]), call.Pos()})
		}
		return true
	})
	var tail, head *cp
	for i := range copies {
		switch copies[i].src {
		case b + ".window[" + b + ".start:]":
			tail = &copies[i]
		case b + ".window[:" + b + ".stop]":
			head = &copies[i]
		}
	}
	if tail == nil || head == nil {
		c.Fail("C03.grow", "windowTimeBuffer.insert#segments", fn.Decl.Pos(), "the wrapped-ring growth must copy the two segments window[start:] and window[:stop]; found %v", copies)
		return
	}
	// the older segment goes to the front (destination without offset), the newer one behind it (destination with an offset)
	tailFront := !strings.Contains(tail.dst, "[")
	headBehind := strings.Contains(head.dst, "[") && !strings.HasSuffix(head.dst, "[0:]") && !strings.HasSuffix(head.dst, "[:]")
	c.Check(tailFront && headBehind, "C03.grow", "windowTimeBuffer.insert#order", tail.pos, "on growth the older points (window[start:]) must land at the front of the new array and the newer ones (window[:stop]) behind them; copies are %s←%s and %s←%s: the buffer would be out of time order and purge, which stops at the first live point, would strand expired points", tail.dst, tail.src, head.dst, head.src)
}

func c03Count(c *core.Ctx, root *packages.Package) {
	info := root.TypesInfo
	fn := c.Need("C03.count", "", "windowByCount", "Point")
	if fn == nil {
		return
	}
	w := an.RecvVarName(fn.Decl)
	eng := &an.Engine{Prog: c.P,
		TrackCall: func(call *ast.CallExpr, callee *types.Func) string {
			if callee != nil && callee.Name() == "batch" && core.RecvTypeName(callee) == "windowByCount" {
				return "batch"
			}
			return ""
		},
		TrackStore: func(lhs ast.Expr, key string) string {
			for _, f := range []string{"start", "stop", "size", "count", "nextEmit"} {
				if an.FieldSel(info, lhs, "windowByCount", f) {
					return f
				}
			}
			if ix, ok := ast.Unparen(lhs).(*ast.IndexExpr); ok && an.FieldSel(info, ix.X, "windowByCount", "buf") {
				return "buf[" + types.ExprString(ix.Index) + "]"
			}
			return ""
		},
		Classify: func(a an.Atom) (string, bool) {
			switch {
			case a.Op == token.EQL && strings.HasPrefix(a.L, w+".period") && strings.HasPrefix(a.R, w+".size"), a.Op == token.EQL && strings.HasPrefix(a.L, w+".size") && strings.HasPrefix(a.R, w+".period"):
				return "full", false
			case a.Op == token.EQL && strings.HasPrefix(a.L, w+".count") && strings.HasPrefix(a.R, w+".nextEmit"), a.Op == token.EQL && strings.HasPrefix(a.R, w+".count") && strings.HasPrefix(a.L, w+".nextEmit"):
				return "due", false
			}
			return "", false
		}}
	paths, err := eng.Run(fn)
	if err != nil {
		c.Undecided("C03.count", "windowByCount.Point", fn.Decl.Pos(), "%v", err)
		return
	}
	an.CheckTable(c, "C03.count", "windowByCount.Point", paths, an.Table{Atoms: []string{"full", "due"},
		Outcome: func(p *an.Path) string {
			var s []string
			for _, e := range p.Events {
				switch {
				case e.Kind == "call":
					s = append(s, e.Name)
				case e.Kind == "store":
					v := e.Args[0]
					switch {
					case strings.Contains(v, "++"):
						v = "+1"
					case strings.HasSuffix(v, " + 1) % "+w+".period)"):
						v = "+1%period"
					case strings.HasSuffix(v, " + "+w+".every)"):
						v = "+every"
					case strings.HasPrefix(v, "edge.BatchPointFromPoint("):
						v = "point"
					}
					s = append(s, e.Name+"="+v)
				}
			}
			return strings.Join(s, ";")
		},
		Expect: func(a map[string]bool) string {
			s := "buf[" + w + ".stop]=point;stop=+1%period;"
			if a["full"] {
				s += "start=+1%period;"
			} else {
				s += "size=+1;"
			}
			s += "count=+1"
			if a["due"] {
				s += ";nextEmit=+every;batch"
			}
			return s
		}})
}

func c03CopyOut(c *core.Ctx, root *packages.Package) {
	for _, recv := range []string{"windowByCount", "windowTimeBuffer"} {
		fn := c.Need("C03.copyout", "", recv, "points")
		if fn == nil {
			continue
		}
		eng := &an.Engine{Prog: c.P}
		paths, err := eng.Run(fn)
		if err != nil {
			c.Undecided("C03.copyout", recv+".points", fn.Decl.Pos(), "%v", err)
			continue
		}
		good, n := len(paths) > 0, 0
		for _, p := range paths {
			if len(p.Rets) != 1 || p.Rets[0] == "nil" {
				continue
			}
			n++
			if !strings.HasPrefix(p.Rets[0], "make(") {
				good = false
				c.Fail("C03.copyout", recv+".points#fresh", p.RetPos, "on path [%s] the window's points are %s, not a freshly made slice: the emitted batch shares memory with the ring and is overwritten by later points while a slower consumer still reads it", p.Cond(), shortKey(p.Rets[0]))
			}
		}
		if good && n > 0 {
			c.Ok("C03.copyout", recv+".points")
		} else if good {
			c.Fail("C03.copyout", recv+".points", fn.Decl.Pos(), "no path returns points")
		}
	}
}

func c03Empty(c *core.Ctx, root *packages.Package) {
	info := root.TypesInfo
	fn := c.Need("C03.empty", "", "windowTimeBuffer", "insert")
	if fn == nil {
		return
	}
	rv := an.RecvVarName(fn.Decl)
	eng := &an.Engine{Prog: c.P, Alias: map[string]string{rv: "b"},
		TrackStore: func(lhs ast.Expr, key string) string {
			for _, f := range []string{"start", "stop"} {
				if an.FieldSel(info, lhs, "windowTimeBuffer", f) {
					return f
				}
			}
			if ix, ok := ast.Unparen(lhs).(*ast.IndexExpr); ok && an.FieldSel(info, ix.X, "windowTimeBuffer", "window") {
				return "put"
			}
			return ""
		},
		TrackCall: func(call *ast.CallExpr, callee *types.Func) string {
			if core.IsBuiltin(info, call, "append") {
				return "put"
			}
			return ""
		},
		Classify: func(a an.Atom) (string, bool) {
			if a.Key == "b.size == 0" {
				return "empty", false
			}
			return "", false
		}}
	paths, err := eng.Run(fn)
	if err != nil {
		c.Undecided("C03.empty", "windowTimeBuffer.insert", fn.Decl.Pos(), "%v", err)
		return
	}
	good, n := len(paths) > 0, 0
	for _, p := range paths {
		v, dec := p.Assign()["empty"]
		if !dec {
			good = false
			c.Fail("C03.empty", "windowTimeBuffer.insert#normalise", p.RetPos, "insert does not look at whether the buffer is empty: after a purge that removed everything start == stop at an arbitrary index, the next insert can leave start beyond stop, and the following purge examines the wrong slots — windows then contain points older than their period (every > period)")
			continue
		}
		if !v {
			continue
		}
		n++
		// before the point is stored: start=0 and stop=0
		put := p.Index("put")
		s0, t0 := false, false
		for i, e := range p.Events {
			if put >= 0 && i > put {
				break
			}
			if e.Kind == "store" && e.Args[0] == "0" {
				switch e.Name {
				case "start":
					s0 = true
				case "stop":
					t0 = true
				}
			}
		}
		if !s0 || !t0 {
			good = false
			c.Fail("C03.empty", "windowTimeBuffer.insert#normalise", p.RetPos, "inserting into an empty buffer does not reset start and stop to 0 first (start reset %v, stop reset %v): start == stop at another index is taken for a wrapped ring by purge", s0, t0)
		}
	}
	if good && n > 0 {
		c.Ok("C03.empty", "windowTimeBuffer.insert#normalise")
	}
}
