package props

import (
	"fmt"
	"go/ast"
	"go/constant"
	"go/token"
	"go/types"
	"sort"
	"strings"

	"golang.org/x/tools/go/packages"

	"kapcheck/an"
	"kapcheck/core"
)

// c03Purge (seed C03-1): the inside of windowTimeBuffer.purge, which the skeleton rules only call.
//
// The ring holds its points in time order in window[start:stop] (start < stop) or in window[start:] followed by
// window[:stop] (otherwise; the buffer is never empty here with start == stop, C03.empty). purge advances start over the
// points that are too old and recomputes size. What is decided:
//   - the keep test: inclusive ⇒ t >= oldest, otherwise t > oldest, over the spellings of time.Time's comparisons;
//   - every scan is `for ; start < BOUND; start++ { if keep(window[start].Time()) { break } }`;
//   - which scan runs where: BOUND = stop without a reset under start < stop; BOUND = len(window) only when the last slot of
//     the older segment is kept; start reset to 0 with BOUND = stop only when it is not;
//   - the size stored after a scan, as a linear form over start, stop and len(window): BOUND − start, plus stop when the scan
//     ran over the older segment (the newer segment window[:stop] is still there).
func c03Purge(c *core.Ctx, root *packages.Package) {
	c.Rule("C03.purge", "A1 (reference table, linear forms): windowTimeBuffer.purge keeps t >= oldest when inclusive and t > oldest otherwise; every scan advances start by one up to its bound and stops at the first kept point; the contiguous ring scans to stop, the wrapped ring scans the older segment to len(window) only if that segment's last point is kept and otherwise restarts at 0 and scans to stop; the size stored after a scan equals bound − start, plus stop after a scan of the older segment — compared as linear forms over start, stop and len(window), so (stop − start + len) % len, which takes a full ring for an empty one, is not accepted")
	fn := c.Need("C03.purge", "", "windowTimeBuffer", "purge")
	if fn == nil {
		return
	}
	c.Analysed(fn)
	info := root.TypesInfo
	if fn.Decl.Type.Params.NumFields() != 2 {
		c.Undecided("C03.purge", "windowTimeBuffer.purge#signature", fn.Decl.Pos(), "purge no longer takes (oldest, inclusive)")
		return
	}
	recv := info.Defs[fn.Decl.Recv.List[0].Names[0]]
	var params []types.Object
	for _, f := range fn.Decl.Type.Params.List {
		for _, nm := range f.Names {
			params = append(params, info.Defs[nm])
		}
	}
	oldest, inclusive := params[0], params[1]

	// --- symbols of the linear forms
	field := func(e ast.Expr) string {
		if sel, ok := ast.Unparen(e).(*ast.SelectorExpr); ok {
			if id, ok := ast.Unparen(sel.X).(*ast.Ident); ok && info.Uses[id] == recv {
				return sel.Sel.Name
			}
		}
		return ""
	}
	lenLocals := map[types.Object]bool{} // l := len(b.window)
	isLenWindow := func(e ast.Expr) bool {
		e = ast.Unparen(e)
		if call, ok := e.(*ast.CallExpr); ok && core.IsBuiltin(info, call, "len") && len(call.Args) == 1 && field(call.Args[0]) == "window" {
			return true
		}
		if id, ok := e.(*ast.Ident); ok && lenLocals[info.Uses[id]] {
			return true
		}
		return false
	}
	ast.Inspect(fn.Decl.Body, func(n ast.Node) bool {
		if as, ok := n.(*ast.AssignStmt); ok && as.Tok == token.DEFINE && len(as.Lhs) == 1 && len(as.Rhs) == 1 && isLenWindow(as.Rhs[0]) {
			if id, ok := as.Lhs[0].(*ast.Ident); ok {
				lenLocals[info.Defs[id]] = true
			}
		}
		return true
	})
	// a len local must not be reassigned, and window not assigned in purge
	stable := true
	ast.Inspect(fn.Decl.Body, func(n ast.Node) bool {
		if as, ok := n.(*ast.AssignStmt); ok && as.Tok != token.DEFINE {
			for _, l := range as.Lhs {
				if id, ok := ast.Unparen(l).(*ast.Ident); ok && lenLocals[info.Uses[id]] {
					stable = false
				}
				if field(l) == "window" {
					stable = false
				}
			}
		}
		return true
	})
	if !stable {
		c.Undecided("C03.purge", "windowTimeBuffer.purge#len", fn.Decl.Pos(), "len(window) is not a constant of the call: the window or the local that holds its length is reassigned in purge")
		return
	}
	var linear func(e ast.Expr) map[string]int64
	linear = func(e ast.Expr) map[string]int64 {
		e = ast.Unparen(e)
		if tv, ok := info.Types[e]; ok && tv.Value != nil {
			if v, exact := constant.Int64Val(constant.ToInt(tv.Value)); exact {
				return map[string]int64{"1": v}
			}
			return nil
		}
		if isLenWindow(e) {
			return map[string]int64{"len": 1}
		}
		if f := field(e); f == "start" || f == "stop" || f == "size" {
			return map[string]int64{f: 1}
		}
		switch x := e.(type) {
		case *ast.BinaryExpr:
			if x.Op != token.ADD && x.Op != token.SUB {
				return nil
			}
			l, r := linear(x.X), linear(x.Y)
			if l == nil || r == nil {
				return nil
			}
			out := map[string]int64{}
			for k, v := range l {
				out[k] += v
			}
			for k, v := range r {
				if x.Op == token.ADD {
					out[k] += v
				} else {
					out[k] -= v
				}
			}
			return out
		case *ast.UnaryExpr:
			if x.Op == token.SUB {
				if l := linear(x.X); l != nil {
					out := map[string]int64{}
					for k, v := range l {
						out[k] = -v
					}
					return out
				}
			}
		}
		return nil
	}
	show := func(m map[string]int64) string {
		if m == nil {
			return "not a linear form"
		}
		var ks []string
		for k, v := range m {
			if v != 0 {
				ks = append(ks, k)
			}
		}
		sort.Strings(ks)
		var sb strings.Builder
		for _, k := range ks {
			fmt.Fprintf(&sb, "%+d·%s ", m[k], k)
		}
		return strings.TrimSpace(sb.String())
	}
	same := func(a, b map[string]int64) bool {
		if a == nil || b == nil {
			return false
		}
		for k, v := range a {
			if b[k] != v {
				return false
			}
		}
		for k, v := range b {
			if a[k] != v {
				return false
			}
		}
		return true
	}

	// --- the keep test
	var keep types.Object
	var keepLit *ast.FuncLit
	ast.Inspect(fn.Decl.Body, func(n ast.Node) bool {
		if as, ok := n.(*ast.AssignStmt); ok && as.Tok == token.DEFINE && len(as.Lhs) == 1 && len(as.Rhs) == 1 {
			if fl, ok := as.Rhs[0].(*ast.FuncLit); ok && keepLit == nil {
				if id, ok := as.Lhs[0].(*ast.Ident); ok {
					keep, keepLit = info.Defs[id], fl
				}
			}
		}
		return true
	})
	if keepLit == nil || keepLit.Type.Params.NumFields() != 1 || len(keepLit.Type.Params.List[0].Names) != 1 {
		c.Undecided("C03.purge", "windowTimeBuffer.purge#keep", fn.Decl.Pos(), "the keep test (a function literal of one time) was not found")
		return
	}
	tObj := info.Defs[keepLit.Type.Params.List[0].Names[0]]
	// relation of t to oldest stated by an expression: "<", "<=", ">", ">=", "==", "!=" or ""
	neg := map[string]string{"<": ">=", "<=": ">", ">": "<=", ">=": "<", "==": "!=", "!=": "=="}
	flip := map[string]string{"<": ">", "<=": ">=", ">": "<", ">=": "<=", "==": "==", "!=": "!="}
	var rel func(e ast.Expr) string
	rel = func(e ast.Expr) string {
		e = ast.Unparen(e)
		switch x := e.(type) {
		case *ast.UnaryExpr:
			if x.Op == token.NOT {
				return neg[rel(x.X)]
			}
		case *ast.BinaryExpr:
			if x.Op == token.LOR {
				a, b := rel(x.X), rel(x.Y)
				if (a == ">" && b == "==") || (a == "==" && b == ">") {
					return ">="
				}
			}
		case *ast.CallExpr:
			sel, ok := x.Fun.(*ast.SelectorExpr)
			if !ok || len(x.Args) != 1 {
				return ""
			}
			cal := core.Callee(info, x)
			if cal == nil || cal.Pkg() == nil || cal.Pkg().Path() != "time" {
				return ""
			}
			r := map[string]string{"After": ">", "Before": "<", "Equal": "=="}[cal.Name()]
			if r == "" {
				return ""
			}
			xi, _ := ast.Unparen(sel.X).(*ast.Ident)
			ai, _ := ast.Unparen(x.Args[0]).(*ast.Ident)
			if xi == nil || ai == nil {
				return ""
			}
			switch {
			case info.Uses[xi] == tObj && info.Uses[ai] == oldest:
				return r
			case info.Uses[xi] == oldest && info.Uses[ai] == tObj:
				return flip[r]
			}
		}
		return ""
	}
	type condPol struct {
		cond ast.Expr
		then bool
	}
	// enclosing if conditions of a node inside rootNode
	enclosing := func(rootNode ast.Node, target ast.Node) []condPol {
		var out []condPol
		var walk func(n ast.Node, acc []condPol) bool
		walk = func(n ast.Node, acc []condPol) bool {
			if n == nil {
				return false
			}
			if n == target {
				out = append([]condPol{}, acc...)
				return true
			}
			if n.Pos() > target.Pos() || n.End() < target.End() {
				return false
			}
			if is, ok := n.(*ast.IfStmt); ok {
				if is.Init != nil && walk(is.Init, acc) {
					return true
				}
				if walk(is.Body, append(acc, condPol{is.Cond, true})) {
					return true
				}
				if is.Else != nil && walk(is.Else, append(acc, condPol{is.Cond, false})) {
					return true
				}
				return false
			}
			found := false
			ast.Inspect(n, func(m ast.Node) bool {
				if found || m == nil {
					return false
				}
				if m == n {
					return true
				}
				if walk(m, acc) {
					found = true
				}
				return false
			})
			return found
		}
		walk(rootNode, nil)
		return out
	}
	isParam := func(e ast.Expr, o types.Object) bool {
		id, ok := ast.Unparen(e).(*ast.Ident)
		return ok && info.Uses[id] == o
	}
	keepOK, keepFailed := true, false
	nret := 0
	ast.Inspect(keepLit.Body, func(n ast.Node) bool {
		ret, ok := n.(*ast.ReturnStmt)
		if !ok || len(ret.Results) != 1 {
			return true
		}
		nret++
		want := ">" // not inclusive
		conds := enclosing(keepLit.Body, ret)
		decided := false
		for _, cp := range conds {
			if isParam(cp.cond, inclusive) {
				decided = true
				if cp.then {
					want = ">="
				}
			} else if u, ok := ast.Unparen(cp.cond).(*ast.UnaryExpr); ok && u.Op == token.NOT && isParam(u.X, inclusive) {
				decided = true
				if !cp.then {
					want = ">="
				}
			} else {
				keepOK = false
			}
		}
		if !decided {
			// the fall-through return: reached when the inclusive branch has left
			want = ">"
			// require that an `if inclusive { return }` precedes it
			pre := false
			for _, st := range an.Effective(keepLit.Body.List) {
				if is, ok := st.(*ast.IfStmt); ok && is.End() < ret.Pos() && isParam(is.Cond, inclusive) && is.Else == nil {
					if l := an.Effective(is.Body.List); len(l) > 0 {
						if _, ok := l[len(l)-1].(*ast.ReturnStmt); ok {
							pre = true
						}
					}
				}
			}
			if !pre {
				keepOK = false
			}
		}
		if got := rel(ret.Results[0]); got != want {
			keepOK, keepFailed = false, true
			c.Fail("C03.purge", "windowTimeBuffer.purge#keep", ret.Pos(), "the keep test returns t %s oldest where t %s oldest is required (inclusive ⇒ a point at exactly T−period stays, [T−period, T); otherwise it goes, (t−period, t])", orQ(got), want)
		}
		return true
	})
	if keepOK && nret >= 2 {
		c.Ok("C03.purge", "windowTimeBuffer.purge#keep")
	} else if keepOK {
		c.Fail("C03.purge", "windowTimeBuffer.purge#keep", keepLit.Pos(), "the keep test does not distinguish inclusive from exclusive (%d return statements)", nret)
	} else if !keepFailed {
		// the shape is unknown
		c.Check(false, "C03.purge", "windowTimeBuffer.purge#keep-shape", keepLit.Pos(), "the keep test is not a two-way choice on the inclusive flag between time comparisons of its argument with the purge bound")
	}

	// --- scans
	isKeepOf := func(e ast.Expr, idx func(ast.Expr) bool) bool {
		call, ok := ast.Unparen(e).(*ast.CallExpr)
		if !ok || len(call.Args) != 1 {
			return false
		}
		id, ok := call.Fun.(*ast.Ident)
		if !ok || info.Uses[id] != keep {
			return false
		}
		tc, ok := ast.Unparen(call.Args[0]).(*ast.CallExpr)
		if !ok || len(tc.Args) != 0 {
			return false
		}
		ts, ok := tc.Fun.(*ast.SelectorExpr)
		if !ok || ts.Sel.Name != "Time" {
			return false
		}
		ix, ok := ast.Unparen(ts.X).(*ast.IndexExpr)
		return ok && field(ix.X) == "window" && idx(ix.Index)
	}
	idxStart := func(e ast.Expr) bool { return field(e) == "start" }
	idxLast := func(e ast.Expr) bool { return same(linear(e), map[string]int64{"len": 1, "1": -1}) }
	type scan struct {
		loop  *ast.ForStmt
		bound string // "stop" | "len"
		reset bool
	}
	var scans []scan
	var parentBlocks []*ast.BlockStmt
	ast.Inspect(fn.Decl.Body, func(n ast.Node) bool {
		if _, ok := n.(*ast.FuncLit); ok {
			return false
		}
		if b, ok := n.(*ast.BlockStmt); ok {
			parentBlocks = append(parentBlocks, b)
		}
		return true
	})
	nscan := 0
	for _, blk := range parentBlocks {
		list := an.Effective(blk.List)
		for i, st := range list {
			fs, ok := st.(*ast.ForStmt)
			if !ok {
				continue
			}
			nscan++
			construct := fmt.Sprintf("windowTimeBuffer.purge#scan%d", nscan)
			sc := scan{loop: fs}
			be, _ := ast.Unparen(fs.Cond).(*ast.BinaryExpr)
			switch {
			case be != nil && be.Op == token.LSS && field(be.X) == "start" && field(be.Y) == "stop":
				sc.bound = "stop"
			case be != nil && be.Op == token.LSS && field(be.X) == "start" && isLenWindow(be.Y):
				sc.bound = "len"
			default:
				c.Fail("C03.purge", construct, fs.Pos(), "a scan of purge does not run while start < stop or start < len(window)")
				continue
			}
			if fs.Init != nil {
				as, ok := fs.Init.(*ast.AssignStmt)
				if ok && as.Tok == token.ASSIGN && len(as.Lhs) == 1 && field(as.Lhs[0]) == "start" && same(linear(as.Rhs[0]), map[string]int64{}) {
					sc.reset = true
				} else if ok && as.Tok == token.ASSIGN && len(as.Lhs) == 1 && field(as.Lhs[0]) == "start" && linear(as.Rhs[0]) != nil && len(show(linear(as.Rhs[0]))) == 0 {
					sc.reset = true
				} else {
					c.Fail("C03.purge", construct, fs.Pos(), "a scan of purge starts with something other than start = 0")
					continue
				}
			}
			inc, ok := fs.Post.(*ast.IncDecStmt)
			if !ok || inc.Tok != token.INC || field(inc.X) != "start" {
				c.Fail("C03.purge", construct, fs.Pos(), "a scan of purge does not advance start by one per step")
				continue
			}
			body := an.Effective(fs.Body.List)
			okBody := false
			if len(body) == 1 {
				if is, ok := body[0].(*ast.IfStmt); ok && is.Init == nil && is.Else == nil && isKeepOf(is.Cond, idxStart) {
					if l := an.Effective(is.Body.List); len(l) == 1 {
						if br, ok := l[0].(*ast.BranchStmt); ok && br.Tok == token.BREAK && br.Label == nil {
							okBody = true
						}
					}
				}
			}
			if !okBody {
				c.Fail("C03.purge", construct, fs.Pos(), "a scan of purge does not stop exactly at the first point the keep test accepts (window[start])")
				continue
			}
			// where it stands
			conds := enclosing(fn.Decl.Body, fs)
			contiguous, wrapped, lastKept, lastGone := false, false, false, false
			for _, cp := range conds {
				if b, ok := ast.Unparen(cp.cond).(*ast.BinaryExpr); ok && b.Op == token.LSS && field(b.X) == "start" && field(b.Y) == "stop" {
					contiguous, wrapped = cp.then, !cp.then
				} else if b, ok := ast.Unparen(cp.cond).(*ast.BinaryExpr); ok && b.Op == token.GTR && field(b.X) == "stop" && field(b.Y) == "start" {
					contiguous, wrapped = cp.then, !cp.then
				} else if isKeepOf(cp.cond, idxLast) {
					lastKept, lastGone = cp.then, !cp.then
				}
			}
			where := ""
			switch {
			case sc.bound == "stop" && !sc.reset:
				if !contiguous {
					where = "the scan from the current start to stop runs outside the contiguous case (start < stop): in a wrapped ring it never runs (start >= stop) and nothing is purged"
				}
			case sc.bound == "len":
				if sc.reset || !wrapped || !lastKept {
					where = "the scan of the older segment (to len(window)) must run, without resetting start, exactly when the ring is wrapped and the segment's last point window[len-1] is kept"
				}
			case sc.bound == "stop" && sc.reset:
				if !wrapped || !lastGone {
					where = "the scan that restarts at 0 must run exactly when the ring is wrapped and the older segment's last point window[len-1] is not kept (the whole older segment is too old)"
				}
			}
			if where != "" {
				c.Fail("C03.purge", construct, fs.Pos(), "%s", where)
				continue
			}
			c.Ok("C03.purge", construct)
			scans = append(scans, sc)
			// the size stored right after the scan
			sconstruct := fmt.Sprintf("windowTimeBuffer.purge#size%d", nscan)
			if i+1 >= len(list) {
				c.Fail("C03.purge", sconstruct, fs.End(), "no size is stored after a scan of purge: points() allocates size slots and walks start..stop")
				continue
			}
			as, ok := list[i+1].(*ast.AssignStmt)
			if !ok || as.Tok != token.ASSIGN || len(as.Lhs) != 1 || field(as.Lhs[0]) != "size" {
				c.Fail("C03.purge", sconstruct, list[i+1].Pos(), "the statement after a scan of purge does not store the size")
				continue
			}
			want := map[string]int64{"stop": 1, "start": -1}
			if sc.bound == "len" {
				want = map[string]int64{"len": 1, "start": -1, "stop": 1}
			}
			got := linear(as.Rhs[0])
			c.Check(same(got, want), "C03.purge", sconstruct, as.Pos(), "after the scan to %s the size stored is [%s], the ring then holds [%s] points: a window is emitted with slots that are empty, stale or missing (points() allocates size slots) — e.g. a full wrapped ring counted as empty is dropped whole", sc.bound, show(got), show(want))
		}
	}
	c.Floor("C03.purge", "scans of purge", len(scans), 3)
	// every store of size in purge follows a scan
	nsz := 0
	ast.Inspect(fn.Decl.Body, func(n ast.Node) bool {
		if as, ok := n.(*ast.AssignStmt); ok {
			for _, l := range as.Lhs {
				if field(l) == "size" {
					nsz++
				}
			}
		}
		if inc, ok := n.(*ast.IncDecStmt); ok && field(inc.X) == "size" {
			nsz++
		}
		return true
	})
	c.Check(nsz == nscan, "C03.purge", "windowTimeBuffer.purge#size-stores", fn.Decl.Pos(), "purge stores size %d times but has %d scans: a size stored elsewhere is not compared", nsz, nscan)
}

func orQ(s string) string {
	if s == "" {
		return "?"
	}
	return s
}

// c03Insert: the index arithmetic of windowTimeBuffer.insert behind C03.grow and C03.empty, as linear forms and a fixed order:
// grow exactly when size == cap(window) into a slice of length size+1 (one free slot), then start = 0 and stop = size, the newer
// segment copied behind the len−start (= size−start, the ring is full) older points; wrap stop to 0 exactly when the slice
// cannot be extended (len == cap) and stop is at its end; store by append exactly when stop == len(window) and in place
// otherwise; then size and stop each advance by one, unconditionally.
func c03Insert(c *core.Ctx, root *packages.Package) {
	c.Rule("C03.insert", "A1 (reference table, linear forms): windowTimeBuffer.insert grows exactly when size == cap(window), into a slice of length size+1, and leaves start = 0, stop = size with the newer segment behind the size−start older points; wraps stop to 0 exactly when len == cap and stop == len; stores with append exactly when stop == len(window) and at window[stop] otherwise; afterwards size and stop are each incremented once on every path")
	fn := c.Need("C03.insert", "", "windowTimeBuffer", "insert")
	if fn == nil {
		return
	}
	c.Analysed(fn)
	info := root.TypesInfo
	recv := info.Defs[fn.Decl.Recv.List[0].Names[0]]
	var pObj types.Object
	if fn.Decl.Type.Params.NumFields() == 1 && len(fn.Decl.Type.Params.List[0].Names) == 1 {
		pObj = info.Defs[fn.Decl.Type.Params.List[0].Names[0]]
	}
	field := func(e ast.Expr) string {
		if sel, ok := ast.Unparen(e).(*ast.SelectorExpr); ok {
			if id, ok := ast.Unparen(sel.X).(*ast.Ident); ok && info.Uses[id] == recv {
				return sel.Sel.Name
			}
		}
		return ""
	}
	builtinOfWindow := func(e ast.Expr, name string) bool {
		call, ok := ast.Unparen(e).(*ast.CallExpr)
		return ok && core.IsBuiltin(info, call, name) && len(call.Args) == 1 && field(call.Args[0]) == "window"
	}
	var linear func(e ast.Expr) map[string]int64
	linear = func(e ast.Expr) map[string]int64 {
		e = ast.Unparen(e)
		if tv, ok := info.Types[e]; ok && tv.Value != nil {
			if v, exact := constant.Int64Val(constant.ToInt(tv.Value)); exact {
				return map[string]int64{"1": v}
			}
			return nil
		}
		if builtinOfWindow(e, "len") {
			return map[string]int64{"len": 1}
		}
		if builtinOfWindow(e, "cap") {
			return map[string]int64{"cap": 1}
		}
		if f := field(e); f == "start" || f == "stop" || f == "size" {
			return map[string]int64{f: 1}
		}
		if x, ok := e.(*ast.BinaryExpr); ok && (x.Op == token.ADD || x.Op == token.SUB) {
			l, r := linear(x.X), linear(x.Y)
			if l == nil || r == nil {
				return nil
			}
			out := map[string]int64{}
			for k, v := range l {
				out[k] += v
			}
			for k, v := range r {
				if x.Op == token.ADD {
					out[k] += v
				} else {
					out[k] -= v
				}
			}
			return out
		}
		return nil
	}
	is := func(e ast.Expr, want map[string]int64) bool {
		got := linear(e)
		if got == nil {
			return false
		}
		for k, v := range got {
			if want[k] != v {
				return false
			}
		}
		for k, v := range want {
			if got[k] != v {
				return false
			}
		}
		return true
	}
	// a == b between two linear forms, either order
	eqCond := func(e ast.Expr, a, b map[string]int64) bool {
		be, ok := ast.Unparen(e).(*ast.BinaryExpr)
		if !ok || be.Op != token.EQL {
			return false
		}
		return (is(be.X, a) && is(be.Y, b)) || (is(be.X, b) && is(be.Y, a))
	}
	sz, ln, cp, stp := map[string]int64{"size": 1}, map[string]int64{"len": 1}, map[string]int64{"cap": 1}, map[string]int64{"stop": 1}
	zero := map[string]int64{}
	top := an.Effective(fn.Decl.Body.List)
	var grow, wrap, store *ast.IfStmt
	incSize, incStop := 0, 0
	var order []string
	for _, st := range top {
		switch s := st.(type) {
		case *ast.IfStmt:
			switch {
			case s.Init == nil && s.Else == nil && eqCond(s.Cond, sz, cp):
				grow = s
				order = append(order, "grow")
			case s.Init == nil && eqCond(s.Cond, stp, ln):
				store = s
				order = append(order, "store")
			case s.Init == nil && s.Else == nil:
				if be, ok := ast.Unparen(s.Cond).(*ast.BinaryExpr); ok && be.Op == token.LAND &&
					((eqCond(be.X, ln, cp) && eqCond(be.Y, stp, ln)) || (eqCond(be.Y, ln, cp) && eqCond(be.X, stp, ln))) {
					wrap = s
					order = append(order, "wrap")
				}
			}
		case *ast.IncDecStmt:
			if s.Tok == token.INC {
				switch field(s.X) {
				case "size":
					incSize++
					order = append(order, "advance")
				case "stop":
					incStop++
					order = append(order, "advance")
				}
			}
		}
	}
	// grow
	if grow == nil {
		c.Fail("C03.insert", "windowTimeBuffer.insert#grow-when", fn.Decl.Pos(), "insert has no top-level `if size == cap(window)`: the ring must grow exactly when every slot of its array is taken")
	} else {
		c.Ok("C03.insert", "windowTimeBuffer.insert#grow-when")
		var mk *ast.CallExpr
		var wObj types.Object
		after := map[string]ast.Expr{}
		for _, st := range an.Effective(grow.Body.List) {
			as, ok := st.(*ast.AssignStmt)
			if !ok || len(as.Lhs) != 1 || len(as.Rhs) != 1 {
				continue
			}
			if call, ok := ast.Unparen(as.Rhs[0]).(*ast.CallExpr); ok && core.IsBuiltin(info, call, "make") && as.Tok == token.DEFINE {
				if id, ok := as.Lhs[0].(*ast.Ident); ok {
					mk, wObj = call, info.Defs[id]
				}
			}
			if f := field(as.Lhs[0]); f != "" && as.Tok == token.ASSIGN {
				after[f] = as.Rhs[0]
			}
		}
		c.Check(mk != nil && len(mk.Args) >= 2 && is(mk.Args[1], map[string]int64{"size": 1, "1": 1}), "C03.insert", "windowTimeBuffer.insert#grow-len", grow.Pos(), "the grown slice is not made with length size+1: the store that follows needs exactly one slot behind the size copied points (stop = size)")
		wOK := false
		if id, ok := ast.Unparen(after["window"]).(*ast.Ident); ok && wObj != nil && info.Uses[id] == wObj {
			wOK = true
		}
		c.Check(wOK && after["start"] != nil && is(after["start"], zero) && after["stop"] != nil && is(after["stop"], sz), "C03.insert", "windowTimeBuffer.insert#grow-indices", grow.Pos(), "after growing, insert must install the new slice with start = 0 and stop = size (the copied points lie in [0, size))")
		// offset of the newer segment
		offOK, found := false, false
		ast.Inspect(grow.Body, func(n ast.Node) bool {
			call, ok := n.(*ast.CallExpr)
			if !ok || !core.IsBuiltin(info, call, "copy") || len(call.Args) != 2 {
				return true
			}
			src, ok := ast.Unparen(call.Args[1]).(*ast.SliceExpr)
			if !ok || field(src.X) != "window" || src.Low != nil || src.High == nil || !is(src.High, stp) {
				return true
			}
			found = true
			if dst, ok := ast.Unparen(call.Args[0]).(*ast.SliceExpr); ok && dst.High == nil && dst.Low != nil {
				if id, ok := ast.Unparen(dst.X).(*ast.Ident); ok && info.Uses[id] == wObj {
					offOK = is(dst.Low, map[string]int64{"size": 1, "start": -1}) || is(dst.Low, map[string]int64{"len": 1, "start": -1}) || is(dst.Low, map[string]int64{"cap": 1, "start": -1})
				}
			}
			return true
		})
		c.Check(found && offOK, "C03.insert", "windowTimeBuffer.insert#grow-offset", grow.Pos(), "on growth of a wrapped ring the newer segment window[:stop] must be copied behind the older one, at offset size−start (= len−start, the ring is full): another offset overwrites or leaves a hole among the copied points")
	}
	// wrap
	if wrap == nil {
		c.Fail("C03.insert", "windowTimeBuffer.insert#wrap", fn.Decl.Pos(), "insert has no top-level `if len(window) == cap(window) && stop == len(window)`: stop must wrap to 0 exactly when the slice cannot be extended and stop is at its end")
	} else {
		okw := false
		if l := an.Effective(wrap.Body.List); len(l) == 1 {
			if as, ok := l[0].(*ast.AssignStmt); ok && as.Tok == token.ASSIGN && len(as.Lhs) == 1 && field(as.Lhs[0]) == "stop" && is(as.Rhs[0], zero) {
				okw = true
			}
		}
		c.Check(okw, "C03.insert", "windowTimeBuffer.insert#wrap", wrap.Pos(), "the wrap branch must set stop = 0 and nothing else")
	}
	// store
	if store == nil || store.Else == nil {
		c.Fail("C03.insert", "windowTimeBuffer.insert#store", fn.Decl.Pos(), "insert has no top-level `if stop == len(window) { append } else { window[stop] = p }`")
	} else {
		appOK, putOK := false, false
		if l := an.Effective(store.Body.List); len(l) == 1 {
			if as, ok := l[0].(*ast.AssignStmt); ok && as.Tok == token.ASSIGN && len(as.Lhs) == 1 && field(as.Lhs[0]) == "window" {
				if call, ok := ast.Unparen(as.Rhs[0]).(*ast.CallExpr); ok && core.IsBuiltin(info, call, "append") && len(call.Args) == 2 && field(call.Args[0]) == "window" {
					if id, ok := ast.Unparen(call.Args[1]).(*ast.Ident); ok && info.Uses[id] == pObj {
						appOK = true
					}
				}
			}
		}
		if eb, ok := store.Else.(*ast.BlockStmt); ok {
			if l := an.Effective(eb.List); len(l) == 1 {
				if as, ok := l[0].(*ast.AssignStmt); ok && as.Tok == token.ASSIGN && len(as.Lhs) == 1 {
					if ix, ok := ast.Unparen(as.Lhs[0]).(*ast.IndexExpr); ok && field(ix.X) == "window" && is(ix.Index, stp) {
						if id, ok := ast.Unparen(as.Rhs[0]).(*ast.Ident); ok && info.Uses[id] == pObj {
							putOK = true
						}
					}
				}
			}
		}
		c.Check(appOK && putOK, "C03.insert", "windowTimeBuffer.insert#store", store.Pos(), "the point must be appended exactly when stop == len(window) and stored at window[stop] otherwise (append %v, in place %v)", appOK, putOK)
	}
	c.Check(incSize == 1 && incStop == 1, "C03.insert", "windowTimeBuffer.insert#advance", fn.Decl.Pos(), "insert must advance size and stop by one each, once, unconditionally (size++ ×%d, stop++ ×%d at the top level)", incSize, incStop)
	// order: grow, wrap, store, advance, advance
	want := []string{"grow", "wrap", "store", "advance", "advance"}
	c.Check(strings.Join(order, " ") == strings.Join(want, " "), "C03.insert", "windowTimeBuffer.insert#order", fn.Decl.Pos(), "insert's steps run as [%s], required [%s]: growing after the wrap test or storing before it puts the point in the wrong slot", strings.Join(order, " "), strings.Join(want, " "))
}

// c03Points: the reading side of the time ring. points() allocates size slots and walks the ring in time order: the
// contiguous ring window[start:stop] exactly when start < stop, otherwise the older segment [start, len) and then the newer one
// [0, stop).
func c03Points(c *core.Ctx, root *packages.Package) {
	c.Rule("C03.points", "A1 (reference table): windowTimeBuffer.points allocates exactly size slots and copies the ring in time order — window[start:stop] exactly when start < stop, otherwise the slots start..len(window) and then 0..stop, each slot once (index advanced by one, strict upper bound)")
	fn := c.Need("C03.points", "", "windowTimeBuffer", "points")
	if fn == nil {
		return
	}
	c.Analysed(fn)
	info := root.TypesInfo
	recv := info.Defs[fn.Decl.Recv.List[0].Names[0]]
	field := func(e ast.Expr) string {
		if sel, ok := ast.Unparen(e).(*ast.SelectorExpr); ok {
			if id, ok := ast.Unparen(sel.X).(*ast.Ident); ok && info.Uses[id] == recv {
				return sel.Sel.Name
			}
		}
		return ""
	}
	lenLocals := map[types.Object]bool{}
	isLen := func(e ast.Expr) bool {
		e = ast.Unparen(e)
		if call, ok := e.(*ast.CallExpr); ok && core.IsBuiltin(info, call, "len") && len(call.Args) == 1 && field(call.Args[0]) == "window" {
			return true
		}
		id, ok := e.(*ast.Ident)
		return ok && lenLocals[info.Uses[id]]
	}
	ast.Inspect(fn.Decl.Body, func(n ast.Node) bool {
		if as, ok := n.(*ast.AssignStmt); ok && as.Tok == token.DEFINE && len(as.Lhs) == 1 && len(as.Rhs) == 1 && isLen(as.Rhs[0]) {
			if id, ok := as.Lhs[0].(*ast.Ident); ok {
				lenLocals[info.Defs[id]] = true
			}
		}
		return true
	})
	// make(…, size)
	mkOK := false
	var choice *ast.IfStmt
	for _, st := range an.Effective(fn.Decl.Body.List) {
		switch s := st.(type) {
		case *ast.AssignStmt:
			if len(s.Rhs) == 1 {
				if call, ok := ast.Unparen(s.Rhs[0]).(*ast.CallExpr); ok && core.IsBuiltin(info, call, "make") && len(call.Args) == 2 && field(call.Args[1]) == "size" {
					mkOK = true
				}
			}
		case *ast.IfStmt:
			if be, ok := ast.Unparen(s.Cond).(*ast.BinaryExpr); ok && s.Else != nil {
				if (be.Op == token.GTR && field(be.X) == "stop" && field(be.Y) == "start") || (be.Op == token.LSS && field(be.X) == "start" && field(be.Y) == "stop") {
					choice = s
				}
			}
		}
	}
	c.Check(mkOK, "C03.points", "windowTimeBuffer.points#alloc", fn.Decl.Pos(), "points() must allocate exactly size slots (make(…, size)) at its top level")
	if choice == nil {
		c.Fail("C03.points", "windowTimeBuffer.points#choice", fn.Decl.Pos(), "points() has no top-level two-way choice on start < stop (contiguous ring vs wrapped ring)")
		return
	}
	// contiguous: range over window[start:stop]
	contOK := false
	if l := an.Effective(choice.Body.List); len(l) == 1 {
		if rs, ok := l[0].(*ast.RangeStmt); ok {
			if se, ok := ast.Unparen(rs.X).(*ast.SliceExpr); ok && field(se.X) == "window" && se.Low != nil && se.High != nil && field(se.Low) == "start" && field(se.High) == "stop" && se.Max == nil {
				contOK = true
			}
		}
	}
	c.Check(contOK, "C03.points", "windowTimeBuffer.points#contiguous", choice.Pos(), "with start < stop points() must copy exactly window[start:stop]")
	// wrapped: two loops in order
	type lp struct {
		from, to string
		ok       bool
	}
	var loops []lp
	if eb, ok := choice.Else.(*ast.BlockStmt); ok {
		for _, st := range an.Effective(eb.List) {
			fs, ok := st.(*ast.ForStmt)
			if !ok {
				continue
			}
			var l lp
			var iObj types.Object
			if as, ok := fs.Init.(*ast.AssignStmt); ok && as.Tok == token.DEFINE && len(as.Lhs) == 1 && len(as.Rhs) == 1 {
				if id, ok := as.Lhs[0].(*ast.Ident); ok {
					iObj = info.Defs[id]
				}
				if field(as.Rhs[0]) == "start" {
					l.from = "start"
				} else if tv, ok := info.Types[as.Rhs[0]]; ok && tv.Value != nil && constant.Sign(tv.Value) == 0 {
					l.from = "0"
				}
			}
			if be, ok := ast.Unparen(fs.Cond).(*ast.BinaryExpr); ok && be.Op == token.LSS {
				if id, ok := ast.Unparen(be.X).(*ast.Ident); ok && iObj != nil && info.Uses[id] == iObj {
					if isLen(be.Y) {
						l.to = "len"
					} else if field(be.Y) == "stop" {
						l.to = "stop"
					}
				}
			}
			if inc, ok := fs.Post.(*ast.IncDecStmt); ok && inc.Tok == token.INC {
				if id, ok := ast.Unparen(inc.X).(*ast.Ident); ok && iObj != nil && info.Uses[id] == iObj {
					// the body reads window[i]
					ast.Inspect(fs.Body, func(n ast.Node) bool {
						if ix, ok := n.(*ast.IndexExpr); ok && field(ix.X) == "window" {
							if id, ok := ast.Unparen(ix.Index).(*ast.Ident); ok && info.Uses[id] == iObj {
								l.ok = true
							}
						}
						return true
					})
				}
			}
			loops = append(loops, l)
		}
	}
	wrapOK := len(loops) == 2 && loops[0] == lp{"start", "len", true} && loops[1] == lp{"0", "stop", true}
	c.Check(wrapOK, "C03.points", "windowTimeBuffer.points#wrapped", choice.Else.Pos(), "with start >= stop points() must copy the slots start..len(window) and then 0..stop, one by one (found %v): another order or bound emits the window out of time order or with empty or stale slots", loops)
}
