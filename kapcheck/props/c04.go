package props

import (
	"fmt"
	"go/ast"
	"go/token"
	"go/types"
	"sort"
	"strings"

	"golang.org/x/tools/go/packages"

	"kapcheck/an"
	"kapcheck/core"
)

func init() {
	register(&Property{
		ID:       "C04",
		Patterns: []string{"./tick/stateful", "./tick/ast", "."},
		Run:      runC04,
		Explanation: "The evaluator's operator table (evaluationFuncs) is a literal whose keys state what each entry must do. Every entry is analysed on all of its paths and compared with the " +
			"documented operator×type matrix: operands evaluated with the Eval method of the key's types, error side flags, the Go operator the key names with left on the left, result kind = returnType, " +
			"int↔float conversion only on the int side of mixed pairs, AND/OR short-circuit, no value on error paths. The key set is compared with the documented matrix. " +
			"The re-specialisation protocol (eval/evaluateDynamicNode/Type) and the signature check before evaluation (EvalPredicate, expression.Eval) are compared with reference tables. " +
			"NOT decided: numeric results of Go's operators and of built-in functions; per-group history of stateful functions.",
		Assumptions: []string{
			"Go's own arithmetic/comparison operators on int64/float64/string/Duration are the mathematical reference",
			"the documented operator matrix in props/c04.go (Appendix B of DESIGN.md) is the reference",
		},
	})
}

type opKey struct{ op, l, r string }

// the documented operator × type matrix → result type
func c04Matrix() map[opKey]string {
	m := map[opKey]string{}
	add := func(ops []string, l, r, res string) {
		for _, o := range ops {
			m[opKey{o, l, r}] = res
		}
	}
	cmp := []string{"TokenEqual", "TokenNotEqual", "TokenLess", "TokenLessEqual", "TokenGreater", "TokenGreaterEqual"}
	add([]string{"TokenAnd", "TokenOr", "TokenEqual", "TokenNotEqual"}, "TBool", "TBool", "TBool")
	for _, p := range [][2]string{{"TInt", "TInt"}, {"TInt", "TFloat"}, {"TFloat", "TInt"}, {"TFloat", "TFloat"}, {"TString", "TString"}, {"TDuration", "TDuration"}} {
		add(cmp, p[0], p[1], "TBool")
	}
	add([]string{"TokenRegexEqual", "TokenRegexNotEqual"}, "TString", "TRegex", "TBool")
	add([]string{"TokenPlus", "TokenMinus", "TokenMult", "TokenDiv"}, "TFloat", "TFloat", "TFloat")
	add([]string{"TokenPlus", "TokenMinus", "TokenMult", "TokenDiv", "TokenMod"}, "TInt", "TInt", "TInt")
	add([]string{"TokenPlus", "TokenMinus"}, "TDuration", "TDuration", "TDuration")
	add([]string{"TokenPlus"}, "TString", "TString", "TString")
	add([]string{"TokenMult"}, "TDuration", "TInt", "TDuration")
	add([]string{"TokenMult"}, "TInt", "TDuration", "TDuration")
	add([]string{"TokenMult"}, "TDuration", "TFloat", "TDuration")
	add([]string{"TokenMult"}, "TFloat", "TDuration", "TDuration")
	add([]string{"TokenDiv"}, "TDuration", "TInt", "TDuration")
	add([]string{"TokenDiv"}, "TDuration", "TFloat", "TDuration")
	add([]string{"TokenDiv"}, "TDuration", "TDuration", "TInt")
	return m
}

var c04Eval = map[string]string{"TBool": "EvalBool", "TInt": "EvalInt", "TFloat": "EvalFloat", "TString": "EvalString", "TDuration": "EvalDuration", "TRegex": "EvalRegex"}
var c04Field = map[string]string{"TBool": "Bool", "TInt": "Int64", "TFloat": "Float64", "TString": "String", "TDuration": "Duration"}
var c04GoOp = map[string]string{"TokenEqual": "==", "TokenNotEqual": "!=", "TokenLess": "<", "TokenLessEqual": "<=", "TokenGreater": ">", "TokenGreaterEqual": ">=",
	"TokenPlus": "+", "TokenMinus": "-", "TokenMult": "*", "TokenDiv": "/", "TokenMod": "%", "TokenAnd": "&&", "TokenOr": "||"}
var c04Flip = map[string]string{"==": "==", "!=": "!=", "<": ">", ">": "<", "<=": ">=", ">=": "<="}

// accepted canonical forms of the result term for a key
func c04Expected(k opKey) []string {
	op := c04GoOp[k.op]
	L, R := "L", "R"
	switch {
	case k.op == "TokenRegexEqual":
		return []string{"R.MatchString(L)"}
	case k.op == "TokenRegexNotEqual":
		return []string{"!R.MatchString(L)"}
	case k.op == "TokenAnd":
		return []string{"(L && R)", "R"}
	case k.op == "TokenOr":
		return []string{"(L || R)", "R"}
	}
	if _, isCmp := c04Flip[op]; isCmp {
		if k.l == "TInt" && k.r == "TFloat" {
			L = "float64(L)"
		}
		if k.l == "TFloat" && k.r == "TInt" {
			R = "float64(R)"
		}
		return []string{fmt.Sprintf("(%s %s %s)", L, op, R), fmt.Sprintf("(%s %s %s)", R, c04Flip[op], L)}
	}
	comm := func(a, o, b string) []string {
		return []string{fmt.Sprintf("(%s %s %s)", a, o, b), fmt.Sprintf("(%s %s %s)", b, o, a)}
	}
	if k.l == k.r && !(k.op == "TokenDiv" && k.l == "TDuration") {
		if (op == "+" || op == "*") && k.l != "TString" {
			return comm("L", op, "R")
		}
		return []string{fmt.Sprintf("(L %s R)", op)}
	}
	switch k {
	case opKey{"TokenMult", "TDuration", "TInt"}:
		return comm("L", "*", "time.Duration(R)")
	case opKey{"TokenMult", "TInt", "TDuration"}:
		return comm("time.Duration(L)", "*", "R")
	case opKey{"TokenMult", "TDuration", "TFloat"}:
		return []string{"time.Duration((float64(L) * R))", "time.Duration((R * float64(L)))"}
	case opKey{"TokenMult", "TFloat", "TDuration"}:
		return []string{"time.Duration((L * float64(R)))", "time.Duration((float64(R) * L))"}
	case opKey{"TokenDiv", "TDuration", "TInt"}:
		return []string{"(L / time.Duration(R))"}
	case opKey{"TokenDiv", "TDuration", "TFloat"}:
		return []string{"time.Duration((float64(L) / R))"}
	case opKey{"TokenDiv", "TDuration", "TDuration"}:
		return []string{"int64((L / R))"}
	}
	return nil
}

// c04IsIntDivision: keys whose Go operation is an integer division/modulo (used by C05, too).
func c04IsIntDivision(k opKey) bool {
	switch k {
	case opKey{"TokenDiv", "TInt", "TInt"}, opKey{"TokenMod", "TInt", "TInt"}, opKey{"TokenDiv", "TDuration", "TInt"}, opKey{"TokenDiv", "TDuration", "TDuration"}:
		return true
	}
	return false
}

type c04Entry struct {
	key   opKey
	kpos  token.Pos
	fn    *ast.FuncLit
	ret   string
	elt   *ast.KeyValueExpr
	paths []*an.Path
	eng   *an.Engine
	lpar  types.Object
	rpar  types.Object
}

// c04Entries parses the evaluationFuncs literal.
func c04Entries(c *core.Ctx, rule string, pkg *packages.Package) []*c04Entry {
	info := pkg.TypesInfo
	var lit *ast.CompositeLit
	for _, f := range pkg.Syntax {
		for _, d := range f.Decls {
			gd, ok := d.(*ast.GenDecl)
			if !ok {
				continue
			}
			for _, s := range gd.Specs {
				vs, ok := s.(*ast.ValueSpec)
				if !ok {
					continue
				}
				for i, n := range vs.Names {
					if n.Name == "evaluationFuncs" && i < len(vs.Values) {
						lit, _ = vs.Values[i].(*ast.CompositeLit)
					}
				}
			}
		}
	}
	if lit == nil {
		c.Undecided(rule, "anchor:tick/stateful.evaluationFuncs", token.NoPos, "the operator table literal was not found")
		return nil
	}
	constName := func(x ast.Expr) string {
		var id *ast.Ident
		switch y := ast.Unparen(x).(type) {
		case *ast.Ident:
			id = y
		case *ast.SelectorExpr:
			id = y.Sel
		}
		if id == nil {
			return ""
		}
		if cst, ok := info.Uses[id].(*types.Const); ok {
			return cst.Name()
		}
		return ""
	}
	var out []*c04Entry
	for _, el := range lit.Elts {
		kv, ok := el.(*ast.KeyValueExpr)
		if !ok {
			c.Undecided(rule, "evaluationFuncs#entry", el.Pos(), "entry is not key: value")
			continue
		}
		kf := an.FlattenLit(kv.Key)
		e := &c04Entry{key: opKey{constName(kf["operator"]), constName(kf["leftType"]), constName(kf["rightType"])}, kpos: kv.Pos(), elt: kv}
		vf := an.FlattenLit(kv.Value)
		e.ret = constName(vf["returnType"])
		e.fn, _ = ast.Unparen(vf["f"]).(*ast.FuncLit)
		if e.key.op == "" || e.key.l == "" || e.key.r == "" || e.fn == nil || e.ret == "" {
			c.Undecided(rule, "evaluationFuncs#entry", kv.Pos(), "entry not in the form operationKey{operator,leftType,rightType}: {f: func…, returnType}")
			continue
		}
		// parameters 2 and 3 are the operand evaluators
		var pars []types.Object
		for _, f := range e.fn.Type.Params.List {
			for _, n := range f.Names {
				pars = append(pars, info.Defs[n])
			}
		}
		if len(pars) != 4 {
			c.Undecided(rule, "evaluationFuncs#entry", kv.Pos(), "evaluation function does not have 4 named parameters")
			continue
		}
		e.lpar, e.rpar = pars[2], pars[3]
		out = append(out, e)
	}
	return out
}

func (k opKey) String() string {
	return strings.TrimPrefix(k.op, "Token") + "(" + strings.TrimPrefix(k.l, "T") + "," + strings.TrimPrefix(k.r, "T") + ")"
}

// analyse explores the entry's closure.
func (e *c04Entry) analyse(c *core.Ctx, pkg *packages.Package) error {
	info := pkg.TypesInfo
	side := func(call *ast.CallExpr) string {
		sel, ok := ast.Unparen(call.Fun).(*ast.SelectorExpr)
		if !ok {
			return ""
		}
		id, ok := ast.Unparen(sel.X).(*ast.Ident)
		if !ok {
			return ""
		}
		switch info.Uses[id] {
		case e.lpar:
			return "L"
		case e.rpar:
			return "R"
		}
		return ""
	}
	e.eng = &an.Engine{Prog: c.P, Info: info,
		TrackCall: func(call *ast.CallExpr, callee *types.Func) string {
			if s := side(call); s != "" && callee != nil {
				return s + "." + callee.Name()
			}
			return ""
		},
		Classify: func(a an.Atom) (string, bool) {
			if k, ok := an.ErrNilAtom(info, a); ok {
				switch {
				case strings.HasPrefix(k, e.lpar.Name()+".Eval") && strings.HasSuffix(k, ").1"):
					return "errL", true
				case strings.HasPrefix(k, e.rpar.Name()+".Eval") && strings.HasSuffix(k, ").1"):
					return "errR", true
				}
			}
			if strings.HasPrefix(a.Key, e.lpar.Name()+".EvalBool(") && strings.HasSuffix(a.Key, ").0") {
				return "L", false
			}
			if strings.HasPrefix(a.Key, e.rpar.Name()+".EvalBool(") && strings.HasSuffix(a.Key, ").0") {
				return "R", false
			}
			return "", false
		}}
	var err error
	e.paths, err = e.eng.RunBody(e.fn.Type, nil, e.fn.Body)
	return err
}

// term rewrites a canonical key into a term over L and R.
func (e *c04Entry) term(key string) string {
	re := func(s, par, name string) string {
		// par.EvalX(scope, executionState).0  →  name
		for {
			i := strings.Index(s, par+".Eval")
			if i < 0 {
				return s
			}
			j := strings.Index(s[i:], ").0")
			if j < 0 {
				return s
			}
			s = s[:i] + name + s[i+j+3:]
		}
	}
	key = re(key, e.lpar.Name(), "L")
	key = re(key, e.rpar.Name(), "R")
	return key
}

func runC04(c *core.Ctx) {
	c.Rule("C04.keys", "A7: the key set of evaluationFuncs equals the documented operator×left×right matrix and each entry's returnType is the documented result type")
	c.Rule("C04.operands", "(a): the left operand is evaluated with Eval<leftType> and the right with Eval<rightType>, left first, each at most once")
	c.Rule("C04.errside", "(b)(g): after a failed left evaluation the entry returns ErrSide{error: that error, IsLeft:true} and nothing else; after a failed right one IsRight:true only; no operand value is returned on an error path")
	c.Rule("C04.result", "(c)(d)(e): on success the entry returns resultContainer{<Kind>Value: term, Is<Kind>Value: true} where Kind is returnType's kind and term is the key's Go operator applied to left and right, converting exactly the int side of a mixed int/float pair")
	c.Rule("C04.shortcircuit", "(f): AND returns false without evaluating the right operand when the left is false, OR returns true when the left is true; otherwise the right operand decides")
	c.Rule("C04.respec", "A1: EvalBinaryNode.eval: a node without an evaluation function refreshes the operand types from the current scope and looks the function up again before reporting a mismatch (the answer for a point never depends on earlier points' types); a type-guard error rewrites exactly the side(s) named by the error with ActualType, re-looks-up and retries (whatever the lookup gave) unless the retry budget is spent, in which case the guard error is returned; any other outcome is returned unchanged")
	c.Rule("C04.arity", "A1: EvalFunctionNode.Type rejects a call as having too many arguments exactly when the number of arguments exceeds the size of the signature domain (a call with exactly that many is type-checked against the signatures); every argument's type is written at its own index")
	c.Rule("C04.fresh", "A1: F112: EvalBinaryNode.eval hands a node with a dynamic operand to evaluateDynamicNode (operand types from the current scope, before anything is evaluated) and only a node with constant operand types straight to the retry worker: the types a node was specialised for by earlier points are never what a point is evaluated with, and no stateful operand is evaluated twice to find out")
	c.Rule("C04.dynamic", "A2: evaluateDynamicNode stores both operand types obtained from Type() before lookupEvaluationFn, and looks up before eval; a Type() error is returned with the right side flag")
	c.Rule("C04.lookup", "A3: lookupEvaluationFn indexes evaluationFuncs with operationKey{operator: n.operator, leftType: n.leftType, rightType: n.rightType}; Type() of a dynamic node looks binaryConstantTypes up with the same three fields and never stores constReturnType")
	c.Rule("C04.sigcheck", "A2: in EvalPredicate and expression.Eval the Type(scope) call precedes every Eval* call and its error is returned")
	c.Rule("C04.boolspec", "A1: EvalBinaryNode.EvalBool re-derives the operand types for the point (evaluateDynamicNode on the node's own operands) exactly when an operand is dynamic — the node's own IsDynamic() is false for every comparison, whose result type is constant — and evaluates the specialised function otherwise")
	c.Rule("C04.refguard", "A1: no implicit coercion at the leaves: every Eval<Kind> of EvalReferenceNode returns a value with a nil error only when the value bound to the reference was asserted to be exactly the Go type of <Kind> (the identifier returned is bound by a type assertion / single-type switch case to the method's own result type, unconverted); any other dynamic type ends in the type-guard error that lets the parent re-specialise")
	c.Rule("C04.guards", "A1: EvalBinaryNode.Eval{Bool,Int,Float,String,Duration} return the container field of the requested kind only under that kind's flag, else an error")

	pkg := c.P.Pkg("tick/stateful")
	if pkg == nil {
		c.Undecided("C04.keys", "anchor:tick/stateful", token.NoPos, "package not loaded")
		return
	}
	info := pkg.TypesInfo
	entries := c04Entries(c, "C04.keys", pkg)
	c.Floor("C04.keys", "evaluationFuncs entries", len(entries), 50)
	c.AnalysedName("tick/stateful.evaluationFuncs")

	// ---- C04.keys
	want := c04Matrix()
	seen := map[opKey]bool{}
	for _, e := range entries {
		if seen[e.key] {
			c.Fail("C04.keys", "dup:"+e.key.String(), e.kpos, "duplicate key")
		}
		seen[e.key] = true
		res, ok := want[e.key]
		if !ok {
			c.Fail("C04.keys", "extra:"+e.key.String(), e.kpos, "the table defines an operator/type pair the documented matrix does not have (implicit coercion or undocumented operator)")
			continue
		}
		c.Check(res == e.ret, "C04.keys", "returnType:"+e.key.String(), e.kpos, "documented result type %s, entry declares %s", res, e.ret)
	}
	var missing []opKey
	for k := range want {
		if !seen[k] {
			missing = append(missing, k)
		}
	}
	sort.Slice(missing, func(i, j int) bool { return missing[i].String() < missing[j].String() })
	for _, k := range missing {
		c.Fail("C04.keys", "missing:"+k.String(), token.NoPos, "documented operator/type pair has no entry")
	}

	// ---- per entry
	for _, e := range entries {
		if _, ok := want[e.key]; !ok {
			continue
		}
		ks := e.key.String()
		if err := e.analyse(c, pkg); err != nil {
			c.Undecided("C04.operands", ks, e.kpos, "path enumeration: %v", err)
			continue
		}
		c.Sites(len(e.paths))
		le, re := "L."+c04Eval[e.key.l], "R."+c04Eval[e.key.r]
		logical := e.key.op == "TokenAnd" || e.key.op == "TokenOr"
		okOperands, okErr, okRes, okSC := true, true, true, true
		nSuccess := 0
		for _, p := range e.paths {
			a := p.Assign()
			w := p.Word()
			// (a) operand evaluation
			switch w {
			case le, le + "," + re:
			default:
				okOperands = false
				c.Fail("C04.operands", ks, p.RetPos, "evaluates [%s]; the key requires [%s] then [%s]", w, le, re)
			}
			if len(p.Rets) != 2 {
				c.Undecided("C04.result", ks, p.RetPos, "path does not return (container, error)")
				continue
			}
			errL, hasL := a["errL"]
			errR, hasR := a["errR"]
			switch {
			case hasL && errL, hasR && errR:
				// (b) error side
				sideField, otherField, errKeyPrefix := "IsLeft", "IsRight", e.lpar.Name()+".Eval"
				if !(hasL && errL) {
					sideField, otherField, errKeyPrefix = "IsRight", "IsLeft", e.rpar.Name()+".Eval"
				}
				fl := an.FlattenLit(p.RetX[1])
				ek := ""
				if x := fl["error"]; x != nil {
					ek = p.Key(e.eng, x)
				}
				good := strings.HasPrefix(ek, errKeyPrefix) && strings.HasSuffix(ek, ").1") &&
					fl[sideField] != nil && p.Key(e.eng, fl[sideField]) == "true" &&
					(fl[otherField] == nil || p.Key(e.eng, fl[otherField]) == "false")
				if !good {
					okErr = false
					c.Fail("C04.errside", ks+"#"+sideField, p.RetPos, "error path must return &ErrSide{error: <the failed operand's error>, %s: true} only; returns %s", sideField, p.Rets[1])
				}
				if strings.Contains(p.Rets[0], ".Eval") {
					okErr = false
					c.Fail("C04.errside", ks+"#value-on-error", p.RetPos, "an operand value is returned on an error path: %s", p.Rets[0])
				}
			case p.Rets[1] == "nil":
				nSuccess++
				val, kind, flagOK := c04Result(pkg, e, p)
				if kind == "?" {
					c.Undecided("C04.result", ks, p.RetPos, "result is not a resultContainer literal or one of the constant containers: %s", p.Rets[0])
					okRes = false
					continue
				}
				if kind != c04Field[e.ret] || !flagOK {
					okRes = false
					c.Fail("C04.result", ks+"#kind", p.RetPos, "result must be carried in %sValue with Is%sValue:true (returnType %s); carries %sValue (flag ok: %v)", c04Field[e.ret], c04Field[e.ret], e.ret, kind, flagOK)
					continue
				}
				if logical {
					l, decided := a["L"]
					short := w == le // right operand not evaluated
					switch {
					case short && decided && e.key.op == "TokenAnd" && !l && val == "false":
					case short && decided && e.key.op == "TokenOr" && l && val == "true":
					case !short && matchAny(val, c04Expected(e.key)):
						// when the left operand does not decide, the right must have been evaluated (checked by w)
						if decided && ((e.key.op == "TokenAnd" && !l) || (e.key.op == "TokenOr" && l)) {
							okSC = false
							c.Fail("C04.shortcircuit", ks, p.RetPos, "the right operand is evaluated although the left operand already decides the result")
						}
					default:
						okSC = false
						c.Fail("C04.shortcircuit", ks, p.RetPos, "path [%s] evaluates [%s] and yields %s", p.Cond(), w, val)
					}
					continue
				}
				if w != le+","+re {
					okRes = false
					c.Fail("C04.result", ks+"#operands", p.RetPos, "a result is produced without evaluating both operands: [%s]", w)
				}
				if !matchAny(val, c04Expected(e.key)) {
					okRes = false
					if c04KnownTerm(val) {
						c.Fail("C04.result", ks+"#term", p.RetPos, "result term is %s; the key requires %s", val, strings.Join(c04Expected(e.key), " or "))
					} else {
						c.Undecided("C04.result", ks+"#term", p.RetPos, "result term %s is outside the forms this rule reads (expected %s)", val, strings.Join(c04Expected(e.key), " or "))
					}
				}
			default:
				// a fault path (e.g. a division guard): an error that is not an operand's; it must carry no value
				if strings.Contains(p.Rets[0], ".Eval") {
					okErr = false
					c.Fail("C04.errside", ks+"#value-on-fault", p.RetPos, "an operand value is returned together with an error: %s", p.Rets[0])
				}
				if p.Rets[1] == "nil" {
					okRes = false
				}
			}
		}
		if nSuccess == 0 {
			okRes = false
			c.Fail("C04.result", ks+"#nosuccess", e.kpos, "the entry has no path that produces a result")
		}
		if okOperands {
			c.Ok("C04.operands", ks)
		}
		if okErr {
			c.Ok("C04.errside", ks)
		}
		if logical {
			if okSC && okRes {
				c.Ok("C04.shortcircuit", ks)
			}
		} else if okRes {
			c.Ok("C04.result", ks)
		}
	}

	c04Respec(c, pkg)
	c04ProbeRules(c, pkg)
	// neighbours' rules that are necessary conditions of this property too (round 5: the saboteur of C04 broke them)
	if root := c.P.Pkg(""); root != nil {
		c.Rule("C04.exprs", "A6 (= C06.exprs): the result for a point depends on earlier points of the same group only: a field of a grouped node that holds stateful.Expression values is used, outside assignments that initialise it, only as the receiver of CopyReset() (directly or through a range variable), in len() or in a nil test — never evaluated or passed on")
		c.As("C06.exprs", "C04.exprs", func() { c06Exprs(c, root) })
		c.Rule("C04.pools", "A7 (= C01.pools): a lambda sees every field and tag it names: in newAlertNode, for every level index the scope pool stored next to a compiled expression is built from the reference variables of that same expression — a pool built from another expression leaves variables undefined although the point carries them")
		c.As("C01.pools", "C04.pools", func() { c01Pools(c, root.TypesInfo) })
	}
	c04Arity(c, pkg)
	c04SigCheck(c)
	c04BoolSpec(c, pkg)
	ruleCopyReset(c, "C04.copyreset")
	c04RefGuard(c, pkg)
	_ = info
}

func matchAny(s string, alts []string) bool {
	for _, a := range alts {
		if s == a {
			return true
		}
	}
	return false
}

// c04KnownTerm: the term is built only from L, R, conversions, operators and MatchString.
func c04KnownTerm(t string) bool {
	r := strings.NewReplacer("float64(", "", "int64(", "", "time.Duration(", "", "R.MatchString(", "", "L", "", "R", "", "(", "", ")", "", " ", "",
		"==", "", "!=", "", "<=", "", ">=", "", "<", "", ">", "", "+", "", "-", "", "*", "", "/", "", "%", "", "&&", "", "||", "", "!", "", "true", "", "false", "")
	return r.Replace(t) == ""
}

// c04Result reads the returned container: (term, kind, flag consistent).
func c04Result(pkg *packages.Package, e *c04Entry, p *an.Path) (string, string, bool) {
	info := pkg.TypesInfo
	x := ast.Unparen(p.RetX[0])
	// constant containers
	if id, ok := x.(*ast.Ident); ok {
		if v, ok := info.Uses[id].(*types.Var); ok && v.Parent() == pkg.Types.Scope() {
			if lit := pkgVarInit(pkg, v); lit != nil {
				x = lit
			}
		}
	}
	cl, ok := x.(*ast.CompositeLit)
	if !ok || !an.TypeNamed(info, cl, "stateful", "resultContainer") {
		return "", "?", false
	}
	fl := an.FlattenLit(cl)
	kind, val, flag := "", "", ""
	for k, v := range fl {
		switch {
		case strings.HasPrefix(k, "Is") && strings.HasSuffix(k, "Value"):
			if p.Key(e.eng, v) != "true" {
				return "", "?", false
			}
			if flag != "" {
				return "", strings.TrimSuffix(strings.TrimPrefix(k, "Is"), "Value"), false
			}
			flag = strings.TrimSuffix(strings.TrimPrefix(k, "Is"), "Value")
		case strings.HasSuffix(k, "Value"):
			if kind != "" {
				return "", kind, false
			}
			kind = strings.TrimSuffix(k, "Value")
			val = e.term(p.Key(e.eng, v))
		}
	}
	if kind == "" {
		return "", "?", false
	}
	return val, kind, flag == kind
}

func pkgVarInit(pkg *packages.Package, v *types.Var) ast.Expr {
	for _, f := range pkg.Syntax {
		for _, d := range f.Decls {
			gd, ok := d.(*ast.GenDecl)
			if !ok {
				continue
			}
			for _, s := range gd.Specs {
				vs, ok := s.(*ast.ValueSpec)
				if !ok {
					continue
				}
				for i, n := range vs.Names {
					if pkg.TypesInfo.Defs[n] == v && i < len(vs.Values) {
						return ast.Unparen(vs.Values[i])
					}
				}
			}
		}
	}
	return nil
}

// ---- re-specialisation protocol

func c04Respec(c *core.Ctx, pkg *packages.Package) {
	info := pkg.TypesInfo
	isField := func(x ast.Expr, f string) bool { return an.FieldSel(info, x, "EvalBinaryNode", f) }
	store := func(lhs ast.Expr, key string) string {
		for _, f := range []string{"leftType", "rightType", "evaluationFn", "constReturnType"} {
			if isField(lhs, f) {
				return f
			}
		}
		return ""
	}
	if fn := c.Need("C04.respec", "tick/stateful", "EvalBinaryNode", "eval"); fn != nil {
		// eval may be an entry that hands over to the method doing the work (the one with a retry counter): analyse that one.
		// F112: the entry itself decides, for a node with a dynamic operand, to take the operand types from the scope first.
		entry := fn
		var worker *types.Func
		ast.Inspect(fn.Decl.Body, func(n ast.Node) bool {
			ret, ok := n.(*ast.ReturnStmt)
			if !ok || len(ret.Results) != 1 {
				return true
			}
			call, ok := ret.Results[0].(*ast.CallExpr)
			if !ok {
				return true
			}
			callee := core.Callee(info, call)
			if callee == nil || core.RecvTypeName(callee) != "EvalBinaryNode" {
				return true
			}
			sig := callee.Type().(*types.Signature)
			for i := 0; i < sig.Params().Len(); i++ {
				if b, ok := sig.Params().At(i).Type().Underlying().(*types.Basic); ok && b.Info()&types.IsInteger != 0 {
					worker = callee
				}
			}
			return true
		})
		if worker != nil {
			if w := c.Need("C04.respec", "tick/stateful", "EvalBinaryNode", worker.Name()); w != nil {
				fn = w
				c04Fresh(c, pkg, entry, worker)
			}
		}
		self, _ := info.Defs[fn.Decl.Name].(*types.Func)
		var intParams []string
		for _, fl := range fn.Decl.Type.Params.List {
			for _, nm := range fl.Names {
				if b, ok := info.Defs[nm].Type().Underlying().(*types.Basic); ok && b.Info()&types.IsInteger != 0 {
					intParams = append(intParams, nm.Name)
				}
			}
		}
		eng := &an.Engine{Prog: c.P, TrackStore: store,
			TrackCall: func(call *ast.CallExpr, callee *types.Func) string {
				if callee != nil && core.RecvTypeName(callee) == "EvalBinaryNode" {
					if callee == self {
						return "eval"
					}
					switch callee.Name() {
					case "lookupEvaluationFn", "eval", "determineError":
						return callee.Name()
					}
				}
				if isField(call.Fun, "evaluationFn") {
					return "CALLFN"
				}
				return ""
			},
			Classify: func(a an.Atom) (string, bool) {
				for _, q := range intParams {
					switch {
					case (a.Op == token.GEQ || a.Op == token.GTR) && a.L == q:
						return "exhausted", false
					case (a.Op == token.LSS || a.Op == token.LEQ) && a.L == q:
						return "exhausted", true
					}
				}
				switch {
				case a.Op == token.EQL && a.R == "nil" && a.LX != nil && isField(a.LX, "evaluationFn"):
					if strings.Contains(a.L, "#") {
						return "nofn2", false
					}
					return "nofn", false
				case a.Op == token.EQL && a.R == "nil" && strings.HasSuffix(a.L, ".evaluationFn#1"):
					return "nofn2", false
				case a.Op == token.EQL && a.R == "nil" && strings.HasSuffix(a.L, ").1") && strings.Contains(a.L, "evaluationFn"):
					return "err", true
				case strings.HasSuffix(a.Key, ".(ErrTypeGuardFailed).1"):
					return "guard", false
				case an.FieldSel(info, a.Expr, "ErrSide", "IsLeft"):
					return "isLeft", false
				case an.FieldSel(info, a.Expr, "ErrSide", "IsRight"):
					return "isRight", false
				}
				return "", false
			}}
		paths, err := eng.Run(fn)
		if err != nil {
			c.Undecided("C04.respec", "EvalBinaryNode.eval", fn.Decl.Pos(), "%v", err)
		}
		atoms := []string{"nofn", "err", "guard", "isLeft", "isRight", "nofn2"}
		if len(intParams) > 0 {
			atoms = append(atoms, "exhausted")
		}
		selfName := ""
		if self != nil {
			selfName = "." + self.Name() + "("
		}
		an.CheckTable(c, "C04.respec", "EvalBinaryNode.eval", paths, an.Table{Atoms: atoms,
			Outcome: func(p *an.Path) string {
				var s []string
				for _, e := range p.Events {
					switch {
					case e.Kind == "store" && (e.Name == "leftType" || e.Name == "rightType"):
						v := "?"
						if strings.HasSuffix(e.Args[0], ".ActualType") {
							v = "ActualType"
						}
						s = append(s, e.Name+"="+v)
					case e.Kind == "store" && e.Name == "evaluationFn":
						v := "?"
						if strings.HasSuffix(e.Args[0], ".lookupEvaluationFn()") {
							v = "lookup"
						}
						s = append(s, "fn="+v)
					case e.Kind == "call" && e.Name != "lookupEvaluationFn":
						s = append(s, e.Name)
					}
				}
				r := "ret:other"
				r0, r1 := "", ""
				if len(p.Rets) >= 1 {
					r0 = c17Strip(p.Rets[0])
				}
				if len(p.Rets) == 2 {
					r1 = c17Strip(p.Rets[1])
				}
				if len(p.Rets) == 2 {
					switch {
					case strings.HasSuffix(r0, ".0") && strings.HasSuffix(r1, ".1") && strings.Contains(r0, "evaluationFn("):
						r = "ret:fnresult"
					case strings.Contains(r0, ".eval(") || (selfName != "" && strings.Contains(r0, selfName)) || (len(p.RetX) == 1):
						r = "ret:retry"
					case strings.HasSuffix(r1, ".1") && strings.Contains(r1, "evaluationFn("):
						r = "ret:err"
					case strings.Contains(r1, "determineError("):
						r = "ret:nofnerr"
					}
				} else if len(p.Rets) == 1 && (strings.Contains(r0, ".eval(") || (selfName != "" && strings.Contains(r0, selfName))) {
					r = "ret:retry"
				}
				return strings.Join(append(s, r), ",")
			},
			Expect: func(a map[string]bool) string {
				// Reference (history independence): a node without an evaluation function is not stuck: it refreshes the
				// operand types from the current scope (determineError does) and looks the function up again; only if there
				// is still none is the mismatch reported. After a type-guard correction the retry is unconditional, so the
				// point at which both operands changed type is answered from the scope's types as well.
				var s []string
				if a["nofn"] {
					s = append(s, "determineError", "fn=lookup")
					if a["nofn2"] {
						return strings.Join(append(s, "ret:nofnerr"), ",")
					}
				}
				s = append(s, "CALLFN")
				if !a["err"] || !a["guard"] {
					return strings.Join(append(s, "ret:fnresult"), ",")
				}
				if a["exhausted"] {
					// the retry budget is spent (an operand whose Type and Eval* disagree): the guard error is the answer
					return strings.Join(append(s, "ret:err"), ",")
				}
				if a["isLeft"] {
					s = append(s, "leftType=ActualType")
				}
				if a["isRight"] {
					s = append(s, "rightType=ActualType")
				}
				s = append(s, "fn=lookup", "eval", "ret:retry")
				return strings.Join(s, ",")
			}})
	}
	if fn := c.Need("C04.dynamic", "tick/stateful", "EvalBinaryNode", "evaluateDynamicNode"); fn != nil {
		lp, rp := an.ParamName(fn.Decl.Type, 2), an.ParamName(fn.Decl.Type, 3)
		eng := &an.Engine{Prog: c.P, TrackStore: store,
			TrackCall: func(call *ast.CallExpr, callee *types.Func) string {
				if callee == nil {
					return ""
				}
				if callee.Name() == "Type" {
					if sel, ok := call.Fun.(*ast.SelectorExpr); ok {
						if id, ok := sel.X.(*ast.Ident); ok {
							return "Type(" + id.Name + ")"
						}
					}
				}
				if core.RecvTypeName(callee) == "EvalBinaryNode" && (callee.Name() == "eval" || callee.Name() == "lookupEvaluationFn") {
					return callee.Name()
				}
				if core.RecvTypeName(callee) == "EvalBinaryNode" && c04IsRetryWorker(callee) {
					return "worker"
				}
				return ""
			},
			Classify: func(a an.Atom) (string, bool) {
				if k, ok := an.ErrNilAtom(info, a); ok {
					switch {
					case strings.HasPrefix(k, lp+".Type("):
						return "errL", true
					case strings.HasPrefix(k, rp+".Type("):
						return "errR", true
					}
				}
				return "", false
			}}
		paths, err := eng.Run(fn)
		if err != nil {
			c.Undecided("C04.dynamic", "EvalBinaryNode.evaluateDynamicNode", fn.Decl.Pos(), "%v", err)
		}
		an.CheckTable(c, "C04.dynamic", "EvalBinaryNode.evaluateDynamicNode", paths, an.Table{Atoms: []string{"errL", "errR"},
			Outcome: func(p *an.Path) string {
				var s []string
				for _, e := range p.Events {
					if e.Kind == "store" {
						v := e.Args[0]
						switch {
						case strings.HasPrefix(v, lp+".Type(") && strings.HasSuffix(v, ").0"):
							v = "Type(L)"
						case strings.HasPrefix(v, rp+".Type(") && strings.HasSuffix(v, ").0"):
							v = "Type(R)"
						case strings.HasSuffix(v, ".lookupEvaluationFn()"):
							v = "lookup"
						}
						s = append(s, e.Name+"="+v)
					} else if e.Name == "eval" {
						s = append(s, "eval")
					} else if e.Name == "worker" {
						// the retry worker with a fresh budget
						if len(e.Args) > 0 && e.Args[len(e.Args)-1] == "0" {
							s = append(s, "worker(0)")
						} else {
							s = append(s, "worker(?)")
						}
					}
				}
				if len(p.Rets) == 2 {
					fl := an.FlattenLit(p.RetX[1])
					for _, f := range []string{"IsLeft", "IsRight"} {
						if fl[f] != nil {
							s = append(s, "ret:"+f)
						}
					}
				}
				return strings.Join(s, ",")
			},
			Expect: func(a map[string]bool) string {
				if a["errL"] {
					return "ret:IsLeft"
				}
				if a["errR"] {
					return "ret:IsRight"
				}
				// the evaluation step: eval, or — when eval itself hands dynamic nodes to this function — the retry worker with
				// a fresh budget (calling eval would never return)
				step := "eval"
				if c04EvalDelegates(c, pkg) {
					step = "worker(0)"
				}
				return "leftType=Type(L),rightType=Type(R),evaluationFn=lookup," + step + " | rightType=Type(R),leftType=Type(L),evaluationFn=lookup," + step
			}})
	}
	// C04.lookup
	if fn := c.Need("C04.lookup", "tick/stateful", "EvalBinaryNode", "lookupEvaluationFn"); fn != nil {
		n := 0
		ast.Inspect(fn.Decl.Body, func(nd ast.Node) bool {
			ix, ok := nd.(*ast.IndexExpr)
			if !ok {
				return true
			}
			if id, ok := ast.Unparen(ix.X).(*ast.Ident); ok && id.Name == "evaluationFuncs" {
				n++
				c04CheckOpKey(c, info, "EvalBinaryNode.lookupEvaluationFn", ix.Index)
			}
			return true
		})
		c.Check(n == 1, "C04.lookup", "EvalBinaryNode.lookupEvaluationFn#index", fn.Decl.Pos(), "expected exactly one lookup in evaluationFuncs, found %d", n)
	}
	if fn := c.Need("C04.lookup", "tick/stateful", "EvalBinaryNode", "Type"); fn != nil {
		n := 0
		ast.Inspect(fn.Decl.Body, func(nd ast.Node) bool {
			ix, ok := nd.(*ast.IndexExpr)
			if !ok {
				return true
			}
			if id, ok := ast.Unparen(ix.X).(*ast.Ident); ok && id.Name == "binaryConstantTypes" {
				n++
				c04CheckOpKey(c, info, "EvalBinaryNode.Type", ix.Index)
			}
			return true
		})
		c.Check(n == 1, "C04.lookup", "EvalBinaryNode.Type#index", fn.Decl.Pos(), "expected exactly one lookup in binaryConstantTypes, found %d", n)
	}
	// constReturnType is never assigned after construction
	ws := fieldWriters(info, core.AllFuncs(pkg), "EvalBinaryNode")
	for _, w := range ws["constReturnType"] {
		c.Fail("C04.lookup", "EvalBinaryNode.constReturnType<-"+w.fn, w.pos, "constReturnType is assigned after construction: a dynamic node would cache a type that can change")
	}
	if len(ws["constReturnType"]) == 0 {
		c.Ok("C04.lookup", "EvalBinaryNode.constReturnType#never-assigned")
	}
	// init(): binaryConstantTypes[opKey] = info.returnType for every entry of evaluationFuncs
	// (ranged over the same map: same key variable on both sides)
	for _, f := range core.AllFuncs(pkg) {
		if f.Decl.Name.Name != "init" || f.Decl.Recv != nil {
			continue
		}
		ast.Inspect(f.Decl.Body, func(nd ast.Node) bool {
			rs, ok := nd.(*ast.RangeStmt)
			if !ok {
				return true
			}
			if id, ok := ast.Unparen(rs.X).(*ast.Ident); !ok || id.Name != "evaluationFuncs" {
				return true
			}
			good := false
			for _, s := range rs.Body.List {
				as, ok := s.(*ast.AssignStmt)
				if !ok || len(as.Lhs) != 1 {
					continue
				}
				ix, ok := as.Lhs[0].(*ast.IndexExpr)
				if !ok {
					continue
				}
				if id, ok := ix.X.(*ast.Ident); ok && id.Name == "binaryConstantTypes" {
					k, _ := rs.Key.(*ast.Ident)
					v, _ := rs.Value.(*ast.Ident)
					ik, _ := ix.Index.(*ast.Ident)
					rhs, _ := as.Rhs[0].(*ast.SelectorExpr)
					if k != nil && v != nil && ik != nil && rhs != nil && ik.Name == k.Name && rhs.Sel.Name == "returnType" {
						if rid, ok := rhs.X.(*ast.Ident); ok && rid.Name == v.Name {
							good = true
						}
					}
				}
			}
			c.Check(good, "C04.lookup", "stateful.init#binaryConstantTypes", rs.Pos(), "binaryConstantTypes must map each evaluationFuncs key to that entry's returnType")
			return true
		})
	}

	// ---- C04.guards: EvalX returns the X field under the X flag
	for _, k := range []struct{ m, f string }{{"EvalBool", "Bool"}, {"EvalInt", "Int64"}, {"EvalFloat", "Float64"}, {"EvalString", "String"}, {"EvalDuration", "Duration"}} {
		fn := c.Need("C04.guards", "tick/stateful", "EvalBinaryNode", k.m)
		if fn == nil {
			continue
		}
		eng := &an.Engine{Prog: c.P, Classify: func(a an.Atom) (string, bool) {
			if sel, ok := ast.Unparen(a.Expr).(*ast.SelectorExpr); ok && an.FieldSel(info, sel, "resultContainer", sel.Sel.Name) {
				return sel.Sel.Name, false
			}
			return "", false
		}}
		paths, err := eng.Run(fn)
		if err != nil {
			c.Undecided("C04.guards", "EvalBinaryNode."+k.m, fn.Decl.Pos(), "%v", err)
			continue
		}
		good, n := true, 0
		for _, p := range paths {
			if len(p.Rets) != 2 || p.Rets[1] != "nil" {
				continue
			}
			n++
			a := p.Assign()
			if !strings.HasSuffix(p.Rets[0], "."+k.f+"Value") || !a["Is"+k.f+"Value"] {
				good = false
				c.Fail("C04.guards", "EvalBinaryNode."+k.m, p.RetPos, "success path returns %s under [%s]; must return the %sValue field under Is%sValue", p.Rets[0], p.Cond(), k.f, k.f)
			}
		}
		if n == 0 {
			c.Fail("C04.guards", "EvalBinaryNode."+k.m, fn.Decl.Pos(), "no success path")
		} else if good {
			c.Ok("C04.guards", "EvalBinaryNode."+k.m)
		}
	}
}

func c04CheckOpKey(c *core.Ctx, info *types.Info, where string, idx ast.Expr) {
	fl := an.FlattenLit(idx)
	for f, field := range map[string]string{"operator": "operator", "leftType": "leftType", "rightType": "rightType"} {
		x := fl[f]
		good := x != nil && an.FieldSel(info, x, "EvalBinaryNode", field)
		c.Check(good, "C04.lookup", where+"#"+f, idx.Pos(), "operationKey.%s must be the node's own %s field", f, field)
	}
}

// ---- signature check before evaluation

func c04SigCheck(c *core.Ctx) {
	type inst struct{ rel, recv, name string }
	for _, in := range []inst{{"", "", "EvalPredicate"}, {"tick/stateful", "expression", "Eval"}} {
		if c.P.Pkg(in.rel) == nil {
			continue
		}
		fn := c.Need("C04.sigcheck", in.rel, in.recv, in.name)
		if fn == nil {
			continue
		}
		info := fn.Pkg.TypesInfo
		eng := &an.Engine{Prog: c.P,
			TrackCall: func(call *ast.CallExpr, callee *types.Func) string {
				if callee == nil {
					return ""
				}
				n := callee.Name()
				if n == "Type" || (strings.HasPrefix(n, "Eval") && n != "EvalPredicate") {
					return n
				}
				return ""
			},
			Classify: func(a an.Atom) (string, bool) {
				if k, ok := an.ErrNilAtom(info, a); ok && strings.Contains(k, ".Type(") {
					return "typeErr", true
				}
				return "", false
			}}
		paths, err := eng.Run(fn)
		if err != nil {
			c.Undecided("C04.sigcheck", fn.Name(), fn.Decl.Pos(), "%v", err)
			continue
		}
		good, evals := true, 0
		for _, p := range paths {
			ti := p.Index("Type")
			for i, e := range p.Events {
				if e.Kind == "call" && strings.HasPrefix(e.Name, "Eval") {
					evals++
					a := p.Assign()
					te, decided := a["typeErr"]
					if ti < 0 || ti > i || !decided || te {
						good = false
						c.Fail("C04.sigcheck", fn.Name(), e.Pos, "%s is reached without a preceding successful Type(scope) check on path [%s]", e.Name, p.Cond())
					}
				}
			}
			if a := p.Assign(); a["typeErr"] {
				// the error must be returned
				last := p.Rets
				if len(last) == 0 || !strings.Contains(last[len(last)-1], ".Type(") {
					good = false
					c.Fail("C04.sigcheck", fn.Name()+"#error-returned", p.RetPos, "a failed Type() check is not returned as the error: returns %v", p.Rets)
				}
			}
		}
		if evals == 0 {
			c.Fail("C04.sigcheck", fn.Name(), fn.Decl.Pos(), "no Eval* call found")
		} else if good {
			c.Ok("C04.sigcheck", fn.Name())
		}
	}
}

func c04BoolSpec(c *core.Ctx, pkg *packages.Package) {
	info := pkg.TypesInfo
	fn := c.Need("C04.boolspec", "tick/stateful", "EvalBinaryNode", "EvalBool")
	if fn == nil {
		return
	}
	recv := an.RecvVarName(fn.Decl)
	eng := &an.Engine{Prog: c.P,
		TrackCall: func(call *ast.CallExpr, callee *types.Func) string {
			if callee != nil && core.RecvTypeName(callee) == "EvalBinaryNode" && (callee.Name() == "evaluateDynamicNode" || callee.Name() == "eval") {
				return callee.Name()
			}
			return ""
		},
		Classify: func(a an.Atom) (string, bool) {
			switch a.Key {
			case recv + ".leftEvaluator.IsDynamic()":
				return "ldyn", false
			case recv + ".rightEvaluator.IsDynamic()":
				return "rdyn", false
			}
			return "", false
		}}
	paths, err := eng.Run(fn)
	if err != nil {
		c.Undecided("C04.boolspec", "EvalBinaryNode.EvalBool", fn.Decl.Pos(), "%v", err)
		return
	}
	an.CheckTable(c, "C04.boolspec", "EvalBinaryNode.EvalBool", paths, an.Table{Atoms: []string{"ldyn", "rdyn"},
		Outcome: func(p *an.Path) string {
			s := an.Seq(p, "evaluateDynamicNode", "eval")
			if ev := p.Find("evaluateDynamicNode"); ev != nil {
				if len(ev.Args) != 4 || ev.Args[2] != recv+".leftEvaluator" || ev.Args[3] != recv+".rightEvaluator" {
					s += "(wrong operands)"
				}
			}
			return s
		},
		Expect: func(a map[string]bool) string {
			if a["ldyn"] || a["rdyn"] {
				return "evaluateDynamicNode"
			}
			return "eval"
		}})
	_ = info
}

func c04Arity(c *core.Ctx, pkg *packages.Package) {
	fn := c.Need("C04.arity", "tick/stateful", "EvalFunctionNode", "Type")
	if fn == nil {
		return
	}
	eng := &an.Engine{Prog: c.P, ElemKeys: true,
		TrackStore: func(lhs ast.Expr, key string) string {
			if ix, ok := ast.Unparen(lhs).(*ast.IndexExpr); ok {
				if tv, ok := pkg.TypesInfo.Types[ix.X]; ok {
					if named := core.NamedOf(tv.Type); named != nil && named.Obj().Name() == "Domain" {
						return "domain"
					}
				}
			}
			return ""
		},
		Classify: func(a an.Atom) (string, bool) {
			if a.Op == token.LSS && strings.HasPrefix(a.L, "len(") && strings.HasPrefix(a.R, "len(") {
				switch {
				case strings.Contains(a.R, ".argsEvaluators") && !strings.Contains(a.L, ".argsEvaluators"):
					return "exceeds", false // len(domain) < len(args)
				case strings.Contains(a.L, ".argsEvaluators"):
					return "fewer", false // len(args) < len(domain): not the arity guard
				}
			}
			return "", false
		}}
	paths, err := eng.Run(fn)
	if err != nil {
		c.Undecided("C04.arity", "EvalFunctionNode.Type", fn.Decl.Pos(), "%v", err)
		return
	}
	good, seenErr, seenOK := len(paths) > 0, false, false
	for _, p := range paths {
		if len(p.Rets) != 2 {
			continue
		}
		tooMany := strings.Contains(p.Rets[1], "too many arguments")
		v, dec := p.Assign()["exceeds"]
		switch {
		case tooMany:
			seenErr = true
			if !dec || !v {
				good = false
				c.Fail("C04.arity", "EvalFunctionNode.Type#too-many", p.RetPos, "`too many arguments` is reported on a path where the argument count is not established to exceed the domain size (%s): a call with exactly the maximum number of arguments (strReplace) is rejected before its signature is looked at", p.Cond())
			}
		case p.Rets[1] == "nil":
			seenOK = true
			if !dec || v {
				good = false
				c.Fail("C04.arity", "EvalFunctionNode.Type#guard", p.RetPos, "a type is returned on a path that did not establish that the arguments fit the domain (%s)", p.Cond())
			}
		}
		for _, e := range p.Events {
			if e.Kind == "store" && e.Name == "domain" && !strings.HasSuffix(e.Recv, "]") {
				good = false
			}
		}
	}
	if good && seenErr && seenOK {
		c.Ok("C04.arity", "EvalFunctionNode.Type")
	} else if good {
		c.Fail("C04.arity", "EvalFunctionNode.Type", fn.Decl.Pos(), "the arity guard or the success path was not found (guard %v, success %v)", seenErr, seenOK)
	}
}

// c04RefGuard: the leaves do not coerce. EvalBinaryNode relies on the guard failure of a reference whose value changed type to
// re-specialise; a leaf that converts (int64 → float64) instead answers with the semantics of whatever type an earlier point had.
func c04RefGuard(c *core.Ctx, pkg *packages.Package) {
	info := pkg.TypesInfo
	n := 0
	for _, f := range core.AllFuncs(pkg) {
		if core.RecvName(f.Decl) != "EvalReferenceNode" || !strings.HasPrefix(f.Decl.Name.Name, "Eval") || f.Decl.Type.Results == nil || len(f.Decl.Type.Results.List) != 2 {
			continue
		}
		resT := info.TypeOf(f.Decl.Type.Results.List[0].Type)
		if resT == nil {
			continue
		}
		// identifiers bound by an assertion to exactly the result type
		asserted := map[types.Object]bool{}
		ast.Inspect(f.Decl.Body, func(nd ast.Node) bool {
			switch x := nd.(type) {
			case *ast.AssignStmt:
				if len(x.Rhs) == 1 {
					if ta, ok := ast.Unparen(x.Rhs[0]).(*ast.TypeAssertExpr); ok && ta.Type != nil && types.Identical(info.TypeOf(ta.Type), resT) {
						if id, ok := x.Lhs[0].(*ast.Ident); ok {
							if o := info.Defs[id]; o != nil {
								asserted[o] = true
							}
						}
					}
				}
			case *ast.TypeSwitchStmt:
				for _, cl := range x.Body.List {
					cc := cl.(*ast.CaseClause)
					if len(cc.List) == 1 && types.Identical(info.TypeOf(cc.List[0]), resT) {
						if o := info.Implicits[cc]; o != nil {
							asserted[o] = true
						}
					}
				}
			}
			return true
		})
		cons := "EvalReferenceNode." + f.Decl.Name.Name
		good, succ := true, 0
		ast.Inspect(f.Decl.Body, func(nd ast.Node) bool {
			if _, ok := nd.(*ast.FuncLit); ok {
				return false
			}
			ret, ok := nd.(*ast.ReturnStmt)
			if !ok || len(ret.Results) != 2 || !an.IsNil(info, ret.Results[1]) {
				return true
			}
			succ++
			id, ok := ast.Unparen(ret.Results[0]).(*ast.Ident)
			if !ok || !asserted[info.Uses[id]] {
				good = false
				c.Fail("C04.refguard", cons, ret.Pos(), "%s returns %s with a nil error although that value was not asserted to be exactly %s: a reference whose value has another dynamic type is coerced instead of failing its type guard, so a binary node specialised by an earlier point keeps that point's semantics (an int field divided with float division after a float point) and the answer for a point depends on earlier points", cons, types.ExprString(ret.Results[0]), types.TypeString(resT, types.RelativeTo(pkg.Types)))
			}
			return true
		})
		if succ == 0 {
			continue // EvalMissing: never succeeds
		}
		n++
		if good {
			c.Ok("C04.refguard", cons)
		}
	}
	c.Floor("C04.refguard", "Eval<Kind> methods of EvalReferenceNode with a success return", n, 7)
}

// c04IsRetryWorker: a method of EvalBinaryNode with an integer parameter (the retry counter).
func c04IsRetryWorker(f *types.Func) bool {
	sig, ok := f.Type().(*types.Signature)
	if !ok {
		return false
	}
	for i := 0; i < sig.Params().Len(); i++ {
		if b, ok := sig.Params().At(i).Type().Underlying().(*types.Basic); ok && b.Info()&types.IsInteger != 0 {
			return true
		}
	}
	return false
}

// c04EvalDelegates: EvalBinaryNode.eval calls evaluateDynamicNode.
func c04EvalDelegates(c *core.Ctx, sp *packages.Package) bool {
	fn := c.P.FindFunc("tick/stateful", "EvalBinaryNode", "eval")
	if fn == nil {
		return false
	}
	found := false
	ast.Inspect(fn.Decl.Body, func(n ast.Node) bool {
		if call, ok := n.(*ast.CallExpr); ok {
			if cal := core.Callee(sp.TypesInfo, call); cal != nil && cal.Name() == "evaluateDynamicNode" {
				found = true
			}
		}
		return true
	})
	return found
}

// c04Fresh: the entry's decision table.
func c04Fresh(c *core.Ctx, sp *packages.Package, entry *core.Func, worker *types.Func) {
	info := sp.TypesInfo
	eng := &an.Engine{Prog: c.P,
		TrackCall: func(call *ast.CallExpr, callee *types.Func) string {
			if callee == nil || core.RecvTypeName(callee) != "EvalBinaryNode" {
				return ""
			}
			switch {
			case callee.Name() == "evaluateDynamicNode":
				return "dynamic"
			case callee == worker:
				return "worker"
			}
			return ""
		},
		Classify: func(a an.Atom) (string, bool) {
			if a.Call != nil && a.Call.Name() == "IsDynamic" {
				if strings.Contains(a.Key, ".leftEvaluator.") {
					return "dynL", false
				}
				if strings.Contains(a.Key, ".rightEvaluator.") {
					return "dynR", false
				}
			}
			return "", false
		}}
	paths, err := eng.Run(entry)
	if err != nil {
		c.Undecided("C04.fresh", "EvalBinaryNode.eval", entry.Decl.Pos(), "%v", err)
		return
	}
	_ = info
	an.CheckTable(c, "C04.fresh", "EvalBinaryNode.eval", paths, an.Table{Atoms: []string{"dynL", "dynR"},
		Outcome: func(p *an.Path) string {
			var s []string
			for _, e := range p.Events {
				if e.Name == "dynamic" || e.Name == "worker" {
					s = append(s, e.Name)
				}
			}
			return strings.Join(s, ",")
		},
		Expect: func(a map[string]bool) string {
			if a["dynL"] || a["dynR"] {
				return "dynamic"
			}
			return "worker"
		}})
}
