package props

import (
	"fmt"
	"go/ast"
	"go/constant"
	"go/token"
	"go/types"
	"sort"
	"strings"

	"golang.org/x/tools/go/packages"

	"kapcheck/an"
	"kapcheck/core"
)

func c04ProbeRules(c *core.Ctx, sp *packages.Package) {
	c.Rule("C04.guarderr", "A3 (sibling agreement): F113: EvalBinaryNode.Eval{Int,Float,String,Duration} report a result of another type as ErrTypeGuardFailed with their own requested type — the enclosing node re-specialises on exactly that error")
	c.Rule("C04.lambdadelegate", "A3 (sibling agreement): F115: every Eval<T> of EvalLambdaNode hands over to the wrapped evaluator's Eval<T> with the lambda's own state when the lambda has type T")
	c.Rule("C04.unaryop", "A1: F116: EvalUnaryNode negates (Eval{Int,Float,Duration}) only under the operator '-' and inverts (EvalBool) only under '!': on every path that returns a value the operator has been tested")
	c.Rule("C04.substr", "A4: F117: strSubstring rejects a stop index only when it is greater than the length of the string (str[start:stop] with stop == len(str) is the suffix)")
	c.Rule("C04.sigcall", "A11 (sibling agreement): F118: for every built-in function whose Call dispatches on the Go type of its first argument, the value types it computes a result for are exactly the first components of its signature table, at the arity the case needs; a Call that accepts any first argument is declared for every value type")
	c04GuardErr(c, sp)
	c04LambdaDelegate(c, sp)
	c04UnaryOp(c, sp)
	c04Substr(c, sp)
	c04SigCall(c, sp)
	c04Conversions(c, sp)
	c04Quotient(c, sp)
}

var c04EvalTypes = map[string]string{"EvalInt": "TInt", "EvalFloat": "TFloat", "EvalString": "TString", "EvalDuration": "TDuration", "EvalBool": "TBool", "EvalRegex": "TRegex", "EvalTime": "TTime", "EvalMissing": "TMissing"}

func c04GuardErr(c *core.Ctx, sp *packages.Package) {
	info := sp.TypesInfo
	for _, m := range []string{"EvalInt", "EvalFloat", "EvalString", "EvalDuration"} {
		fn := c.Need("C04.guarderr", "tick/stateful", "EvalBinaryNode", m)
		if fn == nil {
			continue
		}
		c.Analysed(fn)
		// the last return statement is the "another type" exit
		var last *ast.ReturnStmt
		body := an.Effective(fn.Decl.Body.List)
		if len(body) > 0 {
			last, _ = body[len(body)-1].(*ast.ReturnStmt)
		}
		okk, why := false, "the method does not end in a return statement"
		if last != nil && len(last.Results) == 2 {
			why = "its error is " + types.ExprString(last.Results[1])
			if cl, ok := ast.Unparen(last.Results[1]).(*ast.CompositeLit); ok {
				if nt := core.NamedOf(info.TypeOf(cl)); nt != nil && nt.Obj().Name() == "ErrTypeGuardFailed" {
					fl := an.FlattenLit(cl)
					if rq := fl["RequestedType"]; rq != nil && strings.HasSuffix(types.ExprString(rq), "."+c04EvalTypes[m]) {
						okk = true
					} else {
						why = "its RequestedType is not ast." + c04EvalTypes[m]
					}
				}
			}
		}
		c.Check(okk, "C04.guarderr", "EvalBinaryNode."+m+"#mismatch", fn.Decl.Pos(), "EvalBinaryNode.%s must report a result of another type as ErrTypeGuardFailed{RequestedType: ast.%s, …} (%s): the enclosing binary node corrects its operand type and retries only on that error — with a plain error \"x\" + \"x\" + \"x\", evaluated for a string and then for numbers, fails for every later point", m, c04EvalTypes[m], why)
	}
}

func c04LambdaDelegate(c *core.Ctx, sp *packages.Package) {
	info := sp.TypesInfo
	n := 0
	for _, m := range an.SortedKeys(c04EvalTypes) {
		if m == "EvalMissing" {
			continue
		}
		fn := c.P.FindFunc("tick/stateful", "EvalLambdaNode", m)
		if fn == nil {
			continue
		}
		n++
		c.Analysed(fn)
		// if typ == ast.T<X> { return n.nodeEvaluator.Eval<X>(scope, n.state) }
		okk := false
		ast.Inspect(fn.Decl.Body, func(nd ast.Node) bool {
			is, ok := nd.(*ast.IfStmt)
			if !ok {
				return true
			}
			b, ok := is.Cond.(*ast.BinaryExpr)
			if !ok || b.Op != token.EQL || !strings.HasSuffix(types.ExprString(b.Y), "."+c04EvalTypes[m]) {
				return true
			}
			for _, st := range an.Effective(is.Body.List) {
				ret, ok := st.(*ast.ReturnStmt)
				if !ok || len(ret.Results) != 1 {
					continue
				}
				call, ok := ret.Results[0].(*ast.CallExpr)
				if !ok || len(call.Args) != 2 {
					continue
				}
				sel, ok := call.Fun.(*ast.SelectorExpr)
				if !ok || sel.Sel.Name != m || !an.FieldSel(info, sel.X, "EvalLambdaNode", "nodeEvaluator") {
					continue
				}
				if an.FieldSel(info, call.Args[1], "EvalLambdaNode", "state") {
					okk = true
				}
			}
			return true
		})
		c.Check(okk, "C04.lambdadelegate", "EvalLambdaNode."+m, fn.Decl.Pos(), "EvalLambdaNode.%s does not hand over to n.nodeEvaluator.%s(scope, n.state) when the lambda has type %s: a lambda variable of that type cannot be used where a %s is expected (its siblings all delegate)", m, m, c04EvalTypes[m], strings.TrimPrefix(c04EvalTypes[m], "T"))
	}
	c.Floor("C04.lambdadelegate", "Eval<T> methods of EvalLambdaNode", n, 7)
}

func c04UnaryOp(c *core.Ctx, sp *packages.Package) {
	info := sp.TypesInfo
	want := map[string]string{"EvalInt": "TokenMinus", "EvalFloat": "TokenMinus", "EvalDuration": "TokenMinus", "EvalBool": "TokenNot"}
	for _, m := range an.SortedKeys(want) {
		fn := c.Need("C04.unaryop", "tick/stateful", "EvalUnaryNode", m)
		if fn == nil {
			continue
		}
		eng := &an.Engine{Prog: c.P,
			Classify: func(a an.Atom) (string, bool) {
				if (a.Op == token.EQL || a.Op == token.NEQ) && a.LX != nil && an.FieldSel(info, a.LX, "EvalUnaryNode", "operator") {
					if strings.HasSuffix(a.R, "."+want[m]) {
						return "op", a.Op == token.NEQ
					}
					return "otherop", a.Op == token.NEQ
				}
				return "", false
			}}
		paths, err := eng.Run(fn)
		if err != nil {
			c.Undecided("C04.unaryop", "EvalUnaryNode."+m, fn.Decl.Pos(), "%v", err)
			continue
		}
		good, values := true, 0
		for _, p := range paths {
			if p.Exit == "panic" || len(p.Rets) != 2 || p.Rets[1] != "nil" {
				continue
			}
			values++
			if v, ok := p.Assign()["op"]; !ok || !v {
				good = false
				c.Fail("C04.unaryop", "EvalUnaryNode."+m+"#operator", p.RetPos, "EvalUnaryNode.%s returns a value on a path that has not established that the operator is ast.%s (path condition: %s): the unary node is built for '-' and '!' alike and evaluated by the type of its operand alone — -TRUE is FALSE and !5 is -5 instead of errors", m, want[m], p.Cond())
				break
			}
		}
		if values == 0 {
			c.Undecided("C04.unaryop", "EvalUnaryNode."+m, fn.Decl.Pos(), "no path returns a value")
		} else if good {
			c.Ok("C04.unaryop", "EvalUnaryNode."+m+"#operator")
		}
	}
}

func c04Substr(c *core.Ctx, sp *packages.Package) {
	info := sp.TypesInfo
	fn := c.Need("C04.substr", "tick/stateful", "strSubstring", "Call")
	if fn == nil {
		return
	}
	c.Analysed(fn)
	// the slice expression and its upper bound variable
	var sl *ast.SliceExpr
	ast.Inspect(fn.Decl.Body, func(n ast.Node) bool {
		if x, ok := n.(*ast.SliceExpr); ok && x.High != nil {
			sl = x
		}
		return true
	})
	if sl == nil {
		c.Undecided("C04.substr", "strSubstring.Call", fn.Decl.Pos(), "no slice expression with an upper bound found")
		return
	}
	hi, str := types.ExprString(sl.High), types.ExprString(sl.X)
	// the test of the upper bound against len(str)
	verdict, pos := "", token.NoPos
	ast.Inspect(fn.Decl.Body, func(n ast.Node) bool {
		is, ok := n.(*ast.IfStmt)
		if !ok {
			return true
		}
		b, ok := is.Cond.(*ast.BinaryExpr)
		if !ok {
			return true
		}
		strip := func(e ast.Expr) string {
			e = ast.Unparen(e)
			if call, ok := e.(*ast.CallExpr); ok && len(call.Args) == 1 {
				if tv, ok := info.Types[call.Fun]; ok && tv.IsType() {
					e = ast.Unparen(call.Args[0])
				}
			}
			return types.ExprString(e)
		}
		l, r := strip(b.X), strip(b.Y)
		op := b.Op
		if r == hi && l == "len("+str+")" {
			l, r = r, l
			switch op {
			case token.LSS:
				op = token.GTR
			case token.LEQ:
				op = token.GEQ
			case token.GTR:
				op = token.LSS
			case token.GEQ:
				op = token.LEQ
			}
		}
		if l != hi || r != "len("+str+")" {
			return true
		}
		pos = is.Pos()
		// the body is the rejection
		rejects := false
		for _, st := range is.Body.List {
			if ret, ok := st.(*ast.ReturnStmt); ok && len(ret.Results) == 2 && types.ExprString(ret.Results[1]) != "nil" {
				rejects = true
			}
		}
		if rejects {
			verdict = op.String()
		}
		return true
	})
	switch verdict {
	case ">":
		c.Ok("C04.substr", "strSubstring.Call#stop-bound")
	case "":
		c.Fail("C04.substr", "strSubstring.Call#stop-bound", sl.Pos(), "strSubstring slices %s[…:%s] without rejecting %s > len(%s) beforehand", str, hi, hi, str)
	default:
		c.Fail("C04.substr", "strSubstring.Call#stop-bound", pos, "strSubstring rejects its stop index when %s %s len(%s); the documented result is %s[start:stop], for which stop == len(%s) is the suffix: strSubstring('abcdef', 3, 6) must be 'def', not an error (only stop > len is out of range)", hi, verdict, str, str, str)
	}
}

var c04GoToValueType = map[string]string{"int64": "TInt", "float64": "TFloat", "string": "TString", "bool": "TBool", "time.Duration": "TDuration", "time.Time": "TTime", "*regexp.Regexp": "TRegex", "*ast.Missing": "TMissing"}

// the value types a field or literal can have
var c04ScalarTypes = []string{"TBool", "TDuration", "TFloat", "TInt", "TRegex", "TString", "TTime"}

// c04SigCall: Call's type dispatch against the signature tables, both read from the source.
func c04SigCall(c *core.Ctx, sp *packages.Package) {
	info := sp.TypesInfo
	// 1. signature tables: abstract interpretation of the straight-line init functions
	type domain []string // value type names of the leading, set components
	tables := map[types.Object][]domain{}
	complexT := map[types.Object]bool{}
	for _, f := range core.AllFuncs(sp) {
		if f.Decl.Recv != nil || f.Decl.Name.Name != "init" {
			continue
		}
		cur := map[types.Object][]string{} // Domain variable -> components
		var walk func(list []ast.Stmt, inLoop bool)
		walk = func(list []ast.Stmt, inLoop bool) {
			for _, st := range list {
				switch x := st.(type) {
				case *ast.AssignStmt:
					if len(x.Lhs) != 1 || len(x.Rhs) != 1 {
						continue
					}
					// d := Domain{}
					if id, ok := x.Lhs[0].(*ast.Ident); ok {
						if cl, ok := x.Rhs[0].(*ast.CompositeLit); ok && len(cl.Elts) == 0 {
							if nt := core.NamedOf(info.TypeOf(cl)); nt != nil && nt.Obj().Name() == "Domain" {
								o := info.Defs[id]
								if o == nil {
									o = info.Uses[id]
								}
								cur[o] = nil
							}
						}
						continue
					}
					ix, ok := x.Lhs[0].(*ast.IndexExpr)
					if !ok {
						continue
					}
					base, ok := ast.Unparen(ix.X).(*ast.Ident)
					if !ok {
						continue
					}
					bo := info.Uses[base]
					if _, isDom := cur[bo]; isDom {
						// d[i] = ast.TX
						tv, ok := info.Types[ix.Index]
						if !ok || tv.Value == nil || inLoop {
							cur[bo] = append(cur[bo][:0:0], "?")
							continue
						}
						i := int(constInt64(tv))
						comp := cur[bo]
						for len(comp) <= i {
							comp = append(comp, "")
						}
						comp = append([]string{}, comp...)
						name := types.ExprString(x.Rhs[0])
						if k := strings.LastIndex(name, "."); k >= 0 {
							name = name[k+1:]
						}
						comp[i] = name
						cur[bo] = comp
						continue
					}
					// table[d] = ast.TY
					if idx, ok := ast.Unparen(ix.Index).(*ast.Ident); ok {
						if comp, isDom := cur[info.Uses[idx]]; isDom {
							if inLoop || (len(comp) == 1 && comp[0] == "?") {
								complexT[bo] = true
								continue
							}
							var d domain
							for _, t := range comp {
								if t == "" {
									break
								}
								d = append(d, t)
							}
							tables[bo] = append(tables[bo], d)
						}
					}
				case *ast.ForStmt:
					walk(x.Body.List, true)
				case *ast.RangeStmt:
					walk(x.Body.List, true)
				case *ast.IfStmt:
					walk(x.Body.List, true)
				case *ast.BlockStmt:
					walk(x.List, inLoop)
				}
			}
		}
		walk(f.Decl.Body.List, false)
	}
	// 2. per function type: signature variable and Call
	type fun struct {
		call *core.Func
		sig  types.Object
	}
	funs := map[string]*fun{}
	for _, f := range core.AllFuncs(sp) {
		r := core.RecvName(f.Decl)
		if r == "" {
			continue
		}
		switch f.Decl.Name.Name {
		case "Call":
			if funs[r] == nil {
				funs[r] = &fun{}
			}
			funs[r].call = f
		case "Signature":
			body := an.Effective(f.Decl.Body.List)
			if len(body) == 1 {
				if ret, ok := body[0].(*ast.ReturnStmt); ok && len(ret.Results) == 1 {
					if id, ok := ret.Results[0].(*ast.Ident); ok {
						if funs[r] == nil {
							funs[r] = &fun{}
						}
						funs[r].sig = info.Uses[id]
					}
				}
			}
		}
	}
	nSwitch, nAny := 0, 0
	for _, name := range an.SortedKeys(funs) {
		fu := funs[name]
		if fu.call == nil || fu.sig == nil || complexT[fu.sig] || len(tables[fu.sig]) == 0 {
			continue
		}
		args := an.ParamName(fu.call.Decl.Type, 0)
		// arities the function admits: `len(args) != k` tests at the top
		arities := map[int]bool{}
		// local closures that insist on a second argument
		needs2 := map[types.Object]bool{}
		ast.Inspect(fu.call.Decl.Body, func(n ast.Node) bool {
			switch x := n.(type) {
			case *ast.AssignStmt:
				if len(x.Lhs) == 1 && len(x.Rhs) == 1 {
					if fl, ok := x.Rhs[0].(*ast.FuncLit); ok {
						if id, ok := x.Lhs[0].(*ast.Ident); ok {
							ast.Inspect(fl.Body, func(m ast.Node) bool {
								if b, ok := m.(*ast.BinaryExpr); ok && b.Op == token.NEQ && types.ExprString(b.X) == "len("+args+")" && types.ExprString(b.Y) == "2" {
									needs2[info.Defs[id]] = true
								}
								return true
							})
						}
					}
				}
			case *ast.BinaryExpr:
				if x.Op == token.NEQ && types.ExprString(x.X) == "len("+args+")" {
					if tv, ok := info.Types[x.Y]; ok && tv.Value != nil {
						arities[int(constInt64(tv))] = true
					}
				}
			}
			return true
		})
		// the type switch on args[0] (top level of the body, not inside closures)
		var ts *ast.TypeSwitchStmt
		for _, st := range fu.call.Decl.Body.List {
			if x, ok := st.(*ast.TypeSwitchStmt); ok {
				var subj ast.Expr
				switch a := x.Assign.(type) {
				case *ast.AssignStmt:
					subj = a.Rhs[0]
				case *ast.ExprStmt:
					subj = a.X
				}
				if ta, ok := ast.Unparen(subj).(*ast.TypeAssertExpr); ok && types.ExprString(ta.X) == args+"[0]" {
					ts = x
				}
			}
		}
		table := tables[fu.sig]
		has := func(t string, arity int) bool {
			for _, d := range table {
				if len(d) >= 1 && d[0] == t && (arity == 0 || len(d) == arity) {
					return true
				}
			}
			return false
		}
		if ts != nil {
			nSwitch++
			c.Analysed(fu.call)
			handled := map[string]int{} // value type -> arity needed (0 = any)
			hasDefaultErr := false
			for _, cl := range ts.Body.List {
				cc := cl.(*ast.CaseClause)
				if cc.List == nil {
					hasDefaultErr = true
					continue
				}
				arity := 0
				if len(arities) > 1 {
					arity = 1
					ast.Inspect(cc, func(m ast.Node) bool {
						if call, ok := m.(*ast.CallExpr); ok {
							if id, ok := call.Fun.(*ast.Ident); ok && needs2[info.Uses[id]] {
								arity = 2
							}
						}
						return true
					})
				}
				for _, e := range cc.List {
					if vt, ok := c04GoToValueType[types.ExprString(e)]; ok {
						handled[vt] = arity
					}
				}
			}
			for _, vt := range an.SortedKeys(handled) {
				ar := handled[vt]
				c.Check(has(vt, ar), "C04.sigcall", name+"#"+vt, ts.Pos(), "%s.Call computes a result for a first argument of type %s%s, but the signature table of the function has no such entry: the expression is rejected when it is compiled (\"Cannot call function … available signatures are …\"), although the documented form works in Call", name, vt, map[int]string{0: "", 1: " given alone", 2: " with a second argument"}[ar])
			}
			if hasDefaultErr {
				for _, d := range table {
					if len(d) == 0 {
						continue
					}
					_, ok := handled[d[0]]
					c.Check(ok, "C04.sigcall", name+"#declared:"+d[0], ts.Pos(), "the signature table of %s declares a first argument of type %s that Call's type switch sends to its error arm: the expression compiles and fails for every point", name, d[0])
				}
			}
			continue
		}
		// no dispatch: does Call reject any first argument by a failing assertion? then it is not "any"
		rejects := false
		ast.Inspect(fu.call.Decl.Body, func(n ast.Node) bool {
			if ta, ok := n.(*ast.TypeAssertExpr); ok && types.ExprString(ta.X) == args+"[0]" {
				// comma-ok whose ok is tested for an error return counts as rejecting; isPresent only reads the flag
				rejects = rejects || c04AssertRejects(info, fu.call.Decl.Body, ta)
			}
			return true
		})
		usesArg := false
		ast.Inspect(fu.call.Decl.Body, func(n ast.Node) bool {
			if ix, ok := n.(*ast.IndexExpr); ok && types.ExprString(ix) == args+"[0]" {
				usesArg = true
			}
			return true
		})
		if rejects || !usesArg || !arities[1] {
			continue
		}
		nAny++
		c.Analysed(fu.call)
		for _, vt := range c04ScalarTypes {
			c.Check(has(vt, 1), "C04.sigcall", name+"#"+vt, fu.call.Decl.Pos(), "%s.Call accepts a first argument of any type, but the signature table of the function has no entry for %s: %s(<a %s>) is rejected when the expression is compiled", name, vt, name, strings.TrimPrefix(vt, "T"))
		}
	}
	c.Floor("C04.sigcall", "built-in functions whose Call dispatches on the first argument's type", nSwitch, 5)
	c.Floor("C04.sigcall", "built-in functions whose Call accepts any first argument", nAny, 1)
	var cx []string
	for o := range complexT {
		cx = append(cx, o.Name())
	}
	sort.Strings(cx)
	c.Note("C04.sigcall: signature tables filled in loops (not compared): %v", cx)
}

// c04AssertRejects: the ok flag of `v, ok := x.(T)` is tested by an if whose body sets or returns an error.
func c04AssertRejects(info *types.Info, body *ast.BlockStmt, ta *ast.TypeAssertExpr) bool {
	var okObj types.Object
	ast.Inspect(body, func(n ast.Node) bool {
		if as, ok := n.(*ast.AssignStmt); ok && len(as.Lhs) == 2 && len(as.Rhs) == 1 && ast.Unparen(as.Rhs[0]) == ast.Expr(ta) {
			if id, ok := as.Lhs[1].(*ast.Ident); ok {
				okObj = info.Defs[id]
				if okObj == nil {
					okObj = info.Uses[id]
				}
			}
		}
		return true
	})
	if okObj == nil {
		return true // single-value assertion: panics, i.e. rejects
	}
	rejects := false
	ast.Inspect(body, func(n ast.Node) bool {
		is, ok := n.(*ast.IfStmt)
		if !ok {
			return true
		}
		u, ok := ast.Unparen(is.Cond).(*ast.UnaryExpr)
		if !ok || u.Op != token.NOT {
			return true
		}
		if id, ok := ast.Unparen(u.X).(*ast.Ident); ok && info.Uses[id] == okObj {
			rejects = true
		}
		return true
	})
	return rejects
}

func constInt64(tv types.TypeAndValue) int64 {
	v, _ := constant.Int64Val(constant.ToInt(tv.Value))
	return v
}

// c06ExprCopy (F114): an evaluator type that keeps an ExecutionState of its own (EvalLambdaNode) makes the evaluator tree
// stateful; expression.CopyReset — one copy per group — and Reset must then build the tree anew instead of sharing it.
func c06ExprCopy(c *core.Ctx, rule string) {
	sp := c.P.Pkg("tick/stateful")
	if sp == nil {
		c.Undecided(rule, "anchor:tick/stateful", token.NoPos, "package not loaded")
		return
	}
	info := sp.TypesInfo
	// evaluator types with state of their own
	var stateful []string
	scope := sp.Types.Scope()
	for _, n := range scope.Names() {
		tn, ok := scope.Lookup(n).(*types.TypeName)
		if !ok {
			continue
		}
		st, ok := tn.Type().Underlying().(*types.Struct)
		if !ok {
			continue
		}
		if o, _, _ := types.LookupFieldOrMethod(types.NewPointer(tn.Type()), true, sp.Types, "EvalBool"); o == nil {
			continue
		}
		if o, _, _ := types.LookupFieldOrMethod(types.NewPointer(tn.Type()), true, sp.Types, "IsDynamic"); o == nil {
			continue // not a NodeEvaluator (the expression itself)
		}
		for i := 0; i < st.NumFields(); i++ {
			if nt := core.NamedOf(st.Field(i).Type()); nt != nil && nt.Obj().Name() == "ExecutionState" && nt.Obj().Pkg() == sp.Types {
				stateful = append(stateful, tn.Name())
			}
		}
	}
	if len(stateful) == 0 {
		c.Ok(rule, "expression#tree-stateless", "no evaluator type keeps an ExecutionState of its own")
		return
	}
	for _, m := range []string{"CopyReset", "Reset"} {
		fn := c.Need(rule, "tick/stateful", "expression", m)
		if fn == nil {
			continue
		}
		c.Analysed(fn)
		recv := ""
		if fn.Decl.Recv != nil && len(fn.Decl.Recv.List) == 1 && len(fn.Decl.Recv.List[0].Names) == 1 {
			recv = fn.Decl.Recv.List[0].Names[0].Name
		}
		// the fresh tree: a variable defined by createNodeEvaluator(<recv>.node)
		var fresh types.Object
		ast.Inspect(fn.Decl.Body, func(n ast.Node) bool {
			as, ok := n.(*ast.AssignStmt)
			if !ok || len(as.Rhs) != 1 || len(as.Lhs) != 2 {
				return true
			}
			call, ok := as.Rhs[0].(*ast.CallExpr)
			if !ok || len(call.Args) != 1 {
				return true
			}
			if cal := core.Callee(info, call); cal == nil || cal.Name() != "createNodeEvaluator" {
				return true
			}
			if !an.FieldSel(info, call.Args[0], "expression", "node") {
				return true
			}
			if id, ok := as.Lhs[0].(*ast.Ident); ok {
				fresh = info.Defs[id]
				if fresh == nil {
					fresh = info.Uses[id]
				}
			}
			return true
		})
		used := false
		if fresh != nil {
			ast.Inspect(fn.Decl.Body, func(n ast.Node) bool {
				switch x := n.(type) {
				case *ast.KeyValueExpr:
					if k, ok := x.Key.(*ast.Ident); ok && k.Name == "nodeEvaluator" {
						if id, ok := ast.Unparen(x.Value).(*ast.Ident); ok && info.Uses[id] == fresh {
							used = true
						}
					}
				case *ast.AssignStmt:
					for i, l := range x.Lhs {
						if an.FieldSel(info, l, "expression", "nodeEvaluator") && i < len(x.Rhs) {
							if id, ok := ast.Unparen(x.Rhs[i]).(*ast.Ident); ok && info.Uses[id] == fresh {
								used = true
							}
						}
					}
				}
				return true
			})
		}
		_ = recv
		c.Check(used, rule, "expression."+m+"#fresh-tree", fn.Decl.Pos(), "expression.%s does not build the evaluator tree anew (createNodeEvaluator(se.node) into nodeEvaluator), while %v keep an ExecutionState of their own inside the tree: the copies that where/eval/alert/stateCount make for each group share the state of every stateful function in a lambda variable — with var c = lambda: count() and |where(lambda: c > 2) behind a groupBy, all groups advance one counter", m, stateful)
	}
}

// c04Conversions (seeds C04-11-r4, C04-12-r4): the conversion built-ins call strconv with the documented base and format, and the
// "time" variable of a scope is the point's time in the process's local zone (the calendar functions read the zone of the value).
func c04Conversions(c *core.Ctx, sp *packages.Package) {
	c.Rule("C04.convbase", "A4: the conversion built-ins (bool, int, float, string) parse and print with the documented base and format: strconv.ParseInt(s, 10, 64), ParseFloat(s, 64), FormatInt(v, 10), FormatFloat(v, 'f', -1, 64) — int('010') is 10 and int('0x10') an error")
	info := sp.TypesInfo
	want := map[string][]string{ // constant arguments after the first
		"ParseInt":    {"10", "64"},
		"ParseFloat":  {"64"},
		"FormatInt":   {"10"},
		"FormatFloat": {"102", "-1", "64"}, // 'f' == 102
	}
	n := 0
	for _, f := range core.AllFuncs(sp) {
		if f.Decl.Name.Name != "Call" || f.Decl.Recv == nil {
			continue
		}
		recv := core.RecvName(f.Decl)
		ast.Inspect(f.Decl.Body, func(nd ast.Node) bool {
			call, ok := nd.(*ast.CallExpr)
			if !ok {
				return true
			}
			cal := core.Callee(info, call)
			if cal == nil || cal.Pkg() == nil || cal.Pkg().Path() != "strconv" {
				return true
			}
			w, ok := want[cal.Name()]
			if !ok || len(call.Args) != len(w)+1 {
				return true
			}
			n++
			c.Analysed(f)
			var got []string
			good := true
			for i, a := range call.Args[1:] {
				tv, ok := info.Types[a]
				g := "?"
				if ok && tv.Value != nil {
					g = constant.ToInt(tv.Value).ExactString()
				}
				got = append(got, g)
				if g != w[i] {
					good = false
				}
			}
			c.Check(good, "C04.convbase", recv+".Call#strconv."+cal.Name(), call.Pos(), "%s.Call calls strconv.%s with the constant arguments %v, the documented conversion needs %v: with base 0 a string with a leading zero is read as octal (int('010') = 8) and '0x10', '0b11', '1_000' convert instead of being errors for that point", recv, cal.Name(), got, w)
			return true
		})
	}
	c.Floor("C04.convbase", "strconv calls of the conversion built-ins", n, 4)

	c.Rule("C04.timezone", "A3: the \"time\" variable of an expression's scope is the point's own time in the local zone of the process (fillScope sets it from <point>.Time().Local() or .In(time.Local)): hour(), day(), weekday() … read the zone of the value they are given")
	root := c.P.Pkg("")
	if root == nil {
		c.Note("C04.timezone: the root package is not loaded in this run")
		return
	}
	rinfo := root.TypesInfo
	fn := c.Need("C04.timezone", "", "", "fillScope")
	if fn == nil {
		return
	}
	c.Analysed(fn)
	pt := an.ParamName(fn.Decl.Type, 2)
	// locals defined as <pt>.Time()
	timeVars := map[types.Object]bool{}
	ast.Inspect(fn.Decl.Body, func(nd ast.Node) bool {
		as, ok := nd.(*ast.AssignStmt)
		if !ok || len(as.Lhs) != 1 || len(as.Rhs) != 1 {
			return true
		}
		if types.ExprString(as.Rhs[0]) == pt+".Time()" {
			if id, ok := as.Lhs[0].(*ast.Ident); ok {
				if o := rinfo.Defs[id]; o != nil {
					timeVars[o] = true
				}
			}
		}
		return true
	})
	isPointTime := func(e ast.Expr) bool {
		e = ast.Unparen(e)
		if types.ExprString(e) == pt+".Time()" {
			return true
		}
		id, ok := e.(*ast.Ident)
		return ok && timeVars[rinfo.Uses[id]]
	}
	sets, good := 0, true
	ast.Inspect(fn.Decl.Body, func(nd ast.Node) bool {
		call, ok := nd.(*ast.CallExpr)
		if !ok || len(call.Args) != 2 {
			return true
		}
		cal := core.Callee(rinfo, call)
		if cal == nil || cal.Name() != "Set" {
			return true
		}
		tv, ok := rinfo.Types[call.Args[0]]
		if !ok || tv.Value == nil || tv.Value.Kind() != constant.String || constant.StringVal(tv.Value) != "time" {
			return true
		}
		sets++
		v, ok := ast.Unparen(call.Args[1]).(*ast.CallExpr)
		okk := false
		if ok {
			if sel, ok := v.Fun.(*ast.SelectorExpr); ok && isPointTime(sel.X) {
				switch {
				case sel.Sel.Name == "Local" && len(v.Args) == 0:
					okk = true
				case sel.Sel.Name == "In" && len(v.Args) == 1 && types.ExprString(v.Args[0]) == "time.Local":
					okk = true
				}
			}
		}
		if !okk {
			good = false
			c.Fail("C04.timezone", "fillScope#time", call.Pos(), "fillScope sets \"time\" to %s, not to the point's time in the local zone (<point>.Time().Local()): the calendar functions hour(), minute(), day(), weekday(), month(), year() compute in the zone of the value they get — in another zone than UTC `hour(\"time\") >= 9 AND hour(\"time\") < 18` selects other hours than the server's", types.ExprString(call.Args[1]))
		}
		return true
	})
	if sets == 0 {
		c.Undecided("C04.timezone", "fillScope", fn.Decl.Pos(), "no Set(\"time\", …) found")
	} else if good {
		c.Ok("C04.timezone", "fillScope#time")
	}
}

// c04Quotient (seed C04-3): a float quotient computed by a built-in function has a divisor that cannot be zero where the
// quotient is used: 0/0 is NaN, and a NaN result compares false with everything — `sigma("x") > 3` silently never fires.
// Accepted proofs, per division in a Call method of tick/stateful:
//   - the divisor is a non-zero constant;
//   - on every path to the division a test has established divisor != 0 (guard provenance over go/cfg, conditions taken apart
//     at !, && and ||), where the divisor is looked at through math.Sqrt, math.Abs and float64(): they are zero only at zero;
//   - the divisor is a counter: incremented on every path before the division, and otherwise only ever set to the literal 0;
//   - the divisor is `X - c`: a test has established X > c or X >= c+1;
//   - the quotient is only stored (V = a / b, V a field read nowhere else): then every return statement that reads V needs one
//     of the proofs above at the return.
func c04Quotient(c *core.Ctx, sp *packages.Package) {
	c.Rule("C04.quotient", "A4 (guard provenance): seed C04-3: in the Call method of a built-in function a float division's divisor is proved non-zero where the quotient is used — a constant, a counter incremented before, or a test on every path (taken apart at !, && and ||; seen through Sqrt, Abs and float64); a quotient that is only stored in a field needs the proof at every return that reads the field. 0/0 is NaN and NaN compares false with everything: the alert condition never fires")
	info := sp.TypesInfo
	n := 0
	unwrap := func(e ast.Expr) ast.Expr {
		for {
			e = ast.Unparen(e)
			call, ok := e.(*ast.CallExpr)
			if !ok || len(call.Args) != 1 {
				return e
			}
			if tv, ok := info.Types[call.Fun]; ok && tv.IsType() {
				e = call.Args[0]
				continue
			}
			if cal := core.Callee(info, call); cal != nil && cal.Pkg() != nil && cal.Pkg().Path() == "math" && (cal.Name() == "Sqrt" || cal.Name() == "Abs") {
				e = call.Args[0]
				continue
			}
			return e
		}
	}
	// every assignment to the field anywhere in the package is `= 0`-literal or ++
	counterField := func(fv *types.Var) bool {
		okAll, incs := true, 0
		for _, f := range core.AllFuncs(sp) {
			ast.Inspect(f.Decl, func(nd ast.Node) bool {
				switch s := nd.(type) {
				case *ast.AssignStmt:
					for i, l := range s.Lhs {
						if sel, ok := ast.Unparen(l).(*ast.SelectorExpr); ok && info.Uses[sel.Sel] == fv {
							if s.Tok != token.ASSIGN || len(s.Rhs) != len(s.Lhs) {
								okAll = false
								continue
							}
							tv, ok := info.Types[s.Rhs[i]]
							if !ok || tv.Value == nil || constant.Sign(tv.Value) != 0 {
								okAll = false
							}
						}
					}
				case *ast.IncDecStmt:
					if sel, ok := ast.Unparen(s.X).(*ast.SelectorExpr); ok && info.Uses[sel.Sel] == fv {
						if s.Tok == token.INC {
							incs++
						} else {
							okAll = false
						}
					}
				case *ast.UnaryExpr:
					if s.Op == token.AND {
						if sel, ok := ast.Unparen(s.X).(*ast.SelectorExpr); ok && info.Uses[sel.Sel] == fv {
							okAll = false
						}
					}
				}
				return true
			})
		}
		return okAll && incs > 0
	}
	proveNZ := func(body *ast.BlockStmt, site ast.Node, d ast.Expr) bool {
		if tv, ok := info.Types[d]; ok && tv.Value != nil {
			return constant.Sign(tv.Value) != 0
		}
		text := types.ExprString(d)
		nz := func(cond ast.Expr, branch bool) bool { return impliesNonZero(info, cond, branch, text) }
		if guardedBy(body, site, text, nz) {
			return true
		}
		// counter
		if sel, ok := d.(*ast.SelectorExpr); ok {
			if fv, ok := info.Uses[sel.Sel].(*types.Var); ok && fv.IsField() && counterField(fv) {
				never := func(ast.Expr, bool) bool { return false }
				inc := func(nd ast.Node) bool {
					s, ok := nd.(*ast.IncDecStmt)
					return ok && s.Tok == token.INC && types.ExprString(ast.Unparen(s.X)) == text
				}
				if guardedByEst(body, site, text, never, inc) {
					return true
				}
			}
		}
		// X - c
		if be, ok := d.(*ast.BinaryExpr); ok && be.Op == token.SUB {
			if tv, ok := info.Types[be.Y]; ok && tv.Value != nil {
				if cv, exact := constant.Int64Val(constant.ToInt(tv.Value)); exact {
					xt := types.ExprString(ast.Unparen(be.X))
					lo := func(cond ast.Expr, branch bool) bool { return impliesBound(info, cond, branch, xt, cv+1, false) }
					if guardedBy(body, site, xt, lo) {
						return true
					}
				}
			}
		}
		return false
	}
	for _, f := range core.AllFuncs(sp) {
		if f.Decl.Recv == nil || f.Decl.Body == nil || f.Decl.Name.Name != "Call" {
			continue
		}
		recvName := core.RecvName(f.Decl)
		seen := false
		k := 0
		// parents of quotients that are plain stores
		stored := map[*ast.BinaryExpr]ast.Expr{}
		ast.Inspect(f.Decl.Body, func(nd ast.Node) bool {
			if as, ok := nd.(*ast.AssignStmt); ok && len(as.Lhs) == 1 && len(as.Rhs) == 1 {
				if be, ok := ast.Unparen(as.Rhs[0]).(*ast.BinaryExpr); ok && be.Op == token.QUO {
					stored[be] = as.Lhs[0]
				}
			}
			return true
		})
		ast.Inspect(f.Decl.Body, func(nd ast.Node) bool {
			be, ok := nd.(*ast.BinaryExpr)
			if !ok || be.Op != token.QUO {
				return true
			}
			if tv, ok := info.Types[be]; !ok || tv.Value != nil {
				return true
			}
			if b, ok := info.TypeOf(be).Underlying().(*types.Basic); !ok || b.Info()&types.IsFloat == 0 {
				return true
			}
			if !seen {
				seen = true
				c.Analysed(f)
			}
			n++
			k++
			construct := fmt.Sprintf("%s.Call#quotient%d", recvName, k)
			d := unwrap(be.Y)
			if proveNZ(f.Decl.Body, be, d) {
				c.Ok("C04.quotient", construct)
				return true
			}
			// only stored: the proof is due where the stored value is returned
			if lhs, ok := stored[be]; ok {
				if sel, ok := ast.Unparen(lhs).(*ast.SelectorExpr); ok {
					if fv, ok := info.Uses[sel.Sel].(*types.Var); ok && fv.IsField() {
						readElsewhere := false
						for _, g := range core.AllFuncs(sp) {
							if g.Decl == f.Decl {
								continue
							}
							ast.Inspect(g.Decl, func(m ast.Node) bool {
								if s2, ok := m.(*ast.SelectorExpr); ok && info.Uses[s2.Sel] == fv {
									// a plain store elsewhere (Reset) is no read
									readElsewhere = readElsewhere || !c04IsStoreTarget(g.Decl, s2)
								}
								return true
							})
						}
						allRets, rets := true, 0
						ast.Inspect(f.Decl.Body, func(m ast.Node) bool {
							ret, ok := m.(*ast.ReturnStmt)
							if !ok || ret.Pos() < be.Pos() {
								return true
							}
							reads := false
							ast.Inspect(ret, func(x ast.Node) bool {
								if s2, ok := x.(*ast.SelectorExpr); ok && info.Uses[s2.Sel] == fv {
									reads = true
								}
								return true
							})
							if reads {
								rets++
								if !proveNZ(f.Decl.Body, ret, d) {
									allRets = false
								}
							}
							return true
						})
						if !readElsewhere && allRets && rets > 0 {
							c.Ok("C04.quotient", construct, "stored; proved at the returns that read it")
							return true
						}
					}
				}
			}
			c.Fail("C04.quotient", construct, be.Pos(), "%s.Call divides by %s, which no test, counter or constant on the way proves non-zero where the quotient is used: a flat series (or the first points) gives 0/0 = NaN, and a NaN result compares false with everything — the condition built on it never fires and never recovers", recvName, types.ExprString(be.Y))
			return true
		})
	}
	c.Floor("C04.quotient", "float divisions in Call methods of built-in functions", n, 2)
}

// c04IsStoreTarget: sel is the whole left side of a plain assignment in decl.
func c04IsStoreTarget(decl *ast.FuncDecl, sel *ast.SelectorExpr) bool {
	is := false
	ast.Inspect(decl, func(n ast.Node) bool {
		if as, ok := n.(*ast.AssignStmt); ok && as.Tok == token.ASSIGN {
			for _, l := range as.Lhs {
				if ast.Unparen(l) == ast.Expr(sel) {
					is = true
				}
			}
		}
		return true
	})
	return is
}
