package props

import (
	"fmt"
	"go/ast"
	"go/constant"
	"go/token"
	"go/types"
	"regexp"
	"sort"
	"strings"

	"golang.org/x/tools/go/cfg"
	"golang.org/x/tools/go/packages"

	"kapcheck/an"
	"kapcheck/core"
)

func init() {
	register(&Property{
		ID:       "C05",
		Patterns: []string{"./tick/...", "./udf/...", ".", "./client/v1", "./services/task_store", "./influxdb", "./edge", "./pipeline"},
		Run:      runC05,
		Explanation: "Crash classes decided at named sites, on every path: (1) the frames that must contain a panic own a deferred recover() that is executed unconditionally and does not re-panic (node goroutine, expression.Eval, match handler, scheduler worker, HTTP recovery, parser and evaluator entry points); " +
			"(2) lexer cursor typestate: backup() is reached only when the width it subtracts is the width of the rune last consumed; (3) the parser releases the lexer goroutine on its error exit; " +
			"(4) partial operations in the evaluator and built-ins are guarded: integer division/modulo by a zero test, fixed-array indexing by an arity test, slicing by lower/upper/order tests; " +
			"(5) the UDF reader/writer never panic on peer data: no explicit panic on the data path, protocol state set by one message kind is nil-checked before another kind dereferences it, peer-supplied sizes are range-checked before they size an allocation. " +
			"NOT decided: hangs other than the lexer leak, panics outside these classes (arbitrary indices, unchecked assertions on internal values, third-party code), resource exhaustion.",
		Assumptions: []string{"the Go protobuf decoder allocates the selected oneof payload (msg.Point etc. are non-nil after Unmarshal)", "a panic recovered in node.start fails the task but not the process"},
	})
}

func runC05(c *core.Ctx) {
	c.Rule("C05.recover", "A9a: each frame of the role table has a deferred function whose recover() call is executed on every path of that deferred function (top-level statement or if-init, not under a condition a panic leaves false); frames that face data-dependent panics do not re-panic the recovered value")
	c.Rule("C05.lexwidth", "typestate: on every path of every lexer state function, backup() is called only when l.width (set by the last rune decoded) equals the width of the last rune consumed: directly after next(), or after a peek() that provably decoded a rune of the same width (both compared equal to ASCII constants), or when peek() itself preserves the width")
	c.Rule("C05.lexdrain", "A2: the parser's error exit (recover → stopParse) drains the lexer's token channel until it is closed, so the lexer goroutine blocked on its unbuffered send always terminates")
	c.Rule("C05.div", "A9b: every evaluationFuncs entry whose Go operation is an integer or duration division/modulo reaches the operation only on paths where the divisor was compared with zero")
	c.Rule("C05.slice", "A9b: in tick/stateful built-ins, s[lo:hi] with computed bounds is reached only after lo<0, hi>len(s) and lo>hi were each excluded on the path")
	c.Rule("C05.arrayidx", "A9b: in tick/stateful, a fixed-size array indexed by a loop variable is reached only after the loop's range length was compared with the array length")
	c.Rule("C05.udf.panic", "A9b: no explicit panic(...) in udf.Server code reachable from the reader/writer goroutines (readData, writeData): peer or point data must produce an error, not a process crash")
	c.Rule("C05.udf.state", "A9b: in udf.Server.handleResponse, protocol state assigned by one message kind (s.begin) is dereferenced in another kind's arm only under a nil test")
	c.Rule("C05.udf.send", "A2: the UDF server's reader (handleResponse) never blocks for good on its consumer: every channel send in it is an arm of a select that also receives from s.aborting (or has a default arm); a bare send leaves the reader stuck when Out() is not drained, and Abort — which waits for the reader while holding the server mutex — never returns")
	c.Rule("C05.typeguard", "A7: no ErrTypeGuardFailed literal in an Eval<Kind> method of tick/stateful reports as ActualType the very kind the method was asked for, and under a test of the result container's Is<Kind>Value flag the ActualType is that kind: the re-specialisation loop of EvalBinaryNode.eval trusts ActualType, and a report that repeats the requested type makes it select the same function again — unbounded recursion, a stack overflow no recover() can contain")
	c.Rule("C05.udf.alloc", "A9b: a size taken from a peer message (Begin.Size, the frame length) is compared against a lower and an upper bound on every path before it sizes an allocation")

	c.Rule("C05.lexstate", "typestate (may-be-stopped dataflow over go/cfg): in every parser method that stops the lexer (calls a method storing nil into parser.lex), no method that dereferences parser.lex — directly or through same-receiver calls — is called after the stop on any path, until the field is assigned again")
	c.Rule("C05.udf.selfwait", "A5 (must-done dataflow over go/cfg): a goroutine of package udf that is counted in a sync.WaitGroup field (calls X.Done) calls nothing that reaches X.Wait — directly or through static same-package calls — before its Done on any path; deferred calls are taken in their run order (last first, after the body)")
	c.Rule("C05.udf.lockflow", "A5 (must-hold lock set over go/cfg): udf.Server.stopped/aborted — the flags that make stop()/abort() close their channels exactly once — are read and written only with s.mu held on all paths")
	c.Rule("C05.retry", "A1 (termination): F41: in tick/stateful a method that calls itself on the same receiver (retry after fixing cached operand types) does so only on paths where an integer retry parameter was tested against a bound and is passed on incremented; recursion into child nodes is structural and not examined")
	c05Recover(c)
	if pkg := c.P.Pkg("tick/ast"); pkg != nil {
		c05LexWidth(c, pkg)
		c05LexDrain(c, pkg)
		c05LexState(c, pkg)
	} else {
		c.Undecided("C05.lexwidth", "anchor:tick/ast", token.NoPos, "package not loaded")
	}
	if pkg := c.P.Pkg("tick/stateful"); pkg != nil {
		c05Div(c, pkg)
		c05Slice(c, pkg)
		c05ArrayIdx(c, pkg)
		c05Retry(c, pkg)
	} else {
		c.Undecided("C05.div", "anchor:tick/stateful", token.NoPos, "package not loaded")
	}
	if pkg := c.P.Pkg("udf"); pkg != nil {
		c05UDF(c, pkg)
		c05UDFSend(c, pkg)
		c05SelfWait(c, pkg)
		n := ruleMustHold(c, "C05.udf.lockflow", pkg, holdSpec{Typ: "Server", Mu: "mu", Fields: map[string]bool{"stopped": true, "aborted": true},
			Why: "stopped/aborted decide whether stop()/abort() close their channels: read or written outside the lock, two callers both see false and close the channel twice (panic: close of closed channel) — a peer error racing a task stop"})
		c.Floor("C05.udf.lockflow", "selections of udf.Server.stopped/aborted", n, 6)
	} else {
		c.Undecided("C05.udf.panic", "anchor:udf", token.NoPos, "package not loaded")
	}
	if pkg := c.P.Pkg("udf/agent"); pkg != nil {
		c05AgentIO(c, pkg)
	}
	if c.P.Pkg("udf") != nil {
		ruleEscape(c, "C05.udf.escape", "udf", "Server")
	}
	c05TypeGuard(c)
	c05Reflect(c)
	c05Ticker(c)
	c05ArgFlow(c)
	c05ProbeRules(c)
	if root := c.P.Pkg(""); root != nil {
		c05UdfOpenState(c, root)
	}
}

// ---------------------------------------------------------------- recover placement

type c05Role struct {
	rel, recv, name string
	closure         bool // the frame is the goroutine closure inside the function
	noRepanic       bool // faces data-dependent panics: must swallow everything
}

func c05Recover(c *core.Ctx) {
	roles := []c05Role{
		{"", "node", "start", true, true},
		{"", "QueryNode", "Start", true, true},     // F127: runs doQuery, which decodes the server's answers, outside node.start's recover
		{"", "FluxQueryNode", "Start", true, true}, // F127
		{"tick/stateful", "expression", "Eval", false, true},
		{"services/alert", "matchHandler", "Handle", false, true},
		{"task/backend/scheduler", "TreeScheduler", "work", true, true},
		{"tick", "", "Evaluate", false, false},
		{"tick/ast", "parser", "parse", false, false},
		{"tick/ast", "parser", "parseLambda", false, false},
	}
	n := 0
	for _, r := range roles {
		pkg := c.P.Pkg(r.rel)
		if pkg == nil {
			continue // package outside this tier's load set
		}
		fn := c.Need("C05.recover", r.rel, r.recv, r.name)
		if fn == nil {
			continue
		}
		n++
		info := pkg.TypesInfo
		cons := fn.Name()
		// candidate deferred functions: every defer in the function (including inside closures)
		var defers []*ast.DeferStmt
		ast.Inspect(fn.Decl.Body, func(nd ast.Node) bool {
			if d, ok := nd.(*ast.DeferStmt); ok {
				defers = append(defers, d)
			}
			return true
		})
		best := "no deferred function calls recover()"
		okFrame := false
		for _, d := range defers {
			var body *ast.BlockStmt
			info = pkg.TypesInfo // a deferred method of another package (mu.Unlock) must not leave its type information behind
			switch f := ast.Unparen(d.Call.Fun).(type) {
			case *ast.FuncLit:
				body = f.Body
			default:
				if callee := core.Callee(info, d.Call); callee != nil {
					if dd := declOfFunc(c.P, callee); dd != nil {
						body = dd.Decl.Body
						info = dd.Pkg.TypesInfo
					}
				} else if id, ok := ast.Unparen(d.Call.Fun).(*ast.Ident); ok {
					// a local closure variable (rec := func…)
					if l := localFuncLit(pkg.TypesInfo, fn, id); l != nil {
						body = l.Body
					}
				}
			}
			if body == nil {
				continue
			}
			uncond, cond := recoverPlacement(info, body)
			if !uncond && !cond {
				continue
			}
			if !uncond {
				best = "recover() is called only under a condition inside the deferred function: a panic leaves that condition false (err is still nil), so the panic is not recovered and kills the process"
				continue
			}
			if r.noRepanic && repanics(info, body) {
				best = "the deferred function re-panics the recovered value"
				continue
			}
			okFrame = true
		}
		c.Check(okFrame, "C05.recover", cons, fn.Decl.Pos(), "%s", best)
		info = pkg.TypesInfo
	}
	c.Floor("C05.recover", "frames of the role table in the loaded packages", n, 4)
	c.Note("C05.recover: services/httpd.recovery calls recover() outside a deferred function (a no-op); it is not in the role table because net/http's conn.serve recovers handler panics itself, so the process survives")
	c.Note("C05.recover: tick.Evaluate and parser.recover re-panic non-sentinel / runtime.Error values by design (no failing input known); only the presence of an unconditional recover is required of them")
}

func localFuncLit(info *types.Info, fn *core.Func, id *ast.Ident) *ast.FuncLit {
	obj := info.Uses[id]
	var out *ast.FuncLit
	ast.Inspect(fn.Decl.Body, func(n ast.Node) bool {
		as, ok := n.(*ast.AssignStmt)
		if !ok {
			return true
		}
		for i, l := range as.Lhs {
			if lid, ok := l.(*ast.Ident); ok && info.Defs[lid] == obj && i < len(as.Rhs) {
				if fl, ok := as.Rhs[i].(*ast.FuncLit); ok {
					out = fl
				}
			}
		}
		return true
	})
	return out
}

// recoverPlacement: does the body call recover() unconditionally (top-level
// statement, assignment, or the init/condition of a top-level if) / only conditionally?
func recoverPlacement(info *types.Info, body *ast.BlockStmt) (uncond, cond bool) {
	isRecover := func(n ast.Node) bool {
		found := false
		ast.Inspect(n, func(m ast.Node) bool {
			if call, ok := m.(*ast.CallExpr); ok && core.IsBuiltin(info, call, "recover") {
				found = true
			}
			if _, ok := m.(*ast.FuncLit); ok {
				return false
			}
			return true
		})
		return found
	}
	for _, s := range body.List {
		switch x := s.(type) {
		case *ast.IfStmt:
			if (x.Init != nil && isRecover(x.Init)) || isRecover(x.Cond) {
				return true, false
			}
			if isRecover(x.Body) || (x.Else != nil && isRecover(x.Else)) {
				cond = true
			}
		case *ast.AssignStmt, *ast.ExprStmt, *ast.DeclStmt:
			if isRecover(x) {
				return true, false
			}
		case *ast.SwitchStmt:
			if (x.Init != nil && isRecover(x.Init)) || (x.Tag != nil && isRecover(x.Tag)) {
				return true, false
			}
			if isRecover(x.Body) {
				cond = true
			}
		default:
			if isRecover(x) {
				cond = true
			}
		}
	}
	return false, cond
}

func repanics(info *types.Info, body *ast.BlockStmt) bool {
	found := false
	ast.Inspect(body, func(n ast.Node) bool {
		if call, ok := n.(*ast.CallExpr); ok && core.IsBuiltin(info, call, "panic") {
			found = true
		}
		return true
	})
	return found
}

// ---------------------------------------------------------------- lexer typestate

type widthSym struct {
	id    int  // symbol identity (which decode)
	known int  // -1 unknown, else the width in bytes (0 for eof, 1 for ASCII)
	valid bool // false: the rune ending at pos is not the one l.width describes
}

func c05LexWidth(c *core.Ctx, pkg *packages.Package) {
	info := pkg.TypesInfo
	lexerMethod := func(callee *types.Func, name string) bool {
		return callee != nil && callee.Name() == name && core.RecvTypeName(callee) == "lexer"
	}
	// does peek() preserve l.width? (saves it before next() and restores it after backup())
	peekNeutral := false
	if pk := c.Need("C05.lexwidth", "tick/ast", "lexer", "peek"); pk != nil {
		var saved types.Object
		restored := false
		for _, s := range pk.Decl.Body.List {
			as, ok := s.(*ast.AssignStmt)
			if !ok || len(as.Lhs) != 1 || len(as.Rhs) != 1 {
				continue
			}
			if an.FieldSel(info, as.Rhs[0], "lexer", "width") {
				if id, ok := as.Lhs[0].(*ast.Ident); ok {
					saved = info.Defs[id]
				}
			}
			if an.FieldSel(info, as.Lhs[0], "lexer", "width") && saved != nil {
				if id, ok := as.Rhs[0].(*ast.Ident); ok && info.Uses[id] == saved {
					restored = true
				}
			}
		}
		peekNeutral = saved != nil && restored
	}
	// backup() must be pos -= width, next() must set width from the decode (the typestate's meaning)
	if bk := c.Need("C05.lexwidth", "tick/ast", "lexer", "backup"); bk != nil {
		good := false
		if body := an.Effective(bk.Decl.Body.List); len(body) == 1 {
			if as, ok := body[0].(*ast.AssignStmt); ok && as.Tok == token.SUB_ASSIGN && an.FieldSel(info, as.Lhs[0], "lexer", "pos") && an.FieldSel(info, as.Rhs[0], "lexer", "width") {
				good = true
			}
		}
		if !good {
			c.Undecided("C05.lexwidth", "lexer.backup#shape", bk.Decl.Pos(), "backup() is no longer `l.pos -= l.width`: the typestate rule does not describe it")
			return
		}
	}
	asciiPred := map[string]bool{"isUnaryOperatorChar": true} // helpers that are true only for ASCII runes (strings.ContainsRune over an ASCII constant)
	n := 0
	for _, f := range core.AllFuncs(pkg) {
		// state functions: func(*lexer) stateFn, plus lexer helper methods that move the cursor
		isState := false
		if f.Decl.Recv == nil && f.Decl.Type.Params.NumFields() == 1 && f.Decl.Type.Results.NumFields() == 1 {
			if tv, ok := info.Types[f.Decl.Type.Results.List[0].Type]; ok && strings.HasSuffix(tv.Type.String(), "ast.stateFn") {
				isState = true
			}
		}
		isHelper := core.RecvName(f.Decl) == "lexer" && (f.Decl.Name.Name == "ignoreSpace" || f.Decl.Name.Name == "expect")
		if !isState && !isHelper {
			continue
		}
		n++
		c.Analysed(f)
		eng := &an.Engine{Prog: c.P,
			Impure: func(callee *types.Func) bool { return lexerMethod(callee, "next") || lexerMethod(callee, "peek") },
			TrackCall: func(call *ast.CallExpr, callee *types.Func) string {
				for _, m := range []string{"next", "peek", "backup", "ignoreSpace", "expect"} {
					if lexerMethod(callee, m) {
						return m
					}
				}
				return ""
			}}
		paths, err := eng.Run(f)
		if err != nil {
			c.Undecided("C05.lexwidth", f.Decl.Name.Name, f.Decl.Pos(), "%v", err)
			continue
		}
		// ordinal of each backup call in source order (stable construct key)
		ord := map[token.Pos]int{}
		ast.Inspect(f.Decl.Body, func(nd ast.Node) bool {
			if call, ok := nd.(*ast.CallExpr); ok && lexerMethod(core.Callee(info, call), "backup") {
				ord[call.Pos()] = len(ord) + 1
			}
			return true
		})
		bad := map[int]string{}
		okSeen := map[int]bool{}
		for _, p := range paths {
			// width knowledge from the path condition: <call key> == <ASCII const> decided true
			known := map[string]int{}
			for _, l := range p.Lits {
				be, isCmp := l.Expr.(*ast.BinaryExpr)
				if isCmp && l.Val && (be.Op == token.EQL) || (isCmp && !l.Val && be.Op == token.NEQ) {
					// key is "L == R" normalised; find which side is the call
					parts := strings.SplitN(l.Key, " == ", 2)
					if len(parts) == 2 {
						w := runeConstWidth(info, be)
						if w >= 0 {
							known[parts[0]] = w
							known[parts[1]] = w
						}
					}
				}
				if call, ok := l.Expr.(*ast.CallExpr); ok && l.Val {
					if cal := core.Callee(info, call); cal != nil && asciiPred[cal.Name()] && len(call.Args) == 1 {
						known[p.Key(eng, call.Args[0])] = 1
					}
				}
			}
			consumed := widthSym{valid: false}
			decoded := widthSym{valid: false}
			symN := 0
			for _, e := range p.Events {
				if e.Kind != "call" {
					continue
				}
				call := e.Node.(*ast.CallExpr)
				key := p.Key(eng, call)
				kw := -1
				if w, ok := known[key]; ok {
					kw = w
				}
				switch e.Name {
				case "next":
					symN++
					consumed = widthSym{id: symN, known: kw, valid: true}
					decoded = consumed
				case "peek":
					if !peekNeutral {
						symN++
						decoded = widthSym{id: symN, known: kw, valid: true}
					}
				case "expect":
					// peek, then next on a match: afterwards either (next) consistent or (peek only)
					symN++
					decoded = widthSym{id: symN, known: -1, valid: true}
					consumed = widthSym{valid: false}
				case "ignoreSpace":
					consumed = widthSym{valid: false} // ends with its own backup()
				case "backup":
					o := ord[call.Pos()]
					legal := consumed.valid && decoded.valid && (consumed.id == decoded.id || (consumed.known >= 0 && consumed.known == decoded.known))
					if !legal {
						why := "backup() follows a peek() that may have decoded a rune of another width than the one consumed: pos moves by the wrong amount (before the token start for a multi-byte rune) and the lexer goroutine panics"
						if !consumed.valid {
							why = "backup() without a preceding next() on this path"
						}
						bad[o] = fmt.Sprintf("%s; path [%s]", why, p.Cond())
					} else {
						okSeen[o] = true
					}
					consumed = widthSym{valid: false}
				}
			}
		}
		for pos, o := range ord {
			cons := fmt.Sprintf("%s#backup%d", f.Decl.Name.Name, o)
			if why, isBad := bad[o]; isBad {
				c.Fail("C05.lexwidth", cons, pos, "%s", why)
			} else if okSeen[o] {
				c.Ok("C05.lexwidth", cons)
			}
		}
	}
	c.Floor("C05.lexwidth", "lexer state functions and cursor helpers", n, 10)
}

// runeConstWidth: for `x == 'c'` returns the UTF-8 width of the constant (0 for eof/-1), -1 if not a rune constant.
func runeConstWidth(info *types.Info, be *ast.BinaryExpr) int {
	for _, side := range []ast.Expr{be.X, be.Y} {
		tv, ok := info.Types[side]
		if !ok || tv.Value == nil || tv.Value.Kind() != constant.Int {
			continue
		}
		v, exact := constant.Int64Val(tv.Value)
		if !exact {
			continue
		}
		switch {
		case v < 0:
			return 0 // eof: next() sets width 0
		case v < 0x80:
			return 1
		case v < 0x800:
			return 2
		case v < 0x10000:
			return 3
		default:
			return 4
		}
	}
	return -1
}

func c05LexDrain(c *core.Ctx, pkg *packages.Package) {
	info := pkg.TypesInfo
	rec := c.Need("C05.lexdrain", "tick/ast", "parser", "recover")
	if rec == nil {
		return
	}
	// functions reachable (same package, depth ≤ 3) from the non-nil arm of recover
	seen := map[*types.Func]bool{}
	drains := false
	var visit func(body ast.Node, depth int)
	visit = func(body ast.Node, depth int) {
		ast.Inspect(body, func(n ast.Node) bool {
			switch x := n.(type) {
			case *ast.RangeStmt:
				if tv, ok := info.Types[x.X]; ok {
					if _, isChan := tv.Type.Underlying().(*types.Chan); isChan && strings.HasSuffix(types.ExprString(x.X), ".tokens") {
						drains = true
					}
				}
			case *ast.ForStmt:
				// for { _, ok := <-l.tokens / l.nextToken(); if !ok {break} }
				recv := false
				ast.Inspect(x, func(m ast.Node) bool {
					if u, ok := m.(*ast.UnaryExpr); ok && u.Op == token.ARROW && strings.HasSuffix(types.ExprString(u.X), ".tokens") {
						recv = true
					}
					if call, ok := m.(*ast.CallExpr); ok {
						if f := core.Callee(info, call); f != nil && f.Name() == "nextToken" && core.RecvTypeName(f) == "lexer" {
							recv = true
						}
					}
					return true
				})
				if recv {
					drains = true
				}
			case *ast.CallExpr:
				if f := core.Callee(info, x); f != nil && f.Pkg() == pkg.Types && !seen[f] && depth > 0 {
					seen[f] = true
					if d := declOfFunc(c.P, f); d != nil && d.Decl.Body != nil {
						visit(d.Decl.Body, depth-1)
					}
				}
			}
			return true
		})
	}
	visit(rec.Decl.Body, 3)
	c.Check(drains, "C05.lexdrain", "parser.recover", rec.Decl.Pos(), "the parser's error exit only drops its pointer to the lexer: the lexer goroutine stays blocked forever on its unbuffered token send (one leaked goroutine per script that fails to parse after its first token)")
}

// ---------------------------------------------------------------- partial operations in the evaluator

func c05Div(c *core.Ctx, pkg *packages.Package) {
	entries := c04Entries(c, "C05.div", pkg)
	n := 0
	for _, e := range entries {
		if !c04IsIntDivision(e.key) {
			continue
		}
		n++
		ks := e.key.String()
		if err := e.analyse(c, pkg); err != nil {
			c.Undecided("C05.div", ks, e.kpos, "%v", err)
			continue
		}
		good := true
		for _, p := range e.paths {
			if len(p.Rets) != 2 || p.Rets[1] != "nil" {
				continue
			}
			// success path: some decided atom compares the right operand (possibly converted) with 0
			guarded := false
			for _, l := range p.Lits {
				t := e.term(l.Key)
				if t == "R == 0" || t == "time.Duration(R) == 0" || t == "int64(R) == 0" {
					if !l.Val || strings.Contains(l.Key, "==") {
						guarded = true
					}
				}
			}
			if !guarded {
				good = false
			}
		}
		c.Check(good, "C05.div", ks, e.kpos, "the entry divides by its right operand without testing it for zero: a zero divisor is a run-time panic, which on the EvalBool/EvalInt/EvalFloat path (no recover) kills the task's node")
	}
	c.Floor("C05.div", "integer division entries", n, 4)
}

func stripConv(k string) string {
	for {
		changed := false
		for _, p := range []string{"int(", "int64(", "uint64(", "uint(", "int32("} {
			if strings.HasPrefix(k, p) && strings.HasSuffix(k, ")") {
				k = k[len(p) : len(k)-1]
				changed = true
			}
		}
		if !changed {
			return k
		}
	}
}

// pathBounds: on this path, was `a < b` decided false / true?
func litDecided(p *an.Path, key string) (val, ok bool) {
	for _, l := range p.Lits {
		parts := strings.SplitN(l.Key, " < ", 2)
		if len(parts) == 2 && stripConv(parts[0])+" < "+stripConv(parts[1]) == key {
			// l.Val carries the polarity of the *named* atom; unnamed atoms: Val is the raw decision
			return l.Val, true
		}
	}
	return false, false
}

func c05Slice(c *core.Ctx, pkg *packages.Package) {
	info := pkg.TypesInfo
	n := 0
	for _, f := range core.AllFuncs(pkg) {
		if f.Decl.Name.Name != "Call" || f.Decl.Recv == nil {
			continue
		}
		has := false
		ast.Inspect(f.Decl.Body, func(nd ast.Node) bool {
			if se, ok := nd.(*ast.SliceExpr); ok && se.Low != nil && se.High != nil && info.Types[se.Low].Value == nil && info.Types[se.High].Value == nil {
				has = true
			}
			return true
		})
		if !has {
			continue
		}
		c.Analysed(f)
		eng := &an.Engine{Prog: c.P,
			TrackExpr: func(x ast.Expr) string {
				if se, ok := x.(*ast.SliceExpr); ok && se.Low != nil && se.High != nil && info.Types[se.Low].Value == nil && info.Types[se.High].Value == nil {
					return "slice"
				}
				return ""
			}}
		paths, err := eng.Run(f)
		if err != nil {
			c.Undecided("C05.slice", core.RecvName(f.Decl)+".Call", f.Decl.Pos(), "%v", err)
			continue
		}
		reported := false
		okSeen := false
		for _, p := range paths {
			for _, e := range p.Events {
				if e.Kind != "expr" || e.Name != "slice" {
					continue
				}
				n++
				s, lo, hi := e.Recv, stripConv(e.Args[0]), stripConv(e.Args[1])
				var missing []string
				if v, ok := litDecided(p, lo+" < 0"); !ok || v {
					missing = append(missing, "lo >= 0")
				}
				upper := false
				if v, ok := litDecided(p, "len("+s+") < "+hi); ok && !v {
					upper = true
				}
				if v, ok := litDecided(p, hi+" < len("+s+")"); ok && v {
					upper = true
				}
				if !upper {
					missing = append(missing, "hi <= len(s)")
				}
				order := false
				if v, ok := litDecided(p, hi+" < "+lo); ok && !v {
					order = true
				}
				if v, ok := litDecided(p, lo+" < "+hi); ok && v {
					order = true
				}
				if !order {
					missing = append(missing, "lo <= hi")
				}
				if len(missing) > 0 && !reported {
					reported = true
					c.Fail("C05.slice", core.RecvName(f.Decl)+".Call", e.Pos, "%s[%s:%s] is reached without the test(s) %v on path [%s]: out-of-order or out-of-range arguments panic instead of returning an error", s, lo, hi, missing, p.Cond())
				} else if len(missing) == 0 {
					okSeen = true
				}
			}
		}
		if !reported && okSeen {
			c.Ok("C05.slice", core.RecvName(f.Decl)+".Call")
		}
	}
	c.Floor("C05.slice", "slice expressions with computed bounds on paths", n, 1)
}

func c05ArrayIdx(c *core.Ctx, pkg *packages.Package) {
	info := pkg.TypesInfo
	n := 0
	for _, f := range core.AllFuncs(pkg) {
		// arrays indexed by the key variable of an enclosing range loop over something else
		type site struct {
			ix    *ast.IndexExpr
			rng   *ast.RangeStmt
			arrTy *types.Array
		}
		var sites []site
		var stack []ast.Node
		ast.Inspect(f.Decl.Body, func(nd ast.Node) bool {
			if nd == nil {
				stack = stack[:len(stack)-1]
				return true
			}
			stack = append(stack, nd)
			ix, ok := nd.(*ast.IndexExpr)
			if !ok {
				return true
			}
			tv, ok := info.Types[ix.X]
			if !ok {
				return true
			}
			at, ok := tv.Type.Underlying().(*types.Array)
			if !ok || info.Types[ix.Index].Value != nil {
				return true
			}
			id, ok := ast.Unparen(ix.Index).(*ast.Ident)
			if !ok {
				return true
			}
			for i := len(stack) - 1; i >= 0; i-- {
				if rs, ok := stack[i].(*ast.RangeStmt); ok {
					if k, ok := rs.Key.(*ast.Ident); ok && info.Defs[k] == info.Uses[id] {
						// ranging over the array itself is always in range
						if types.ExprString(rs.X) != types.ExprString(ix.X) {
							sites = append(sites, site{ix, rs, at})
						}
						break
					}
				}
			}
			return true
		})
		for _, s := range sites {
			n++
			cons := f.Name() + "#" + types.ExprString(s.ix.X) + "[" + types.ExprString(s.ix.Index) + "]"
			if core.RecvName(f.Decl) == "argDomain" && f.Decl.Name.Name == "String" {
				// discharged by a construction invariant, verified here: the only producer of the
				// (args, domain) pair is an ErrWrongFuncSignature literal with ArgLiterals, and every
				// such literal lies behind the arity test of the function that builds it.
				okk, where := c05ArgLiteralsBehindArityTest(c, pkg)
				c.Check(okk, "C05.arrayidx", cons, s.ix.Pos(), "argDomain.String indexes the fixed Domain by the argument index; that is safe only while every ErrWrongFuncSignature{ArgLiterals: …} is built after the arity test — %s", where)
				continue
			}
			// a comparison of len(<ranged>) with len(<array>) (or the array length constant) must precede the loop and leave the function
			guard := false
			ranged := types.ExprString(s.rng.X)
			ast.Inspect(f.Decl.Body, func(nd ast.Node) bool {
				ifs, ok := nd.(*ast.IfStmt)
				if !ok || ifs.Pos() > s.rng.Pos() {
					return true
				}
				txt := types.ExprString(ifs.Cond)
				if ifs.Init != nil {
					if as, ok := ifs.Init.(*ast.AssignStmt); ok {
						for _, r := range as.Rhs {
							txt += " " + types.ExprString(r)
						}
					}
				}
				mentionsRanged := strings.Contains(txt, "len("+ranged+")")
				mentionsArr := strings.Contains(txt, "len("+types.ExprString(s.ix.X)+")") || strings.Contains(txt, "maxArgs") || strings.Contains(txt, fmt.Sprint(s.arrTy.Len()))
				leaves := false
				for _, st := range ifs.Body.List {
					if _, ok := st.(*ast.ReturnStmt); ok {
						leaves = true
					}
				}
				if mentionsRanged && mentionsArr && leaves {
					guard = true
				}
				return true
			})
			c.Check(guard, "C05.arrayidx", cons, s.ix.Pos(), "the fixed-size array (length %d) is indexed by the loop index over %s before any test of len(%s) against the array length: more than %d elements index out of range and panic", s.arrTy.Len(), ranged, ranged, s.arrTy.Len())
		}
	}
	c.Floor("C05.arrayidx", "fixed arrays indexed by a foreign loop index", n, 1)
}

// ---------------------------------------------------------------- UDF boundary

func c05UDF(c *core.Ctx, pkg *packages.Package) {
	info := pkg.TypesInfo
	// functions reachable from readData / writeData within the package
	reach := map[*types.Func]*core.Func{}
	var visit func(fn *core.Func)
	visit = func(fn *core.Func) {
		if fn == nil || reach[fn.Obj] != nil {
			return
		}
		reach[fn.Obj] = fn
		ast.Inspect(fn.Decl.Body, func(n ast.Node) bool {
			if call, ok := n.(*ast.CallExpr); ok {
				if f := core.Callee(info, call); f != nil && f.Pkg() == pkg.Types {
					visit(declOfFunc(c.P, f))
				}
			}
			return true
		})
	}
	for _, root := range []string{"readData", "writeData"} {
		if fn := c.Need("C05.udf.panic", "udf", "Server", root); fn != nil {
			visit(fn)
		}
	}
	c.Floor("C05.udf.panic", "functions reachable from the reader/writer goroutines", len(reach), 8)
	for _, fn := range reach {
		c.Analysed(fn)
		nP := 0
		ast.Inspect(fn.Decl.Body, func(n ast.Node) bool {
			if call, ok := n.(*ast.CallExpr); ok && core.IsBuiltin(info, call, "panic") {
				nP++
				c.Fail("C05.udf.panic", fn.Name(), call.Pos(), "explicit panic(%s) on the UDF data path: the reader/writer goroutines have no recover, so peer or point data that reaches it kills the process", types.ExprString(call.Args[0]))
			}
			return true
		})
		if nP == 0 {
			c.Ok("C05.udf.panic", fn.Name())
		}
	}

	hr := c.Need("C05.udf.state", "udf", "Server", "handleResponse")
	if hr == nil {
		return
	}
	recv := an.RecvVarName(hr.Decl)
	eng := &an.Engine{Prog: c.P,
		TrackCall: func(call *ast.CallExpr, callee *types.Func) string {
			if core.IsBuiltin(info, call, "make") {
				return "make"
			}
			if callee != nil && strings.HasPrefix(callee.Name(), "New") {
				return callee.Name()
			}
			return ""
		},
		TrackStore: func(lhs ast.Expr, key string) string {
			if an.FieldSel(info, lhs, "Server", "begin") {
				return "begin"
			}
			return ""
		}}
	paths, err := eng.Run(hr)
	if err != nil {
		c.Undecided("C05.udf.state", "Server.handleResponse", hr.Decl.Pos(), "%v", err)
		return
	}
	stateBad, allocBad := "", ""
	var statePos, allocPos token.Pos
	nDeref, nAlloc := 0, 0
	for _, p := range paths {
		// was s.begin assigned a non-nil value earlier on this very path? (then it is set)
		for i, e := range p.Events {
			if e.Kind != "call" {
				continue
			}
			if e.Name == "make" {
				for _, a := range e.Args[1:] {
					if !strings.Contains(a, "Message") && !strings.Contains(a, "response") {
						continue
					}
					nAlloc++
					a = stripConv(a)
					lowV, lowOK := litDecided(p, a+" < 0")
					upper := false
					for _, l := range p.Lits {
						parts := strings.SplitN(l.Key, " < ", 2)
						if len(parts) == 2 && stripConv(parts[1]) == a && parts[0] != "0" && !l.Val {
							upper = true // ¬(limit < size)
						}
						if len(parts) == 2 && stripConv(parts[0]) == a && parts[1] != "0" && l.Val {
							upper = true // size < limit
						}
					}
					if !(lowOK && !lowV) || !upper {
						allocBad = fmt.Sprintf("make(…, %s) is sized by a number taken from the peer's message without a lower and an upper bound test (lower tested: %v, upper tested: %v): a negative or huge Begin.Size panics in makeslice", a, lowOK && !lowV, upper)
						allocPos = e.Pos
					}
				}
				continue
			}
			for _, a := range e.Args {
				if !strings.Contains(a, recv+".begin.") && !strings.HasPrefix(a, recv+".begin.") {
					continue
				}
				nDeref++
				// set on this path?
				set := false
				for _, pe := range p.Events[:i] {
					if pe.Kind == "store" && pe.Name == "begin" && pe.Args[0] != "nil" {
						set = true
					}
				}
				checked := false
				for _, l := range p.Lits {
					if l.Key == recv+".begin == nil" && !l.Val {
						checked = true
					}
				}
				if !set && !checked {
					stateBad = fmt.Sprintf("%s is dereferenced (%s) in the arm of one message kind although only another kind's arm assigns it: an End without a preceding Begin is a nil dereference in the reader goroutine", recv+".begin", a)
					statePos = e.Pos
				}
			}
		}
	}
	c.Floor("C05.udf.state", "dereferences of cross-message state on paths", nDeref, 1)
	c.Check(stateBad == "", "C05.udf.state", "Server.handleResponse#begin", statePos, "%s", stateBad)
	c.Floor("C05.udf.alloc", "peer-sized allocations on paths", nAlloc, 1)
	c.Check(allocBad == "", "C05.udf.alloc", "Server.handleResponse#Begin.Size", allocPos, "%s", allocBad)
}

func c05UDFSend(c *core.Ctx, pkg *packages.Package) {
	info := pkg.TypesInfo
	fn := c.Need("C05.udf.send", "udf", "Server", "handleResponse")
	if fn == nil {
		return
	}
	parents := parentMap(fn.Decl.Body)
	n, good := 0, true
	ast.Inspect(fn.Decl.Body, func(nd ast.Node) bool {
		send, ok := nd.(*ast.SendStmt)
		if !ok {
			return true
		}
		n++
		guarded := false
		if cc, ok := parents[send].(*ast.CommClause); ok && cc.Comm == ast.Stmt(send) {
			if sel, ok := parents[parents[cc]].(*ast.SelectStmt); ok {
				for _, st := range sel.Body.List {
					oc := st.(*ast.CommClause)
					if oc == cc {
						continue
					}
					if oc.Comm == nil {
						guarded = true
						continue
					}
					if x := commRecv(oc.Comm); an.FieldSel(info, x, "Server", "aborting") {
						guarded = true
					}
				}
			}
		}
		if !guarded {
			good = false
			c.Fail("C05.udf.send", "Server.handleResponse#send:"+types.ExprString(send.Chan), send.Pos(), "a message from the UDF is sent on %s outside a select with <-s.aborting: when the consumer of Out() has gone (its edge was aborted) or is slow, the reader blocks here for good, Abort waits for it with s.mu held, and every later stop of the task — and with it the task master — hangs", types.ExprString(send.Chan))
		}
		return true
	})
	c.Floor("C05.udf.send", "channel sends in handleResponse", n, 3)
	if good {
		c.Ok("C05.udf.send", "Server.handleResponse")
	}
}

func c05TypeGuard(c *core.Ctx) {
	pkg := c.P.Pkg("tick/stateful")
	if pkg == nil {
		c.Undecided("C05.typeguard", "anchor:tick/stateful", token.NoPos, "package not loaded")
		return
	}
	info := pkg.TypesInfo
	kindOf := map[string]string{"IsFloat64Value": "TFloat", "IsInt64Value": "TInt", "IsStringValue": "TString", "IsBoolValue": "TBool", "IsDurationValue": "TDuration", "IsRegexValue": "TRegex", "IsTimeValue": "TTime", "IsMissingValue": "TMissing"}
	n, good := 0, true
	for _, f := range core.AllFuncs(pkg) {
		if f.Decl.Body == nil {
			continue
		}
		parents := parentMap(f.Decl.Body)
		ast.Inspect(f.Decl.Body, func(nd ast.Node) bool {
			cl, ok := nd.(*ast.CompositeLit)
			if !ok {
				return true
			}
			tv, ok := info.Types[cl]
			if !ok {
				return true
			}
			if named := core.NamedOf(tv.Type); named == nil || named.Obj().Name() != "ErrTypeGuardFailed" {
				return true
			}
			req, act := "", ""
			for _, el := range cl.Elts {
				if kv, ok := el.(*ast.KeyValueExpr); ok {
					switch types.ExprString(kv.Key) {
					case "RequestedType":
						req = types.ExprString(kv.Value)
					case "ActualType":
						act = types.ExprString(kv.Value)
					}
				}
			}
			if !strings.HasPrefix(req, "ast.T") || !strings.HasPrefix(act, "ast.T") {
				return true // a computed type: not decidable here
			}
			n++
			// what the enclosing Eval<Kind> method was asked for
			methodReq := ""
			if strings.HasPrefix(f.Decl.Name.Name, "Eval") {
				methodReq = map[string]string{"EvalInt": "ast.TInt", "EvalFloat": "ast.TFloat", "EvalString": "ast.TString", "EvalBool": "ast.TBool", "EvalDuration": "ast.TDuration", "EvalRegex": "ast.TRegex", "EvalTime": "ast.TTime", "EvalMissing": "ast.TMissing"}[f.Decl.Name.Name]
			}
			if methodReq != "" && req != methodReq && act != methodReq {
				c.Note("C05.typeguard: %s reports RequestedType %s (the method evaluates %s); only the message is affected", f.Name(), req, methodReq)
			}
			if (methodReq != "" && act == methodReq) || (methodReq == "" && req == act) {
				good = false
				c.Fail("C05.typeguard", f.Name()+"#"+strings.TrimPrefix(req, "ast."), cl.Pos(), "the type-guard error says the value is of type %s when %s was requested: EvalBinaryNode.eval re-specialises from ActualType, selects the same function again and recurses without end — fatal stack overflow on one data point (a field that changes from int to float under nested arithmetic)", act, req)
				return true
			}
			for p := parents[cl]; p != nil; p = parents[p] {
				ifs, ok := p.(*ast.IfStmt)
				if !ok {
					continue
				}
				inBody := ifs.Body.Pos() <= cl.Pos() && cl.End() <= ifs.Body.End()
				if sel, ok := ast.Unparen(ifs.Cond).(*ast.SelectorExpr); ok && inBody {
					if want, ok := kindOf[sel.Sel.Name]; ok && act != "ast."+want {
						good = false
						c.Fail("C05.typeguard", f.Name()+"#"+sel.Sel.Name, cl.Pos(), "under `%s` the type-guard error reports ActualType %s, the value is a %s", types.ExprString(ifs.Cond), act, want)
					}
				}
				break
			}
			return true
		})
	}
	c.Floor("C05.typeguard", "ErrTypeGuardFailed literals with constant types", n, 10)
	if good {
		c.Ok("C05.typeguard", "tick/stateful")
	}
}

// c05Reflect: a reflect.Value read from a table without the comma-ok form is the zero Value when the key is absent, and every
// method on it panics. Such a read is allowed only in a function all of whose callers first establish the key's presence in
// that same table.
func c05Reflect(c *core.Ctx) {
	c.Rule("C05.reflect", "A9: in package tick a reflect.Value taken from a map with a single-value read and then used (Interface/Set/Call/…) lives in a function whose every call site in the package is dominated by a presence test of the same key in the same map field (a comma-ok read, directly or through a helper): the zero Value panics in reflect, and tick.Evaluate re-panics what it does not know")
	pkg := c.P.Pkg("tick")
	if pkg == nil {
		c.Undecided("C05.reflect", "anchor:tick", token.NoPos, "package not loaded")
		return
	}
	info := pkg.TypesInfo
	isValueMap := func(x ast.Expr) (string, bool) {
		tv, ok := info.Types[x]
		if !ok {
			return "", false
		}
		m, ok := tv.Type.Underlying().(*types.Map)
		if !ok || !core.TypeIs(m.Elem(), "reflect", "Value") {
			return "", false
		}
		if sel, ok := ast.Unparen(x).(*ast.SelectorExpr); ok {
			return sel.Sel.Name, true
		}
		return types.ExprString(x), true
	}
	// helpers that test presence: functions with a comma-ok read of a Value map field → that field
	tests := map[*types.Func]string{}
	for _, f := range core.AllFuncs(pkg) {
		if f.Decl.Body == nil {
			continue
		}
		ast.Inspect(f.Decl.Body, func(n ast.Node) bool {
			if as, ok := n.(*ast.AssignStmt); ok && len(as.Lhs) == 2 && len(as.Rhs) == 1 {
				if ix, ok := as.Rhs[0].(*ast.IndexExpr); ok {
					if field, ok := isValueMap(ix.X); ok {
						if _, dup := tests[f.Obj]; !dup || field == "properties" {
							tests[f.Obj] = field
						}
					}
				}
			}
			return true
		})
	}
	nSites := 0
	for _, f := range core.AllFuncs(pkg) {
		if f.Decl.Body == nil {
			continue
		}
		// single-value reads whose result is used as a receiver
		var fields []string
		ast.Inspect(f.Decl.Body, func(n ast.Node) bool {
			as, ok := n.(*ast.AssignStmt)
			if !ok || len(as.Lhs) != 1 || len(as.Rhs) != 1 {
				return true
			}
			ix, ok := as.Rhs[0].(*ast.IndexExpr)
			if !ok {
				return true
			}
			field, ok := isValueMap(ix.X)
			if !ok {
				return true
			}
			id, ok := as.Lhs[0].(*ast.Ident)
			if !ok {
				return true
			}
			obj := info.Defs[id]
			if obj == nil {
				obj = info.Uses[id]
			}
			used := false
			ast.Inspect(f.Decl.Body, func(m ast.Node) bool {
				if call, ok := m.(*ast.CallExpr); ok {
					if sel, ok := call.Fun.(*ast.SelectorExpr); ok {
						if rid, ok := sel.X.(*ast.Ident); ok && info.Uses[rid] == obj {
							used = true
						}
					}
				}
				return true
			})
			if used {
				fields = append(fields, field)
			}
			return true
		})
		for _, field := range fields {
			nSites++
			// every call site of f in the package
			good, nCalls := true, 0
			for _, g := range core.AllFuncs(pkg) {
				if g.Decl.Body == nil {
					continue
				}
				ast.Inspect(g.Decl.Body, func(n ast.Node) bool {
					call, ok := n.(*ast.CallExpr)
					if !ok {
						return true
					}
					callee := core.Callee(info, call)
					if callee == nil || callee.Name() != f.Obj.Name() {
						return true
					}
					// the concrete method or the interface method it implements
					if callee != f.Obj {
						if sig, ok := callee.Type().(*types.Signature); !ok || sig.Recv() == nil {
							return true
						} else if _, isIface := sig.Recv().Type().Underlying().(*types.Interface); !isIface {
							return true
						}
					}
					nCalls++
					tested := false
					ast.Inspect(g.Decl.Body, func(m ast.Node) bool {
						if pc, ok := m.(*ast.CallExpr); ok && pc.Pos() < call.Pos() {
							if h := core.Callee(info, pc); h != nil && tests[h] == field {
								tested = true
							}
						}
						return true
					})
					if !tested {
						good = false
						c.Fail("C05.reflect", f.Name()+"@"+g.Name(), call.Pos(), "%s reads %s[…] without a presence test and uses the reflect.Value; this call site does not establish beforehand that the key is in %s (HasProperty also answers for property methods, which are in another table): a script that names a property method without calling it (`stream|from().groupBy`) makes reflect panic, and the panic escapes tick.Evaluate", f.Name(), field, field)
					}
					return true
				})
			}
			if good && nCalls > 0 {
				c.Ok("C05.reflect", f.Name()+"#"+field)
			} else if nCalls == 0 {
				c.Note("C05.reflect: %s has no call site inside package tick", f.Name())
			}
		}
	}
	c.Floor("C05.reflect", "unchecked reflect.Value table reads that are used", nSites, 1)
}

func c05AgentIO(c *core.Ctx, pkg *packages.Package) {
	info := pkg.TypesInfo
	fn := c.Need("C05.udf.alloc", "udf/agent", "", "ReadMessage")
	if fn == nil {
		return
	}
	eng := &an.Engine{Prog: c.P,
		TrackCall: func(call *ast.CallExpr, callee *types.Func) string {
			if core.IsBuiltin(info, call, "make") {
				return "make"
			}
			return ""
		}}
	paths, err := eng.Run(fn)
	if err != nil {
		c.Undecided("C05.udf.alloc", "agent.ReadMessage", fn.Decl.Pos(), "%v", err)
		return
	}
	bad := ""
	var pos token.Pos
	n := 0
	for _, p := range paths {
		for _, e := range p.Events {
			if e.Name != "make" {
				continue
			}
			for _, a := range e.Args[1:] {
				if !strings.Contains(a, "ReadUvarint(") {
					continue
				}
				n++
				a = stripConv(a)
				upper := false
				for _, l := range p.Lits {
					parts := strings.SplitN(l.Key, " < ", 2)
					if len(parts) != 2 {
						continue
					}
					l0, l1 := stripConv(parts[0]), stripConv(parts[1])
					// an upper bound is a comparison with something that is not the buffer's own capacity
					if l1 == a && !strings.HasPrefix(l0, "cap(") && !l.Val {
						upper = true
					}
					if l0 == a && !strings.HasPrefix(l1, "cap(") && l.Val {
						upper = true
					}
				}
				if !upper {
					bad = "the frame length read from the peer sizes make([]byte, size) with no upper bound: a corrupt or hostile length prefix (up to 2^64-1) panics in makeslice or exhausts memory in the reader goroutine"
					pos = e.Pos
				}
			}
		}
	}
	c.Floor("C05.udf.alloc", "frame-length allocations on paths", n, 1)
	c.Check(bad == "", "C05.udf.alloc", "agent.ReadMessage#size", pos, "%s", bad)
}

// c05ArgLiteralsBehindArityTest: every ErrWrongFuncSignature literal that sets ArgLiterals is
// preceded, in its function, by an if that compares the argument count with the Domain length and returns.
func c05ArgLiteralsBehindArityTest(c *core.Ctx, pkg *packages.Package) (bool, string) {
	info := pkg.TypesInfo
	n := 0
	for _, f := range core.AllFuncs(pkg) {
		var lits []*ast.CompositeLit
		ast.Inspect(f.Decl.Body, func(nd ast.Node) bool {
			if cl, ok := nd.(*ast.CompositeLit); ok && an.TypeNamed(info, cl, "stateful", "ErrWrongFuncSignature") {
				if _, has := an.FlattenLit(cl)["ArgLiterals"]; has {
					lits = append(lits, cl)
				}
			}
			return true
		})
		for _, cl := range lits {
			n++
			guard := false
			ast.Inspect(f.Decl.Body, func(nd ast.Node) bool {
				ifs, ok := nd.(*ast.IfStmt)
				if !ok || ifs.Pos() > cl.Pos() {
					return true
				}
				txt := types.ExprString(ifs.Cond)
				if as, ok := ifs.Init.(*ast.AssignStmt); ok {
					for _, r := range as.Rhs {
						txt += " " + types.ExprString(r)
					}
				}
				leaves := false
				for _, st := range ifs.Body.List {
					if _, ok := st.(*ast.ReturnStmt); ok {
						leaves = true
					}
				}
				// by role, not by name: the length of the receiver's argument list against the length of a Domain value (or maxArgs)
				argsLen, domLen := false, strings.Contains(txt, "maxArgs")
				scan := func(x ast.Node) {
					ast.Inspect(x, func(m ast.Node) bool {
						if call, ok := m.(*ast.CallExpr); ok && core.IsBuiltin(info, call, "len") && len(call.Args) == 1 {
							if sel, ok := ast.Unparen(call.Args[0]).(*ast.SelectorExpr); ok && sel.Sel.Name == "argsEvaluators" {
								argsLen = true
							}
							if tv, ok := info.Types[call.Args[0]]; ok {
								if named := core.NamedOf(tv.Type); named != nil && named.Obj().Name() == "Domain" {
									domLen = true
								}
							}
						}
						return true
					})
				}
				scan(ifs.Cond)
				if ifs.Init != nil {
					scan(ifs.Init)
				}
				if argsLen && domLen && leaves {
					guard = true
				}
				return true
			})
			if !guard {
				return false, "the literal at " + c.P.Pos(cl.Pos()) + " is not behind such a test"
			}
		}
	}
	if n == 0 {
		return false, "no such literal found (the invariant's producer moved)"
	}
	return true, ""
}

// c05Retry: F41. A method that calls itself on the same receiver with the same inputs ("fix the cached types and try again")
// does not get smaller by itself: it terminates only if the retry is counted. On every path that reaches the self-call, an int
// parameter was compared against a bound (and the path is the one where the bound is not reached), and the self-call passes that
// parameter plus a positive constant. Recursion into children (another receiver expression) is structural and not looked at.
func c05Retry(c *core.Ctx, pkg *packages.Package) {
	info := pkg.TypesInfo
	n := 0
	// same-receiver call edges
	type edge struct {
		from *core.Func
		to   *types.Func
		call *ast.CallExpr
	}
	var edges []edge
	byObj := map[*types.Func]*core.Func{}
	for _, f := range core.AllFuncs(pkg) {
		if o, ok := info.Defs[f.Decl.Name].(*types.Func); ok {
			byObj[o] = f
		}
	}
	for _, f := range core.AllFuncs(pkg) {
		if f.Decl.Recv == nil || len(f.Decl.Recv.List) != 1 || len(f.Decl.Recv.List[0].Names) != 1 {
			continue
		}
		recv := info.Defs[f.Decl.Recv.List[0].Names[0]]
		ast.Inspect(f.Decl.Body, func(nd ast.Node) bool {
			call, ok := nd.(*ast.CallExpr)
			if !ok {
				return true
			}
			sel, ok := call.Fun.(*ast.SelectorExpr)
			if !ok {
				return true
			}
			id, ok := ast.Unparen(sel.X).(*ast.Ident)
			if !ok || info.Uses[id] != recv {
				return true
			}
			if s, ok := info.Selections[sel]; ok && s.Kind() == types.MethodVal {
				if m, ok := s.Obj().(*types.Func); ok && byObj[m] != nil {
					edges = append(edges, edge{f, m, call})
				}
			}
			return true
		})
	}
	// methods on a same-receiver cycle
	succ := map[*types.Func][]*types.Func{}
	for _, e := range edges {
		from := info.Defs[e.from.Decl.Name].(*types.Func)
		succ[from] = append(succ[from], e.to)
	}
	reaches := func(a, b *types.Func) bool {
		seen := map[*types.Func]bool{}
		var walk func(x *types.Func) bool
		walk = func(x *types.Func) bool {
			for _, y := range succ[x] {
				if y == b {
					return true
				}
				if !seen[y] {
					seen[y] = true
					if walk(y) {
						return true
					}
				}
			}
			return false
		}
		return walk(a)
	}
	for _, e := range edges {
		from := info.Defs[e.from.Decl.Name].(*types.Func)
		if !(e.to == from || reaches(e.to, from)) {
			continue
		}
		n++
		cons := core.RecvName(e.from.Decl) + "." + e.from.Decl.Name.Name + "→" + e.to.Name()
		if e.to != from {
			// a cycle through several methods: one of its self-describing members must carry the count; decided at that member
			// when it is itself a self-caller, otherwise not decided
			c.Undecided("C05.retry", cons, e.call.Pos(), "same-receiver recursion through several methods: the rule only knows the counted self-call form")
			continue
		}
		// counted self-call
		fn := e.from
		var intParams []string
		idx := map[string]int{}
		k := 0
		for _, fl := range fn.Decl.Type.Params.List {
			for _, nm := range fl.Names {
				if b, ok := info.Defs[nm].Type().Underlying().(*types.Basic); ok && b.Info()&types.IsInteger != 0 {
					intParams = append(intParams, nm.Name)
					idx[nm.Name] = k
				}
				k++
			}
		}
		eng := &an.Engine{Prog: c.P,
			TrackCall: func(call *ast.CallExpr, callee *types.Func) string {
				if call == e.call {
					return "retry"
				}
				return ""
			},
			Classify: func(a an.Atom) (string, bool) {
				for _, p := range intParams {
					switch {
					case (a.Op == token.GEQ || a.Op == token.GTR) && a.L == p:
						return "exhausted:" + p, false
					case (a.Op == token.LSS || a.Op == token.LEQ) && a.L == p:
						return "exhausted:" + p, true
					}
				}
				return "", false
			}}
		paths, err := eng.Run(fn)
		if err != nil {
			c.Undecided("C05.retry", cons, fn.Decl.Pos(), "%v", err)
			continue
		}
		good := len(intParams) > 0
		why := "the method has no integer parameter that could count the retries"
		if good {
			for _, p := range paths {
				ev := p.Find("retry")
				if ev == nil {
					continue
				}
				counted := false
				for _, q := range intParams {
					v, decided := p.Assign()["exhausted:"+q]
					if !decided || v {
						continue
					}
					if i := idx[q]; i < len(ev.Args) && regexp.MustCompile(`^\(?`+regexp.QuoteMeta(q)+` \+ [1-9][0-9]*\)?$`).MatchString(ev.Args[i]) {
						counted = true
					}
				}
				if !counted {
					good = false
					why = "on path [" + p.Cond() + "] the self-call is reached without a test of a retry counter against a bound, or does not pass counter+1 (passes " + strings.Join(ev.Args, ", ") + ")"
					break
				}
			}
		}
		c.Check(good, "C05.retry", cons, e.call.Pos(), "%s calls itself on the same receiver with the same scope and no bounded retry count: %s. Termination then rests on every operand's Eval* and Type agreeing; where they do not (a unary minus over a string reference reports string, its EvalString always fails the guard) one data point sends the evaluation into unbounded recursion — fatal error: stack overflow, which no recover catches: the daemon dies", cons, why)
	}
	c.Floor("C05.retry", "same-receiver recursive calls in tick/stateful", n, 1)
}

// c05LexState: typestate of parser.lex. stopParse (any parser method that stores nil into the lex field) ends the lexer's life;
// after it, on no path of any parser method is a method called that (itself or through same-receiver calls) dereferences the
// field, until the field is assigned again. A use after the stop is a nil dereference: a runtime error, which parser.recover
// re-panics on purpose — ParseLambda/Parse panic out of their callers instead of returning a parse error.
func c05LexState(c *core.Ctx, pkg *packages.Package) {
	info := pkg.TypesInfo
	isLex := func(e ast.Expr) bool { return an.FieldSel(info, e, "parser", "lex") }
	var methods []*core.Func
	byObj := map[*types.Func]*core.Func{}
	for _, f := range core.AllFuncs(pkg) {
		if core.RecvName(f.Decl) == "parser" {
			methods = append(methods, f)
			if o, ok := info.Defs[f.Decl.Name].(*types.Func); ok {
				byObj[o] = f
			}
		}
	}
	if len(methods) == 0 {
		c.Undecided("C05.lexstate", "anchor:parser", token.NoPos, "no parser methods found")
		return
	}
	// killers store nil into the field; users dereference it (x.lex.<sel>) outside a nil test of their own
	killers, users := map[*types.Func]bool{}, map[*types.Func]bool{}
	calls := map[*types.Func][]*types.Func{}
	for _, f := range methods {
		o := info.Defs[f.Decl.Name].(*types.Func)
		ast.Inspect(f.Decl.Body, func(nd ast.Node) bool {
			switch x := nd.(type) {
			case *ast.AssignStmt:
				for i, l := range x.Lhs {
					if isLex(l) && i < len(x.Rhs) && an.IsNil(info, x.Rhs[i]) {
						killers[o] = true
					}
				}
			case *ast.IfStmt:
				// if p.lex != nil { … } guards its own uses
				if be, ok := x.Cond.(*ast.BinaryExpr); ok && be.Op == token.NEQ && isLex(be.X) && an.IsNil(info, be.Y) {
					if x.Else != nil {
						ast.Inspect(x.Else, func(ast.Node) bool { return true })
					}
					return false
				}
			case *ast.SelectorExpr:
				if isLex(x.X) {
					users[o] = true
				}
			case *ast.CallExpr:
				if m := core.Callee(info, x); m != nil && byObj[m] != nil {
					calls[o] = append(calls[o], m)
				}
			}
			return true
		})
	}
	for changed := true; changed; {
		changed = false
		for o, cs := range calls {
			if users[o] || killers[o] {
				continue
			}
			for _, m := range cs {
				if users[m] && !users[o] {
					users[o] = true
					changed = true
				}
			}
		}
	}
	c.Floor("C05.lexstate", "parser methods that end the lexer (store nil)", len(killers), 1)
	c.Floor("C05.lexstate", "parser methods that use the lexer", len(users), 10)
	n := 0
	for _, f := range methods {
		o := info.Defs[f.Decl.Name].(*types.Func)
		hasKill := false
		for _, m := range calls[o] {
			if killers[m] {
				hasKill = true
			}
		}
		if !hasKill || killers[o] {
			continue
		}
		n++
		cons := "parser." + f.Decl.Name.Name
		g := cfg.New(f.Decl.Body, func(*ast.CallExpr) bool { return true })
		type ev struct {
			kind string // "kill", "revive", "use"
			what string
			pos  token.Pos
		}
		events := func(nd ast.Node) []ev {
			var out []ev
			if _, ok := nd.(*ast.DeferStmt); ok {
				return nil
			}
			ast.Inspect(nd, func(x ast.Node) bool {
				switch y := x.(type) {
				case *ast.FuncLit:
					return false
				case *ast.AssignStmt:
					for i, l := range y.Lhs {
						if isLex(l) && i < len(y.Rhs) && !an.IsNil(info, y.Rhs[i]) {
							out = append(out, ev{"revive", "", y.End()})
						}
					}
				case *ast.CallExpr:
					if m := core.Callee(info, y); m != nil && byObj[m] != nil {
						if killers[m] {
							out = append(out, ev{"kill", m.Name(), y.End()})
						} else if users[m] {
							out = append(out, ev{"use", m.Name(), y.Pos()})
						}
					}
				case *ast.SelectorExpr:
					if isLex(y.X) {
						out = append(out, ev{"use", "the lex field", y.Pos()})
					}
				}
				return true
			})
			sort.SliceStable(out, func(i, j int) bool { return out[i].pos < out[j].pos })
			return out
		}
		in := map[*cfg.Block]int{}
		for _, b := range g.Blocks {
			in[b] = -1
		}
		if len(g.Blocks) == 0 {
			continue
		}
		in[g.Blocks[0]] = 0
		bad := ""
		var badPos token.Pos
		apply := func(b *cfg.Block, st int, report bool) int {
			for _, nd := range b.Nodes {
				for _, e := range events(nd) {
					switch e.kind {
					case "kill":
						st = 1
					case "revive":
						st = 0
					case "use":
						if report && st == 1 && bad == "" {
							bad, badPos = e.what, e.pos
						}
					}
				}
			}
			return st
		}
		work := []*cfg.Block{g.Blocks[0]}
		for steps := 0; len(work) > 0 && steps < 10000; steps++ {
			b := work[0]
			work = work[1:]
			out := apply(b, in[b], false)
			for _, s := range b.Succs {
				nv := out
				if in[s] > nv {
					nv = in[s]
				}
				if in[s] != nv {
					in[s] = nv
					work = append(work, s)
				}
			}
		}
		for _, b := range g.Blocks {
			if in[b] >= 0 {
				apply(b, in[b], true)
			}
		}
		c.Check(bad == "", "C05.lexstate", cons, badPos, "%s is used after the lexer was stopped (its field is nil from then on): the nil dereference is a runtime error, which parser.recover re-panics — the entry point panics out of its callers (lambda vars of a template document, an alert handler's match expression) instead of returning a parse error", bad)
	}
	c.Floor("C05.lexstate", "parser methods that stop the lexer themselves", n, 2)
}

// c05SelfWait: a goroutine that is counted in a WaitGroup (it calls X.Done()) must not, before that Done, call anything that waits
// on the same group: it would wait for itself, holding whatever the waiter holds (udf.Server.abort → stop waits on ioGroup under
// s.mu: every later Stop/Abort/Snapshot blocks for good). Must-done dataflow over go/cfg; deferred calls run at exit, last first.
func c05SelfWait(c *core.Ctx, pkg *packages.Package) {
	info := pkg.TypesInfo
	wgField := func(call *ast.CallExpr, method string) *types.Var {
		sel, ok := call.Fun.(*ast.SelectorExpr)
		if !ok || sel.Sel.Name != method {
			return nil
		}
		fs, ok := ast.Unparen(sel.X).(*ast.SelectorExpr)
		if !ok {
			return nil
		}
		s, ok := info.Selections[fs]
		if !ok || s.Kind() != types.FieldVal {
			return nil
		}
		if n := core.NamedOf(s.Type()); n == nil || n.Obj().Pkg() == nil || n.Obj().Pkg().Path() != "sync" || n.Obj().Name() != "WaitGroup" {
			return nil
		}
		v, _ := s.Obj().(*types.Var)
		return v
	}
	// waiters[X]: functions of the package that reach X.Wait() through static same-package calls
	byObj := map[*types.Func]*core.Func{}
	for _, f := range core.AllFuncs(pkg) {
		if o, ok := info.Defs[f.Decl.Name].(*types.Func); ok {
			byObj[o] = f
		}
	}
	waiters := map[*types.Var]map[*types.Func]bool{}
	calls := map[*types.Func][]*types.Func{}
	for o, f := range byObj {
		ast.Inspect(f.Decl.Body, func(nd ast.Node) bool {
			switch x := nd.(type) {
			case *ast.FuncLit:
				return false // runs elsewhere (go) or later; not this function waiting
			case *ast.CallExpr:
				if v := wgField(x, "Wait"); v != nil {
					if waiters[v] == nil {
						waiters[v] = map[*types.Func]bool{}
					}
					waiters[v][o] = true
				}
				if m := core.Callee(info, x); m != nil && byObj[m] != nil {
					calls[o] = append(calls[o], m)
				}
			}
			return true
		})
	}
	for _, set := range waiters {
		for changed := true; changed; {
			changed = false
			for o, cs := range calls {
				if set[o] {
					continue
				}
				for _, m := range cs {
					if set[m] {
						set[o] = true
						changed = true
						break
					}
				}
			}
		}
	}
	n := 0
	for _, f := range core.AllFuncs(pkg) {
		k := 0
		ast.Inspect(f.Decl.Body, func(nd ast.Node) bool {
			gs, ok := nd.(*ast.GoStmt)
			if !ok {
				return true
			}
			fl, ok := gs.Call.Fun.(*ast.FuncLit)
			if !ok {
				return true
			}
			k++
			// which group does this goroutine count in?
			var group *types.Var
			doneDeferred := false
			ast.Inspect(fl.Body, func(x ast.Node) bool {
				switch y := x.(type) {
				case *ast.DeferStmt:
					if v := wgField(y.Call, "Done"); v != nil {
						group, doneDeferred = v, true
					}
				case *ast.CallExpr:
					if v := wgField(y, "Done"); v != nil && group == nil {
						group = v
					}
				}
				return true
			})
			if group == nil || len(waiters[group]) == 0 {
				return true
			}
			n++
			cons := fmt.Sprintf("%s#go%d", f.Name(), k)
			isWaiter := func(call *ast.CallExpr) string {
				if wgField(call, "Wait") == group {
					return group.Name() + ".Wait"
				}
				if m := core.Callee(info, call); m != nil && waiters[group][m] {
					return m.Name()
				}
				return ""
			}
			bad := ""
			var badPos token.Pos
			g := cfg.New(fl.Body, func(*ast.CallExpr) bool { return true })
			in := map[*cfg.Block]int{}
			for _, b := range g.Blocks {
				in[b] = -1
			}
			var defers []*ast.DeferStmt
			apply := func(b *cfg.Block, st int, report bool) int {
				for _, nd := range b.Nodes {
					if d, ok := nd.(*ast.DeferStmt); ok {
						if report {
							defers = append(defers, d)
						}
						continue
					}
					ast.Inspect(nd, func(x ast.Node) bool {
						switch y := x.(type) {
						case *ast.FuncLit:
							return false
						case *ast.CallExpr:
							if wgField(y, "Done") == group {
								st = 1
							} else if w := isWaiter(y); w != "" && st == 0 && report && bad == "" {
								bad, badPos = w+" is called before "+group.Name()+".Done()", y.Pos()
							}
						}
						return true
					})
				}
				return st
			}
			if len(g.Blocks) == 0 {
				return true
			}
			in[g.Blocks[0]] = 0
			work := []*cfg.Block{g.Blocks[0]}
			for steps := 0; len(work) > 0 && steps < 10000; steps++ {
				b := work[0]
				work = work[1:]
				out := apply(b, in[b], false)
				for _, s := range b.Succs {
					nv := out
					if in[s] != -1 && in[s] < nv {
						nv = in[s] // done on one edge only: not done for sure
					}
					if in[s] != nv {
						in[s] = nv
						work = append(work, s)
					}
				}
			}
			exitDone := 1
			for _, b := range g.Blocks {
				if in[b] < 0 {
					continue
				}
				out := apply(b, in[b], true)
				if len(b.Succs) == 0 && out == 0 {
					exitDone = 0
				}
			}
			// deferred calls run at exit, last registered first
			sort.Slice(defers, func(i, j int) bool { return defers[i].Pos() > defers[j].Pos() })
			st := exitDone
			if doneDeferred {
				st = 0
			}
			for _, d := range defers {
				if wgField(d.Call, "Done") == group {
					st = 1
					continue
				}
				if w := isWaiter(d.Call); w != "" && st == 0 && bad == "" {
					bad, badPos = "the deferred "+w+" runs before "+group.Name()+".Done() on some path", d.Pos()
				}
			}
			c.Check(bad == "", "C05.udf.selfwait", cons, badPos, "%s in a goroutine that %s itself counts: it waits for itself (holding the server's mutex), so after a peer error every later Stop, Abort, Snapshot and the task's stop block for good", bad, group.Name())
			return true
		})
	}
	c.Floor("C05.udf.selfwait", "goroutines counted in a WaitGroup that some function of the package waits on", n, 2)
}
