package props

import (
	"go/ast"
	"go/constant"
	"go/token"
	"go/types"
	"sort"
	"strconv"
	"strings"

	"golang.org/x/tools/go/packages"

	"kapcheck/an"
	"kapcheck/core"
)

func c05ProbeRules(c *core.Ctx) {
	c05Rules4(c)
	c05SizeHint(c)
	c05Rules5(c)
	c05ParallelIndex(c)
	c05ScalarField(c)
	c05NilZero(c)
	c05PropRead(c)
	if root := c.P.Pkg(""); root != nil {
		c05GoDecode(c, root)
		c05AlertID(c, root)
		c05Cron(c, root, "C05.cronprobe", "C05.cronend")
	}
	c.Rule("C05.alerttmpl", "A1: F107: AlertNode.event does not return the error of the message/details templates (their execution depends on the fields of the point): on the paths where rendering failed it counts the error and returns an event with a nil error")
	c.Rule("C05.iqlargs", "A11 (sibling agreement between the pipeline and the runtime): every integer or duration parameter that a pipeline method hands to an InfluxQL reducer constructor (they index, allocate and divide by it unchecked) is checked in validateInfluxQLArgs, which newInfluxQLNode calls before anything else")
	c.Rule("C05.nest", "A12 (call-graph cycles): every recursion cycle among the methods of the TICKscript parser passes through a method that enters the bounded nesting counter (defer p.nest()()), or is an exception with a proved bound; the counter compares against a constant and ends the parse")
	c.Rule("C05.assert", "A4: F110: the JSON decoders of the API client types use no single-value type assertion (a document with another JSON type panics in the request handler)")
	c.Rule("C05.numbase", "A4 (bounds by go/cfg guard dataflow): F111: every value stored into NumberNode.Base is a constant in 2..36 or a variable tested to be >= 2 and <= 36 on every path to the store; strconv.FormatInt panics outside that range")
	if root := c.P.Pkg(""); root != nil {
		c05AlertTmpl(c, root)
		c05GroupByTime(c, root)
		if pp := c.P.Pkg("pipeline"); pp != nil {
			c05IQLArgs(c, root, pp)
		} else {
			c.Undecided("C05.iqlargs", "anchor:pipeline", token.NoPos, "package not loaded")
		}
	}
	if ap := c.P.Pkg("tick/ast"); ap != nil {
		c05Nest(c, ap)
		c05NumBase(c, ap)
	} else {
		c.Undecided("C05.nest", "anchor:tick/ast", token.NoPos, "package not loaded")
	}
	if cp := c.P.Pkg("client/v1"); cp != nil {
		c05Assert(c, cp)
	} else {
		c.Undecided("C05.assert", "anchor:client/v1", token.NoPos, "package not loaded")
	}
}

func c05AlertTmpl(c *core.Ctx, root *packages.Package) {
	info := root.TypesInfo
	fn := c.Need("C05.alerttmpl", "", "AlertNode", "event")
	if fn == nil {
		return
	}
	eng := &an.Engine{Prog: c.P,
		TrackCall: func(call *ast.CallExpr, callee *types.Func) string {
			if callee != nil && (callee.Name() == "incrementErrorCount" || callee.Name() == "renderMessageAndDetails") {
				return callee.Name()
			}
			return ""
		},
		Classify: func(a an.Atom) (string, bool) {
			if k, ok := an.ErrNilAtom(info, a); ok && strings.Contains(k, ".renderMessageAndDetails(") {
				return "rerr", true
			}
			return "", false
		}}
	paths, err := eng.Run(fn)
	if err != nil {
		c.Undecided("C05.alerttmpl", "AlertNode.event", fn.Decl.Pos(), "%v", err)
		return
	}
	good, seen := true, false
	for _, p := range paths {
		if !p.Has("renderMessageAndDetails") || p.Exit == "panic" {
			continue
		}
		seen = true
		v, decided := p.Assign()["rerr"]
		errRet := len(p.Rets) == 2 && p.Rets[1] != "nil"
		switch {
		case errRet && (!decided || v):
			good = false
			c.Fail("C05.alerttmpl", "AlertNode.event#template-error", p.RetPos, "AlertNode.event returns an error on a path where rendering the message failed (path condition: %s): a message/details template such as {{ if gt (index .Fields \"a\") 10.0 }} fails to execute when the field of one point is missing or has another type, alertState.Point/BufferedBatch return the error as the error of the point and the task ends", p.Cond())
		case decided && v && !p.Has("incrementErrorCount"):
			good = false
			c.Fail("C05.alerttmpl", "AlertNode.event#template-error-counted", p.RetPos, "AlertNode.event swallows the template error without counting it (incrementErrorCount)")
		}
		if !good {
			break
		}
	}
	if !seen {
		c.Undecided("C05.alerttmpl", "AlertNode.event", fn.Decl.Pos(), "no path renders the message")
	} else if good {
		c.Ok("C05.alerttmpl", "AlertNode.event#template-error")
	}
}

// c05IQLArgs: the parameters that flow into the reducers, against the checks of validateInfluxQLArgs.
func c05IQLArgs(c *core.Ctx, root, pp *packages.Package) {
	pinfo := pp.TypesInfo
	type need struct {
		method string // the method name given to newInfluxQLNode
		idx    int    // position in InfluxQLNode.Args
		param  string
		pos    token.Pos
		fn     string
	}
	var needs []need
	isQuery := func(f *types.Func) bool {
		return f != nil && f.Pkg() != nil && strings.HasSuffix(f.Pkg().Path(), "influxdb/query")
	}
	for _, f := range core.AllFuncs(pp) {
		if core.RecvName(f.Decl) != "chainnode" {
			continue
		}
		// numeric parameters
		params := map[types.Object]string{}
		if f.Decl.Type.Params != nil {
			for _, fl := range f.Decl.Type.Params.List {
				for _, nm := range fl.Names {
					o := pinfo.Defs[nm]
					if o == nil {
						continue
					}
					if b, ok := o.Type().Underlying().(*types.Basic); ok && b.Info()&types.IsInteger != 0 {
						params[o] = nm.Name
					}
				}
			}
		}
		if len(params) == 0 {
			continue
		}
		// method name literal of the newInfluxQLNode call; Args literal
		method := ""
		var args []ast.Expr
		flows := map[types.Object]token.Pos{}
		ast.Inspect(f.Decl.Body, func(n ast.Node) bool {
			switch x := n.(type) {
			case *ast.CallExpr:
				cal := core.Callee(pinfo, x)
				if cal != nil && cal.Name() == "newInfluxQLNode" && len(x.Args) > 0 {
					if tv, ok := pinfo.Types[x.Args[0]]; ok && tv.Value != nil && tv.Value.Kind() == constant.String {
						method = constant.StringVal(tv.Value)
					}
				}
				if isQuery(cal) {
					for _, a := range x.Args {
						ast.Inspect(a, func(m ast.Node) bool {
							if id, ok := m.(*ast.Ident); ok {
								if o := pinfo.Uses[id]; o != nil && params[o] != "" {
									if _, seen := flows[o]; !seen {
										flows[o] = x.Pos()
									}
								}
							}
							return true
						})
					}
				}
			case *ast.AssignStmt:
				if len(x.Lhs) == 1 && len(x.Rhs) == 1 && an.FieldSel(pinfo, x.Lhs[0], "InfluxQLNode", "Args") {
					if cl, ok := x.Rhs[0].(*ast.CompositeLit); ok {
						args = cl.Elts
					}
				}
			}
			return true
		})
		if len(flows) == 0 {
			continue
		}
		name := "chainnode." + f.Decl.Name.Name
		c.Analysed(f)
		// a helper (holtWinters) is called by exported wrappers with its own parameters; the method name is in the helper
		if method == "" {
			c.Undecided("C05.iqlargs", name, f.Decl.Pos(), "hands a numeric parameter to an InfluxQL reducer but the method name given to newInfluxQLNode is not a constant")
			continue
		}
		for o, pos := range flows {
			idx := -1
			for i, a := range args {
				if id, ok := ast.Unparen(a).(*ast.Ident); ok && pinfo.Uses[id] == o {
					idx = i
				}
			}
			if idx < 0 {
				c.Fail("C05.iqlargs", name+"#"+params[o]+"-in-args", pos, "%s hands its parameter %s to an InfluxQL reducer but does not record it in InfluxQLNode.Args: the runtime cannot check it", name, params[o])
				continue
			}
			needs = append(needs, need{method, idx, params[o], pos, name})
		}
	}
	sort.Slice(needs, func(i, j int) bool {
		if needs[i].method != needs[j].method {
			return needs[i].method < needs[j].method
		}
		return needs[i].idx < needs[j].idx
	})
	c.Floor("C05.iqlargs", "numeric parameters handed to InfluxQL reducers", len(needs), 7)
	// the runtime side
	info := root.TypesInfo
	val := c.P.FindFunc("", "", "validateInfluxQLArgs")
	ctor := c.Need("C05.iqlargs", "", "", "newInfluxQLNode")
	if ctor == nil {
		return
	}
	if val == nil {
		// no validation at all: every parameter is unchecked
		for _, nd := range needs {
			c.Fail("C05.iqlargs", nd.method+"#arg"+strconv.Itoa(nd.idx), nd.pos, "%s hands its parameter %s (InfluxQLNode.Args[%d] of method %q) to an InfluxQL reducer constructor and the runtime has no validateInfluxQLArgs: the reducers index an empty buffer, allocate a negative size or divide by zero with it — %s(…, 0) is accepted and the task dies on its first point", nd.fn, nd.param, nd.idx, nd.method, nd.method)
		}
		return
	}
	// newInfluxQLNode: the first statement returns the validation's error
	first := an.Effective(ctor.Decl.Body.List)
	called := false
	if len(first) > 0 {
		if is, ok := first[0].(*ast.IfStmt); ok && is.Init != nil {
			ast.Inspect(is.Init, func(n ast.Node) bool {
				if call, ok := n.(*ast.CallExpr); ok {
					if cal := core.Callee(info, call); cal != nil && cal.Name() == "validateInfluxQLArgs" {
						called = true
					}
				}
				return true
			})
			if called {
				ret := false
				for _, st := range is.Body.List {
					if r, ok := st.(*ast.ReturnStmt); ok && len(r.Results) == 2 && types.ExprString(r.Results[1]) != "nil" {
						ret = true
					}
				}
				called = ret
			}
		}
	}
	c.Check(called, "C05.iqlargs", "newInfluxQLNode#validates-first", ctor.Decl.Pos(), "newInfluxQLNode must start with `if err := validateInfluxQLArgs(n); err != nil { return nil, err }`: a node built from unchecked arguments dies on its first point")
	// per case clause: the Args indices it checks
	checked := map[string]map[int]bool{}
	ast.Inspect(val.Decl.Body, func(n ast.Node) bool {
		sw, ok := n.(*ast.SwitchStmt)
		if !ok || sw.Tag == nil || !an.FieldSel(info, sw.Tag, "InfluxQLNode", "Method") {
			return true
		}
		for _, st := range sw.Body.List {
			cc := st.(*ast.CaseClause)
			idxs := map[int]bool{}
			for _, b := range cc.Body {
				ast.Inspect(b, func(m ast.Node) bool {
					switch x := m.(type) {
					case *ast.CallExpr:
						// a call of a local checking closure with the index as first argument
						if id, ok := x.Fun.(*ast.Ident); ok && len(x.Args) >= 1 {
							if _, isVar := info.Uses[id].(*types.Var); isVar {
								if tv, ok := info.Types[x.Args[0]]; ok && tv.Value != nil {
									if v, exact := constant.Int64Val(constant.ToInt(tv.Value)); exact {
										idxs[int(v)] = true
									}
								}
							}
						}
					case *ast.IndexExpr:
						if an.FieldSel(info, x.X, "InfluxQLNode", "Args") {
							if tv, ok := info.Types[x.Index]; ok && tv.Value != nil {
								if v, exact := constant.Int64Val(constant.ToInt(tv.Value)); exact {
									idxs[int(v)] = true
								}
							}
						}
					case *ast.RangeStmt:
						// for i := range <literal of length L> { … n.Args[i] … }
						if cl, ok := ast.Unparen(x.X).(*ast.CompositeLit); ok && x.Key != nil {
							key := info.Defs[x.Key.(*ast.Ident)]
							uses := false
							ast.Inspect(x.Body, func(k ast.Node) bool {
								if ix, ok := k.(*ast.IndexExpr); ok && an.FieldSel(info, ix.X, "InfluxQLNode", "Args") {
									if id, ok := ast.Unparen(ix.Index).(*ast.Ident); ok && info.Uses[id] == key {
										uses = true
									}
								}
								return true
							})
							if uses {
								for i := range cl.Elts {
									idxs[i] = true
								}
							}
						}
					}
					return true
				})
			}
			for _, e := range cc.List {
				if tv, ok := info.Types[e]; ok && tv.Value != nil && tv.Value.Kind() == constant.String {
					m := constant.StringVal(tv.Value)
					if checked[m] == nil {
						checked[m] = map[int]bool{}
					}
					for i := range idxs {
						checked[m][i] = true
					}
				}
			}
		}
		return true
	})
	for _, nd := range needs {
		c.Check(checked[nd.method][nd.idx], "C05.iqlargs", nd.method+"#arg"+strconv.Itoa(nd.idx), nd.pos, "%s hands its parameter %s (InfluxQLNode.Args[%d] of method %q) to an InfluxQL reducer constructor, and validateInfluxQLArgs does not check it: the reducers index an empty buffer, allocate a negative size or divide by zero with it — %s(…, 0) is accepted and the task dies on its first point", nd.fn, nd.param, nd.idx, nd.method, nd.method)
	}
}

// recursion cycles of the parser with a proved bound
var c05NestExempt = map[string]string{
	"precedence→precedence": "recurses only with a strictly higher precedence (the inner loop's condition): at most one frame per precedence level, 6",
	"chain→chain":           "one tail call per chain link, no nesting: the depth is the number of links of one statement and each frame is a few words; bounded by the request size, not by a pattern that costs nothing to write",
}

func c05Nest(c *core.Ctx, ap *packages.Package) {
	info := ap.TypesInfo
	methods := map[*types.Func]*core.Func{}
	for _, f := range core.AllFuncs(ap) {
		if core.RecvName(f.Decl) == "parser" {
			if o, ok := info.Defs[f.Decl.Name].(*types.Func); ok {
				methods[o] = f
			}
		}
	}
	// guarded: `defer p.nest()()` among the top-level statements
	guarded := map[*types.Func]bool{}
	var nest *core.Func
	for o, f := range methods {
		if f.Decl.Name.Name == "nest" {
			nest = f
		}
		for _, st := range f.Decl.Body.List {
			d, ok := st.(*ast.DeferStmt)
			if !ok {
				continue
			}
			if inner, ok := d.Call.Fun.(*ast.CallExpr); ok {
				if cal := core.Callee(info, inner); cal != nil && cal.Name() == "nest" && core.RecvTypeName(cal) == "parser" {
					guarded[o] = true
				}
			}
		}
	}
	if nest == nil {
		c.Fail("C05.nest", "parser#nest", token.NoPos, "the parser has no nesting counter (parser.nest): it recurses for every parenthesis, unary operator and function argument, and a script that is a long run of '(' ends the process with a stack overflow that no recover catches")
		return
	}
	// the counter: increments a field, compares it with a constant, and ends the parse (errorf/panic) beyond it
	{
		inc, cmp, ends := false, false, false
		ast.Inspect(nest.Decl.Body, func(n ast.Node) bool {
			switch x := n.(type) {
			case *ast.FuncLit:
				return false
			case *ast.IncDecStmt:
				if x.Tok == token.INC {
					inc = true
				}
			case *ast.IfStmt:
				if b, ok := x.Cond.(*ast.BinaryExpr); ok && (b.Op == token.GTR || b.Op == token.GEQ) {
					if tv, ok := info.Types[b.Y]; ok && tv.Value != nil {
						if v, exact := constant.Int64Val(constant.ToInt(tv.Value)); exact && v > 0 && v <= 100000 {
							cmp = true
						}
					}
					ast.Inspect(x.Body, func(m ast.Node) bool {
						if call, ok := m.(*ast.CallExpr); ok {
							if cal := core.Callee(info, call); cal != nil && (cal.Name() == "errorf" || cal.Name() == "error") {
								ends = true
							}
							if core.IsBuiltin(info, call, "panic") {
								ends = true
							}
						}
						return true
					})
				}
			}
			return true
		})
		c.Check(inc && cmp && ends, "C05.nest", "parser.nest#bounded", nest.Decl.Pos(), "parser.nest must count the level up, compare it with a constant bound (at most 100000: a Go stack holds about that many parser frames many times over) and end the parse beyond it (increments %v, compares %v, ends %v)", inc, cmp, ends)
	}
	// edges between parser methods
	edges := map[*types.Func][]*types.Func{}
	for o, f := range methods {
		seen := map[*types.Func]bool{}
		ast.Inspect(f.Decl.Body, func(n ast.Node) bool {
			if call, ok := n.(*ast.CallExpr); ok {
				if cal := core.Callee(info, call); cal != nil && methods[cal] != nil && !seen[cal] {
					seen[cal] = true
					edges[o] = append(edges[o], cal)
				}
			}
			return true
		})
	}
	// cycles that avoid every guarded method: DFS over the unguarded subgraph
	name := func(o *types.Func) string { return o.Name() }
	var order []*types.Func
	for o := range methods {
		order = append(order, o)
	}
	sort.Slice(order, func(i, j int) bool { return name(order[i]) < name(order[j]) })
	state := map[*types.Func]int{}
	var stack []*types.Func
	reported := map[string]bool{}
	nCycles := 0
	var dfs func(o *types.Func)
	dfs = func(o *types.Func) {
		state[o] = 1
		stack = append(stack, o)
		es := append([]*types.Func{}, edges[o]...)
		sort.Slice(es, func(i, j int) bool { return name(es[i]) < name(es[j]) })
		for _, t := range es {
			if guarded[t] {
				continue
			}
			if state[t] == 1 {
				// cycle t … o → t
				i := len(stack) - 1
				for i >= 0 && stack[i] != t {
					i--
				}
				var names []string
				for _, s := range stack[i:] {
					names = append(names, name(s))
				}
				names = append(names, name(t))
				key := strings.Join(names, "→")
				if reported[key] {
					continue
				}
				reported[key] = true
				nCycles++
				if why, ok := c05NestExempt[key]; ok {
					c.Ok("C05.nest", "parser#cycle:"+key, "bounded: "+why)
				} else {
					c.Fail("C05.nest", "parser#cycle:"+key, methods[t].Decl.Pos(), "the parser methods %s call each other in a cycle in which no method enters the bounded nesting counter (defer p.nest()()): input that nests this construct a few million times — one request to the task API — exhausts the stack, and 'fatal error: stack overflow' ends the process (no recover can catch it)", key)
				}
				continue
			}
			if state[t] == 0 {
				dfs(t)
			}
		}
		stack = stack[:len(stack)-1]
		state[o] = 2
	}
	for _, o := range order {
		if state[o] == 0 && !guarded[o] {
			dfs(o)
		}
	}
	ng := 0
	for range guarded {
		ng++
	}
	c.Floor("C05.nest", "parser methods that enter the nesting counter", ng, 2)
	c.Note("C05.nest: parser methods %d, guarded %d, unguarded cycles %d (all exempt with a bound or reported)", len(methods), ng, nCycles)
}

func c05Assert(c *core.Ctx, cp *packages.Package) {
	_ = cp.TypesInfo
	n := 0
	for _, f := range core.AllFuncs(cp) {
		if f.Decl.Name.Name != "UnmarshalJSON" && f.Decl.Name.Name != "UnmarshalText" && f.Decl.Name.Name != "UnmarshalYAML" {
			continue
		}
		n++
		c.Analysed(f)
		name := core.RecvName(f.Decl) + "." + f.Decl.Name.Name
		// single-value assertions: a TypeAssertExpr that is not the sole RHS of a two-value assignment/definition, nor a type switch
		okForm := map[*ast.TypeAssertExpr]bool{}
		ast.Inspect(f.Decl.Body, func(nd ast.Node) bool {
			switch x := nd.(type) {
			case *ast.AssignStmt:
				if len(x.Lhs) == 2 && len(x.Rhs) == 1 {
					if ta, ok := ast.Unparen(x.Rhs[0]).(*ast.TypeAssertExpr); ok {
						okForm[ta] = true
					}
				}
			case *ast.ValueSpec:
				if len(x.Names) == 2 && len(x.Values) == 1 {
					if ta, ok := ast.Unparen(x.Values[0]).(*ast.TypeAssertExpr); ok {
						okForm[ta] = true
					}
				}
			case *ast.TypeSwitchStmt:
				ast.Inspect(x.Assign, func(m ast.Node) bool {
					if ta, ok := m.(*ast.TypeAssertExpr); ok {
						okForm[ta] = true
					}
					return true
				})
			}
			return true
		})
		bad := token.NoPos
		k := 0
		ast.Inspect(f.Decl.Body, func(nd ast.Node) bool {
			if ta, ok := nd.(*ast.TypeAssertExpr); ok {
				k++
				if !okForm[ta] && bad == token.NoPos {
					// asserting to an interface that the static type already satisfies cannot fail only when the value is non-nil: still counted
					bad = ta.Pos()
				}
			}
			return true
		})
		c.Check(bad == token.NoPos, "C05.assert", name, bad, "%s asserts the type of a decoded JSON value in the single-value form: a document with another JSON type there (a number where a string is expected) panics in the API request handler — the client gets an empty reply instead of an error", name)
	}
	c.Floor("C05.assert", "decoders of the API client types", n, 5)
}

func c05NumBase(c *core.Ctx, ap *packages.Package) {
	info := ap.TypesInfo
	n := 0
	for _, f := range core.AllFuncs(ap) {
		ast.Inspect(f.Decl.Body, func(nd ast.Node) bool {
			as, ok := nd.(*ast.AssignStmt)
			if !ok || len(as.Lhs) != len(as.Rhs) {
				return true
			}
			for i, l := range as.Lhs {
				if !an.FieldSel(info, l, "NumberNode", "Base") {
					continue
				}
				n++
				c.Analysed(f)
				name := f.Decl.Name.Name
				if r := core.RecvName(f.Decl); r != "" {
					name = r + "." + name
				}
				rhs := ast.Unparen(as.Rhs[i])
				if tv, ok := info.Types[rhs]; ok && tv.Value != nil {
					v, exact := constant.Int64Val(constant.ToInt(tv.Value))
					c.Check(exact && v >= 2 && v <= 36, "C05.numbase", name+"#const", as.Pos(), "NumberNode.Base is set to the constant %v, outside 2..36", tv.Value)
					continue
				}
				// a conversion of a variable
				src := rhs
				if call, ok := rhs.(*ast.CallExpr); ok && len(call.Args) == 1 {
					if tv, ok := info.Types[call.Fun]; ok && tv.IsType() {
						src = ast.Unparen(call.Args[0])
					}
				}
				text := types.ExprString(src)
				lo := guardedBy(f.Decl.Body, as, text, func(cond ast.Expr, br bool) bool { return impliesBound(info, cond, br, text, 2, false) })
				hi := guardedBy(f.Decl.Body, as, text, func(cond ast.Expr, br bool) bool { return impliesBound(info, cond, br, text, 36, true) })
				c.Check(lo && hi, "C05.numbase", name+"#range", as.Pos(), "%s stores a value into NumberNode.Base that is not tested to lie in 2..36 on every path (>= 2 established: %v, <= 36 established: %v): a number node decoded from a JSON document with \"base\": 1 panics in strconv.FormatInt as soon as the expression is formatted", name, lo, hi)
			}
			return true
		})
	}
	// composite literals
	for _, f := range core.AllFuncs(ap) {
		ast.Inspect(f.Decl.Body, func(nd ast.Node) bool {
			cl, ok := nd.(*ast.CompositeLit)
			if !ok {
				return true
			}
			if nt := core.NamedOf(info.TypeOf(cl)); nt == nil || nt.Obj().Name() != "NumberNode" {
				return true
			}
			for _, el := range cl.Elts {
				kv, ok := el.(*ast.KeyValueExpr)
				if !ok {
					continue
				}
				if id, ok := kv.Key.(*ast.Ident); ok && id.Name == "Base" {
					n++
					tv, ok := info.Types[kv.Value]
					v, exact := int64(0), false
					if ok && tv.Value != nil {
						v, exact = constant.Int64Val(constant.ToInt(tv.Value))
					}
					c.Check(exact && v >= 2 && v <= 36, "C05.numbase", f.Decl.Name.Name+"#literal", kv.Pos(), "a NumberNode literal sets Base to something that is not a constant in 2..36")
				}
			}
			return true
		})
	}
	c.Floor("C05.numbase", "stores into NumberNode.Base", n, 3)
}

// c05GroupByTime (F122): Query.SetStartTime divides by the length of the GROUP BY time dimension (alignGroup) on the goroutine
// that runs the queries, which nothing recovers. Every DurationLiteral that Query.Dimensions stores as groupByTimeDL is built
// from a value tested to be positive on all paths to the store.
func c05GroupByTime(c *core.Ctx, root *packages.Package) {
	c.Rule("C05.groupbytime", "A4 (bounds by go/cfg guard dataflow): F122: the length Query.Dimensions stores as the GROUP BY time dimension (the divisor of alignGroup's offset computation in SetStartTime) is tested to be greater than zero on every path to the store")
	info := root.TypesInfo
	fn := c.Need("C05.groupbytime", "", "Query", "Dimensions")
	set := c.Need("C05.groupbytime", "", "Query", "SetStartTime")
	if fn == nil || set == nil {
		return
	}
	// is there a division by the stored length at all?
	divides := false
	ast.Inspect(set.Decl.Body, func(n ast.Node) bool {
		if b, ok := n.(*ast.BinaryExpr); ok && (b.Op == token.REM || b.Op == token.QUO) {
			if sel, ok := ast.Unparen(b.Y).(*ast.SelectorExpr); ok && an.FieldSel(info, sel.X, "Query", "groupByTimeDL") {
				divides = true
			}
		}
		return true
	})
	if !divides {
		c.Ok("C05.groupbytime", "Query.SetStartTime#no-division", "SetStartTime does not divide by the time dimension")
		return
	}
	c.Analysed(fn)
	n := 0
	ast.Inspect(fn.Decl.Body, func(nd ast.Node) bool {
		as, ok := nd.(*ast.AssignStmt)
		if !ok || len(as.Lhs) != 1 || len(as.Rhs) != 1 || !an.FieldSel(info, as.Lhs[0], "Query", "groupByTimeDL") {
			return true
		}
		if types.ExprString(as.Rhs[0]) == "nil" {
			return true
		}
		n++
		// &influxql.DurationLiteral{Val: X}
		var val ast.Expr
		if u, ok := ast.Unparen(as.Rhs[0]).(*ast.UnaryExpr); ok {
			if cl, ok := u.X.(*ast.CompositeLit); ok {
				for _, el := range cl.Elts {
					if kv, ok := el.(*ast.KeyValueExpr); ok {
						if k, ok := kv.Key.(*ast.Ident); ok && k.Name == "Val" {
							val = kv.Value
						}
					}
				}
			}
		}
		cons := "Query.Dimensions#length" + strconv.Itoa(n)
		if val == nil {
			c.Fail("C05.groupbytime", cons, as.Pos(), "the time dimension is stored from something else than a DurationLiteral built here: its length is not known to be positive")
			return true
		}
		text := types.ExprString(ast.Unparen(val))
		okk := guardedBy(fn.Decl.Body, as, text, func(cond ast.Expr, br bool) bool { return impliesBound(info, cond, br, text, 1, false) })
		c.Check(okk, "C05.groupbytime", cons, as.Pos(), "Query.Dimensions stores %s as the length of the GROUP BY time dimension without having tested it to be greater than zero on every path: with alignGroup, SetStartTime computes start %% length for every tick on the goroutine that runs the queries — batch|query(…).groupBy(time(0s)).alignGroup() is accepted and the integer division by zero ends the process at the first tick", text)
		return true
	})
	c.Floor("C05.groupbytime", "stores of the time dimension", n, 2)
}
