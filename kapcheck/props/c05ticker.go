package props

import (
	"fmt"
	"go/ast"
	"go/constant"
	"go/token"
	"go/types"
	"sort"
	"strings"

	"golang.org/x/tools/go/cfg"
	"golang.org/x/tools/go/packages"

	"kapcheck/core"
)

// C05.ticker — time.NewTicker and time.Tick panic on a duration that is not positive, and the tickers of the task-running
// packages are created on goroutines that nothing recovers (write buffer, aggregate handler, batch ticker) or whose panic fails
// the task. The durations come from TICKscript properties and handler options. The rule proves for every ticker site that the
// duration is positive:
//   - it is a positive constant, or
//   - a test of the same expression (E > 0 taken, E <= 0 left by return/…) guards the site on every path of its function
//     (forward must-dataflow over go/cfg, killed by an assignment to the expression), or
//   - it is a parameter, or a field chain rooted at the receiver or a parameter: then the same is proved at every call site of
//     the function for the expression the call passes (functions used as values have unknown callers), or
//   - it is a field of a struct that is not filled by reflection: then every composite literal of the struct sets the field and
//     every value stored into the field is proved positive where it is stored.
// The proof search is bounded in depth; a site without proof is reported with the chain that was tried.

type posExpr struct {
	root   ast.Expr // an expression of the function the proof is currently in (typed by that package's info)
	fields []string // selected from the root
}

func (e posExpr) text() string {
	s := types.ExprString(e.root)
	for _, f := range e.fields {
		s += "." + f
	}
	return s
}

type posUnit struct {
	pkg  *packages.Package
	decl *ast.FuncDecl
}

type posProver struct {
	c     *core.Ctx
	pkgs  []*packages.Package
	units map[*types.Func]posUnit
	// uses of a function object outside call position
	valueUse map[*types.Func]bool
	calls    map[*types.Func][]posCall
	trail    []string
}

type posCall struct {
	pkg  *packages.Package
	decl *ast.FuncDecl
	call *ast.CallExpr
}

func newPosProver(c *core.Ctx) *posProver {
	p := &posProver{c: c, units: map[*types.Func]posUnit{}, valueUse: map[*types.Func]bool{}, calls: map[*types.Func][]posCall{}}
	p.pkgs = c.P.ModPkgs
	for _, pkg := range p.pkgs {
		info := pkg.TypesInfo
		for _, file := range pkg.Syntax {
			for _, d := range file.Decls {
				fd, ok := d.(*ast.FuncDecl)
				if !ok || fd.Body == nil {
					continue
				}
				if fo, ok := info.Defs[fd.Name].(*types.Func); ok {
					p.units[fo] = posUnit{pkg, fd}
				}
				ast.Inspect(fd.Body, func(n ast.Node) bool {
					if id, ok := n.(*ast.Ident); ok {
						if _, ok := info.Uses[id].(*types.PkgName); ok {
							pkgIdents[id] = true
						}
					}
					return true
				})
				inCall := map[*ast.Ident]bool{}
				ast.Inspect(fd.Body, func(n ast.Node) bool {
					if call, ok := n.(*ast.CallExpr); ok {
						switch f := ast.Unparen(call.Fun).(type) {
						case *ast.Ident:
							inCall[f] = true
						case *ast.SelectorExpr:
							inCall[f.Sel] = true
						}
						if callee := core.Callee(info, call); callee != nil {
							p.calls[callee] = append(p.calls[callee], posCall{pkg, fd, call})
						}
					}
					return true
				})
				ast.Inspect(fd.Body, func(n ast.Node) bool {
					if id, ok := n.(*ast.Ident); ok && !inCall[id] {
						if fo, ok := info.Uses[id].(*types.Func); ok {
							p.valueUse[fo] = true
						}
					}
					return true
				})
			}
		}
	}
	return p
}

func flattenPos(e ast.Expr) posExpr {
	var fields []string
	for {
		e = ast.Unparen(e)
		sel, ok := e.(*ast.SelectorExpr)
		if !ok {
			break
		}
		if id, ok := sel.X.(*ast.Ident); ok && isPkgIdent(id) {
			break // a qualified identifier (time.Second) is one operand
		}
		fields = append([]string{sel.Sel.Name}, fields...)
		e = sel.X
	}
	return posExpr{root: e, fields: fields}
}

// isPkgIdent: the identifier names an imported package in its file (resolved by the parser's file scope: no object, and an
// import of that name exists). The proof only uses it to keep qualified identifiers whole; the type checker decides the value.
var pkgIdents = map[*ast.Ident]bool{}

func isPkgIdent(id *ast.Ident) bool { return pkgIdents[id] }

// impliesPositive: does cond, when it evaluates to branch, imply text > 0?
func impliesPositive(info *types.Info, cond ast.Expr, branch bool, text string) bool {
	cond = ast.Unparen(cond)
	if u, ok := cond.(*ast.UnaryExpr); ok && u.Op == token.NOT {
		return impliesPositive(info, u.X, !branch, text)
	}
	b, ok := cond.(*ast.BinaryExpr)
	if !ok {
		return false
	}
	op := b.Op
	l, r := ast.Unparen(b.X), ast.Unparen(b.Y)
	if types.ExprString(r) == text {
		// mirror: c op E  ==  E op' c
		l, r = r, l
		switch op {
		case token.LSS:
			op = token.GTR
		case token.LEQ:
			op = token.GEQ
		case token.GTR:
			op = token.LSS
		case token.GEQ:
			op = token.LEQ
		}
	}
	if types.ExprString(l) != text {
		return false
	}
	tv, ok := info.Types[r]
	if !ok || tv.Value == nil {
		return false
	}
	cv := constant.ToInt(tv.Value)
	if cv.Kind() != constant.Int {
		return false
	}
	sign := constant.Sign(cv) // c <0, =0, >0
	one := constant.Compare(cv, token.GEQ, constant.MakeInt64(1))
	switch op {
	case token.GTR: // E > c
		return branch && sign >= 0
	case token.GEQ: // E >= c
		return branch && one
	case token.LEQ: // E <= c  false => E > c
		return !branch && sign >= 0
	case token.LSS: // E < c false => E >= c
		return !branch && one
	}
	return false
}

// guardedAt: on every path of body that reaches site, text > 0 has been established by a test and not been assigned since.
func guardedAt(info *types.Info, body *ast.BlockStmt, site ast.Node, text string) bool {
	return guardedBy(body, site, text, func(cond ast.Expr, branch bool) bool { return impliesPositive(info, cond, branch, text) })
}

// impliesBound: does cond, when it evaluates to branch, imply text >= lo (upper false) or text <= hi (upper true)?
func impliesBound(info *types.Info, cond ast.Expr, branch bool, text string, bound int64, upper bool) bool {
	cond = ast.Unparen(cond)
	if u, ok := cond.(*ast.UnaryExpr); ok && u.Op == token.NOT {
		return impliesBound(info, u.X, !branch, text, bound, upper)
	}
	b, ok := cond.(*ast.BinaryExpr)
	if !ok {
		return false
	}
	op := b.Op
	l, r := ast.Unparen(b.X), ast.Unparen(b.Y)
	if types.ExprString(r) == text {
		l, r = r, l
		switch op {
		case token.LSS:
			op = token.GTR
		case token.LEQ:
			op = token.GEQ
		case token.GTR:
			op = token.LSS
		case token.GEQ:
			op = token.LEQ
		}
	}
	if types.ExprString(l) != text {
		return false
	}
	tv, ok := info.Types[r]
	if !ok || tv.Value == nil {
		return false
	}
	cv, exact := constant.Int64Val(constant.ToInt(tv.Value))
	if !exact {
		return false
	}
	if !branch {
		// the negation of the comparison holds
		switch op {
		case token.LSS:
			op = token.GEQ
		case token.LEQ:
			op = token.GTR
		case token.GTR:
			op = token.LEQ
		case token.GEQ:
			op = token.LSS
		case token.EQL:
			op = token.NEQ
		case token.NEQ:
			op = token.EQL
		}
	}
	// E op cv holds
	switch op {
	case token.GEQ:
		return !upper && cv >= bound
	case token.GTR:
		return !upper && cv+1 >= bound
	case token.LEQ:
		return upper && cv <= bound
	case token.LSS:
		return upper && cv-1 <= bound
	case token.EQL:
		if upper {
			return cv <= bound
		}
		return cv >= bound
	}
	return false
}

// viaConnectives decides an implication for a condition built with !, && and || from its comparisons (go/cfg keeps a
// short-circuit condition as one node): A || B false means both false, A && B true means both true; the other two cases need
// the implication from both operands.
func viaConnectives(cond ast.Expr, branch bool, atom func(cond ast.Expr, branch bool) bool) bool {
	cond = ast.Unparen(cond)
	switch x := cond.(type) {
	case *ast.UnaryExpr:
		if x.Op == token.NOT {
			return viaConnectives(x.X, !branch, atom)
		}
	case *ast.BinaryExpr:
		switch x.Op {
		case token.LOR:
			if !branch {
				return viaConnectives(x.X, false, atom) || viaConnectives(x.Y, false, atom)
			}
			return viaConnectives(x.X, true, atom) && viaConnectives(x.Y, true, atom)
		case token.LAND:
			if branch {
				return viaConnectives(x.X, true, atom) || viaConnectives(x.Y, true, atom)
			}
			return viaConnectives(x.X, false, atom) && viaConnectives(x.Y, false, atom)
		}
	}
	return atom(cond, branch)
}

// guardedBy: on every path of body that reaches site, a test for which implies(cond, branch) holds has been passed and the
// tested expression (text) has not been assigned since.
func guardedBy(body *ast.BlockStmt, site ast.Node, text string, implies func(cond ast.Expr, branch bool) bool) bool {
	g := cfg.New(body, func(*ast.CallExpr) bool { return true })
	if len(g.Blocks) == 0 {
		return false
	}
	root := text
	if i := strings.IndexAny(text, ".[("); i >= 0 {
		root = text[:i]
	}
	kills := func(n ast.Node) bool {
		k := false
		hit := func(lhs ast.Expr) {
			t := types.ExprString(ast.Unparen(lhs))
			if t == text || t == root || strings.HasPrefix(text, t+".") {
				k = true
			}
		}
		ast.Inspect(n, func(m ast.Node) bool {
			switch x := m.(type) {
			case *ast.FuncLit:
				return false
			case *ast.AssignStmt:
				for _, l := range x.Lhs {
					hit(l)
				}
			case *ast.IncDecStmt:
				hit(x.X)
			case *ast.UnaryExpr:
				if x.Op == token.AND {
					hit(x.X)
				}
			}
			return true
		})
		return k
	}
	contains := func(n ast.Node) bool { return n.Pos() <= site.Pos() && site.End() <= n.End() }
	const (
		top = iota // unreached
		yes
		no
	)
	in := make([]int, len(g.Blocks))
	in[0] = no
	result := top
	run := func(b *cfg.Block, st int, record bool) (int, int) {
		for _, n := range b.Nodes {
			if record && contains(n) {
				if st == no {
					result = no
				} else if result == top {
					result = yes
				}
			}
			if kills(n) {
				st = no
			}
		}
		t, f := st, st
		if len(b.Succs) == 2 && len(b.Nodes) > 0 {
			if cond, ok := b.Nodes[len(b.Nodes)-1].(ast.Expr); ok {
				if viaConnectives(cond, true, implies) {
					t = yes
				}
				if viaConnectives(cond, false, implies) {
					f = yes
				}
			}
		}
		return t, f
	}
	work := []*cfg.Block{g.Blocks[0]}
	for steps := 0; len(work) > 0 && steps < 100000; steps++ {
		b := work[0]
		work = work[1:]
		t, f := run(b, in[b.Index], false)
		for i, s := range b.Succs {
			out := t
			if i == 1 && len(b.Succs) == 2 {
				out = f
			}
			nv := out
			if in[s.Index] != top && in[s.Index] != out {
				nv = no
			}
			if in[s.Index] != nv {
				in[s.Index] = nv
				work = append(work, s)
			}
		}
	}
	for _, b := range g.Blocks {
		if in[b.Index] != top {
			run(b, in[b.Index], true)
		}
	}
	return result == yes
}

// innermost function body (literal or declaration) around site
func enclosingBody(decl *ast.FuncDecl, site ast.Node) (*ast.BlockStmt, bool) {
	body, lit := decl.Body, false
	ast.Inspect(decl.Body, func(n ast.Node) bool {
		if fl, ok := n.(*ast.FuncLit); ok && fl.Body.Pos() <= site.Pos() && site.End() <= fl.Body.End() {
			body, lit = fl.Body, true
		}
		return true
	})
	return body, lit
}

func (p *posProver) note(format string, args ...any) {
	p.trail = append(p.trail, fmt.Sprintf(format, args...))
}

// prove: e > 0 at site, inside u.
func (p *posProver) prove(u posUnit, site ast.Node, e posExpr, depth int) bool {
	info := u.pkg.TypesInfo
	text := e.text()
	where := u.decl.Name.Name
	if len(e.fields) == 0 {
		if tv, ok := info.Types[ast.Unparen(e.root)]; ok && tv.Value != nil {
			if v := constant.ToInt(tv.Value); v.Kind() == constant.Int && constant.Sign(v) > 0 {
				return true
			}
			p.note("%s: %s is the constant %s", where, text, tv.Value)
			return false
		}
		// conversion time.Duration(x)
		if call, ok := e.root.(*ast.CallExpr); ok && len(call.Args) == 1 {
			if tv, ok := info.Types[call.Fun]; ok && tv.IsType() {
				return p.prove(u, site, flattenPos(call.Args[0]), depth)
			}
		}
	}
	body, inLit := enclosingBody(u.decl, site)
	if guardedAt(info, body, site, text) {
		return true
	}
	if depth <= 0 {
		p.note("%s: %s: depth bound reached", where, text)
		return false
	}
	id, ok := e.root.(*ast.Ident)
	if !ok {
		p.note("%s: %s is neither tested in the function nor a variable or field", where, text)
		return false
	}
	obj := info.Uses[id]
	if obj == nil {
		obj = info.Defs[id]
	}
	v, _ := obj.(*types.Var)
	if v == nil {
		p.note("%s: %s does not resolve to a variable", where, text)
		return false
	}
	// parameter / receiver of the enclosing declaration?
	fo, _ := info.Defs[u.decl.Name].(*types.Func)
	role := -2 // -1 receiver, >=0 parameter index
	if fo != nil {
		sig := fo.Type().(*types.Signature)
		if sig.Recv() == v {
			role = -1
		}
		for i := 0; i < sig.Params().Len(); i++ {
			if sig.Params().At(i) == v {
				role = i
			}
		}
	}
	if role != -2 && !(role == -1 && len(e.fields) == 0) {
		if p.proveCallers(fo, role, e, depth, inLit) {
			return true
		}
	} else if len(e.fields) == 0 {
		// a local variable: one definition, proved where it is defined
		var def *ast.AssignStmt
		nDef := 0
		ast.Inspect(u.decl.Body, func(n ast.Node) bool {
			if as, ok := n.(*ast.AssignStmt); ok {
				for i, l := range as.Lhs {
					if lid, ok := l.(*ast.Ident); ok && (info.Defs[lid] == obj || info.Uses[lid] == obj) {
						nDef++
						if len(as.Lhs) == len(as.Rhs) {
							def = &ast.AssignStmt{Lhs: []ast.Expr{l}, Rhs: []ast.Expr{as.Rhs[i]}, TokPos: as.TokPos, Tok: as.Tok}
						}
					}
				}
			}
			return true
		})
		if nDef == 1 && def != nil && def.Rhs[0].End() <= site.Pos() {
			return p.prove(u, def.Rhs[0], flattenPos(def.Rhs[0]), depth-1)
		}
		p.note("%s: local %s has no single definition that can be followed", where, text)
		return false
	}
	if len(e.fields) == 0 {
		return false
	}
	// the field itself
	return p.proveField(u, e, depth)
}

func (p *posProver) proveCallers(fo *types.Func, role int, e posExpr, depth int, inLit bool) bool {
	name := core.FuncName(fo)
	if p.valueUse[fo] {
		p.note("%s is also used as a value: its callers are not known", name)
		return false
	}
	if fo.Exported() && role == -1 {
		// methods can be called through interfaces
		sig := fo.Type().(*types.Signature)
		_ = sig
	}
	cs := p.calls[fo]
	if len(cs) == 0 {
		p.note("%s has no call site in the loaded program", name)
		return false
	}
	for _, cs1 := range cs {
		var actual ast.Expr
		if role == -1 {
			sel, ok := ast.Unparen(cs1.call.Fun).(*ast.SelectorExpr)
			if !ok {
				p.note("%s: call without receiver expression", name)
				return false
			}
			actual = sel.X
		} else {
			if role >= len(cs1.call.Args) || cs1.call.Ellipsis != token.NoPos {
				p.note("%s: call does not pass the parameter positionally", name)
				return false
			}
			actual = cs1.call.Args[role]
		}
		ne := flattenPos(actual)
		ne.fields = append(append([]string{}, ne.fields...), e.fields...)
		if !p.prove(posUnit{cs1.pkg, cs1.decl}, cs1.call, ne, depth-1) {
			p.note("%s: not proved at its call site %s", name, p.c.P.Pos(cs1.call.Pos()))
			return false
		}
	}
	return true
}

// proveField: every literal of the owning struct sets the last field of e, and every value stored is positive.
func (p *posProver) proveField(u posUnit, e posExpr, depth int) bool {
	info := u.pkg.TypesInfo
	t := info.TypeOf(e.root)
	var fv *types.Var
	var owner *types.Named
	for _, f := range e.fields {
		if t == nil {
			return false
		}
		o, _, _ := types.LookupFieldOrMethod(t, true, u.pkg.Types, f)
		v, ok := o.(*types.Var)
		if !ok || !v.IsField() {
			p.note("%s: %s is not a field", e.text(), f)
			return false
		}
		owner = core.NamedOf(t)
		fv = v
		t = v.Type()
	}
	if fv == nil || owner == nil {
		return false
	}
	if fv.Pkg() != nil && strings.HasSuffix(fv.Pkg().Path(), "/pipeline") {
		p.note("%s.%s is a pipeline property: TICKscript sets it by reflection to any value", owner.Obj().Name(), fv.Name())
		return false
	}
	// the owner struct of fv (an embedded struct may own it)
	stores := 0
	for _, pkg := range p.pkgs {
		pinfo := pkg.TypesInfo
		for _, file := range pkg.Syntax {
			for _, d := range file.Decls {
				fd, ok := d.(*ast.FuncDecl)
				if !ok || fd.Body == nil {
					continue
				}
				unit := posUnit{pkg, fd}
				okAll := true
				ast.Inspect(fd.Body, func(n ast.Node) bool {
					if !okAll {
						return false
					}
					switch x := n.(type) {
					case *ast.CompositeLit:
						st, ok := pinfo.TypeOf(x).Underlying().(*types.Struct)
						if !ok {
							return true
						}
						has := false
						for i := 0; i < st.NumFields(); i++ {
							if st.Field(i) == fv {
								has = true
							}
						}
						if !has {
							return true
						}
						set := false
						for i, el := range x.Elts {
							if kv, ok := el.(*ast.KeyValueExpr); ok {
								if kid, ok := kv.Key.(*ast.Ident); ok && pinfo.Uses[kid] == fv {
									set = true
									stores++
									if !p.prove(unit, kv.Value, flattenPos(kv.Value), depth-1) {
										p.note("%s.%s: value stored at %s not proved positive", owner.Obj().Name(), fv.Name(), p.c.P.Pos(kv.Pos()))
										okAll = false
									}
								}
							} else if i < st.NumFields() && st.Field(i) == fv {
								set = true
								stores++
								if !p.prove(unit, el, flattenPos(el), depth-1) {
									okAll = false
								}
							}
						}
						if !set {
							p.note("%s.%s: the literal at %s leaves the field zero", owner.Obj().Name(), fv.Name(), p.c.P.Pos(x.Pos()))
							okAll = false
						}
					case *ast.AssignStmt:
						for i, l := range x.Lhs {
							sel, ok := ast.Unparen(l).(*ast.SelectorExpr)
							if !ok {
								continue
							}
							if s, ok := pinfo.Selections[sel]; ok && s.Obj() == fv {
								stores++
								if len(x.Lhs) != len(x.Rhs) || x.Tok != token.ASSIGN {
									p.note("%s.%s: stored by a compound/multi-value assignment at %s", owner.Obj().Name(), fv.Name(), p.c.P.Pos(x.Pos()))
									okAll = false
								} else if !p.prove(unit, x.Rhs[i], flattenPos(x.Rhs[i]), depth-1) {
									p.note("%s.%s: value stored at %s not proved positive", owner.Obj().Name(), fv.Name(), p.c.P.Pos(x.Pos()))
									okAll = false
								}
							}
						}
					case *ast.CallExpr:
						if core.IsBuiltin(pinfo, x, "new") && len(x.Args) == 1 {
							if st, ok := pinfo.TypeOf(x.Args[0]).Underlying().(*types.Struct); ok {
								for i := 0; i < st.NumFields(); i++ {
									if st.Field(i) == fv {
										p.note("%s.%s: new(%s) at %s leaves the field zero", owner.Obj().Name(), fv.Name(), owner.Obj().Name(), p.c.P.Pos(x.Pos()))
										okAll = false
									}
								}
							}
						}
					}
					return true
				})
				if !okAll {
					return false
				}
			}
		}
	}
	if stores == 0 {
		p.note("%s.%s is never stored", owner.Obj().Name(), fv.Name())
		return false
	}
	return true
}

// posConstruct names the duration expression without the names of locals, receivers and parameters.
func posConstruct(info *types.Info, e posExpr) string {
	s := ""
	switch r := e.root.(type) {
	case *ast.Ident:
		if len(e.fields) == 0 {
			if tv, ok := info.Types[r]; ok && tv.Value != nil {
				return "const"
			}
			return "local"
		}
	case *ast.CallExpr:
		if f := core.Callee(info, r); f != nil {
			s = "call:" + f.Name()
		} else {
			s = "call"
		}
	case *ast.SelectorExpr, *ast.BasicLit, *ast.BinaryExpr:
		if tv, ok := info.Types[e.root]; ok && tv.Value != nil {
			return "const"
		}
		s = "expr"
	default:
		s = "expr"
	}
	for _, f := range e.fields {
		s += "." + f
	}
	return s
}

// packages whose tickers take their duration from scripts, handler options or peers
var c05TickerScope = map[string]string{
	"":               "task nodes: durations are TICKscript properties",
	"services/alert": "alert handlers: durations are handler options (API, topic handler files)",
}

// sites with a reasoned exception
var c05TickerDerived = map[string]string{
	"timeTicker.Start#call:Sub": "next = now.Truncate(every).Add(every) is later than now whenever every > 0, which the sibling site t.every proves",
}

func c05Ticker(c *core.Ctx) {
	c.Rule("C05.ticker", "A10 (guard provenance through the call graph): the duration of every time.NewTicker/time.Tick of the task-running packages is proved positive — a positive constant, a dominating test in the function, the same at every call site for parameters and receiver fields, or positive at every store for struct fields; a non-positive duration panics on a goroutine nothing recovers")
	pp := newPosProver(c)
	n := 0
	seenCons := map[string]int{}
	for _, pkg := range c.P.ModPkgs {
		rel := strings.TrimPrefix(strings.TrimPrefix(pkg.PkgPath, core.Module), "/")
		if _, ok := c05TickerScope[rel]; !ok {
			continue
		}
		info := pkg.TypesInfo
		var fds []*ast.FuncDecl
		for _, file := range pkg.Syntax {
			for _, d := range file.Decls {
				if fd, ok := d.(*ast.FuncDecl); ok && fd.Body != nil {
					fds = append(fds, fd)
				}
			}
		}
		sort.Slice(fds, func(i, j int) bool { return fds[i].Pos() < fds[j].Pos() })
		for _, fd := range fds {
			fname := fd.Name.Name
			if r := core.RecvName(fd); r != "" {
				fname = r + "." + fname
			}
			ast.Inspect(fd.Body, func(nd ast.Node) bool {
				call, ok := nd.(*ast.CallExpr)
				if !ok || len(call.Args) != 1 {
					return true
				}
				callee := core.Callee(info, call)
				if callee == nil || callee.Pkg() == nil || callee.Pkg().Path() != "time" || (callee.Name() != "NewTicker" && callee.Name() != "Tick") {
					return true
				}
				n++
				c.AnalysedName(fname)
				e := flattenPos(call.Args[0])
				cons := fname + "#" + posConstruct(info, e)
				seenCons[cons]++
				if k := seenCons[cons]; k > 1 {
					cons += fmt.Sprintf("#%d", k)
				}
				if why, ok := c05TickerDerived[cons]; ok {
					c.Ok("C05.ticker", cons, "derived: "+why)
					return true
				}
				pp.trail = nil
				if pp.prove(posUnit{pkg, fd}, call, e, 5) {
					c.Ok("C05.ticker", cons)
				} else {
					c.Fail("C05.ticker", cons, call.Pos(), "time.%s(%s) in %s: the duration is not proved positive (%s). time.%s panics on a duration <= 0; here it runs on a goroutine that nothing recovers or fails the task: a script or handler option with a zero or negative duration ends the process", callee.Name(), e.text(), fname, strings.Join(pp.trail, "; "), callee.Name())
				}
				return true
			})
		}
	}
	c.Floor("C05.ticker", "ticker sites in the task-running packages", n, 9)
}
