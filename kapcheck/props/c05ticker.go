package props

import (
	"fmt"
	"go/ast"
	"go/constant"
	"go/token"
	"go/types"
	"sort"
	"strings"

	"golang.org/x/tools/go/cfg"
	"golang.org/x/tools/go/packages"

	"kapcheck/an"
	"kapcheck/core"
)

// C05.ticker — time.NewTicker and time.Tick panic on a duration that is not positive, and the tickers of the task-running
// packages are created on goroutines that nothing recovers (write buffer, aggregate handler, batch ticker) or whose panic fails
// the task. The durations come from TICKscript properties and handler options. The rule proves for every ticker site that the
// duration is positive:
//   - it is a positive constant, or
//   - a test of the same expression (E > 0 taken, E <= 0 left by return/…) guards the site on every path of its function
//     (forward must-dataflow over go/cfg, killed by an assignment to the expression), or
//   - it is a parameter, or a field chain rooted at the receiver or a parameter: then the same is proved at every call site of
//     the function for the expression the call passes (functions used as values have unknown callers), or
//   - it is a field of a struct that is not filled by reflection: then every composite literal of the struct sets the field and
//     every value stored into the field is proved positive where it is stored.
// The proof search is bounded in depth; a site without proof is reported with the chain that was tried.

type posExpr struct {
	root   ast.Expr // an expression of the function the proof is currently in (typed by that package's info)
	fields []string // selected from the root
}

func (e posExpr) text() string {
	s := types.ExprString(e.root)
	for _, f := range e.fields {
		s += "." + f
	}
	return s
}

type posUnit struct {
	pkg  *packages.Package
	decl *ast.FuncDecl
}

type posProver struct {
	c     *core.Ctx
	pkgs  []*packages.Package
	units map[*types.Func]posUnit
	// uses of a function object outside call position
	valueUse map[*types.Func]bool
	calls    map[*types.Func][]posCall
	trail    []string
	// lo is the bound to prove: e >= lo (1 = positive, the default; 0 = not negative)
	lo int64
	// sawPipeline: the search met a field of a pipeline node type (a value a script sets)
	sawPipeline bool
	// nonzero: a test that excludes zero is enough (divisors)
	nonzero bool
}

type posCall struct {
	pkg  *packages.Package
	decl *ast.FuncDecl
	call *ast.CallExpr
}

func newPosProver(c *core.Ctx) *posProver {
	p := &posProver{c: c, units: map[*types.Func]posUnit{}, valueUse: map[*types.Func]bool{}, calls: map[*types.Func][]posCall{}, lo: 1}
	p.pkgs = c.P.ModPkgs
	for _, pkg := range p.pkgs {
		info := pkg.TypesInfo
		for _, file := range pkg.Syntax {
			for _, d := range file.Decls {
				fd, ok := d.(*ast.FuncDecl)
				if !ok || fd.Body == nil {
					continue
				}
				if fo, ok := info.Defs[fd.Name].(*types.Func); ok {
					p.units[fo] = posUnit{pkg, fd}
				}
				ast.Inspect(fd.Body, func(n ast.Node) bool {
					if id, ok := n.(*ast.Ident); ok {
						if _, ok := info.Uses[id].(*types.PkgName); ok {
							pkgIdents[id] = true
						}
					}
					return true
				})
				inCall := map[*ast.Ident]bool{}
				ast.Inspect(fd.Body, func(n ast.Node) bool {
					if call, ok := n.(*ast.CallExpr); ok {
						switch f := ast.Unparen(call.Fun).(type) {
						case *ast.Ident:
							inCall[f] = true
						case *ast.SelectorExpr:
							inCall[f.Sel] = true
						}
						if callee := core.Callee(info, call); callee != nil {
							p.calls[callee] = append(p.calls[callee], posCall{pkg, fd, call})
						}
					}
					return true
				})
				ast.Inspect(fd.Body, func(n ast.Node) bool {
					if id, ok := n.(*ast.Ident); ok && !inCall[id] {
						if fo, ok := info.Uses[id].(*types.Func); ok {
							p.valueUse[fo] = true
						}
					}
					return true
				})
			}
		}
	}
	return p
}

func flattenPos(e ast.Expr) posExpr {
	var fields []string
	for {
		e = ast.Unparen(e)
		sel, ok := e.(*ast.SelectorExpr)
		if !ok {
			break
		}
		if id, ok := sel.X.(*ast.Ident); ok && isPkgIdent(id) {
			break // a qualified identifier (time.Second) is one operand
		}
		fields = append([]string{sel.Sel.Name}, fields...)
		e = sel.X
	}
	return posExpr{root: e, fields: fields}
}

// isPkgIdent: the identifier names an imported package in its file (resolved by the parser's file scope: no object, and an
// import of that name exists). The proof only uses it to keep qualified identifiers whole; the type checker decides the value.
var pkgIdents = map[*ast.Ident]bool{}

func isPkgIdent(id *ast.Ident) bool { return pkgIdents[id] }

// impliesPositive: does cond, when it evaluates to branch, imply text > 0?
func impliesPositive(info *types.Info, cond ast.Expr, branch bool, text string) bool {
	cond = ast.Unparen(cond)
	if u, ok := cond.(*ast.UnaryExpr); ok && u.Op == token.NOT {
		return impliesPositive(info, u.X, !branch, text)
	}
	b, ok := cond.(*ast.BinaryExpr)
	if !ok {
		return false
	}
	op := b.Op
	l, r := ast.Unparen(b.X), ast.Unparen(b.Y)
	if types.ExprString(r) == text {
		// mirror: c op E  ==  E op' c
		l, r = r, l
		switch op {
		case token.LSS:
			op = token.GTR
		case token.LEQ:
			op = token.GEQ
		case token.GTR:
			op = token.LSS
		case token.GEQ:
			op = token.LEQ
		}
	}
	if types.ExprString(l) != text {
		return false
	}
	tv, ok := info.Types[r]
	if !ok || tv.Value == nil {
		return false
	}
	cv := constant.ToInt(tv.Value)
	if cv.Kind() != constant.Int {
		return false
	}
	sign := constant.Sign(cv) // c <0, =0, >0
	one := constant.Compare(cv, token.GEQ, constant.MakeInt64(1))
	switch op {
	case token.GTR: // E > c
		return branch && sign >= 0
	case token.GEQ: // E >= c
		return branch && one
	case token.LEQ: // E <= c  false => E > c
		return !branch && sign >= 0
	case token.LSS: // E < c false => E >= c
		return !branch && one
	}
	return false
}

// guardedAt: on every path of body that reaches site, text > 0 has been established by a test and not been assigned since.
func guardedAt(info *types.Info, body *ast.BlockStmt, site ast.Node, text string) bool {
	return guardedBy(body, site, text, func(cond ast.Expr, branch bool) bool { return impliesPositive(info, cond, branch, text) })
}

// impliesBound: does cond, when it evaluates to branch, imply text >= lo (upper false) or text <= hi (upper true)?
func impliesBound(info *types.Info, cond ast.Expr, branch bool, text string, bound int64, upper bool) bool {
	cond = ast.Unparen(cond)
	if u, ok := cond.(*ast.UnaryExpr); ok && u.Op == token.NOT {
		return impliesBound(info, u.X, !branch, text, bound, upper)
	}
	b, ok := cond.(*ast.BinaryExpr)
	if !ok {
		return false
	}
	op := b.Op
	l, r := ast.Unparen(b.X), ast.Unparen(b.Y)
	if types.ExprString(r) == text {
		l, r = r, l
		switch op {
		case token.LSS:
			op = token.GTR
		case token.LEQ:
			op = token.GEQ
		case token.GTR:
			op = token.LSS
		case token.GEQ:
			op = token.LEQ
		}
	}
	if types.ExprString(l) != text {
		return false
	}
	tv, ok := info.Types[r]
	if !ok || tv.Value == nil {
		return false
	}
	cv, exact := constant.Int64Val(constant.ToInt(tv.Value))
	if !exact {
		return false
	}
	if !branch {
		// the negation of the comparison holds
		switch op {
		case token.LSS:
			op = token.GEQ
		case token.LEQ:
			op = token.GTR
		case token.GTR:
			op = token.LEQ
		case token.GEQ:
			op = token.LSS
		case token.EQL:
			op = token.NEQ
		case token.NEQ:
			op = token.EQL
		}
	}
	// E op cv holds
	switch op {
	case token.GEQ:
		return !upper && cv >= bound
	case token.GTR:
		return !upper && cv+1 >= bound
	case token.LEQ:
		return upper && cv <= bound
	case token.LSS:
		return upper && cv-1 <= bound
	case token.EQL:
		if upper {
			return cv <= bound
		}
		return cv >= bound
	}
	return false
}

// impliesNonZero: cond evaluating to branch implies text != 0 (`E != 0` taken, `E == 0` not taken).
func impliesNonZero(info *types.Info, cond ast.Expr, branch bool, text string) bool {
	b, ok := ast.Unparen(cond).(*ast.BinaryExpr)
	if !ok || (b.Op != token.EQL && b.Op != token.NEQ) {
		return false
	}
	l, r := ast.Unparen(b.X), ast.Unparen(b.Y)
	if types.ExprString(r) == text {
		l, r = r, l
	}
	if types.ExprString(l) != text {
		return false
	}
	tv, ok := info.Types[r]
	if !ok || tv.Value == nil || constant.Sign(constant.ToInt(tv.Value)) != 0 {
		return false
	}
	return (b.Op == token.NEQ) == branch
}

// viaConnectives decides an implication for a condition built with !, && and || from its comparisons (go/cfg keeps a
// short-circuit condition as one node): A || B false means both false, A && B true means both true; the other two cases need
// the implication from both operands.
func viaConnectives(cond ast.Expr, branch bool, atom func(cond ast.Expr, branch bool) bool) bool {
	cond = ast.Unparen(cond)
	switch x := cond.(type) {
	case *ast.UnaryExpr:
		if x.Op == token.NOT {
			return viaConnectives(x.X, !branch, atom)
		}
	case *ast.BinaryExpr:
		switch x.Op {
		case token.LOR:
			if !branch {
				return viaConnectives(x.X, false, atom) || viaConnectives(x.Y, false, atom)
			}
			return viaConnectives(x.X, true, atom) && viaConnectives(x.Y, true, atom)
		case token.LAND:
			if branch {
				return viaConnectives(x.X, true, atom) || viaConnectives(x.Y, true, atom)
			}
			return viaConnectives(x.X, false, atom) && viaConnectives(x.Y, false, atom)
		}
	}
	return atom(cond, branch)
}

// guardedBy: on every path of body that reaches site, a test for which implies(cond, branch) holds has been passed and the
// tested expression (text) has not been assigned since.
func guardedBy(body *ast.BlockStmt, site ast.Node, text string, implies func(cond ast.Expr, branch bool) bool) bool {
	return guardedByEst(body, site, text, implies, nil)
}

// guardedByEst: establishes(stmt) says that the statement, an assignment to the tested expression, itself leaves the bound
// holding (a clamp: `if x < 2 { x = 2 }`).
func guardedByEst(body *ast.BlockStmt, site ast.Node, text string, implies func(cond ast.Expr, branch bool) bool, establishes func(n ast.Node) bool) bool {
	g := cfg.New(body, func(*ast.CallExpr) bool { return true })
	if len(g.Blocks) == 0 {
		return false
	}
	root := text
	if i := strings.IndexAny(text, ".[("); i >= 0 {
		root = text[:i]
	}
	kills := func(n ast.Node) bool {
		k := false
		hit := func(lhs ast.Expr) {
			t := types.ExprString(ast.Unparen(lhs))
			if t == text || t == root || strings.HasPrefix(text, t+".") {
				k = true
			}
		}
		ast.Inspect(n, func(m ast.Node) bool {
			switch x := m.(type) {
			case *ast.FuncLit:
				return false
			case *ast.AssignStmt:
				for _, l := range x.Lhs {
					hit(l)
				}
			case *ast.IncDecStmt:
				hit(x.X)
			case *ast.UnaryExpr:
				if x.Op == token.AND {
					hit(x.X)
				}
			}
			return true
		})
		return k
	}
	contains := func(n ast.Node) bool { return n.Pos() <= site.Pos() && site.End() <= n.End() }
	const (
		top = iota // unreached
		yes
		no
	)
	in := make([]int, len(g.Blocks))
	in[0] = no
	result := top
	run := func(b *cfg.Block, st int, record bool) (int, int) {
		for _, n := range b.Nodes {
			if record && contains(n) {
				if st == no {
					result = no
				} else if result == top {
					result = yes
				}
			}
			if kills(n) {
				st = no
				if establishes != nil && establishes(n) {
					st = yes
				}
			}
		}
		t, f := st, st
		if len(b.Succs) == 2 && len(b.Nodes) > 0 {
			if cond, ok := b.Nodes[len(b.Nodes)-1].(ast.Expr); ok {
				if viaConnectives(cond, true, implies) {
					t = yes
				}
				if viaConnectives(cond, false, implies) {
					f = yes
				}
			}
		}
		return t, f
	}
	work := []*cfg.Block{g.Blocks[0]}
	for steps := 0; len(work) > 0 && steps < 100000; steps++ {
		b := work[0]
		work = work[1:]
		t, f := run(b, in[b.Index], false)
		for i, s := range b.Succs {
			out := t
			if i == 1 && len(b.Succs) == 2 {
				out = f
			}
			nv := out
			if in[s.Index] != top && in[s.Index] != out {
				nv = no
			}
			if in[s.Index] != nv {
				in[s.Index] = nv
				work = append(work, s)
			}
		}
	}
	for _, b := range g.Blocks {
		if in[b.Index] != top {
			run(b, in[b.Index], true)
		}
	}
	return result == yes
}

// innermost function body (literal or declaration) around site
func enclosingBody(decl *ast.FuncDecl, site ast.Node) (*ast.BlockStmt, bool) {
	body, lit := decl.Body, false
	ast.Inspect(decl.Body, func(n ast.Node) bool {
		if fl, ok := n.(*ast.FuncLit); ok && fl.Body.Pos() <= site.Pos() && site.End() <= fl.Body.End() {
			body, lit = fl.Body, true
		}
		return true
	})
	return body, lit
}

func (p *posProver) note(format string, args ...any) {
	p.trail = append(p.trail, fmt.Sprintf(format, args...))
}

// prove: e > 0 at site, inside u.
func (p *posProver) prove(u posUnit, site ast.Node, e posExpr, depth int) bool {
	info := u.pkg.TypesInfo
	text := e.text()
	where := u.decl.Name.Name
	if len(e.fields) == 0 {
		if tv, ok := info.Types[ast.Unparen(e.root)]; ok && tv.Value != nil {
			if v := constant.ToInt(tv.Value); v.Kind() == constant.Int && constant.Compare(v, token.GEQ, constant.MakeInt64(p.lo)) {
				return true
			}
			p.note("%s: %s is the constant %s", where, text, tv.Value)
			return false
		}
		// len(x) and cap(x) are not negative
		if call, ok := e.root.(*ast.CallExpr); ok && p.lo <= 0 && (core.IsBuiltin(info, call, "len") || core.IsBuiltin(info, call, "cap")) {
			return true
		}
		// conversion time.Duration(x)
		if call, ok := e.root.(*ast.CallExpr); ok && len(call.Args) == 1 {
			if tv, ok := info.Types[call.Fun]; ok && tv.IsType() {
				return p.prove(u, site, flattenPos(call.Args[0]), depth)
			}
		}
	}
	body, inLit := enclosingBody(u.decl, site)
	if guardedBy(body, site, text, func(cond ast.Expr, br bool) bool {
		return impliesBound(info, cond, br, text, p.lo, false) || (p.nonzero && impliesNonZero(info, cond, br, text))
	}) {
		return true
	}
	// a field of a pipeline node: the value a script sets
	if len(e.fields) > 0 {
		t := info.TypeOf(e.root)
		for _, f := range e.fields {
			if t == nil {
				break
			}
			o, _, _ := types.LookupFieldOrMethod(t, true, u.pkg.Types, f)
			fv, ok := o.(*types.Var)
			if !ok {
				break
			}
			if fv.Pkg() != nil && strings.HasSuffix(fv.Pkg().Path(), "/pipeline") {
				p.sawPipeline = true
			}
			t = fv.Type()
		}
	}
	if depth <= 0 {
		p.note("%s: %s: depth bound reached", where, text)
		return false
	}
	id, ok := e.root.(*ast.Ident)
	if !ok {
		p.note("%s: %s is neither tested in the function nor a variable or field", where, text)
		return false
	}
	obj := info.Uses[id]
	if obj == nil {
		obj = info.Defs[id]
	}
	v, _ := obj.(*types.Var)
	if v == nil {
		p.note("%s: %s does not resolve to a variable", where, text)
		return false
	}
	// parameter / receiver of the enclosing declaration?
	fo, _ := info.Defs[u.decl.Name].(*types.Func)
	role := -2 // -1 receiver, >=0 parameter index
	if fo != nil {
		sig := fo.Type().(*types.Signature)
		if sig.Recv() == v {
			role = -1
		}
		for i := 0; i < sig.Params().Len(); i++ {
			if sig.Params().At(i) == v {
				role = i
			}
		}
	}
	if role != -2 && !(role == -1 && len(e.fields) == 0) {
		if p.proveCallers(fo, role, e, depth, inLit) {
			return true
		}
	} else if len(e.fields) == 0 {
		// a local variable: one definition, proved where it is defined
		var def *ast.AssignStmt
		nDef := 0
		ast.Inspect(u.decl.Body, func(n ast.Node) bool {
			if as, ok := n.(*ast.AssignStmt); ok {
				for i, l := range as.Lhs {
					if lid, ok := l.(*ast.Ident); ok && (info.Defs[lid] == obj || info.Uses[lid] == obj) {
						nDef++
						if len(as.Lhs) == len(as.Rhs) {
							def = &ast.AssignStmt{Lhs: []ast.Expr{l}, Rhs: []ast.Expr{as.Rhs[i]}, TokPos: as.TokPos, Tok: as.Tok}
						}
					}
				}
			}
			return true
		})
		if nDef == 1 && def != nil && def.Rhs[0].End() <= site.Pos() {
			return p.prove(u, def.Rhs[0], flattenPos(def.Rhs[0]), depth-1)
		}
		p.note("%s: local %s has no single definition that can be followed", where, text)
		return false
	}
	if len(e.fields) == 0 {
		return false
	}
	// the field itself
	return p.proveField(u, e, depth)
}

func (p *posProver) proveCallers(fo *types.Func, role int, e posExpr, depth int, inLit bool) bool {
	name := core.FuncName(fo)
	if p.valueUse[fo] {
		p.note("%s is also used as a value: its callers are not known", name)
		return false
	}
	if fo.Exported() && role == -1 {
		// methods can be called through interfaces
		sig := fo.Type().(*types.Signature)
		_ = sig
	}
	cs := p.calls[fo]
	if len(cs) == 0 {
		p.note("%s has no call site in the loaded program", name)
		return false
	}
	for _, cs1 := range cs {
		var actual ast.Expr
		if role == -1 {
			sel, ok := ast.Unparen(cs1.call.Fun).(*ast.SelectorExpr)
			if !ok {
				p.note("%s: call without receiver expression", name)
				return false
			}
			actual = sel.X
		} else {
			if role >= len(cs1.call.Args) || cs1.call.Ellipsis != token.NoPos {
				p.note("%s: call does not pass the parameter positionally", name)
				return false
			}
			actual = cs1.call.Args[role]
		}
		ne := flattenPos(actual)
		ne.fields = append(append([]string{}, ne.fields...), e.fields...)
		if !p.prove(posUnit{cs1.pkg, cs1.decl}, cs1.call, ne, depth-1) {
			p.note("%s: not proved at its call site %s", name, p.c.P.Pos(cs1.call.Pos()))
			return false
		}
	}
	return true
}

// proveField: every literal of the owning struct sets the last field of e, and every value stored is positive.
func (p *posProver) proveField(u posUnit, e posExpr, depth int) bool {
	info := u.pkg.TypesInfo
	t := info.TypeOf(e.root)
	var fv *types.Var
	var owner *types.Named
	for _, f := range e.fields {
		if t == nil {
			return false
		}
		o, _, _ := types.LookupFieldOrMethod(t, true, u.pkg.Types, f)
		v, ok := o.(*types.Var)
		if !ok || !v.IsField() {
			p.note("%s: %s is not a field", e.text(), f)
			return false
		}
		owner = core.NamedOf(t)
		fv = v
		t = v.Type()
	}
	if fv == nil || owner == nil {
		return false
	}
	if fv.Pkg() != nil && strings.HasSuffix(fv.Pkg().Path(), "/pipeline") {
		if p.constructorEstablishes(owner, fv) {
			return true
		}
		p.note("%s.%s is a pipeline property: TICKscript sets it by reflection to any value", owner.Obj().Name(), fv.Name())
		return false
	}
	// the owner struct of fv (an embedded struct may own it)
	stores := 0
	for _, pkg := range p.pkgs {
		pinfo := pkg.TypesInfo
		for _, file := range pkg.Syntax {
			for _, d := range file.Decls {
				fd, ok := d.(*ast.FuncDecl)
				if !ok || fd.Body == nil {
					continue
				}
				unit := posUnit{pkg, fd}
				okAll := true
				ast.Inspect(fd.Body, func(n ast.Node) bool {
					if !okAll {
						return false
					}
					switch x := n.(type) {
					case *ast.CompositeLit:
						st, ok := pinfo.TypeOf(x).Underlying().(*types.Struct)
						if !ok {
							return true
						}
						has := false
						for i := 0; i < st.NumFields(); i++ {
							if st.Field(i) == fv {
								has = true
							}
						}
						if !has {
							return true
						}
						set := false
						for i, el := range x.Elts {
							if kv, ok := el.(*ast.KeyValueExpr); ok {
								if kid, ok := kv.Key.(*ast.Ident); ok && pinfo.Uses[kid] == fv {
									set = true
									stores++
									if !p.prove(unit, kv.Value, flattenPos(kv.Value), depth-1) {
										p.note("%s.%s: value stored at %s not proved positive", owner.Obj().Name(), fv.Name(), p.c.P.Pos(kv.Pos()))
										okAll = false
									}
								}
							} else if i < st.NumFields() && st.Field(i) == fv {
								set = true
								stores++
								if !p.prove(unit, el, flattenPos(el), depth-1) {
									okAll = false
								}
							}
						}
						if !set {
							p.note("%s.%s: the literal at %s leaves the field zero", owner.Obj().Name(), fv.Name(), p.c.P.Pos(x.Pos()))
							okAll = false
						}
					case *ast.AssignStmt:
						for i, l := range x.Lhs {
							sel, ok := ast.Unparen(l).(*ast.SelectorExpr)
							if !ok {
								continue
							}
							if s, ok := pinfo.Selections[sel]; ok && s.Obj() == fv {
								stores++
								if len(x.Lhs) != len(x.Rhs) || x.Tok != token.ASSIGN {
									p.note("%s.%s: stored by a compound/multi-value assignment at %s", owner.Obj().Name(), fv.Name(), p.c.P.Pos(x.Pos()))
									okAll = false
								} else if !p.prove(unit, x.Rhs[i], flattenPos(x.Rhs[i]), depth-1) {
									p.note("%s.%s: value stored at %s not proved positive", owner.Obj().Name(), fv.Name(), p.c.P.Pos(x.Pos()))
									okAll = false
								}
							}
						}
					case *ast.CallExpr:
						if core.IsBuiltin(pinfo, x, "new") && len(x.Args) == 1 {
							if st, ok := pinfo.TypeOf(x.Args[0]).Underlying().(*types.Struct); ok {
								for i := 0; i < st.NumFields(); i++ {
									if st.Field(i) == fv {
										p.note("%s.%s: new(%s) at %s leaves the field zero", owner.Obj().Name(), fv.Name(), owner.Obj().Name(), p.c.P.Pos(x.Pos()))
										okAll = false
									}
								}
							}
						}
					}
					return true
				})
				if !okAll {
					return false
				}
			}
		}
	}
	if stores == 0 {
		p.note("%s.%s is never stored", owner.Obj().Name(), fv.Name())
		return false
	}
	return true
}

// posConstruct names the duration expression without the names of locals, receivers and parameters.
func posConstruct(info *types.Info, e posExpr) string {
	s := ""
	switch r := e.root.(type) {
	case *ast.Ident:
		if len(e.fields) == 0 {
			if tv, ok := info.Types[r]; ok && tv.Value != nil {
				return "const"
			}
			return "local"
		}
	case *ast.CallExpr:
		if f := core.Callee(info, r); f != nil {
			s = "call:" + f.Name()
		} else {
			s = "call"
		}
	case *ast.SelectorExpr, *ast.BasicLit, *ast.BinaryExpr:
		if tv, ok := info.Types[e.root]; ok && tv.Value != nil {
			return "const"
		}
		s = "expr"
	default:
		s = "expr"
	}
	for _, f := range e.fields {
		s += "." + f
	}
	return s
}

// packages whose tickers take their duration from scripts, handler options or peers
var c05TickerScope = map[string]string{
	"":               "task nodes: durations are TICKscript properties",
	"services/alert": "alert handlers: durations are handler options (API, topic handler files)",
}

// sites with a reasoned exception
var c05TickerDerived = map[string]string{
	"timeTicker.Start#call:Sub": "next = now.Truncate(every).Add(every) is later than now whenever every > 0, which the sibling site t.every proves",
}

func c05Ticker(c *core.Ctx) {
	c.Rule("C05.ticker", "A10 (guard provenance through the call graph): the duration of every time.NewTicker/time.Tick of the task-running packages is proved positive — a positive constant, a dominating test in the function, the same at every call site for parameters and receiver fields, or positive at every store for struct fields; a non-positive duration panics on a goroutine nothing recovers")
	pp := newPosProver(c)
	n := 0
	seenCons := map[string]int{}
	for _, pkg := range c.P.ModPkgs {
		rel := strings.TrimPrefix(strings.TrimPrefix(pkg.PkgPath, core.Module), "/")
		if _, ok := c05TickerScope[rel]; !ok {
			continue
		}
		info := pkg.TypesInfo
		var fds []*ast.FuncDecl
		for _, file := range pkg.Syntax {
			for _, d := range file.Decls {
				if fd, ok := d.(*ast.FuncDecl); ok && fd.Body != nil {
					fds = append(fds, fd)
				}
			}
		}
		sort.Slice(fds, func(i, j int) bool { return fds[i].Pos() < fds[j].Pos() })
		for _, fd := range fds {
			fname := fd.Name.Name
			if r := core.RecvName(fd); r != "" {
				fname = r + "." + fname
			}
			ast.Inspect(fd.Body, func(nd ast.Node) bool {
				call, ok := nd.(*ast.CallExpr)
				if !ok || len(call.Args) != 1 {
					return true
				}
				callee := core.Callee(info, call)
				if callee == nil || callee.Pkg() == nil || callee.Pkg().Path() != "time" || (callee.Name() != "NewTicker" && callee.Name() != "Tick") {
					return true
				}
				n++
				c.AnalysedName(fname)
				e := flattenPos(call.Args[0])
				cons := fname + "#" + posConstruct(info, e)
				seenCons[cons]++
				if k := seenCons[cons]; k > 1 {
					cons += fmt.Sprintf("#%d", k)
				}
				if why, ok := c05TickerDerived[cons]; ok {
					c.Ok("C05.ticker", cons, "derived: "+why)
					return true
				}
				pp.trail = nil
				if pp.prove(posUnit{pkg, fd}, call, e, 5) {
					c.Ok("C05.ticker", cons)
				} else {
					c.Fail("C05.ticker", cons, call.Pos(), "time.%s(%s) in %s: the duration is not proved positive (%s). time.%s panics on a duration <= 0; here it runs on a goroutine that nothing recovers or fails the task: a script or handler option with a zero or negative duration ends the process", callee.Name(), e.text(), fname, strings.Join(pp.trail, "; "), callee.Name())
				}
				return true
			})
		}
	}
	c.Floor("C05.ticker", "ticker sites in the task-running packages", n, 9)
}

// c05ArgFlow: the other operations that panic on an argument a script can set. Sinks in the task-running packages: the size
// arguments of make (must not be negative), integer divisors (must not be zero), strings.Repeat counts and rand.Intn bounds.
// The same backward proof as C05.ticker is attempted; a sink is reported only when the search met a field of a pipeline node
// on the way (the value derives from a TICKscript property) and found no proof — internal counters are not in scope.
func c05ArgFlow(c *core.Ctx) {
	c.Rule("C05.argflow", "A10 (guard provenance, reported only for values traced to a pipeline property): make sizes are not negative, integer divisors not zero, strings.Repeat counts not negative and rand.Intn bounds positive wherever the value derives from a field of a pipeline node — a constant, a dominating test, the same at every call site / every store")
	pp := newPosProver(c)
	nSinks, nScript := 0, 0
	seenCons := map[string]int{}
	for _, pkg := range c.P.ModPkgs {
		rel := strings.TrimPrefix(strings.TrimPrefix(pkg.PkgPath, core.Module), "/")
		if _, ok := c05TickerScope[rel]; !ok {
			continue
		}
		info := pkg.TypesInfo
		var fds []*ast.FuncDecl
		for _, file := range pkg.Syntax {
			for _, d := range file.Decls {
				if fd, ok := d.(*ast.FuncDecl); ok && fd.Body != nil {
					fds = append(fds, fd)
				}
			}
		}
		sort.Slice(fds, func(i, j int) bool { return fds[i].Pos() < fds[j].Pos() })
		for _, fd := range fds {
			fname := fd.Name.Name
			if r := core.RecvName(fd); r != "" {
				fname = r + "." + fname
			}
			type sink struct {
				x       ast.Expr
				site    ast.Node
				lo      int64
				nonzero bool
				what    string
			}
			var sinks []sink
			ast.Inspect(fd.Body, func(nd ast.Node) bool {
				switch x := nd.(type) {
				case *ast.CallExpr:
					if core.IsBuiltin(info, x, "make") && len(x.Args) > 1 {
						if _, isMap := info.TypeOf(x.Args[0]).Underlying().(*types.Map); isMap {
							return true // a negative size hint of a map is ignored by the runtime
						}
						for _, a := range x.Args[1:] {
							sinks = append(sinks, sink{a, x, 0, false, "the size of make"})
						}
					}
					if cal := core.Callee(info, x); cal != nil && cal.Pkg() != nil {
						switch {
						case cal.Pkg().Path() == "strings" && cal.Name() == "Repeat" && len(x.Args) == 2:
							sinks = append(sinks, sink{x.Args[1], x, 0, false, "the count of strings.Repeat"})
						case (cal.Pkg().Path() == "math/rand" || cal.Pkg().Path() == "math/rand/v2") && (cal.Name() == "Intn" || cal.Name() == "Int63n" || cal.Name() == "Int31n") && len(x.Args) == 1:
							sinks = append(sinks, sink{x.Args[0], x, 1, false, "the bound of rand." + cal.Name()})
						}
					}
				case *ast.BinaryExpr:
					if x.Op == token.QUO || x.Op == token.REM {
						if b, ok := info.TypeOf(x.Y).Underlying().(*types.Basic); ok && b.Info()&types.IsInteger != 0 {
							sinks = append(sinks, sink{x.Y, x, 1, true, "the divisor of an integer " + x.Op.String()})
						}
					}
				}
				return true
			})
			for _, sk := range sinks {
				if tv, ok := info.Types[sk.x]; ok && tv.Value != nil {
					continue // constants are the compiler's business
				}
				nSinks++
				e := flattenPos(sk.x)
				pp.trail, pp.sawPipeline, pp.lo, pp.nonzero = nil, false, sk.lo, sk.nonzero
				proved := pp.prove(posUnit{pkg, fd}, sk.site, e, 5)
				if !pp.sawPipeline {
					continue // not traced to a script property
				}
				nScript++
				c.AnalysedName(fname)
				cons := fname + "#" + posConstruct(info, e)
				seenCons[cons]++
				if k := seenCons[cons]; k > 1 {
					cons += fmt.Sprintf("#%d", k)
				}
				if ex, ok := c05ArgFlowExempt[cons]; ok && !proved {
					if good, why := ex.verify(c); good {
						c.Ok("C05.argflow", cons, "reviewed exception: "+ex.reason)
						continue
					} else {
						pp.trail = append(pp.trail, "the reviewed exception no longer holds: "+why)
					}
				}
				if proved {
					c.Ok("C05.argflow", cons)
				} else {
					need := map[bool]string{true: "not zero", false: map[int64]string{0: "not negative", 1: "positive"}[sk.lo]}[sk.nonzero]
					c.Fail("C05.argflow", cons, sk.x.Pos(), "%s in %s is %s, which derives from a property of a pipeline node and is not proved %s (%s): a script that sets the property to such a value is accepted and the task dies with a run-time panic — at its first point, or takes the process with it when the goroutine is not the node's", sk.what, fname, e.text(), need, strings.Join(pp.trail, "; "))
				}
			}
		}
	}
	pp.lo, pp.nonzero = 1, false
	c.Note("C05.argflow: %d non-constant sinks in the task-running packages, %d traced to a pipeline property", nSinks, nScript)
	c.Floor("C05.argflow", "non-constant sinks examined", nSinks, 20)
}

// constructorEstablishes: the field fv of the pipeline node type owner is given its bound by every runtime constructor of the
// node — a function of a task-running package that takes a *owner parameter and stores it into the runtime node it returns:
// on every path to a return that hands out the node (a non-nil first result), a test of <param>.<field> that implies the bound
// has been passed or the field has been clamped to a sufficient constant, and nothing in the task-running packages stores the
// field anywhere else. The runtime node only exists behind its constructor, so its readers may rely on the bound.
func (p *posProver) constructorEstablishes(owner *types.Named, fv *types.Var) bool {
	ctors := 0
	for _, pkg := range p.pkgs {
		rel := strings.TrimPrefix(strings.TrimPrefix(pkg.PkgPath, core.Module), "/")
		if _, ok := c05TickerScope[rel]; !ok {
			continue
		}
		info := pkg.TypesInfo
		for _, file := range pkg.Syntax {
			for _, d := range file.Decls {
				fd, ok := d.(*ast.FuncDecl)
				if !ok || fd.Body == nil || fd.Type.Params == nil {
					continue
				}
				// the *owner parameter
				param := ""
				for _, fl := range fd.Type.Params.List {
					if pt, ok := info.TypeOf(fl.Type).(*types.Pointer); ok && core.NamedOf(pt.Elem()) == owner && len(fl.Names) == 1 {
						param = fl.Names[0].Name
					}
				}
				isCtor := false
				if param != "" {
					// stores the parameter into a composite literal (the runtime node) and returns (x, error)
					ast.Inspect(fd.Body, func(n ast.Node) bool {
						if kv, ok := n.(*ast.KeyValueExpr); ok {
							if id, ok := ast.Unparen(kv.Value).(*ast.Ident); ok && id.Name == param {
								isCtor = true
							}
						}
						return true
					})
				}
				// any other store to the field in these packages breaks the argument
				otherStore := false
				ast.Inspect(fd.Body, func(n ast.Node) bool {
					if as, ok := n.(*ast.AssignStmt); ok {
						for _, l := range as.Lhs {
							if sel, ok := ast.Unparen(l).(*ast.SelectorExpr); ok {
								if sl, ok := info.Selections[sel]; ok && sl.Obj() == fv && !(isCtor && types.ExprString(sel.X) == param) {
									otherStore = true
								}
							}
						}
					}
					return true
				})
				if otherStore {
					p.note("%s.%s is stored outside its runtime constructor (%s)", owner.Obj().Name(), fv.Name(), fd.Name.Name)
					return false
				}
				if !isCtor {
					continue
				}
				ctors++
				text := param + "." + fv.Name()
				implies := func(cond ast.Expr, br bool) bool {
					return impliesBound(info, cond, br, text, p.lo, false) || (p.nonzero && impliesNonZero(info, cond, br, text))
				}
				est := func(n ast.Node) bool {
					as, ok := n.(*ast.AssignStmt)
					if !ok || len(as.Lhs) != 1 || len(as.Rhs) != 1 || as.Tok != token.ASSIGN || types.ExprString(ast.Unparen(as.Lhs[0])) != text {
						return false
					}
					tv, ok := info.Types[as.Rhs[0]]
					if !ok || tv.Value == nil {
						return false
					}
					v := constant.ToInt(tv.Value)
					return v.Kind() == constant.Int && constant.Compare(v, token.GEQ, constant.MakeInt64(p.lo))
				}
				// every return that hands out a node
				good, handsOut := true, 0
				ast.Inspect(fd.Body, func(n ast.Node) bool {
					if _, ok := n.(*ast.FuncLit); ok {
						return false
					}
					ret, ok := n.(*ast.ReturnStmt)
					if !ok {
						return true
					}
					if len(ret.Results) == 0 {
						// a bare return of a function with named results hands out whatever the results hold
						if fd.Type.Results == nil || len(fd.Type.Results.List) == 0 || len(fd.Type.Results.List[0].Names) == 0 {
							return true
						}
					} else if types.ExprString(ret.Results[0]) == "nil" {
						return true
					}
					handsOut++
					if !guardedByEst(fd.Body, ret, text, implies, est) {
						good = false
					}
					return true
				})
				if !good || handsOut == 0 {
					p.note("%s.%s: the runtime constructor %s hands out the node on a path that has neither tested nor clamped the field", owner.Obj().Name(), fv.Name(), fd.Name.Name)
					return false
				}
			}
		}
	}
	if ctors == 0 {
		return false
	}
	return true
}

// reviewed exceptions of C05.argflow: a relational argument the prover does not make, with the structure it rests on verified
var c05ArgFlowExempt = map[string]c07Exempt{
	"SampleNode.shouldKeep#.s.N": {
		reason: "the division stands in the else branch of `duration != 0`; duration is copied from the pipeline node's Duration once, in the constructor, and the constructor refuses Duration == 0 && N == 0: where the division runs, N is not zero",
		verify: func(c *core.Ctx) (bool, string) {
			root := c.P.Pkg("")
			if root == nil {
				return false, "root package not loaded"
			}
			info := root.TypesInfo
			keep := c.P.FindFunc("", "SampleNode", "shouldKeep")
			ctor := c.P.FindFunc("", "", "newSampleNode")
			if keep == nil || ctor == nil {
				return false, "shouldKeep or newSampleNode not found"
			}
			// (a) every integer division of shouldKeep is in the else branch of an if whose condition is <recv>.duration != 0
			okA, nDiv := true, 0
			var walk func(n ast.Node, inElse bool)
			walk = func(n ast.Node, inElse bool) {
				ast.Inspect(n, func(m ast.Node) bool {
					switch x := m.(type) {
					case *ast.IfStmt:
						isDur := false
						if b, ok := x.Cond.(*ast.BinaryExpr); ok && b.Op == token.NEQ && an.FieldSel(info, b.X, "SampleNode", "duration") && types.ExprString(b.Y) == "0" {
							isDur = true
						}
						walk(x.Body, inElse)
						if x.Else != nil {
							walk(x.Else, inElse || isDur)
						}
						return false
					case *ast.BinaryExpr:
						if x.Op == token.REM || x.Op == token.QUO {
							if bt, ok := info.TypeOf(x.Y).Underlying().(*types.Basic); ok && bt.Info()&types.IsInteger != 0 {
								nDiv++
								if !inElse {
									okA = false
								}
							}
						}
					}
					return true
				})
			}
			walk(keep.Decl.Body, false)
			if !okA || nDiv == 0 {
				return false, "a division of shouldKeep is not in the else branch of `duration != 0`"
			}
			// (b) SampleNode.duration is stored once, from <param>.Duration
			stores, fromDur := 0, false
			for _, f := range core.AllFuncs(root) {
				ast.Inspect(f.Decl.Body, func(n ast.Node) bool {
					switch x := n.(type) {
					case *ast.KeyValueExpr:
						if k, ok := x.Key.(*ast.Ident); ok && k.Name == "duration" {
							if cl := core.NamedOf(info.TypeOf(x.Value)); cl != nil || true {
								if nt, ok := info.Uses[k].(*types.Var); ok && nt.IsField() && nt.Name() == "duration" {
									stores++
									if strings.HasSuffix(types.ExprString(x.Value), ".Duration") {
										fromDur = true
									}
								}
							}
						}
					case *ast.AssignStmt:
						for _, l := range x.Lhs {
							if an.FieldSel(info, l, "SampleNode", "duration") {
								stores++
							}
						}
					}
					return true
				})
			}
			if stores != 1 || !fromDur {
				return false, "SampleNode.duration is not stored exactly once from the pipeline node's Duration"
			}
			// (c) the constructor refuses Duration == 0 && N == 0
			okC := false
			ast.Inspect(ctor.Decl.Body, func(n ast.Node) bool {
				is, ok := n.(*ast.IfStmt)
				if !ok {
					return true
				}
				b, ok := is.Cond.(*ast.BinaryExpr)
				if !ok || b.Op != token.LAND {
					return true
				}
				zero := func(e ast.Expr, f string) bool {
					c, ok := ast.Unparen(e).(*ast.BinaryExpr)
					return ok && c.Op == token.EQL && strings.HasSuffix(types.ExprString(c.X), "."+f) && types.ExprString(c.Y) == "0"
				}
				if !((zero(b.X, "Duration") && zero(b.Y, "N")) || (zero(b.X, "N") && zero(b.Y, "Duration"))) {
					return true
				}
				for _, st := range is.Body.List {
					if ret, ok := st.(*ast.ReturnStmt); ok && len(ret.Results) == 2 && types.ExprString(ret.Results[1]) != "nil" {
						okC = true
					}
				}
				return true
			})
			if !okC {
				return false, "newSampleNode no longer refuses Duration == 0 && N == 0"
			}
			return true, ""
		},
	},
}
