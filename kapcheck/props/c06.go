package props

import (
	"go/ast"
	"go/constant"
	"go/token"
	"go/types"
	"sort"
	"strings"

	"golang.org/x/tools/go/packages"

	"kapcheck/an"
	"kapcheck/core"
)

func init() {
	register(&Property{
		ID:       "C06",
		Patterns: []string{"."},
		Run:      runC06,
		Explanation: "Group independence as structure: (1) a node-level stateful expression is never evaluated or handed to a group as is — every use outside construction is a CopyReset() for the group (today AlertNode violates this: known finding F13); " +
			"(2) CopyReset hands out fresh function state; (3) the grouped consumer creates exactly one receiver per group id, stores it under the id it looked up and dispatches each message to the receiver of that message's own group; " +
			"(4) the group id is built from the name iff grouping by name and from name and value of every dimension, and must be injective (it is not: known finding F14); Dimensions.Equal — the guard of the cached group id — compares every field; " +
			"(5) node-level caches reachable from group callbacks are guarded by their key (InfluxQLNode.createFn by the field kind); (6) every NewGroup returns a receiver built from a fresh allocation. " +
			"NOT decided: the two-run relation itself (output for g with/without other groups), computeTagNames semantics.",
		Assumptions: []string{"group receivers are only created through GroupedReceiver.NewGroup (checked for the grouped consumer)", "node configuration fields are not mutated after construction"},
	})
}

func runC06(c *core.Ctx) {
	c.Rule("C06.exprs", "A6: a field of a grouped node that holds stateful.Expression values is used, outside assignments that initialise it, only as the receiver of CopyReset() (directly or through a range variable), in len() or in a nil test — never evaluated or passed on")
	c.Rule("C06.consumer", "A1/A3: groupedConsumer.getOrCreateGroup calls NewGroup only on a map miss, stores the new receiver under the id it looked up and returns it; Point/BeginBatch/BufferedBatch/Barrier dispatch a message to the receiver obtained for that message's own GroupInfo(); BatchPoint/EndBatch use the receiver chosen by BeginBatch and EndBatch clears it")
	c.Rule("C06.groupid", "A2/A12: ToGroupID writes the name iff ByName and, for every element of dims.TagNames (no early exit, nothing conditional), the tag name and the tag value; dynamic strings written between constant delimiters must be escaped or length-prefixed (injectivity)")
	c.Rule("C06.dimsequal", "A7: Dimensions.Equal, which decides whether the cached group id of a message is recomputed, compares every field of Dimensions on both operands")
	c.Rule("C06.cache", "A1: InfluxQLNode.getCreateFn returns the node-level cached constructor only when the field kind is unchanged and a constructor is cached; otherwise it determines the constructor for the new kind and stores kind and constructor together, only when one was found (F50: a rejected kind leaves the cache unchanged)")
	c.Rule("C06.fresh", "A3: every NewGroup builds its receiver from a composite literal / constructor call made in that call (never returns a value kept in a node field)")
	ruleCopyReset(c, "C06.copyreset")
	c.Rule("C06.exprcopy", "A6: F114: when an evaluator type keeps an ExecutionState of its own inside the evaluator tree (EvalLambdaNode), expression.CopyReset and Reset build the tree anew from the node instead of sharing it between the per-group copies")
	c06ExprCopy(c, "C06.exprcopy")
	if r := c.P.Pkg(""); r != nil {
		c06RowIndex(c, r)
	}

	root := c.P.Pkg("")
	edge := c.P.Pkg("edge")
	models := c.P.Pkg("models")
	if root == nil || edge == nil || models == nil {
		c.Undecided("C06.exprs", "anchor:packages", token.NoPos, "root/edge/models not loaded")
		return
	}
	c06Exprs(c, root)
	// neighbours' rules that are necessary conditions of this property too (round 5)
	c.Rule("C06.dims", "A4 (= C10.dims): the group a point belongs to is computed from the grouping node's own dimension list, shared by every point: a slice obtained from a message's Dimensions()/TagNames is not filtered or appended to in place (x[:0], append(x[:i]…))")
	c.As("C10.dims", "C06.dims", func() { c10Dims(c, []*packages.Package{root}) })
	c.Rule("C06.buffer", "A4 (= C12.buffer): one BatchBuffer serves all groups of a parent: BatchBuffer.BeginBatch replaces its point slice by a fresh make(...) on every path and copies the begin message — a batch of one group held downstream must not be overwritten by the next group's points")
	c.As("C12.buffer", "C06.buffer", func() { c12Buffer(c, edge) })
	ruleDerivedGroupID(c, edge, "C06.derivedid")
	c06Consumer(c, edge)
	c06GroupID(c, models)
	c06DimsEqual(c, models)
	c06Cache(c, root)
	c06Fresh(c, root)
}

func isExprType(t types.Type) bool {
	switch u := t.(type) {
	case *types.Slice:
		return isExprType(u.Elem())
	case *types.Array:
		return isExprType(u.Elem())
	case *types.Map:
		return isExprType(u.Elem())
	case *types.Pointer:
		return isExprType(u.Elem())
	}
	n := core.NamedOf(t)
	return n != nil && n.Obj().Name() == "Expression" && n.Obj().Pkg() != nil && strings.HasSuffix(n.Obj().Pkg().Path(), "tick/stateful")
}

func c06Exprs(c *core.Ctx, root *packages.Package) {
	info := root.TypesInfo
	// grouped node types: named struct types with a NewGroup method
	grouped := map[*types.Named]bool{}
	sc := root.Types.Scope()
	for _, n := range sc.Names() {
		tn, ok := sc.Lookup(n).(*types.TypeName)
		if !ok {
			continue
		}
		nt, ok := tn.Type().(*types.Named)
		if !ok {
			continue
		}
		if hasMethod(nt, "NewGroup") {
			grouped[nt] = true
		}
	}
	c.Floor("C06.exprs", "grouped node types", len(grouped), 12)
	// their expression-holding fields
	fields := map[*types.Var]string{}
	for nt := range grouped {
		st, ok := nt.Underlying().(*types.Struct)
		if !ok {
			continue
		}
		for i := 0; i < st.NumFields(); i++ {
			if f := st.Field(i); isExprType(f.Type()) {
				fields[f] = nt.Obj().Name() + "." + f.Name()
			}
		}
	}
	c.Floor("C06.exprs", "node-level expression fields", len(fields), 6)
	type use struct {
		fn  string
		pos token.Pos
		why string
	}
	bad := map[string][]use{}
	nUses := 0
	for _, f := range core.AllFuncs(root) {
		// parents: build a parent map for this function
		parents := map[ast.Node]ast.Node{}
		var stack []ast.Node
		ast.Inspect(f.Decl, func(n ast.Node) bool {
			if n == nil {
				stack = stack[:len(stack)-1]
				return true
			}
			if len(stack) > 0 {
				parents[n] = stack[len(stack)-1]
			}
			stack = append(stack, n)
			return true
		})
		// range variables bound to elements of an expression field
		rangeVars := map[types.Object]string{}
		ast.Inspect(f.Decl.Body, func(n ast.Node) bool {
			rs, ok := n.(*ast.RangeStmt)
			if !ok {
				return true
			}
			if sel, ok := ast.Unparen(rs.X).(*ast.SelectorExpr); ok {
				if s, ok := info.Selections[sel]; ok && s.Kind() == types.FieldVal {
					if name, ok := fields[s.Obj().(*types.Var)]; ok {
						if id, ok := rs.Value.(*ast.Ident); ok && id.Name != "_" {
							rangeVars[info.Defs[id]] = name
						}
					}
				}
			}
			return true
		})
		classify := func(x ast.Expr, name string) {
			// x denotes (an element of) a node-level expression; decide by context
			var cur ast.Node = x
			for {
				p := parents[cur]
				switch pp := p.(type) {
				case *ast.ParenExpr:
					cur = pp
					continue
				case *ast.IndexExpr:
					if pp.X == cur {
						cur = pp
						continue
					}
				}
				break
			}
			p := parents[cur]
			nUses++
			switch pp := p.(type) {
			case *ast.SelectorExpr:
				if pp.X == cur && pp.Sel.Name == "CopyReset" {
					return
				}
			case *ast.AssignStmt:
				for _, l := range pp.Lhs {
					if l == cur {
						return // initialisation / assignment of the field
					}
				}
			case *ast.RangeStmt:
				if pp.X == cur {
					return // handled through the range variable
				}
			case *ast.CallExpr:
				if core.IsBuiltin(info, pp, "len") || core.IsBuiltin(info, pp, "make") || core.IsBuiltin(info, pp, "cap") {
					return
				}
				// handed to a helper that only copies: every element of that parameter is used through CopyReset()
				if g := core.Callee(info, pp); g != nil && g.Pkg() == root.Types {
					for i, a := range pp.Args {
						if a == cur && c06CopyOnlyParam(c, info, g, i) {
							return
						}
					}
				}
			case *ast.BinaryExpr:
				other := pp.X
				if other == cur {
					other = pp.Y
				}
				if (pp.Op == token.EQL || pp.Op == token.NEQ) && an.IsNil(info, other) {
					return
				}
			case *ast.KeyValueExpr:
				// composite literal of the node itself (construction)
				if pp.Value == cur {
					if cl, ok := parents[pp].(*ast.CompositeLit); ok {
						if nt := core.NamedOf(info.Types[cl].Type); nt != nil && grouped[nt] {
							return
						}
					}
				}
			}
			bad[name+"@"+f.Decl.Name.Name] = append(bad[name+"@"+f.Decl.Name.Name], use{f.Name(), x.Pos(), "used without CopyReset()"})
		}
		ast.Inspect(f.Decl.Body, func(n ast.Node) bool {
			switch x := n.(type) {
			case *ast.SelectorExpr:
				if s, ok := info.Selections[x]; ok && s.Kind() == types.FieldVal {
					if name, ok := fields[s.Obj().(*types.Var)]; ok {
						classify(x, name)
					}
				}
			case *ast.Ident:
				if name, ok := rangeVars[info.Uses[x]]; ok {
					classify(x, name)
				}
			}
			return true
		})
	}
	c.Sites(nUses)
	for _, name := range sortedVals(fields) {
		hit := false
		for k, us := range bad {
			if strings.HasPrefix(k, name+"@") {
				hit = true
				c.Fail("C06.exprs", k, us[0].pos, "the node-level expression %s is %s in %s (%d use(s)): stateful functions in it (sigma, count, spread…) accumulate over all groups", name, us[0].why, us[0].fn, len(us))
			}
		}
		if !hit {
			c.Ok("C06.exprs", name)
		}
	}
}

// c06CopyOnlyParam: the i-th parameter of g (a slice of expressions) is only measured, ranged over, and its elements
// only compared with nil or copied with CopyReset().
func c06CopyOnlyParam(c *core.Ctx, info *types.Info, g *types.Func, i int) bool {
	d := declOfFunc(c.P, g)
	if d == nil || d.Decl.Body == nil {
		return false
	}
	sig := g.Type().(*types.Signature)
	if i >= sig.Params().Len() {
		return false
	}
	param := sig.Params().At(i)
	parents := parentMap(d.Decl.Body)
	elems := map[types.Object]bool{}
	ok := true
	copies := false
	ast.Inspect(d.Decl.Body, func(n ast.Node) bool {
		if rs, isRange := n.(*ast.RangeStmt); isRange {
			if id, isID := ast.Unparen(rs.X).(*ast.Ident); isID && info.Uses[id] == param {
				if v, isV := rs.Value.(*ast.Ident); isV && v.Name != "_" {
					elems[info.Defs[v]] = true
				}
			}
		}
		return true
	})
	ast.Inspect(d.Decl.Body, func(n ast.Node) bool {
		id, isID := n.(*ast.Ident)
		if !isID {
			return true
		}
		obj := info.Uses[id]
		switch {
		case obj == param:
			switch pp := parents[id].(type) {
			case *ast.RangeStmt:
				if pp.X != ast.Expr(id) {
					ok = false
				}
			case *ast.CallExpr:
				if !core.IsBuiltin(info, pp, "len") && !core.IsBuiltin(info, pp, "cap") {
					ok = false
				}
			default:
				ok = false
			}
		case elems[obj]:
			switch pp := parents[id].(type) {
			case *ast.SelectorExpr:
				if pp.Sel.Name == "CopyReset" {
					copies = true
				} else {
					ok = false
				}
			case *ast.BinaryExpr:
				if !(pp.Op == token.EQL || pp.Op == token.NEQ) {
					ok = false
				}
			default:
				ok = false
			}
		}
		return true
	})
	return ok && copies
}

func sortedVals(m map[*types.Var]string) []string {
	var out []string
	for _, v := range m {
		out = append(out, v)
	}
	sort.Strings(out)
	return out
}

func c06Consumer(c *core.Ctx, edge *packages.Package) {
	info := edge.TypesInfo
	if fn := c.Need("C06.consumer", "edge", "groupedConsumer", "getOrCreateGroup"); fn != nil {
		g, first := an.ParamName(fn.Decl.Type, 0), an.ParamName(fn.Decl.Type, 1)
		eng := &an.Engine{Prog: c.P,
			TrackCall: func(call *ast.CallExpr, callee *types.Func) string {
				if callee != nil && callee.Name() == "NewGroup" {
					return "NewGroup"
				}
				return ""
			},
			TrackStore: func(lhs ast.Expr, key string) string {
				if ix, ok := ast.Unparen(lhs).(*ast.IndexExpr); ok && an.FieldSel(info, ix.X, "groupedConsumer", "groups") {
					return "put"
				}
				return ""
			},
			Classify: func(a an.Atom) (string, bool) {
				if strings.HasSuffix(a.Key, ".groups["+g+".ID].1") {
					return "hit", false
				}
				if k, ok := an.ErrNilAtom(info, a); ok && an.CallResultOf(k, "NewGroup", 1) {
					return "err", true
				}
				return "", false
			}}
		paths, err := eng.Run(fn)
		if err != nil {
			c.Undecided("C06.consumer", "groupedConsumer.getOrCreateGroup", fn.Decl.Pos(), "%v", err)
		}
		an.CheckTable(c, "C06.consumer", "groupedConsumer.getOrCreateGroup", paths, an.Table{Atoms: []string{"hit", "err"},
			Outcome: func(p *an.Path) string {
				var s []string
				for _, e := range p.Events {
					switch e.Name {
					case "NewGroup":
						a := "NewGroup"
						if len(e.Args) != 2 || e.Args[0] != g || e.Args[1] != first {
							a += "(wrong args)"
						}
						s = append(s, a)
					case "put":
						a := "put"
						if !strings.HasSuffix(e.Recv, ".groups["+g+".ID]") {
							a += "(other key " + e.Recv + ")"
						}
						if !an.CallResultOf(e.Args[0], "NewGroup", 0) {
							a += "(other value)"
						}
						s = append(s, a)
					}
				}
				r := "?"
				if len(p.Rets) == 2 {
					switch {
					case p.Rets[0] == "nil":
						r = "err"
					case an.CallResultOf(p.Rets[0], "NewGroup", 0):
						r = "new"
					case strings.HasSuffix(p.Rets[0], ".groups["+g+".ID].0"):
						r = "existing"
					default:
						r = p.Rets[0]
					}
				}
				return strings.Join(append(s, "→"+r), ",")
			},
			Expect: func(a map[string]bool) string {
				switch {
				case a["hit"]:
					return "→existing"
				case a["err"]:
					return "NewGroup,→err"
				}
				return "NewGroup,put,→new"
			}})
	}
	// dispatch of each message kind
	for _, m := range []struct{ name, method string }{{"Point", "Point"}, {"BeginBatch", "BeginBatch"}, {"Barrier", "Barrier"}, {"BufferedBatch", "receiveBufferedBatch"}} {
		fn := c.Need("C06.consumer", "edge", "groupedConsumer", m.name)
		if fn == nil {
			continue
		}
		msg := an.ParamName(fn.Decl.Type, 0)
		eng := &an.Engine{Prog: c.P,
			TrackCall: func(call *ast.CallExpr, callee *types.Func) string {
				if callee == nil {
					return ""
				}
				if callee.Name() == "getOrCreateGroup" || callee.Name() == m.method {
					return callee.Name()
				}
				return ""
			},
			TrackStore: func(lhs ast.Expr, key string) string {
				if an.FieldSel(info, lhs, "groupedConsumer", "current") {
					return "current"
				}
				return ""
			},
			Classify: func(a an.Atom) (string, bool) {
				if k, ok := an.ErrNilAtom(info, a); ok && an.CallResultOf(k, "getOrCreateGroup", 1) {
					return "err", true
				}
				return "", false
			}}
		paths, err := eng.Run(fn)
		if err != nil {
			c.Undecided("C06.consumer", "groupedConsumer."+m.name, fn.Decl.Pos(), "%v", err)
			continue
		}
		good := len(paths) > 0
		delivered := 0
		for _, p := range paths {
			goc := p.Find("getOrCreateGroup")
			if goc == nil {
				good = false
				c.Fail("C06.consumer", "groupedConsumer."+m.name+"#lookup", p.RetPos, "message handled without looking its group up")
				continue
			}
			// the group info is the message's own (or its Begin()'s)
			gi := goc.Args[0]
			own := gi == msg+".GroupInfo()" || gi == msg+".Begin().GroupInfo()"
			if !own {
				good = false
				c.Fail("C06.consumer", "groupedConsumer."+m.name+"#own-group", goc.Pos, "the receiver is looked up with %s, not with the message's own GroupInfo()", gi)
			}
			if d := p.Find(m.method); d != nil && p.Index(m.method) > p.Index("getOrCreateGroup") {
				delivered++
				recvOK := an.CallResultOf(d.Recv, "getOrCreateGroup", 0) || (len(d.Args) == 2 && an.CallResultOf(d.Args[0], "getOrCreateGroup", 0))
				msgOK := d.Args[len(d.Args)-1] == msg
				if a := p.Assign(); a["err"] || !recvOK || !msgOK {
					good = false
					c.Fail("C06.consumer", "groupedConsumer."+m.name+"#dispatch", d.Pos, "message %v is dispatched to %s on path [%s]; it must go to the receiver returned for its own group, and only when the lookup succeeded", d.Args, d.Recv, p.Cond())
				}
				if m.name == "BeginBatch" {
					cur := p.Find("current")
					if cur == nil || !an.CallResultOf(cur.Args[0], "getOrCreateGroup", 0) {
						good = false
						c.Fail("C06.consumer", "groupedConsumer.BeginBatch#current", d.Pos, "BeginBatch must remember the group's receiver for the batch points that follow")
					}
				}
			}
		}
		if delivered == 0 {
			good = false
			c.Fail("C06.consumer", "groupedConsumer."+m.name+"#dispatch", fn.Decl.Pos(), "no path delivers the message")
		}
		if good {
			c.Ok("C06.consumer", "groupedConsumer."+m.name)
		}
	}
	if fn := c.Need("C06.consumer", "edge", "groupedConsumer", "EndBatch"); fn != nil {
		eng := &an.Engine{Prog: c.P,
			TrackCall: func(call *ast.CallExpr, callee *types.Func) string {
				if callee != nil && callee.Name() == "EndBatch" {
					return "EndBatch"
				}
				return ""
			},
			TrackStore: func(lhs ast.Expr, key string) string {
				if an.FieldSel(info, lhs, "groupedConsumer", "current") {
					return "current"
				}
				return ""
			}}
		paths, _ := eng.Run(fn)
		good := len(paths) > 0
		for _, p := range paths {
			w := ""
			for _, e := range p.Events {
				if e.Name == "EndBatch" && strings.HasSuffix(e.Recv, ".current") {
					w += "end,"
				} else if e.Name == "current" && e.Args[0] == "nil" {
					w += "clear,"
				} else {
					w += e.Name + "?,"
				}
			}
			if w != "end,clear," {
				good = false
				c.Fail("C06.consumer", "groupedConsumer.EndBatch", p.RetPos, "EndBatch must go to the batch's receiver (c.current) and then clear it; does [%s]", w)
			}
		}
		if good {
			c.Ok("C06.consumer", "groupedConsumer.EndBatch")
		}
	}
	if fn := c.Need("C06.consumer", "edge", "groupedConsumer", "BatchPoint"); fn != nil {
		good := false
		ast.Inspect(fn.Decl.Body, func(n ast.Node) bool {
			if call, ok := n.(*ast.CallExpr); ok {
				if sel, ok := call.Fun.(*ast.SelectorExpr); ok && sel.Sel.Name == "BatchPoint" && an.FieldSel(info, sel.X, "groupedConsumer", "current") {
					good = true
				}
			}
			return true
		})
		c.Check(good, "C06.consumer", "groupedConsumer.BatchPoint", fn.Decl.Pos(), "batch points must go to the receiver selected by the preceding BeginBatch")
	}
}

func c06GroupID(c *core.Ctx, models *packages.Package) {
	info := models.TypesInfo
	fn := c.Need("C06.groupid", "models", "", "ToGroupID")
	if fn == nil {
		return
	}
	name, tags, dims := an.ParamName(fn.Decl.Type, 0), an.ParamName(fn.Decl.Type, 1), an.ParamName(fn.Decl.Type, 2)
	isWrite := func(callee *types.Func) bool {
		return callee != nil && (callee.Name() == "WriteString" || callee.Name() == "WriteRune" || callee.Name() == "WriteByte") && core.RecvTypeName(callee) == "Builder"
	}
	// F14: a helper of the package that writes one part with the delimiters escaped (verified below)
	escWriters := map[*types.Func]map[byte]bool{}
	for _, f := range core.AllFuncs(models) {
		if f.Decl.Recv == nil {
			if o, ok := info.Defs[f.Decl.Name].(*types.Func); ok {
				if set := c06EscapingWriter(info, f); set != nil {
					escWriters[o] = set
				}
			}
		}
	}
	eng := &an.Engine{Prog: c.P,
		TrackCall: func(call *ast.CallExpr, callee *types.Func) string {
			if isWrite(callee) {
				return callee.Name()
			}
			if callee != nil && escWriters[callee] != nil && len(call.Args) == 2 {
				return "WritePart"
			}
			return ""
		},
		Classify: func(a an.Atom) (string, bool) {
			switch {
			case a.Op == token.EQL && a.L == "len("+dims+".TagNames)" && a.R == "0":
				return "nodims", false
			case a.Key == dims+".ByName":
				return "byname", false
			}
			return "", false
		}}
	paths, err := eng.Run(fn)
	if err != nil {
		c.Undecided("C06.groupid", "ToGroupID", fn.Decl.Pos(), "%v", err)
		return
	}
	an.CheckTable(c, "C06.groupid", "ToGroupID", paths, an.Table{Atoms: []string{"nodims", "byname"},
		Outcome: func(p *an.Path) string {
			var s []string
			inLoop := false
			for _, e := range p.Events {
				switch {
				case e.Kind == "loop":
					inLoop = true
					s = append(s, "each{")
				case e.Kind == "endloop":
					inLoop = false
					s = append(s, "}")
				case e.Kind == "break" || e.Kind == "continue":
					s = append(s, e.Kind)
				case e.Name == "WriteString" || e.Name == "WritePart":
					a := e.Args[len(e.Args)-1]
					switch {
					case a == name:
						s = append(s, "name")
					case inLoop && strings.HasPrefix(a, tags+"["):
						s = append(s, "tagvalue")
					case inLoop && !strings.Contains(a, "["):
						s = append(s, "tagname")
					default:
						s = append(s, "str:"+a)
					}
				}
			}
			r := ""
			if len(p.Rets) == 1 {
				switch p.Rets[0] {
				case "models.GroupID(" + name + ")":
					r = "→name"
				case "models.NilGroup":
					r = "→nil"
				default:
					r = "→built"
				}
			}
			return strings.Join(s, ",") + r
		},
		Expect: func(a map[string]bool) string {
			switch {
			case a["nodims"] && a["byname"]:
				return "→name"
			case a["nodims"]:
				return "→nil"
			case a["byname"]:
				return "name,each{,tagname,tagvalue,}→built"
			}
			return "each{,tagname,tagvalue,}→built"
		}})
	// the tag name/value written in the loop are those of the loop's own element
	for _, p := range paths {
		var nm string
		for _, e := range p.Events {
			if e.Name != "WriteString" && e.Name != "WritePart" {
				continue
			}
			a := e.Args[len(e.Args)-1]
			if strings.HasPrefix(a, tags+"[") {
				c.Check(a == tags+"["+nm+"]", "C06.groupid", "ToGroupID#value-of-same-tag", e.Pos, "the value written is %s but the tag name written before it is %s", a, nm)
			} else if a != name {
				nm = a
			}
		}
	}
	// injectivity: dynamic strings between constant delimiters, none escaped
	dyn := 0
	escaped := 0
	var pos token.Pos
	// the delimiters ToGroupID writes between the parts inside its loop
	delims := map[byte]bool{}
	ast.Inspect(fn.Decl.Body, func(n ast.Node) bool {
		rs, ok := n.(*ast.RangeStmt)
		if !ok {
			return true
		}
		ast.Inspect(rs.Body, func(m ast.Node) bool {
			if call, ok := m.(*ast.CallExpr); ok && len(call.Args) == 1 {
				if f := core.Callee(info, call); isWrite(f) && (f.Name() == "WriteRune" || f.Name() == "WriteByte") {
					if tv, ok := info.Types[call.Args[0]]; ok && tv.Value != nil {
						if v, exact := constant.Int64Val(constant.ToInt(tv.Value)); exact && v < 256 {
							delims[byte(v)] = true
						}
					}
				}
			}
			return true
		})
		return true
	})
	ast.Inspect(fn.Decl.Body, func(n ast.Node) bool {
		call, ok := n.(*ast.CallExpr)
		if !ok {
			return true
		}
		f := core.Callee(info, call)
		if f != nil && escWriters[f] != nil && len(call.Args) == 2 {
			dyn++
			pos = call.Pos()
			all := true
			for d := range delims {
				if !escWriters[f][d] {
					all = false
				}
			}
			if all {
				escaped++
			}
			return true
		}
		if f == nil || f.Name() != "WriteString" || !isWrite(f) {
			return true
		}
		a := ast.Unparen(call.Args[0])
		if _, isLit := a.(*ast.BasicLit); isLit {
			return true
		}
		dyn++
		pos = call.Pos()
		if inner, ok := a.(*ast.CallExpr); ok {
			if g := core.Callee(info, inner); g != nil && (strings.Contains(strings.ToLower(g.Name()), "escape") || strings.Contains(strings.ToLower(g.Name()), "quote")) {
				escaped++
			}
		}
		return true
	})
	// the measurement name in front is closed by '\n', which no name contains: it need not be escaped
	if dyn >= 2 && escaped < dyn-1 {
		c.Fail("C06.groupid", "ToGroupID#injective", pos, "%d dynamic strings are written raw between ',' and '=' delimiters: tag values containing the delimiters collide (a=\"x,b=y\",b=\"z\" vs a=\"x\",b=\"y,b=z\")", dyn)
	} else {
		c.Ok("C06.groupid", "ToGroupID#injective")
	}
}

func c06DimsEqual(c *core.Ctx, models *packages.Package) {
	info := models.TypesInfo
	fn := c.Need("C06.dimsequal", "models", "Dimensions", "Equal")
	if fn == nil {
		return
	}
	obj, _ := models.Types.Scope().Lookup("Dimensions").(*types.TypeName)
	if obj == nil {
		c.Undecided("C06.dimsequal", "anchor:models.Dimensions", token.NoPos, "type not found")
		return
	}
	st := obj.Type().Underlying().(*types.Struct)
	recv := info.Defs[fn.Decl.Recv.List[0].Names[0]]
	other := info.Defs[fn.Decl.Type.Params.List[0].Names[0]]
	used := map[string][2]bool{}
	ast.Inspect(fn.Decl.Body, func(n ast.Node) bool {
		sel, ok := n.(*ast.SelectorExpr)
		if !ok {
			return true
		}
		id, ok := sel.X.(*ast.Ident)
		if !ok {
			return true
		}
		u := used[sel.Sel.Name]
		switch info.Uses[id] {
		case recv:
			u[0] = true
		case other:
			u[1] = true
		}
		used[sel.Sel.Name] = u
		return true
	})
	for i := 0; i < st.NumFields(); i++ {
		f := st.Field(i).Name()
		u := used[f]
		c.Check(u[0] && u[1], "C06.dimsequal", "Dimensions."+f, fn.Decl.Pos(), "Dimensions.Equal does not compare field %s on both operands: SetDimensions would keep a stale cached group id when only %s changes", f, f)
	}
	// a comparison that fails must answer false: every `!=`/length mismatch leads to return false (A1)
	eng := &an.Engine{Prog: c.P, BoolReturns: true}
	paths, err := eng.Run(fn)
	if err != nil {
		c.Undecided("C06.dimsequal", "Dimensions.Equal", fn.Decl.Pos(), "%v", err)
		return
	}
	good := len(paths) > 0
	for _, p := range paths {
		if len(p.Rets) != 1 {
			continue
		}
		// any path on which some equality atom over the two operands is false must return false
		mismatch := false
		for _, l := range p.Lits {
			if strings.Contains(l.Key, " == ") && strings.Contains(l.Key, recv.Name()+".") && strings.Contains(l.Key, other.Name()+".") && !l.Val {
				mismatch = true
			}
		}
		if mismatch && p.Rets[0] != "false" {
			good = false
			c.Fail("C06.dimsequal", "Dimensions.Equal#mismatch-is-false", p.RetPos, "a field mismatch does not make Equal false on path [%s]", p.Cond())
		}
	}
	if good {
		c.Ok("C06.dimsequal", "Dimensions.Equal#mismatch-is-false")
	}
}

func c06Cache(c *core.Ctx, root *packages.Package) {
	info := root.TypesInfo
	fn := c.Need("C06.cache", "", "InfluxQLNode", "getCreateFn")
	if fn == nil {
		return
	}
	kind := an.ParamName(fn.Decl.Type, 0)
	eng := &an.Engine{Prog: c.P,
		TrackCall: func(call *ast.CallExpr, callee *types.Func) string {
			if callee != nil && callee.Name() == "determineReduceContextCreateFn" {
				return "determine"
			}
			return ""
		},
		TrackStore: func(lhs ast.Expr, key string) string {
			for _, f := range []string{"currentKind", "createFn"} {
				if an.FieldSel(info, lhs, "InfluxQLNode", f) {
					return f
				}
			}
			return ""
		},
		Classify: func(a an.Atom) (string, bool) {
			switch {
			case a.Op == token.EQL && ((strings.HasSuffix(a.L, ".currentKind") && a.R == kind) || (strings.HasSuffix(a.R, ".currentKind") && a.L == kind)):
				return "samekind", false
			case a.Op == token.EQL && a.R == "nil" && strings.HasSuffix(a.L, ".createFn"):
				return "cached", true
			}
			if k, ok := an.ErrNilAtom(info, a); ok && an.CallResultOf(k, "determineReduceContextCreateFn", 1) {
				return "err", true
			}
			return "", false
		}}
	paths, err := eng.Run(fn)
	if err != nil {
		c.Undecided("C06.cache", "InfluxQLNode.getCreateFn", fn.Decl.Pos(), "%v", err)
		return
	}
	an.CheckTable(c, "C06.cache", "InfluxQLNode.getCreateFn", paths, an.Table{Atoms: []string{"samekind", "cached", "err"},
		Outcome: func(p *an.Path) string {
			var s []string
			for _, e := range p.Events {
				switch {
				case e.Name == "determine":
					a := "determine"
					if len(e.Args) < 2 || e.Args[1] != kind {
						a += "(other kind)"
					}
					s = append(s, a)
				case e.Name == "currentKind":
					a := "kind="
					if e.Args[0] == kind {
						a += "kind"
					} else {
						a += e.Args[0]
					}
					s = append(s, a)
				case e.Name == "createFn":
					a := "fn="
					if an.CallResultOf(e.Args[0], "determineReduceContextCreateFn", 0) {
						a += "determined"
					} else {
						a += e.Args[0]
					}
					s = append(s, a)
				}
			}
			r := "?"
			if len(p.Rets) == 2 {
				switch {
				case p.Rets[0] == "nil":
					r = "err"
				case an.CallResultOf(p.Rets[0], "determineReduceContextCreateFn", 0):
					r = "determined"
				case strings.HasSuffix(p.Rets[0], ".createFn") || strings.Contains(p.Rets[0], ".createFn#"):
					if len(s) == 0 {
						r = "cached"
					} else {
						r = "determined"
					}
				}
			}
			return strings.Join(append(s, "→"+r), ",")
		},
		Expect: func(a map[string]bool) string {
			switch {
			case a["samekind"] && a["cached"]:
				return "→cached"
			case a["err"]:
				// F50: a rejected kind leaves the cache alone. Storing the kind first (as the code did) pairs the new kind with
				// the constructor cached for the old one: the next point of the rejected kind gets that constructor.
				return "determine,→err"
			}
			return "determine,kind=kind,fn=determined,→determined | determine,fn=determined,kind=kind,→determined"
		}})
}

func c06Fresh(c *core.Ctx, root *packages.Package) {
	info := root.TypesInfo
	n := 0
	for _, f := range core.AllFuncs(root) {
		if f.Decl.Name.Name != "NewGroup" || f.Decl.Recv == nil {
			continue
		}
		n++
		c.Analysed(f)
		recv := types.Object(nil)
		if len(f.Decl.Recv.List[0].Names) == 1 {
			recv = info.Defs[f.Decl.Recv.List[0].Names[0]]
		}
		// every returned receiver expression must not be (rooted in) a field of the node
		good := true
		ast.Inspect(f.Decl.Body, func(nd ast.Node) bool {
			if _, ok := nd.(*ast.FuncLit); ok {
				return false
			}
			r, ok := nd.(*ast.ReturnStmt)
			if !ok || len(r.Results) == 0 {
				return true
			}
			x := ast.Unparen(r.Results[0])
			if an.IsNil(info, x) {
				return true
			}
			if rootedInField(info, x, recv) {
				good = false
				c.Fail("C06.fresh", core.RecvName(f.Decl)+".NewGroup", r.Pos(), "NewGroup returns %s, a value kept in the node: all groups would share one receiver", types.ExprString(x))
			}
			return true
		})
		// a group literal must not alias a node-level map/slice as its own mutable state
		ast.Inspect(f.Decl.Body, func(nd ast.Node) bool {
			cl, ok := nd.(*ast.CompositeLit)
			if !ok {
				return true
			}
			for _, el := range cl.Elts {
				kv, ok := el.(*ast.KeyValueExpr)
				if !ok {
					continue
				}
				sel, ok := ast.Unparen(kv.Value).(*ast.SelectorExpr)
				if !ok {
					continue
				}
				id, ok := sel.X.(*ast.Ident)
				if !ok || info.Uses[id] != recv {
					continue
				}
				s, ok := info.Selections[sel]
				if !ok || s.Kind() != types.FieldVal {
					continue
				}
				switch s.Type().Underlying().(type) {
				case *types.Map:
					good = false
					c.Fail("C06.fresh", core.RecvName(f.Decl)+".NewGroup#"+types.ExprString(kv.Key), kv.Pos(), "the group's %s is the node's own map %s: per-group state would be shared", types.ExprString(kv.Key), types.ExprString(sel))
				}
			}
			return true
		})
		if good {
			c.Ok("C06.fresh", core.RecvName(f.Decl)+".NewGroup")
		}
	}
	c.Floor("C06.fresh", "NewGroup implementations", n, 14)
}

func rootedInField(info *types.Info, x ast.Expr, recv types.Object) bool {
	for {
		switch y := ast.Unparen(x).(type) {
		case *ast.SelectorExpr:
			if id, ok := y.X.(*ast.Ident); ok && info.Uses[id] == recv {
				if s, ok := info.Selections[y]; ok && s.Kind() == types.FieldVal {
					return true
				}
			}
			x = y.X
			continue
		case *ast.IndexExpr:
			x = y.X
			continue
		}
		return false
	}
}

// c06EscapingWriter: f(buf *strings.Builder, s string) writes s with a set of bytes escaped: a loop over the bytes of s with a
// switch on s[i] whose case lists constant bytes C and writes a constant escape byte E first, E ∈ C, followed by the byte itself;
// a fast path that writes s raw is taken only when s contains none of a literal set F ⊇ C. Returns C, or nil.
func c06EscapingWriter(info *types.Info, f *core.Func) map[byte]bool {
	if f.Decl.Type.Params == nil || f.Decl.Type.Params.NumFields() != 2 {
		return nil
	}
	sName := an.ParamName(f.Decl.Type, 1)
	var set map[byte]bool
	var esc int64 = -1
	writesByte := false
	ast.Inspect(f.Decl.Body, func(n ast.Node) bool {
		loop, ok := n.(*ast.ForStmt)
		if !ok {
			return true
		}
		for _, st := range loop.Body.List {
			switch x := st.(type) {
			case *ast.SwitchStmt:
				ix, ok := ast.Unparen(x.Tag).(*ast.IndexExpr)
				if x.Tag == nil || !ok || types.ExprString(ix.X) != sName {
					continue
				}
				for _, cl := range x.Body.List {
					cc := cl.(*ast.CaseClause)
					cs := map[byte]bool{}
					for _, e := range cc.List {
						if tv, ok := info.Types[e]; ok && tv.Value != nil {
							if v, exact := constant.Int64Val(constant.ToInt(tv.Value)); exact && v < 256 {
								cs[byte(v)] = true
							}
						}
					}
					for _, b := range cc.Body {
						if es, ok := b.(*ast.ExprStmt); ok {
							if call, ok := es.X.(*ast.CallExpr); ok && len(call.Args) == 1 {
								if cal := core.Callee(info, call); cal != nil && (cal.Name() == "WriteByte" || cal.Name() == "WriteRune") {
									if tv, ok := info.Types[call.Args[0]]; ok && tv.Value != nil {
										esc, _ = constant.Int64Val(constant.ToInt(tv.Value))
										set = cs
									}
								}
							}
						}
					}
				}
			case *ast.ExprStmt:
				if call, ok := x.X.(*ast.CallExpr); ok && len(call.Args) == 1 {
					if cal := core.Callee(info, call); cal != nil && cal.Name() == "WriteByte" {
						if ix, ok := ast.Unparen(call.Args[0]).(*ast.IndexExpr); ok && types.ExprString(ix.X) == sName && set != nil {
							writesByte = true
						}
					}
				}
			}
		}
		return true
	})
	if set == nil || esc < 0 || esc > 255 || !set[byte(esc)] || !writesByte {
		return nil
	}
	// the fast path
	okFast := true
	ast.Inspect(f.Decl.Body, func(n ast.Node) bool {
		call, ok := n.(*ast.CallExpr)
		if !ok {
			return true
		}
		cal := core.Callee(info, call)
		if cal == nil || cal.Pkg() == nil || cal.Pkg().Path() != "strings" || !strings.HasPrefix(cal.Name(), "Contains") {
			return true
		}
		if len(call.Args) != 2 || types.ExprString(call.Args[0]) != sName {
			okFast = false
			return true
		}
		tv, ok := info.Types[call.Args[1]]
		if !ok || tv.Value == nil || tv.Value.Kind() != constant.String {
			okFast = false
			return true
		}
		lit := constant.StringVal(tv.Value)
		for b := range set {
			if !strings.ContainsRune(lit, rune(b)) {
				okFast = false
			}
		}
		return true
	})
	if !okFast {
		return nil
	}
	return set
}
