package props

import (
	"go/ast"
	"go/token"
	"go/types"
	"sort"
	"strings"

	"golang.org/x/tools/go/packages"

	"kapcheck/an"
	"kapcheck/core"
)

func init() {
	register(&Property{
		ID:       "C07",
		Patterns: []string{".", "./edge", "./alert", "./services/sideload", "./services/alert"},
		Run:      runC07,
		Explanation: "Graceful stop decided as structure (necessary conditions of 'drain, then terminate'): a node's goroutine closes (never aborts) its child edges on every exit, aborts its parent edges whenever it failed (any error, so that upstream producers blocked on a full edge are released) and reports exactly once; an edge's Close leaves the backlog readable and only Abort interrupts; " +
			"ExecutingTask.stop stops and waits for every node in pipeline order and then for the task's helpers; the task master detaches a stream task by closing (not aborting) its fork edge before stopping it and drains forks before closing; " +
			"no stop function of a node that consumes an input edge tears down an object the node's consuming path still uses (effect disjointness between stopF and run/receiver callbacks, per node field) — sources may be stopped; " +
			"the InfluxDB output flushes and stops its write buffer only after its consumer returned, flushes before aborting, writes every pending batch on a flush even when one write fails, and never drops an entry while the buffer runs; alert handlers are closed (drained), never aborted, on graceful paths. " +
			"NOT decided: termination for all speeds (liveness), goroutine census, loss inside third-party clients, lock-induced stalls.",
		Assumptions: []string{"edge.Consumer implementations return from Consume only after the edge was drained or aborted (their loops are decided under C12/C03 confinement rules)", "closing a Go channel leaves buffered elements receivable"},
	})
}

func runC07(c *core.Ctx) {
	c.Rule("C07.start", "A1: on every path of the deferred exit handler of (*node).start: child edges are closed; parent edges are aborted if and only if the run ended with an error (any error); exactly one value is sent on errCh, last")
	c.Rule("C07.edges", "A2: closeChildEdges calls Close (never Abort) on every element of n.outs without early exit; abortParentEdges calls Abort on every element of n.ins")
	c.Rule("C07.edge", "A3: channelEdge.Close closes the messages channel only (the backlog stays readable; aborting is closed by Abort alone); Emit and Collect select on messages and aborting with no default; Close and Abort change state under e.mu")
	c.Rule("C07.stop", "A2: ExecutingTask.stop: every node is stopped and waited for (walk callbacks that never return an error; stop before Wait), then et.wg.Wait(); walk visits every node of et.nodes in order")
	c.Rule("C07.forklock", "A5 (must-hold lock set over go/cfg): every use of TaskMaster.forks/forkStats/taskToForkKeys, every method call on a value read out of forks (the fork edges: Collect in forkPoint, Close in delFork) and every call of a helper that needs the lock happens with tm.mu held on all paths reaching it; unexported methods without lock operations are helpers whose call sites carry the obligation; exported methods and function literals start without the lock")
	c.Rule("C07.drainlock", "A5 (may-hold lock set over go/cfg + call graph with interface resolution inside alert and services/alert): no alert Service method calls, while Service.mu may be held, anything that reaches a WaitGroup.Wait for handler goroutines (Topics.DeleteTopic/Close/DeregisterHandler/ReplaceHandler, a handler's Close), as long as some handler's Handle/run reaches Service.Collect and Service.Collect takes Service.mu")
	c.Rule("C07.stopwait", "A5/A6: F70, F46 (may-hold lock set over go/cfg + call graph): W = the TaskMaster mutexes that may be held at a call of ExecutingTask.stop (in the calling method or in a TaskMaster method that calls it). Nothing that runs on a node's goroutine (the function stored in node.runF and what is reachable from the functions of its file through static calls) calls a TaskMaster method that takes a mutex of W, nor one that collects into the task master's own stream when its consumer (runForking and what it reaches) needs a mutex of W")
	c.Rule("C07.tm", "A2/A6: stopTask removes the task from tm.tasks and detaches it (delFork / delete batches) before et.stop(); delFork closes the fork edge with Close, never Abort; Close drains (Drain) before stopping tasks; StopTask/DeleteTask/StopTasks/Close hold tm.mu around stopTask")
	c.Rule("C07.stopf", "A6 effect disjointness: for every node type that assigns node.stopF and whose run path reads an input edge, no object torn down by the stop function (Abort/Close/Stop/Kill method or close() on a field of the node) is used by the node's consuming path (run function, receiver callbacks, group receivers, transitively in the package); reviewed exceptions are verified structurally")
	c.Rule("C07.sink", "A1/A2: InfluxDBOutNode: the write buffer is flushed and then aborted after the consumer returned (deferred after start() or placed after Consume), flush before abort; writeBuffer.run answers a flush request with writeAll and then the flushed signal; writeAll attempts every pending batch (no early exit) and forgets it; enqueue blocks on the queue unless the buffer is stopping (no default arm)")
	c.Rule("C07.tickers", "A2: a helper goroutine that its owner's Stop() waits for (wg.Wait) never blocks on a bare channel send: in every ticker implementation (Start/Stop/Next) each send inside the goroutine started by Start is an arm of a select that also receives from the channel Stop closes")
	c.Rule("C07.handlers", "A6 (shared with C09): Topic.removeHandler/close and Topics.Close/DeleteTopic end handlers with bufHandler.Close; bufHandler.Close closes events and waits; run() delivers every buffered event before returning on the closed channel")

	root := c.P.Pkg("")
	edgePkg := c.P.Pkg("edge")
	alertPkg := c.P.Pkg("alert")
	if root == nil || edgePkg == nil || alertPkg == nil {
		c.Undecided("C07.start", "anchor:packages", token.NoPos, "root, edge or alert package not loaded")
		return
	}
	c07Start(c, root)
	c07Edges(c, root)
	c07Edge(c, edgePkg)
	c07Stop(c, root)
	c07TM(c, root)
	c07StopWait(c, root)
	c07ProbeRules(c, root)
	c07StopF(c, root)
	c07Sink(c, root)
	c07Tickers(c, root)
	if svc := c.P.Pkg("services/alert"); svc != nil {
		c07DrainLock(c, alertPkg, svc)
		c07DrainLockTopics(c, alertPkg)
	} else {
		c.Undecided("C07.drainlock", "anchor:services/alert", token.NoPos, "package not loaded")
	}
	c09CloseAs(c, alertPkg, "C07.handlers")
	c09BufferAs(c, alertPkg, "C07.handlers")
	if fn := c.Need("C07.handlers", "alert", "bufHandler", "Close"); fn != nil {
		info := alertPkg.TypesInfo
		closesEvents, closesOther, waits := false, false, false
		ast.Inspect(fn.Decl.Body, func(n ast.Node) bool {
			if call, ok := n.(*ast.CallExpr); ok {
				if core.IsBuiltin(info, call, "close") {
					if an.FieldSel(info, call.Args[0], "bufHandler", "events") {
						closesEvents = true
					} else {
						closesOther = true
					}
				}
				if f := core.Callee(info, call); f != nil && f.Name() == "Wait" {
					waits = true
				}
			}
			return true
		})
		c.Check(closesEvents && !closesOther && waits, "C07.handlers", "bufHandler.Close#drain", fn.Decl.Pos(), "bufHandler.Close must close h.events only and wait for run() (closes events %v, closes something else %v, waits %v)", closesEvents, closesOther, waits)
	}
}

func c07Start(c *core.Ctx, pkg *packages.Package) {
	info := pkg.TypesInfo
	fn := c.Need("C07.start", "", "node", "start")
	if fn == nil {
		return
	}
	// the goroutine's deferred handler
	var handler *ast.FuncLit
	ast.Inspect(fn.Decl.Body, func(n ast.Node) bool {
		if d, ok := n.(*ast.DeferStmt); ok && handler == nil {
			if fl, ok := d.Call.Fun.(*ast.FuncLit); ok {
				handler = fl
			}
		}
		return true
	})
	if handler == nil {
		c.Fail("C07.start", "node.start#handler", fn.Decl.Pos(), "the node goroutine has no deferred exit handler: child edges stay open when the run function returns")
		return
	}
	eng := &an.Engine{Prog: c.P, Info: info,
		TrackCall: func(call *ast.CallExpr, callee *types.Func) string {
			if callee != nil && (callee.Name() == "closeChildEdges" || callee.Name() == "abortParentEdges") {
				return callee.Name()
			}
			return ""
		},
		TrackStore: func(lhs ast.Expr, key string) string {
			if an.FieldSel(info, lhs, "node", "errCh") {
				return "report"
			}
			return ""
		},
		Classify: func(a an.Atom) (string, bool) {
			if (a.Op == token.EQL || a.Op == token.NEQ) && a.R == "nil" && a.LX != nil && an.IsErrorType(info, a.LX) {
				return "failed", a.Op == token.EQL
			}
			return "", false
		}}
	paths, err := eng.RunBody(handler.Type, nil, handler.Body)
	if err != nil {
		c.Undecided("C07.start", "node.start#handler", handler.Pos(), "%v", err)
		return
	}
	good := len(paths) > 0
	for _, p := range paths {
		failed, decided := p.Assign()["failed"]
		w := an.Seq(p, "closeChildEdges", "abortParentEdges", "report")
		want := "closeChildEdges,report"
		if failed {
			want = "closeChildEdges,abortParentEdges,report"
		}
		switch {
		case !decided:
			good = false
			c.Fail("C07.start", "node.start#handler", p.RetPos, "a path of the exit handler does not test the run error: [%s]", w)
		case w != want:
			good = false
			c.Fail("C07.start", "node.start#handler", p.RetPos, "exit handler path with failed=%v does [%s], must do [%s] (path: %s): an unclosed child edge leaves the downstream nodes waiting forever, an un-aborted parent edge leaves the upstream producers blocked on a full edge and the stop hangs", failed, w, want, p.Cond())
		}
	}
	if good {
		c.Ok("C07.start", "node.start#handler")
	}
}

func c07Edges(c *core.Ctx, pkg *packages.Package) {
	info := pkg.TypesInfo
	for _, e := range [][3]string{{"closeChildEdges", ".outs", "Close"}, {"abortParentEdges", ".ins", "Abort"}} {
		fn := c.Need("C07.edges", "", "node", e[0])
		if fn == nil {
			continue
		}
		other := ""
		ast.Inspect(fn.Decl.Body, func(n ast.Node) bool {
			if call, ok := n.(*ast.CallExpr); ok {
				if f := core.Callee(info, call); f != nil && (f.Name() == "Abort" || f.Name() == "Close") && f.Name() != e[2] {
					other = f.Name()
				}
			}
			return true
		})
		if other != "" {
			c.Fail("C07.edges", "node."+e[0], fn.Decl.Pos(), "%s calls %s on the edges: %s", e[0], other, map[string]string{"Abort": "the backlog of every child edge is thrown away when the node finishes", "Close": "closing an input edge does not release a producer blocked on it"}[other])
			continue
		}
		c09LoopNoExit(c, "C07.edges", "node."+e[0], fn, info, e[1], e[2], nil)
	}
}

func c07Edge(c *core.Ctx, pkg *packages.Package) {
	info := pkg.TypesInfo
	chanOps := func(fn *core.Func) (closed []string, recv []string, send []string, deflt bool, locked bool) {
		ast.Inspect(fn.Decl.Body, func(n ast.Node) bool {
			switch x := n.(type) {
			case *ast.CallExpr:
				if core.IsBuiltin(info, x, "close") {
					if sel, ok := ast.Unparen(x.Args[0]).(*ast.SelectorExpr); ok {
						closed = append(closed, sel.Sel.Name)
					}
				}
				if sel, ok := x.Fun.(*ast.SelectorExpr); ok && sel.Sel.Name == "Lock" && an.FieldSel(info, sel.X, "channelEdge", "mu") {
					locked = true
				}
			case *ast.UnaryExpr:
				if x.Op == token.ARROW {
					if sel, ok := ast.Unparen(x.X).(*ast.SelectorExpr); ok {
						recv = append(recv, sel.Sel.Name)
					}
				}
			case *ast.SendStmt:
				if sel, ok := ast.Unparen(x.Chan).(*ast.SelectorExpr); ok {
					send = append(send, sel.Sel.Name)
				}
			case *ast.CommClause:
				if x.Comm == nil {
					deflt = true
				}
			}
			return true
		})
		sort.Strings(closed)
		sort.Strings(recv)
		return
	}
	if fn := c.Need("C07.edge", "edge", "channelEdge", "Close"); fn != nil {
		closed, _, _, _, locked := chanOps(fn)
		c.Check(strings.Join(closed, ",") == "messages" && locked, "C07.edge", "channelEdge.Close", fn.Decl.Pos(), "Close must close e.messages and nothing else, under e.mu (closes [%s], locked %v): closing `aborting` on a graceful close makes Emit abandon the backlog", strings.Join(closed, ","), locked)
	}
	if fn := c.Need("C07.edge", "edge", "channelEdge", "Abort"); fn != nil {
		closed, _, _, _, locked := chanOps(fn)
		c.Check(strings.Join(closed, ",") == "aborting" && locked, "C07.edge", "channelEdge.Abort", fn.Decl.Pos(), "Abort must close e.aborting only, under e.mu (closes [%s], locked %v)", strings.Join(closed, ","), locked)
	}
	if fn := c.Need("C07.edge", "edge", "channelEdge", "Emit"); fn != nil {
		_, recv, _, deflt, _ := chanOps(fn)
		c.Check(strings.Join(recv, ",") == "aborting,messages" && !deflt, "C07.edge", "channelEdge.Emit", fn.Decl.Pos(), "Emit must block on messages and aborting only (receives [%s], default %v)", strings.Join(recv, ","), deflt)
		// the value returned is the one received from messages
		okk := false
		ast.Inspect(fn.Decl.Body, func(n ast.Node) bool {
			if cc, ok := n.(*ast.CommClause); ok && cc.Comm != nil {
				if as, ok := cc.Comm.(*ast.AssignStmt); ok && len(as.Lhs) == 2 && len(as.Rhs) == 1 {
					if u, ok := as.Rhs[0].(*ast.UnaryExpr); ok && an.FieldSel(info, u.X, "channelEdge", "messages") {
						// assigned to the function's two named results, in order
						var res []string
						if fn.Decl.Type.Results != nil {
							for _, f := range fn.Decl.Type.Results.List {
								for _, nm := range f.Names {
									res = append(res, nm.Name)
								}
							}
						}
						okk = len(res) == 2 && types.ExprString(as.Lhs[0]) == res[0] && types.ExprString(as.Lhs[1]) == res[1] && as.Tok == token.ASSIGN
					}
				}
			}
			return true
		})
		c.Check(okk, "C07.edge", "channelEdge.Emit#result", fn.Decl.Pos(), "Emit must return the (message, ok) pair it received from e.messages")
	}
	if fn := c.Need("C07.edge", "edge", "channelEdge", "Collect"); fn != nil {
		_, recv, send, deflt, _ := chanOps(fn)
		c.Check(strings.Join(send, ",") == "messages" && strings.Join(recv, ",") == "aborting" && !deflt, "C07.edge", "channelEdge.Collect", fn.Decl.Pos(), "Collect must block until the message is queued or the edge is aborted (sends [%s], receives [%s], default %v): a default arm drops accepted messages when the buffer is full", strings.Join(send, ","), strings.Join(recv, ","), deflt)
	}
}

func c07Stop(c *core.Ctx, pkg *packages.Package) {
	info := pkg.TypesInfo
	fn := c.Need("C07.stop", "", "ExecutingTask", "stop")
	if fn == nil {
		return
	}
	// walk callbacks
	type visit struct {
		fl               *ast.FuncLit
		stop, wait       token.Pos
		retNonNil, other bool
	}
	var visits []visit
	var wgWait, lastWalk token.Pos
	ast.Inspect(fn.Decl.Body, func(n ast.Node) bool {
		call, ok := n.(*ast.CallExpr)
		if !ok {
			return true
		}
		f := core.Callee(info, call)
		if f == nil {
			return true
		}
		if f.Name() == "Wait" && core.RecvTypeName(f) == "WaitGroup" {
			wgWait = call.Pos()
		}
		if f.Name() != "walk" || len(call.Args) != 1 {
			return true
		}
		lastWalk = call.Pos()
		fl, ok := call.Args[0].(*ast.FuncLit)
		if !ok {
			return true
		}
		v := visit{fl: fl}
		ast.Inspect(fl.Body, func(m ast.Node) bool {
			switch x := m.(type) {
			case *ast.CallExpr:
				if g := core.Callee(info, x); g != nil {
					switch g.Name() {
					case "stop":
						v.stop = x.Pos()
					case "Wait":
						v.wait = x.Pos()
					}
				}
			case *ast.ReturnStmt:
				if len(x.Results) != 1 || types.ExprString(x.Results[0]) != "nil" {
					v.retNonNil = true
				}
			}
			return true
		})
		visits = append(visits, v)
		return false
	})
	if len(visits) == 0 {
		c.Fail("C07.stop", "ExecutingTask.stop#walk", fn.Decl.Pos(), "ExecutingTask.stop does not walk the nodes")
		return
	}
	var firstStop, firstWait token.Pos
	for _, v := range visits {
		if v.stop != token.NoPos && firstStop == token.NoPos {
			firstStop = v.stop
		}
		if v.wait != token.NoPos && firstWait == token.NoPos {
			firstWait = v.wait
		}
		c.Check(!v.retNonNil, "C07.stop", "ExecutingTask.stop#visit-all@"+c.P.Pos(v.fl.Pos()), v.fl.Pos(), "the walk callback can return an error: walk stops at that node and the remaining nodes are neither stopped nor waited for")
	}
	// Since no stop function may tear down consuming state (C07.stopf), stopping all nodes before waiting for them is
	// as good as stop-then-wait per node; what is necessary is that every node is stopped (sources end) and waited for.
	c.Check(firstStop != token.NoPos && firstWait != token.NoPos && firstStop < firstWait, "C07.stop", "ExecutingTask.stop#stop-and-wait", fn.Decl.Pos(), "every node must be stopped (sources only end when their stop function runs) and then waited for (stop called %v, Wait called %v)", firstStop != token.NoPos, firstWait != token.NoPos)
	c.Check(wgWait != token.NoPos && wgWait > lastWalk, "C07.stop", "ExecutingTask.stop#helpers", fn.Decl.Pos(), "stop must wait for the task's helper goroutines (et.wg.Wait) after the nodes")
	if w := c.Need("C07.stop", "", "ExecutingTask", "walk"); w != nil {
		c09LoopNoExitErrOK(c, "C07.stop", "ExecutingTask.walk", w, info, an.RecvVarName(w.Decl)+".nodes", an.ParamName(w.Decl.Type, 0))
	}
	// node.stop runs the stop function; node.Wait takes the run result once
	if st := c.Need("C07.stop", "", "node", "stop"); st != nil {
		calls := false
		ast.Inspect(st.Decl.Body, func(n ast.Node) bool {
			if call, ok := n.(*ast.CallExpr); ok && an.FieldSel(info, call.Fun, "node", "stopF") {
				calls = true
			}
			return true
		})
		c.Check(calls, "C07.stop", "node.stop#stopF", st.Decl.Pos(), "node.stop must run the node's stop function")
	}
	if wt := c.Need("C07.stop", "", "node", "Wait"); wt != nil {
		recvs := 0
		ast.Inspect(wt.Decl.Body, func(n ast.Node) bool {
			if u, ok := n.(*ast.UnaryExpr); ok && u.Op == token.ARROW && an.FieldSel(info, u.X, "node", "errCh") {
				recvs++
			}
			return true
		})
		c.Check(recvs == 1, "C07.stop", "node.Wait#errCh", wt.Decl.Pos(), "node.Wait must receive the run result from errCh (found %d receives)", recvs)
		// the receive happens with finishedMu held, so that a second concurrent waiter blocks until the node has really finished
		var lock, unlock, recv token.Pos
		deferredUnlock := false
		ast.Inspect(wt.Decl.Body, func(n ast.Node) bool {
			switch x := n.(type) {
			case *ast.DeferStmt:
				if sel, ok := x.Call.Fun.(*ast.SelectorExpr); ok && sel.Sel.Name == "Unlock" && an.FieldSel(info, sel.X, "node", "finishedMu") {
					deferredUnlock = true
					return false
				}
			case *ast.CallExpr:
				if sel, ok := x.Fun.(*ast.SelectorExpr); ok && an.FieldSel(info, sel.X, "node", "finishedMu") {
					switch sel.Sel.Name {
					case "Lock":
						if lock == token.NoPos {
							lock = x.Pos()
						}
					case "Unlock":
						if unlock == token.NoPos {
							unlock = x.Pos()
						}
					}
				}
			case *ast.UnaryExpr:
				if x.Op == token.ARROW && an.FieldSel(info, x.X, "node", "errCh") {
					recv = x.Pos()
				}
			}
			return true
		})
		held := lock != token.NoPos && recv != token.NoPos && lock < recv && (deferredUnlock && unlock == token.NoPos || unlock > recv)
		c.Check(held, "C07.stop", "node.Wait#held", wt.Decl.Pos(), "node.Wait must hold finishedMu across the receive from errCh: otherwise a second waiter (ExecutingTask.stop, while the task store's goroutine is already blocked in et.Wait) returns nil at once and the stop completes while the node is still draining its backlog")
	}
}

// c09LoopNoExitErrOK: like c09LoopNoExit but `return err` after the call is the loop's documented contract (walk).
func c09LoopNoExitErrOK(c *core.Ctx, rule, cons string, fn *core.Func, info *types.Info, over, must string) {
	found, called, skip := false, false, false
	ast.Inspect(fn.Decl.Body, func(n ast.Node) bool {
		rs, ok := n.(*ast.RangeStmt)
		if !ok || types.ExprString(rs.X) != over {
			return true
		}
		found = true
		for i, st := range an.Effective(rs.Body.List) {
			ast.Inspect(st, func(m ast.Node) bool {
				switch x := m.(type) {
				case *ast.CallExpr:
					if types.ExprString(x.Fun) == must && i == 0 {
						called = true
					}
				case *ast.BranchStmt:
					skip = true
				}
				return true
			})
		}
		return true
	})
	c.Check(found && called && !skip, rule, cons, fn.Decl.Pos(), "the loop over %s must call %s first for every element without break/continue (loop found %v, call first %v, branch %v)", over, must, found, called, skip)
}

func c07TM(c *core.Ctx, pkg *packages.Package) {
	info := pkg.TypesInfo
	n := ruleMustHold(c, "C07.forklock", pkg, holdSpec{Typ: "TaskMaster", Mu: "mu",
		Fields: map[string]bool{"forks": true, "forkStats": true, "taskToForkKeys": true}, Deref: map[string]bool{"forks": true},
		Why: "StopTask/DeleteTask/Close take the lock and delFork closes the task's fork edge under it; a forking goroutine that reads the fork maps or sits in Collect on a fork edge without the lock is overtaken by the stop — the edge is closed under the blocked sender (send on closed channel: the daemon dies, in-flight data of every task is lost) or the maps are read while written"})
	c.Floor("C07.forklock", "selections of guarded TaskMaster fields", n, 12)
	if fn := c.Need("C07.tm", "", "TaskMaster", "stopTask"); fn != nil {
		eng := &an.Engine{Prog: c.P,
			TrackCall: func(call *ast.CallExpr, callee *types.Func) string {
				if core.IsBuiltin(info, call, "delete") && len(call.Args) == 2 {
					if an.FieldSel(info, call.Args[0], "TaskMaster", "tasks") {
						return "untask"
					}
					if an.FieldSel(info, call.Args[0], "TaskMaster", "batches") {
						return "unbatch"
					}
				}
				if callee != nil && (callee.Name() == "delFork" || (callee.Name() == "stop" && core.RecvTypeName(callee) == "ExecutingTask")) {
					return callee.Name()
				}
				return ""
			},
			Classify: func(a an.Atom) (string, bool) {
				switch {
				case strings.HasSuffix(a.Key, ".tasks["+an.ParamName(fn.Decl.Type, 0)+"].1"):
					return "running", false
				case a.Op == token.EQL && strings.HasSuffix(a.L, ".Task.Type") && strings.HasSuffix(a.R, "StreamTask"):
					return "stream", false
				case a.Op == token.EQL && strings.HasSuffix(a.L, ".Task.Type") && strings.HasSuffix(a.R, "BatchTask"):
					return "batch", false
				}
				return "", false
			}}
		paths, err := eng.Run(fn)
		if err != nil {
			c.Undecided("C07.tm", "TaskMaster.stopTask", fn.Decl.Pos(), "%v", err)
		} else {
			good := len(paths) > 0
			for _, p := range paths {
				a := p.Assign()
				w := an.Seq(p, "untask", "delFork", "unbatch", "stop")
				want := ""
				switch {
				case !a["running"]:
					want = ""
				case a["stream"]:
					want = "untask,delFork,stop"
				case a["batch"]:
					want = "untask,unbatch,stop"
				default:
					want = "untask,stop"
				}
				if w != want {
					good = false
					c.Fail("C07.tm", "TaskMaster.stopTask", p.RetPos, "stopTask path (%s) does [%s], must do [%s]: the task must leave the routing tables and have its input closed before it is stopped, otherwise the stop waits for an edge nobody closes, or points keep being routed to a stopped task", p.Cond(), w, want)
				}
			}
			if good {
				c.Ok("C07.tm", "TaskMaster.stopTask")
			}
		}
	}
	if fn := c.Need("C07.tm", "", "TaskMaster", "delFork"); fn != nil {
		closes, aborts := 0, 0
		ast.Inspect(fn.Decl.Body, func(n ast.Node) bool {
			if call, ok := n.(*ast.CallExpr); ok {
				if f := core.Callee(info, call); f != nil {
					switch f.Name() {
					case "Close":
						closes++
					case "Abort":
						aborts++
					}
				}
			}
			return true
		})
		c.Check(closes >= 1 && aborts == 0, "C07.tm", "TaskMaster.delFork#close", fn.Decl.Pos(), "delFork must end the task's input edge with Close (found %d) and never Abort (found %d): aborting drops the points already routed to the task", closes, aborts)
	}
	if fn := c.Need("C07.tm", "", "TaskMaster", "Close"); fn != nil {
		var drain, stop token.Pos
		ast.Inspect(fn.Decl.Body, func(n ast.Node) bool {
			if call, ok := n.(*ast.CallExpr); ok {
				if f := core.Callee(info, call); f != nil {
					switch f.Name() {
					case "Drain":
						drain = call.Pos()
					case "stopTask":
						stop = call.Pos()
					}
				}
			}
			return true
		})
		c.Check(drain != token.NoPos && stop != token.NoPos && drain < stop, "C07.tm", "TaskMaster.Close#drain-first", fn.Decl.Pos(), "Close must drain the forks (Drain) before it stops the tasks")
		c07AllTasks(c, pkg, "TaskMaster.Close#all-tasks", fn)
	}
	if fn := c.Need("C07.tm", "", "TaskMaster", "Drain"); fn != nil {
		var wait, del token.Pos
		ast.Inspect(fn.Decl.Body, func(n ast.Node) bool {
			if call, ok := n.(*ast.CallExpr); ok {
				if f := core.Callee(info, call); f != nil {
					switch f.Name() {
					case "waitForForks":
						wait = call.Pos()
					case "delFork":
						del = call.Pos()
					}
				}
			}
			return true
		})
		c.Check(wait != token.NoPos && del != token.NoPos && wait < del, "C07.tm", "TaskMaster.Drain#wait-first", fn.Decl.Pos(), "Drain must wait for the fork goroutines to hand over what was written (waitForForks) before it closes the task edges")
		// F125: the loop runs over the map that has an entry for every fork (the by-task edge map), or — before that map
		// existed — over the tasks' key lists; c07ForkEdge decides whether every fork is reachable from its task id at all
		over := ".taskToForkKeys"
		ast.Inspect(fn.Decl.Body, func(n ast.Node) bool {
			if rs, ok := n.(*ast.RangeStmt); ok && an.FieldSel(info, rs.X, "TaskMaster", "forkEdges") {
				over = ".forkEdges"
			}
			return true
		})
		c09LoopNoExit(c, "C07.tm", "TaskMaster.Drain#all-forks", fn, info, over, "delFork", nil)
	}
	if fn := c.Need("C07.tm", "", "TaskMaster", "DeleteTask"); fn != nil {
		var stop, hooks token.Pos
		ast.Inspect(fn.Decl.Body, func(n ast.Node) bool {
			if call, ok := n.(*ast.CallExpr); ok {
				if f := core.Callee(info, call); f != nil {
					switch f.Name() {
					case "stopTask":
						stop = call.Pos()
					case "deleteTask":
						hooks = call.Pos()
					}
				}
			}
			return true
		})
		c.Check(stop != token.NoPos && hooks != token.NoPos && stop < hooks, "C07.tm", "TaskMaster.DeleteTask#stop-before-hooks", fn.Decl.Pos(), "DeleteTask must stop (drain) the task before it runs the delete hooks: the alert node's hook deletes its topic and handlers, and what the node still drains afterwards is collected into a topic without handlers — dropped silently")
	}
	if fn := c.Need("C07.tm", "", "TaskMaster", "StopTasks"); fn != nil {
		c07AllTasks(c, pkg, "TaskMaster.StopTasks#all-tasks", fn)
	}
}

// c07AllTasks: fn stops every task: a loop without early exit over tm.tasks, or over the result of a TaskMaster method that
// returns every key of tm.tasks (a snapshot taken under the lock, so that the tasks can be stopped without it), calls stopTask.
func c07AllTasks(c *core.Ctx, root *packages.Package, cons string, fn *core.Func) {
	info := root.TypesInfo
	suffix := ".tasks"
	ast.Inspect(fn.Decl.Body, func(n ast.Node) bool {
		rs, ok := n.(*ast.RangeStmt)
		if !ok {
			return true
		}
		call, ok := ast.Unparen(rs.X).(*ast.CallExpr)
		if !ok || len(call.Args) != 0 {
			return true
		}
		m := core.Callee(info, call)
		if m == nil || core.RecvTypeName(m) != "TaskMaster" {
			return true
		}
		var decl *core.Func
		for _, f := range core.AllFuncs(root) {
			if o, ok := info.Defs[f.Decl.Name].(*types.Func); ok && o == m {
				decl = f
			}
		}
		if decl == nil {
			return true
		}
		// the method ranges over tm.tasks and appends every key to what it returns: no condition, no exit in the loop
		all := false
		ast.Inspect(decl.Decl.Body, func(k ast.Node) bool {
			in, ok := k.(*ast.RangeStmt)
			if !ok || !an.FieldSel(info, in.X, "TaskMaster", "tasks") || in.Key == nil {
				return true
			}
			key, ok := in.Key.(*ast.Ident)
			body := an.Effective(in.Body.List)
			if !ok || len(body) != 1 {
				return true
			}
			as, ok := body[0].(*ast.AssignStmt)
			if !ok || len(as.Lhs) != 1 || len(as.Rhs) != 1 {
				return true
			}
			ap, ok := as.Rhs[0].(*ast.CallExpr)
			if !ok || !core.IsBuiltin(info, ap, "append") || len(ap.Args) != 2 {
				return true
			}
			if id, ok := ap.Args[1].(*ast.Ident); !ok || info.Uses[id] != info.Defs[key] {
				return true
			}
			dst := types.ExprString(as.Lhs[0])
			if types.ExprString(ap.Args[0]) != dst {
				return true
			}
			// … and that slice is what the method returns
			ast.Inspect(decl.Decl.Body, func(r ast.Node) bool {
				if ret, ok := r.(*ast.ReturnStmt); ok && len(ret.Results) == 1 && types.ExprString(ret.Results[0]) == dst {
					all = true
				}
				return true
			})
			return true
		})
		if all {
			suffix = "." + m.Name() + "()"
		}
		return true
	})
	c09LoopNoExit(c, "C07.tm", cons, fn, info, suffix, "stopTask", nil)
}

// c07StopF: effect disjointness between a node's stop function and its consuming path.
var c07TeardownVerbs = map[string]bool{"Abort": true, "abort": true, "Close": true, "close": true, "Stop": true, "stop": true, "Kill": true, "Shutdown": true}

// reviewed exceptions: node type, field, verb → reason + structural verification
type c07Exempt struct {
	reason string
	verify func(c *core.Ctx) (bool, string)
}

var c07Exempts = map[string]c07Exempt{
	"SideloadNode.source.Close": {
		reason: "sideload.Source.Close only drops the node's reference in the service's reload registry; Lookup keeps answering from the source's own cache",
		verify: c07SideloadCloseIsDeregistration,
	},
}

func c07SideloadCloseIsDeregistration(c *core.Ctx) (bool, string) {
	pkg := c.P.Pkg("services/sideload")
	if pkg == nil {
		return false, "services/sideload not loaded"
	}
	info := pkg.TypesInfo
	// every Close method of a type of the package that also has Lookup
	n := 0
	for _, fn := range core.AllFuncs(pkg) {
		if fn.Decl.Recv == nil || fn.Decl.Name.Name != "Close" {
			continue
		}
		recv := core.RecvTypeName(fn.Obj)
		if c.P.FindFunc("services/sideload", recv, "Lookup") == nil {
			continue
		}
		n++
		// transitive same-package closure: writes and closes
		seen := map[*types.Func]bool{}
		bad := ""
		var visit func(f *core.Func)
		visit = func(f *core.Func) {
			if f == nil || seen[f.Obj] {
				return
			}
			seen[f.Obj] = true
			ast.Inspect(f.Decl.Body, func(nd ast.Node) bool {
				switch x := nd.(type) {
				case *ast.CallExpr:
					if core.IsBuiltin(info, x, "close") {
						bad = "closes a channel"
					}
					if g := core.Callee(info, x); g != nil && g.Pkg() == pkg.Types {
						visit(declOfFunc(c.P, g))
					}
				case *ast.AssignStmt:
					for _, l := range x.Lhs {
						if sel, ok := ast.Unparen(l).(*ast.SelectorExpr); ok && (sel.Sel.Name == "cache" || sel.Sel.Name == "dir") {
							bad = "writes ." + sel.Sel.Name
						}
					}
				}
				return true
			})
		}
		visit(fn)
		if bad != "" {
			return false, recv + ".Close " + bad
		}
	}
	if n == 0 {
		return false, "no Source implementation with Close found"
	}
	return true, ""
}

func c07StopF(c *core.Ctx, pkg *packages.Package) {
	info := pkg.TypesInfo
	// callback method names: every method of an interface declared in package edge
	cbNames := map[string]bool{}
	if ep := c.P.Pkg("edge"); ep != nil {
		sc := ep.Types.Scope()
		for _, name := range sc.Names() {
			if tn, ok := sc.Lookup(name).(*types.TypeName); ok {
				if it, ok := tn.Type().Underlying().(*types.Interface); ok && (strings.Contains(name, "Receiver") || name == "Consumer") {
					for i := 0; i < it.NumMethods(); i++ {
						cbNames[it.Method(i).Name()] = true
					}
				}
			}
		}
	}
	c.Floor("C07.stopf", "receiver callback method names from package edge", len(cbNames), 8)
	// stopF / runF assignments
	type nodeInfo struct {
		typ         *types.Named
		stopF, runF *types.Func
		pos         token.Pos
	}
	nodes := map[string]*nodeInfo{}
	for _, f := range pkg.Syntax {
		ast.Inspect(f, func(n ast.Node) bool {
			as, ok := n.(*ast.AssignStmt)
			if !ok || len(as.Lhs) != 1 || len(as.Rhs) != 1 {
				return true
			}
			which := ""
			switch {
			case an.FieldSel(info, as.Lhs[0], "node", "stopF"):
				which = "stop"
			case an.FieldSel(info, as.Lhs[0], "node", "runF"):
				which = "run"
			default:
				return true
			}
			sel, ok := ast.Unparen(as.Rhs[0]).(*ast.SelectorExpr)
			var m *types.Func
			if ok {
				if s := info.Selections[sel]; s != nil {
					m, _ = s.Obj().(*types.Func)
				}
			}
			if m == nil {
				if which == "stop" {
					c.Undecided("C07.stopf", "stopF@"+c.P.Pos(as.Pos()), as.Pos(), "stop function is not a method value: %s", types.ExprString(as.Rhs[0]))
				}
				return true
			}
			tn := core.RecvTypeName(m)
			ni := nodes[tn]
			if ni == nil {
				ni = &nodeInfo{}
				nodes[tn] = ni
				if named := core.NamedOf(m.Type().(*types.Signature).Recv().Type()); named != nil {
					ni.typ = named
				}
			}
			if which == "stop" {
				ni.stopF, ni.pos = m, as.Pos()
			} else {
				ni.runF = m
			}
			return true
		})
	}
	nStop := 0
	for _, tn := range an.SortedKeys(nodes) {
		ni := nodes[tn]
		if ni.stopF == nil {
			continue
		}
		nStop++
		if ni.runF == nil || ni.typ == nil {
			c.Undecided("C07.stopf", tn+"#run", ni.pos, "node type %s has a stop function but its run function could not be resolved", tn)
			continue
		}
		st, _ := ni.typ.Underlying().(*types.Struct)
		fields := map[*types.Var]bool{}
		for i := 0; st != nil && i < st.NumFields(); i++ {
			fields[st.Field(i)] = true
		}
		// consuming path: run function, callbacks of the node type and of group types that point to it, transitively
		seen := map[*types.Func]bool{}
		use := map[string]token.Pos{}
		usesIns := false
		var scan func(body ast.Node)
		var visit func(m *types.Func)
		visit = func(m *types.Func) {
			if m == nil || seen[m] || m == ni.stopF {
				return
			}
			seen[m] = true
			if d := declOfFunc(c.P, m); d != nil && d.Decl.Body != nil {
				scan(d.Decl.Body)
			}
		}
		scan = func(body ast.Node) {
			ast.Inspect(body, func(n ast.Node) bool {
				switch x := n.(type) {
				case *ast.SelectorExpr:
					if s := info.Selections[x]; s != nil {
						if v, ok := s.Obj().(*types.Var); ok && s.Kind() == types.FieldVal {
							if fields[v] {
								if _, dup := use[v.Name()]; !dup {
									use[v.Name()] = x.Pos()
								}
							}
							if v.Name() == "ins" && an.FieldSel(info, x, "node", "ins") {
								usesIns = true
							}
						}
						if m, ok := s.Obj().(*types.Func); ok && m.Pkg() == pkg.Types {
							visit(m)
						}
					}
				case *ast.CallExpr:
					if g := core.Callee(info, x); g != nil && g.Pkg() == pkg.Types {
						visit(g)
					}
				}
				return true
			})
		}
		visit(ni.runF)
		methodsOf := func(named *types.Named) {
			for i := 0; i < named.NumMethods(); i++ {
				if m := named.Method(i); cbNames[m.Name()] {
					visit(m)
				}
			}
		}
		methodsOf(ni.typ)
		// group types: structs of the package with a field of type *T
		sc := pkg.Types.Scope()
		for _, name := range sc.Names() {
			tnObj, ok := sc.Lookup(name).(*types.TypeName)
			if !ok {
				continue
			}
			gs, ok := tnObj.Type().Underlying().(*types.Struct)
			if !ok {
				continue
			}
			for i := 0; i < gs.NumFields(); i++ {
				if p, ok := gs.Field(i).Type().(*types.Pointer); ok && types.Identical(p.Elem(), ni.typ) {
					if named, ok := tnObj.Type().(*types.Named); ok {
						methodsOf(named)
					}
				}
			}
		}
		// teardown set of the stop function (the stop function and the node methods it calls)
		type tear struct {
			verb, field string
			pos         token.Pos
		}
		var tears []tear
		seenS := map[*types.Func]bool{}
		var visitS func(m *types.Func)
		visitS = func(m *types.Func) {
			if m == nil || seenS[m] {
				return
			}
			seenS[m] = true
			d := declOfFunc(c.P, m)
			if d == nil || d.Decl.Body == nil {
				return
			}
			ast.Inspect(d.Decl.Body, func(n ast.Node) bool {
				call, ok := n.(*ast.CallExpr)
				if !ok {
					return true
				}
				var target ast.Expr
				verb := ""
				if core.IsBuiltin(info, call, "close") && len(call.Args) == 1 {
					verb, target = "close", call.Args[0]
				} else if sel, ok := call.Fun.(*ast.SelectorExpr); ok {
					if g := core.Callee(info, call); g != nil && g.Pkg() == pkg.Types && core.RecvTypeName(g) == tn {
						visitS(g)
						return true
					}
					if c07TeardownVerbs[sel.Sel.Name] {
						verb, target = sel.Sel.Name, sel.X
					} else if g := core.Callee(info, call); g != nil && g.Pkg() == pkg.Types {
						// a helper of another package type (e.g. writeBuffer.flush): look inside for teardown of its own state,
						// attributed to the node field it is reached through
						if root := c07RootField(info, sel.X, fields); root != "" && c07Tears(c, info, pkg, g, map[*types.Func]bool{}) {
							tears = append(tears, tear{g.Name(), root, call.Pos()})
						}
						return true
					}
				}
				if verb == "" {
					return true
				}
				if root := c07RootField(info, target, fields); root != "" {
					tears = append(tears, tear{verb, root, call.Pos()})
				}
				return true
			})
		}
		visitS(ni.stopF)
		if !usesIns {
			c.Ok("C07.stopf", tn+"#source")
			c.Note("C07.stopf: %s does not read an input edge on its run path (source node): its stop function %s may end it", tn, ni.stopF.Name())
			continue
		}
		good := true
		for _, t := range tears {
			if _, used := use[t.field]; !used {
				continue
			}
			key := tn + "." + t.field + "." + t.verb
			if ex, ok := c07Exempts[key]; ok {
				if okv, why := ex.verify(c); okv {
					c.Ok("C07.stopf", key+"#reviewed")
					c.Note("C07.stopf: %s is a reviewed exception: %s", key, ex.reason)
					continue
				} else {
					good = false
					c.Fail("C07.stopf", key+"#reviewed", t.pos, "the reviewed exception no longer holds (%s): %s", why, ex.reason)
					continue
				}
			}
			good = false
			c.Fail("C07.stopf", tn+"."+ni.stopF.Name()+"#"+t.verb+"-"+t.field, t.pos, "%s.%s runs from ExecutingTask.stop while the node may still be consuming the backlog of its input edge, and tears down n.%s (%s), which the consuming path uses at %s: what the node reads after that is dropped or fails", tn, ni.stopF.Name(), t.field, t.verb, c.P.Pos(use[t.field]))
		}
		if good {
			c.Ok("C07.stopf", tn+"."+ni.stopF.Name())
		}
	}
	c.Floor("C07.stopf", "node types with a stop function", nStop, 5)
}

// c07RootField: the field of the node type through which x is reached (n.wb.queue → "wb").
func c07RootField(info *types.Info, x ast.Expr, fields map[*types.Var]bool) string {
	root := ""
	ast.Inspect(x, func(n ast.Node) bool {
		if sel, ok := n.(*ast.SelectorExpr); ok {
			if s := info.Selections[sel]; s != nil {
				if v, ok := s.Obj().(*types.Var); ok && fields[v] {
					root = v.Name()
				}
			}
		}
		return true
	})
	return root
}

// c07Tears: does g (a same-package helper) transitively close a channel or call a teardown verb?
func c07Tears(c *core.Ctx, info *types.Info, pkg *packages.Package, g *types.Func, seen map[*types.Func]bool) bool {
	if seen[g] {
		return false
	}
	seen[g] = true
	d := declOfFunc(c.P, g)
	if d == nil || d.Decl.Body == nil {
		return false
	}
	found := false
	ast.Inspect(d.Decl.Body, func(n ast.Node) bool {
		if call, ok := n.(*ast.CallExpr); ok {
			if core.IsBuiltin(info, call, "close") {
				found = true
			}
			if h := core.Callee(info, call); h != nil && h.Pkg() == pkg.Types && c07Tears(c, info, pkg, h, seen) {
				found = true
			}
		}
		return true
	})
	return found
}

func c07Sink(c *core.Ctx, pkg *packages.Package) {
	info := pkg.TypesInfo
	// where flush/abort of the write buffer are called from
	run := c.Need("C07.sink", "", "InfluxDBOutNode", "runOut")
	if run != nil {
		// the teardown (flush then abort) is either deferred after start() or follows Consume(); resolve one level of helper
		var startPos, consumePos, tearPos token.Pos
		deferred := false
		var tearBody *ast.BlockStmt
		isTear := func(call *ast.CallExpr) *ast.BlockStmt {
			g := core.Callee(info, call)
			if g == nil {
				return nil
			}
			if core.RecvTypeName(g) == "writeBuffer" && (g.Name() == "flush" || g.Name() == "abort") {
				return run.Decl.Body
			}
			if g.Pkg() == pkg.Types && core.RecvTypeName(g) == "InfluxDBOutNode" {
				if d := declOfFunc(c.P, g); d != nil {
					has := false
					ast.Inspect(d.Decl.Body, func(n ast.Node) bool {
						if cc, ok := n.(*ast.CallExpr); ok {
							if h := core.Callee(info, cc); h != nil && core.RecvTypeName(h) == "writeBuffer" && (h.Name() == "flush" || h.Name() == "abort") {
								has = true
							}
						}
						return true
					})
					if has {
						return d.Decl.Body
					}
				}
			}
			return nil
		}
		ast.Inspect(run.Decl.Body, func(n ast.Node) bool {
			switch x := n.(type) {
			case *ast.DeferStmt:
				if b := isTear(x.Call); b != nil {
					deferred, tearPos, tearBody = true, x.Pos(), b
					return false
				}
				if fl, ok := x.Call.Fun.(*ast.FuncLit); ok {
					ast.Inspect(fl.Body, func(m ast.Node) bool {
						if cc, ok := m.(*ast.CallExpr); ok && isTear(cc) != nil {
							deferred, tearPos, tearBody = true, x.Pos(), fl.Body
							if b := isTear(cc); b != run.Decl.Body {
								tearBody = b
							}
						}
						return true
					})
					return false
				}
			case *ast.CallExpr:
				if g := core.Callee(info, x); g != nil {
					switch {
					case g.Name() == "start" && core.RecvTypeName(g) == "writeBuffer":
						startPos = x.Pos()
					case g.Name() == "Consume":
						consumePos = x.Pos()
					}
				}
				if b := isTear(x); b != nil && tearPos == token.NoPos {
					tearPos, tearBody = x.Pos(), b
				}
			}
			return true
		})
		switch {
		case tearPos == token.NoPos:
			c.Fail("C07.sink", "InfluxDBOutNode.runOut#flush-after-drain", run.Decl.Pos(), "runOut does not flush and stop the write buffer after its consumer returned: what is buffered when the input edge is drained is never written (and a stop function doing it instead races with the backlog)")
		case deferred:
			c.Check(startPos != token.NoPos && startPos < tearPos && tearPos < consumePos, "C07.sink", "InfluxDBOutNode.runOut#flush-after-drain", tearPos, "the deferred flush/abort must be registered after the write buffer was started and before the consumer runs")
		default:
			c.Check(consumePos != token.NoPos && consumePos < tearPos, "C07.sink", "InfluxDBOutNode.runOut#flush-after-drain", tearPos, "flush/abort must follow consumer.Consume()")
		}
		if tearBody != nil {
			var fl, ab token.Pos
			ast.Inspect(tearBody, func(n ast.Node) bool {
				if cc, ok := n.(*ast.CallExpr); ok {
					if h := core.Callee(info, cc); h != nil && core.RecvTypeName(h) == "writeBuffer" {
						switch h.Name() {
						case "flush":
							if fl == token.NoPos {
								fl = cc.Pos()
							}
						case "abort":
							if ab == token.NoPos {
								ab = cc.Pos()
							}
						}
					}
				}
				return true
			})
			c.Check(fl != token.NoPos && ab != token.NoPos && fl < ab, "C07.sink", "InfluxDBOutNode#flush-before-abort", tearPos, "the write buffer must be flushed before it is aborted (flush %v, abort %v)", fl != token.NoPos, ab != token.NoPos)
		}
	}
	if fn := c.Need("C07.sink", "", "writeBuffer", "writeAll"); fn != nil {
		c09LoopNoExit(c, "C07.sink", "writeBuffer.writeAll", fn, info, ".buffer", "write", func(rs *ast.RangeStmt, call *ast.CallExpr) string {
			del := false
			for _, st := range rs.Body.List {
				if es, ok := st.(*ast.ExprStmt); ok {
					if cc, ok := es.X.(*ast.CallExpr); ok && core.IsBuiltin(info, cc, "delete") {
						del = true
					}
				}
			}
			if !del {
				return "a written batch is not removed from the buffer unconditionally: it is written again on the next flush"
			}
			return ""
		})
	}
	if fn := c.Need("C07.sink", "", "writeBuffer", "enqueue"); fn != nil {
		sends, deflt := 0, false
		var recv []string
		ast.Inspect(fn.Decl.Body, func(n ast.Node) bool {
			switch x := n.(type) {
			case *ast.SendStmt:
				if an.FieldSel(info, x.Chan, "writeBuffer", "queue") {
					sends++
				}
			case *ast.UnaryExpr:
				if x.Op == token.ARROW {
					if sel, ok := ast.Unparen(x.X).(*ast.SelectorExpr); ok {
						recv = append(recv, sel.Sel.Name)
					}
				}
			case *ast.CommClause:
				if x.Comm == nil {
					deflt = true
				}
			}
			return true
		})
		c.Check(sends == 1 && !deflt && strings.Join(recv, ",") == "stopping", "C07.sink", "writeBuffer.enqueue#blocking", fn.Decl.Pos(), "enqueue must block until the entry is queued, giving up only when the buffer is stopping (sends %d, default %v, other arms [%s])", sends, deflt, strings.Join(recv, ","))
	}
	if fn := c.Need("C07.sink", "", "writeBuffer", "run"); fn != nil {
		// the flushing arm: writeAll then flushed signal; the queue arm adds the points
		okFlush, okQueue := false, false
		ast.Inspect(fn.Decl.Body, func(n ast.Node) bool {
			cc, ok := n.(*ast.CommClause)
			if !ok || cc.Comm == nil {
				return true
			}
			comm := types.ExprString(commRecv(cc.Comm))
			var seq []string
			for _, st := range cc.Body {
				ast.Inspect(st, func(m ast.Node) bool {
					switch x := m.(type) {
					case *ast.CallExpr:
						if g := core.Callee(info, x); g != nil && (g.Name() == "writeAll" || g.Name() == "AddPoints") {
							seq = append(seq, g.Name())
						}
					case *ast.SendStmt:
						if an.FieldSel(info, x.Chan, "writeBuffer", "flushed") {
							seq = append(seq, "flushed")
						}
					}
					return true
				})
			}
			switch {
			case strings.HasSuffix(comm, ".flushing"):
				okFlush = strings.Join(seq, ",") == "writeAll,flushed"
			case strings.HasSuffix(comm, ".queue"):
				okQueue = len(seq) > 0 && seq[0] == "AddPoints"
			}
			return true
		})
		c.Check(okFlush, "C07.sink", "writeBuffer.run#flush", fn.Decl.Pos(), "the flush request must be answered by writeAll() and then the flushed signal")
		c.Check(okQueue, "C07.sink", "writeBuffer.run#queue", fn.Decl.Pos(), "a queued entry must be added to its batch")
	}
}

func commRecv(s ast.Stmt) ast.Expr {
	var x ast.Expr
	switch y := s.(type) {
	case *ast.ExprStmt:
		x = y.X
	case *ast.AssignStmt:
		if len(y.Rhs) == 1 {
			x = y.Rhs[0]
		}
	case *ast.SendStmt:
		return y.Chan
	}
	if u, ok := x.(*ast.UnaryExpr); ok && u.Op == token.ARROW {
		return u.X
	}
	return ast.NewIdent("?")
}

func c07Tickers(c *core.Ctx, pkg *packages.Package) {
	info := pkg.TypesInfo
	n := 0
	sc := pkg.Types.Scope()
	for _, name := range sc.Names() {
		tn, ok := sc.Lookup(name).(*types.TypeName)
		if !ok {
			continue
		}
		start := c.P.FindFunc("", name, "Start")
		stop := c.P.FindFunc("", name, "Stop")
		if start == nil || stop == nil || c.P.FindFunc("", name, "Next") == nil {
			continue
		}
		_ = tn
		// channels closed by Stop, and does Stop wait?
		closed := map[string]bool{}
		waits := false
		ast.Inspect(stop.Decl.Body, func(nd ast.Node) bool {
			if call, ok := nd.(*ast.CallExpr); ok {
				if core.IsBuiltin(info, call, "close") {
					if sel, ok := ast.Unparen(call.Args[0]).(*ast.SelectorExpr); ok {
						closed[sel.Sel.Name] = true
					}
				}
				if f := core.Callee(info, call); f != nil && f.Name() == "Wait" && core.RecvTypeName(f) == "WaitGroup" {
					waits = true
				}
			}
			return true
		})
		n++
		if !waits {
			c.Ok("C07.tickers", name+".Start")
			continue
		}
		parents := parentMap(start.Decl.Body)
		good := true
		sends := 0
		ast.Inspect(start.Decl.Body, func(nd ast.Node) bool {
			g, ok := nd.(*ast.GoStmt)
			if !ok {
				return true
			}
			ast.Inspect(g, func(m ast.Node) bool {
				send, ok := m.(*ast.SendStmt)
				if !ok {
					return true
				}
				sends++
				guarded := false
				if cc, ok := parents[send].(*ast.CommClause); ok && cc.Comm == send {
					if sel, ok := parents[parents[cc]].(*ast.SelectStmt); ok {
						for _, st := range sel.Body.List {
							oc := st.(*ast.CommClause)
							if oc == cc || oc.Comm == nil {
								continue
							}
							if rs, ok := ast.Unparen(commRecv(oc.Comm)).(*ast.SelectorExpr); ok && closed[rs.Sel.Name] {
								guarded = true
							}
						}
					}
				}
				if !guarded {
					good = false
					c.Fail("C07.tickers", name+".Start#bare-send", send.Pos(), "the goroutine of %s sends a tick on %s outside a select with the channel Stop() closes: once the consumer is gone (doQuery returned because its edge was aborted) the goroutine blocks forever, %s.Stop() waits for it forever, and with it stopBatch, ExecutingTask.stop and StopTask under the task master lock", name, types.ExprString(send.Chan), name)
				}
				return true
			})
			return false
		})
		if good {
			c.Ok("C07.tickers", name+".Start")
		}
		_ = sends
	}
	c.Floor("C07.tickers", "ticker implementations", n, 2)
}

// c07StopWait: F70 / F46. StopTask, DeleteTask, StopTasks and Close hold TaskMaster.mu while they wait for the goroutines of the
// task's nodes. So nothing reachable from a node's goroutine (the function stored in node.runF and what it calls in the package,
// receiver callbacks included) may (a) call a TaskMaster method that takes TaskMaster.mu, or (b) write into the task master's
// own stream (WriteKapacitorPoint/WritePoints → writePointsIn), whose only consumer, forkPoint, needs TaskMaster.mu: with more
// than one edge buffer queued the writer blocks for good.
func c07StopWait(c *core.Ctx, root *packages.Package) {
	info := root.TypesInfo
	byObj := map[*types.Func]*core.Func{}
	for _, f := range core.AllFuncs(root) {
		if o, ok := info.Defs[f.Decl.Name].(*types.Func); ok {
			byObj[o] = f
		}
	}
	// which TaskMaster mutexes each TaskMaster method takes itself, and which methods collect into the master's own stream
	locks := map[*types.Func]map[string]bool{}
	feeds := map[*types.Func]bool{}
	tmCalls := map[*types.Func][]*types.Func{} // static calls between TaskMaster methods
	for o, f := range byObj {
		if core.RecvName(f.Decl) != "TaskMaster" {
			continue
		}
		ast.Inspect(f.Decl.Body, func(nd ast.Node) bool {
			call, ok := nd.(*ast.CallExpr)
			if !ok {
				return true
			}
			if fld, op := mutexFieldOp(info, call, "TaskMaster"); fld != "" && op == "+" {
				if locks[o] == nil {
					locks[o] = map[string]bool{}
				}
				locks[o][fld] = true
			}
			if sel, ok := call.Fun.(*ast.SelectorExpr); ok && sel.Sel.Name == "CollectPoint" && an.FieldSel(info, sel.X, "TaskMaster", "writePointsIn") {
				feeds[o] = true
			}
			if m := core.Callee(info, call); m != nil && byObj[m] != nil && core.RecvName(byObj[m].Decl) == "TaskMaster" {
				tmCalls[o] = append(tmCalls[o], m)
			}
			return true
		})
	}
	// W: the mutexes that may be held while the task master waits for a task's node goroutines (the calls of ExecutingTask.stop):
	// held in the waiting function itself, or by a TaskMaster method that calls it (fixpoint over the callers)
	entry := map[*types.Func]map[string]bool{}
	held := map[string]bool{}
	waitSites := 0
	for round := 0; round < 8; round++ {
		changed := false
		for o, f := range byObj {
			if core.RecvName(f.Decl) != "TaskMaster" {
				continue
			}
			at := mayHoldAtCalls(info, f.Decl.Body, "TaskMaster", entry[o])
			for call, st := range at {
				m := core.Callee(info, call)
				if m == nil {
					continue
				}
				if m.Name() == "stop" && core.RecvTypeName(m) == "ExecutingTask" {
					if round == 0 {
						waitSites++
					}
					for k := range st {
						held[k] = true
					}
				}
				if byObj[m] != nil && core.RecvName(byObj[m].Decl) == "TaskMaster" {
					if entry[m] == nil {
						entry[m] = map[string]bool{}
					}
					for k := range st {
						if !entry[m][k] {
							entry[m][k] = true
							changed = true
						}
					}
				}
			}
		}
		if !changed {
			break
		}
	}
	if waitSites == 0 {
		c.Undecided("C07.stopwait", "anchor:ExecutingTask.stop", token.NoPos, "no TaskMaster method calls ExecutingTask.stop: the rule cannot see where the task master waits for the node goroutines")
		return
	}
	// what the consumer of the master's own stream needs: the mutexes taken by runForking and the TaskMaster methods it reaches
	need := map[string]bool{}
	var fork *types.Func
	for o, f := range byObj {
		if core.RecvName(f.Decl) == "TaskMaster" && f.Decl.Name.Name == "runForking" {
			fork = o
		}
	}
	if fork == nil {
		c.Undecided("C07.stopwait", "anchor:TaskMaster.runForking", token.NoPos, "the consumer of the task master's own stream was not found")
		return
	}
	{
		seen := map[*types.Func]bool{fork: true}
		work := []*types.Func{fork}
		for len(work) > 0 {
			o := work[0]
			work = work[1:]
			for k := range locks[o] {
				need[k] = true
			}
			for _, m := range tmCalls[o] {
				if !seen[m] {
					seen[m] = true
					work = append(work, m)
				}
			}
		}
	}
	inter := func(a map[string]bool) string {
		for _, k := range an.SortedKeys(a) {
			if held[k] {
				return k
			}
		}
		return ""
	}
	// entry points: functions stored into node.runF
	var entries []*types.Func
	for _, f := range core.AllFuncs(root) {
		ast.Inspect(f.Decl.Body, func(nd ast.Node) bool {
			as, ok := nd.(*ast.AssignStmt)
			if !ok || len(as.Lhs) != 1 || len(as.Rhs) != 1 || !an.FieldSel(info, as.Lhs[0], "node", "runF") {
				return true
			}
			if sel, ok := ast.Unparen(as.Rhs[0]).(*ast.SelectorExpr); ok {
				if m, ok := info.Uses[sel.Sel].(*types.Func); ok {
					entries = append(entries, m)
				}
			}
			return true
		})
	}
	c.Floor("C07.stopwait", "node run functions (node.runF)", len(entries), 25)
	// reachable set per entry (static calls + methods of types declared in the package that implement the edge receiver
	// callbacks are reached through the consumers: approximated by all methods of the entry's receiver type and of the
	// group types it constructs — here: every function of the same file as the entry)
	calls := map[*types.Func][]struct {
		to  *types.Func
		pos token.Pos
	}{}
	for o, f := range byObj {
		ast.Inspect(f.Decl.Body, func(nd ast.Node) bool {
			if call, ok := nd.(*ast.CallExpr); ok {
				if m := core.Callee(info, call); m != nil {
					calls[o] = append(calls[o], struct {
						to  *types.Func
						pos token.Pos
					}{m, call.Pos()})
				}
			}
			return true
		})
	}
	fileOf := func(o *types.Func) string { return c.P.Fset.Position(o.Pos()).Filename }
	n := 0
	reported := map[string]bool{}
	for _, ent := range entries {
		ef := byObj[ent]
		if ef == nil {
			continue
		}
		n++
		// roots: the entry and every function declared in the entry's file (its receivers and groups live there)
		seen := map[*types.Func]bool{}
		var work []*types.Func
		for o := range byObj {
			if fileOf(o) == fileOf(ent) && core.RecvName(byObj[o].Decl) != "TaskMaster" {
				seen[o] = true
				work = append(work, o)
			}
		}
		node := core.RecvName(ef.Decl)
		for len(work) > 0 {
			o := work[0]
			work = work[1:]
			for _, cl := range calls[o] {
				mu, what := "", ""
				if k := inter(locks[cl.to]); k != "" {
					mu, what = k, "takes TaskMaster."+k
				} else if feeds[cl.to] {
					if k := inter(need); k != "" {
						mu, what = k, "writes into the task master's own stream, whose consumer (runForking/forkPoint) needs TaskMaster."+k
					}
				}
				if mu != "" {
					cons := node + "→TaskMaster." + cl.to.Name()
					if !reported[cons] {
						reported[cons] = true
						c.Fail("C07.stopwait", cons, cl.pos, "code that runs on the goroutine of a %s calls TaskMaster.%s, which %s; the task master may hold TaskMaster.%s while it waits for that goroutine (ExecutingTask.stop under StopTask/DeleteTask/StopTasks/Close): the stop never returns (and, holding the lock, stalls the fan-out and every other stop)", node, cl.to.Name(), what, mu)
					}
					continue
				}
				if locks[cl.to] != nil || feeds[cl.to] {
					continue
				}
				if byObj[cl.to] != nil && !seen[cl.to] && core.RecvName(byObj[cl.to].Decl) != "TaskMaster" {
					seen[cl.to] = true
					work = append(work, cl.to)
				}
			}
		}
	}
	if len(reported) == 0 {
		c.Ok("C07.stopwait", "nodes#no-call-needs-a-held-mutex")
	}
	c.Note("C07.stopwait: mutexes that may be held while the task master waits for node goroutines: %v (wait sites %d); the stream consumer needs %v; TaskMaster methods that take a mutex: %d, that feed the master's stream: %d; node entry points: %d", an.SortedKeys(held), waitSites, an.SortedKeys(need), len(locks), len(feeds), n)
}
