package props

import (
	"go/ast"
	"go/token"
	"go/types"
	"strings"

	"golang.org/x/tools/go/cfg"
	"golang.org/x/tools/go/packages"

	"kapcheck/an"
	"kapcheck/core"
)

func c07ProbeRules(c *core.Ctx, root *packages.Package) {
	c.Rule("C07.hooks", "A1: F100: TaskMaster.DeleteTask runs the delete hooks (deleteTask) after stopTask on every path, also when the stop returned an error")
	c.Rule("C07.selfwait", "A6: F101: the receiver callbacks of a type that owns a helper goroutine and the node's input edge (idleBarrier, periodicBarrier) never reach a WaitGroup.Wait: the callback runs on the goroutine that consumes the input edge, the helper may be blocked sending into that edge")
	c.Rule("C07.owninput", "A9: F102: a function that collects a delete-group message into an edge (the barrier's helper goroutine sends it into the node's own input, which the parent node closes at stop) contains the panic of a send on a closed edge with a deferred recover")
	c.Rule("C07.alertclose", "A1: F103: AlertNode.runAlert closes the anonymous topic and deregisters its handlers on every path behind Consume, also when Consume failed")
	c.Rule("C07.readers", "A6: F104: every send of multiConsumer.readEdge into the shared channel is one arm of a select whose other arm is the consumer's release signal (a channel Consume only closes by defer), and the error channels of Consume hold one error per parent")
	c.Rule("C07.forwarder", "A6: F106 (must-pass over go/cfg): UDFNode.runUDF receives the forwarder's result on every path to a return behind the go statement that starts the forwarder (node.start closes the child edges as soon as runUDF returns), and the forwarder aborts the UDF before it leaves on a forwarding error (nobody reads the UDF's output afterwards)")
	c07Hooks(c, root)
	c07SelfWait(c, root)
	c07OwnInput(c, root)
	c07AlertClose(c, root)
	c07Forwarder(c, root)
	c07LoopbackErr(c, root)
	c07ForkEdge(c, root)
	c07QueueHandoff(c, root)
	c07QueryCancel(c, root)
	c07WaitAll(c, root)
	c07CloseOrder(c)
	if ep := c.P.Pkg("edge"); ep != nil {
		c07Readers(c, ep)
	} else {
		c.Undecided("C07.readers", "anchor:edge", token.NoPos, "package edge not loaded")
	}
}

func c07Hooks(c *core.Ctx, root *packages.Package) {
	fn := c.Need("C07.hooks", "", "TaskMaster", "DeleteTask")
	if fn == nil {
		return
	}
	eng := &an.Engine{Prog: c.P,
		TrackCall: func(call *ast.CallExpr, callee *types.Func) string {
			if callee != nil && core.RecvTypeName(callee) == "TaskMaster" && (callee.Name() == "stopTask" || callee.Name() == "deleteTask") {
				return callee.Name()
			}
			return ""
		}}
	paths, err := eng.Run(fn)
	if err != nil {
		c.Undecided("C07.hooks", "TaskMaster.DeleteTask", fn.Decl.Pos(), "%v", err)
		return
	}
	good, seen := true, false
	for _, p := range paths {
		if p.Exit == "panic" || !p.Has("stopTask") {
			continue
		}
		seen = true
		if p.Index("deleteTask") < p.Index("stopTask") {
			good = false
			c.Fail("C07.hooks", "TaskMaster.DeleteTask#hooks-always", p.RetPos, "a path of DeleteTask returns behind stopTask without running the delete hooks (path condition: %s): the topic of a task whose node failed — the stop then returns the node's error — is never deleted, its handlers and persisted state stay", p.Cond())
			break
		}
	}
	if !seen {
		c.Undecided("C07.hooks", "TaskMaster.DeleteTask", fn.Decl.Pos(), "no path calls stopTask")
	} else if good {
		c.Ok("C07.hooks", "TaskMaster.DeleteTask#hooks-always")
	}
}

// receiver callbacks: the methods of edge.ForwardReceiver / edge.Receiver, called by the consumer on the goroutine that reads the input edge
var edgeCallbacks = map[string]bool{"BeginBatch": true, "BatchPoint": true, "EndBatch": true, "Point": true, "Barrier": true, "DeleteGroup": true, "Done": true, "BufferedBatch": true}

func c07SelfWait(c *core.Ctx, root *packages.Package) {
	info := root.TypesInfo
	type tinfo struct {
		hasEdge, hasGo bool
		methods        map[string]*core.Func
	}
	types_ := map[string]*tinfo{}
	get := func(n string) *tinfo {
		if types_[n] == nil {
			types_[n] = &tinfo{methods: map[string]*core.Func{}}
		}
		return types_[n]
	}
	for _, f := range core.AllFuncs(root) {
		r := core.RecvName(f.Decl)
		if r == "" {
			continue
		}
		t := get(r)
		t.methods[f.Decl.Name.Name] = f
		ast.Inspect(f.Decl.Body, func(nd ast.Node) bool {
			if g, ok := nd.(*ast.GoStmt); ok {
				if m := core.Callee(info, g.Call); m != nil && core.RecvTypeName(m) == r {
					t.hasGo = true
				}
			}
			return true
		})
	}
	for name, t := range types_ {
		if obj, ok := root.Types.Scope().Lookup(name).(*types.TypeName); ok {
			if st, ok := obj.Type().Underlying().(*types.Struct); ok {
				for i := 0; i < st.NumFields(); i++ {
					if core.TypeIs(st.Field(i).Type(), core.ModPath("edge"), "Edge") {
						t.hasEdge = true
					}
				}
			}
		}
	}
	isWGWait := func(call *ast.CallExpr) bool {
		sel, ok := call.Fun.(*ast.SelectorExpr)
		if !ok || sel.Sel.Name != "Wait" {
			return false
		}
		s, ok := info.Selections[sel]
		return ok && core.TypeIs(s.Recv(), "sync", "WaitGroup")
	}
	n := 0
	for _, name := range an.SortedKeys(types_) {
		t := types_[name]
		if !t.hasEdge || !t.hasGo {
			continue
		}
		hasCb := false
		for m := range t.methods {
			if edgeCallbacks[m] {
				hasCb = true
			}
		}
		if !hasCb {
			continue
		}
		n++
		// methods of the type that reach a WaitGroup.Wait
		waits := map[string]bool{}
		calls := map[string][]string{}
		for m, f := range t.methods {
			ast.Inspect(f.Decl.Body, func(nd ast.Node) bool {
				switch x := nd.(type) {
				case *ast.FuncLit, *ast.GoStmt:
					return false
				case *ast.CallExpr:
					if isWGWait(x) {
						waits[m] = true
					}
					if cal := core.Callee(info, x); cal != nil && core.RecvTypeName(cal) == name {
						calls[m] = append(calls[m], cal.Name())
					}
				}
				return true
			})
		}
		for changed := true; changed; {
			changed = false
			for m, cs := range calls {
				if waits[m] {
					continue
				}
				for _, k := range cs {
					if waits[k] {
						waits[m] = true
						changed = true
					}
				}
			}
		}
		for _, m := range an.SortedKeys(t.methods) {
			if !edgeCallbacks[m] {
				continue
			}
			f := t.methods[m]
			c.Analysed(f)
			c.Check(!waits[m], "C07.selfwait", name+"."+m, f.Decl.Pos(), "%s.%s runs on the goroutine that consumes the node's input edge and waits (WaitGroup.Wait) for the helper goroutine of the %s, which sends into that same edge: with the edge full the helper never finishes, the node freezes and the task can no longer be stopped", name, m, name)
		}
	}
	c.Floor("C07.selfwait", "receiver types with a helper goroutine and the input edge", n, 2)
}

func hasDeferredRecover(info *types.Info, body *ast.BlockStmt) bool {
	for _, st := range body.List {
		d, ok := st.(*ast.DeferStmt)
		if !ok {
			continue
		}
		fl, ok := d.Call.Fun.(*ast.FuncLit)
		if !ok {
			continue
		}
		found := false
		ast.Inspect(fl.Body, func(n ast.Node) bool {
			if call, ok := n.(*ast.CallExpr); ok && core.IsBuiltin(info, call, "recover") {
				found = true
			}
			return true
		})
		if found {
			return true
		}
	}
	return false
}

func c07OwnInput(c *core.Ctx, root *packages.Package) {
	info := root.TypesInfo
	n := 0
	for _, f := range core.AllFuncs(root) {
		var site *ast.CallExpr
		ast.Inspect(f.Decl.Body, func(nd ast.Node) bool {
			call, ok := nd.(*ast.CallExpr)
			if !ok || len(call.Args) != 1 {
				return true
			}
			cal := core.Callee(info, call)
			if cal == nil || cal.Name() != "Collect" {
				return true
			}
			arg, ok := ast.Unparen(call.Args[0]).(*ast.CallExpr)
			if !ok {
				return true
			}
			if a := core.Callee(info, arg); a != nil && a.Name() == "NewDeleteGroupMessage" {
				site = call
			}
			return true
		})
		if site == nil {
			continue
		}
		n++
		c.Analysed(f)
		name := f.Decl.Name.Name
		if r := core.RecvName(f.Decl); r != "" {
			name = r + "." + name
		}
		c.Check(hasDeferredRecover(info, f.Decl.Body), "C07.owninput", name+"#recover", site.Pos(), "%s sends a delete-group message into an edge from a goroutine that does not own it (the barrier's timer goroutine, into the node's own input edge): the parent node closes that edge when the task stops, the send panics with 'send on closed channel' and nothing on that goroutine recovers — stopping the task ends the process", name)
	}
	c.Floor("C07.owninput", "functions that collect a delete-group message", n, 1)
}

func c07AlertClose(c *core.Ctx, root *packages.Package) {
	fn := c.Need("C07.alertclose", "", "AlertNode", "runAlert")
	if fn == nil {
		return
	}
	eng := &an.Engine{Prog: c.P,
		TrackCall: func(call *ast.CallExpr, callee *types.Func) string {
			if callee == nil {
				return ""
			}
			switch callee.Name() {
			case "Consume", "CloseTopic", "DeregisterAnonHandler":
				return callee.Name()
			}
			return ""
		}}
	paths, err := eng.Run(fn)
	if err != nil {
		c.Undecided("C07.alertclose", "AlertNode.runAlert", fn.Decl.Pos(), "%v", err)
		return
	}
	good, seen := true, false
	for _, p := range paths {
		ci := p.Index("Consume")
		if ci < 0 || p.Exit == "panic" {
			continue
		}
		seen = true
		if p.Index("CloseTopic") < ci {
			good = false
			c.Fail("C07.alertclose", "AlertNode.runAlert#close-always", p.RetPos, "a path of runAlert returns behind Consume without closing the anonymous topic (path condition: %s): when the node fails — an id template that cannot be rendered, a failing child — the handler goroutines of its topic outlive the task and the events queued for them are not delivered before the task ends", p.Cond())
			break
		}
	}
	if !seen {
		c.Undecided("C07.alertclose", "AlertNode.runAlert", fn.Decl.Pos(), "no path calls Consume")
		return
	}
	if good {
		c.Ok("C07.alertclose", "AlertNode.runAlert#close-always")
	}
	// the deregistration loop stands behind Consume and visits every handler
	info := root.TypesInfo
	var consume token.Pos
	ast.Inspect(fn.Decl.Body, func(n ast.Node) bool {
		if call, ok := n.(*ast.CallExpr); ok {
			if cal := core.Callee(info, call); cal != nil && cal.Name() == "Consume" {
				consume = call.Pos()
			}
		}
		return true
	})
	dereg := false
	ast.Inspect(fn.Decl.Body, func(n ast.Node) bool {
		rs, ok := n.(*ast.RangeStmt)
		if !ok || rs.Pos() < consume || !an.FieldSel(info, rs.X, "AlertNode", "handlers") {
			return true
		}
		early, reg := false, false
		ast.Inspect(rs.Body, func(m ast.Node) bool {
			switch y := m.(type) {
			case *ast.ReturnStmt, *ast.BranchStmt:
				early = true
			case *ast.CallExpr:
				if cal := core.Callee(info, y); cal != nil && cal.Name() == "DeregisterAnonHandler" {
					reg = true
				}
			}
			return true
		})
		if reg && !early {
			dereg = true
		}
		return true
	})
	// the loop must not stand behind an early return either: checked on the paths above for CloseTopic; same for the loop
	for _, p := range paths {
		if ci := p.Index("Consume"); ci >= 0 && p.Exit != "panic" && !p.Has("loop") {
			_ = ci
		}
	}
	c.Check(dereg, "C07.alertclose", "AlertNode.runAlert#deregister-all", fn.Decl.Pos(), "runAlert must deregister every handler of n.handlers from the anonymous topic behind Consume (a loop without early exit)")
}

func c07Readers(c *core.Ctx, ep *packages.Package) {
	info := ep.TypesInfo
	fn := c.Need("C07.readers", "edge", "multiConsumer", "readEdge")
	cons := c.Need("C07.readers", "edge", "multiConsumer", "Consume")
	if fn == nil || cons == nil {
		return
	}
	// every send into c.messages is a select arm next to a release arm whose return is c12ReleasedReturn-valid
	sends, bad := 0, token.NoPos
	var inspectStmt func(parent ast.Node)
	inspectStmt = func(parent ast.Node) {}
	_ = inspectStmt
	selectArm := map[*ast.SendStmt]*ast.SelectStmt{}
	ast.Inspect(fn.Decl.Body, func(n ast.Node) bool {
		if sel, ok := n.(*ast.SelectStmt); ok {
			for _, cl := range sel.Body.List {
				if cm, ok := cl.(*ast.CommClause); ok {
					if snd, ok := cm.Comm.(*ast.SendStmt); ok {
						selectArm[snd] = sel
					}
				}
			}
		}
		return true
	})
	ast.Inspect(fn.Decl.Body, func(n ast.Node) bool {
		snd, ok := n.(*ast.SendStmt)
		if !ok || !an.FieldSel(info, snd.Chan, "multiConsumer", "messages") {
			return true
		}
		sends++
		sel := selectArm[snd]
		released := false
		if sel != nil {
			for _, cl := range sel.Body.List {
				cm := cl.(*ast.CommClause)
				if body := an.Effective(cm.Body); len(body) == 1 {
					if ret, ok := body[0].(*ast.ReturnStmt); ok && c12ReleasedReturn(info, ep, fn, ret) {
						released = true
					}
				}
			}
		}
		if !released && bad == token.NoPos {
			bad = snd.Pos()
		}
		return true
	})
	if sends == 0 {
		c.Undecided("C07.readers", "multiConsumer.readEdge", fn.Decl.Pos(), "no send into multiConsumer.messages found")
	} else {
		c.Check(bad == token.NoPos, "C07.readers", "multiConsumer.readEdge#releasable", bad, "a reader of a union/join sends into the consumer's channel without an arm for the consumer's release signal: when the receiver fails, Consume returns and the reader stays blocked on that send for ever — the goroutine (and its parent edge) outlives the task and TaskMaster.Close")
	}
	// error channels sized by the number of parents
	n, wrong := 0, token.NoPos
	recv := ""
	if cons.Decl.Recv != nil && len(cons.Decl.Recv.List) == 1 && len(cons.Decl.Recv.List[0].Names) == 1 {
		recv = cons.Decl.Recv.List[0].Names[0].Name
	}
	ast.Inspect(cons.Decl.Body, func(nd ast.Node) bool {
		call, ok := nd.(*ast.CallExpr)
		if !ok || !core.IsBuiltin(info, call, "make") || len(call.Args) < 1 {
			return true
		}
		ch, ok := info.TypeOf(call.Args[0]).Underlying().(*types.Chan)
		if !ok || !types.Identical(ch.Elem(), types.Universe.Lookup("error").Type()) {
			return true
		}
		n++
		if len(call.Args) != 2 || types.ExprString(call.Args[1]) != "len("+recv+".ins)" {
			if wrong == token.NoPos {
				wrong = call.Pos()
			}
		}
		return true
	})
	if n == 0 {
		c.Undecided("C07.readers", "multiConsumer.Consume", cons.Decl.Pos(), "no error channel found")
	} else {
		c.Check(wrong == token.NoPos, "C07.readers", "multiConsumer.Consume#error-capacity", wrong, "an error channel of Consume holds fewer errors than there are parents: after Consume has returned with the first error nobody receives, a second failing reader blocks the collector goroutine for ever (and with it the close of the message channel)")
	}
}

// c07Forwarder: must-pass analysis over go/cfg for UDFNode.runUDF.
func c07Forwarder(c *core.Ctx, root *packages.Package) {
	info := root.TypesInfo
	fn := c.Need("C07.forwarder", "", "UDFNode", "runUDF")
	if fn == nil {
		return
	}
	// the forwarder: the go statement whose literal calls edge.Forward; its result channel: the channel it sends to
	var goStmt *ast.GoStmt
	var resCh types.Object
	abortsOnErr := false
	ast.Inspect(fn.Decl.Body, func(n ast.Node) bool {
		g, ok := n.(*ast.GoStmt)
		if !ok {
			return true
		}
		fl, ok := g.Call.Fun.(*ast.FuncLit)
		if !ok {
			return true
		}
		forwards := false
		ast.Inspect(fl.Body, func(m ast.Node) bool {
			if call, ok := m.(*ast.CallExpr); ok {
				if cal := core.Callee(info, call); cal != nil && cal.Name() == "Forward" && cal.Pkg() != nil && strings.HasSuffix(cal.Pkg().Path(), "/edge") {
					forwards = true
				}
			}
			return true
		})
		if !forwards {
			return true
		}
		goStmt = g
		ast.Inspect(fl.Body, func(m ast.Node) bool {
			switch x := m.(type) {
			case *ast.SendStmt:
				if id, ok := ast.Unparen(x.Chan).(*ast.Ident); ok {
					resCh = info.Uses[id]
				}
			case *ast.IfStmt:
				// the error branch of the Forward call: contains a return and an Abort
				isFwd := false
				if x.Init != nil {
					ast.Inspect(x.Init, func(k ast.Node) bool {
						if call, ok := k.(*ast.CallExpr); ok {
							if cal := core.Callee(info, call); cal != nil && cal.Name() == "Forward" {
								isFwd = true
							}
						}
						return true
					})
				}
				if isFwd {
					ast.Inspect(x.Body, func(k ast.Node) bool {
						if call, ok := k.(*ast.CallExpr); ok {
							if cal := core.Callee(info, call); cal != nil && cal.Name() == "Abort" {
								abortsOnErr = true
							}
						}
						return true
					})
				}
			}
			return true
		})
		return true
	})
	if goStmt == nil || resCh == nil {
		c.Undecided("C07.forwarder", "UDFNode.runUDF", fn.Decl.Pos(), "the forwarding goroutine (a go statement whose literal calls edge.Forward and reports on a channel) was not found")
		return
	}
	c.Analysed(fn)
	c.Check(abortsOnErr, "C07.forwarder", "UDFNode.runUDF#abort-on-forward-error", goStmt.Pos(), "the forwarding goroutine leaves on a forwarding error (a child node failed) without aborting the UDF: nobody reads the UDF's output afterwards, the server's reader blocks on its output channel, Stop waits for the reader holding the server lock and Abort cannot get in — the task can never be stopped")
	// must-pass: from the go statement to every return, a receive from resCh
	g := cfg.New(fn.Decl.Body, func(*ast.CallExpr) bool { return true })
	const (
		before  = iota // the forwarder is not started
		pending        // started, result not received
		done
	)
	join := func(a, b int) int { // worst case
		if a == pending || b == pending {
			return pending
		}
		if a == before || b == before {
			return before
		}
		return done
	}
	isRecv := func(n ast.Node) bool {
		found := false
		ast.Inspect(n, func(m ast.Node) bool {
			if _, ok := m.(*ast.FuncLit); ok {
				return false
			}
			if u, ok := m.(*ast.UnaryExpr); ok && u.Op == token.ARROW {
				if id, ok := ast.Unparen(u.X).(*ast.Ident); ok && info.Uses[id] == resCh {
					found = true
				}
			}
			return true
		})
		return found
	}
	in := make([]int, len(g.Blocks))
	reached := make([]bool, len(g.Blocks))
	if len(g.Blocks) == 0 {
		return
	}
	reached[0] = true
	var badRet token.Pos
	apply := func(b *cfg.Block, st int, record bool) int {
		for _, nd := range b.Nodes {
			if nd == ast.Node(goStmt) {
				st = pending
				continue
			}
			if _, ok := nd.(*ast.DeferStmt); ok {
				continue
			}
			if isRecv(nd) && st == pending {
				st = done
			}
			if ret, ok := nd.(*ast.ReturnStmt); ok && record && st == pending && badRet == token.NoPos {
				badRet = ret.Pos()
			}
		}
		return st
	}
	work := []*cfg.Block{g.Blocks[0]}
	for steps := 0; len(work) > 0 && steps < 100000; steps++ {
		b := work[0]
		work = work[1:]
		o := apply(b, in[b.Index], false)
		for _, s := range b.Succs {
			nv := o
			if reached[s.Index] {
				nv = join(in[s.Index], o)
				if nv == in[s.Index] {
					continue
				}
			}
			reached[s.Index] = true
			in[s.Index] = nv
			work = append(work, s)
		}
	}
	for _, b := range g.Blocks {
		if reached[b.Index] {
			apply(b, in[b.Index], true)
		}
	}
	c.Check(badRet == token.NoPos, "C07.forwarder", "UDFNode.runUDF#wait-for-forwarder", badRet, "runUDF can return behind the start of its forwarding goroutine without having received that goroutine's result: node.start closes the child edges as soon as runUDF returns, the forwarder is still inside edge.Forward and its send panics with 'send on closed channel' on a goroutine nothing recovers — a UDF that answers with an error ends the process")
}

// c05UdfOpenState (F105): UDFSocket.Abort and UDFProcess.Abort dereference the server that Open creates. The node aborts its
// UDF only in the opened state: stopUDF behind a test of the opened flag, and the flag is set only behind a successful Open.
func c05UdfOpenState(c *core.Ctx, root *packages.Package) {
	info := root.TypesInfo
	c.Rule("C05.udf.openstate", "A1 (typestate): UDFNode aborts its UDF only when it is open — in stopUDF every path to Abort has tested the opened flag, in runUDF the flag is set and Abort is called only behind a successful Open; the Abort of UDFSocket/UDFProcess dereferences what Open creates")
	track := func(call *ast.CallExpr, callee *types.Func) string {
		if callee == nil {
			return ""
		}
		switch callee.Name() {
		case "Open", "Abort":
			if sel, ok := call.Fun.(*ast.SelectorExpr); ok && an.FieldSel(info, sel.X, "UDFNode", "udf") {
				return callee.Name()
			}
		}
		return ""
	}
	// does the implementation's Abort need the open state at all? (a field assigned in Open, used in Abort without nil test)
	needs := false
	for _, typ := range []string{"UDFSocket", "UDFProcess"} {
		open := c.P.FindFunc("", typ, "Open")
		abort := c.P.FindFunc("", typ, "Abort")
		if open == nil || abort == nil {
			continue
		}
		assigned := map[string]bool{}
		ast.Inspect(open.Decl.Body, func(n ast.Node) bool {
			if as, ok := n.(*ast.AssignStmt); ok {
				for _, l := range as.Lhs {
					if sel, ok := ast.Unparen(l).(*ast.SelectorExpr); ok {
						if s, ok := info.Selections[sel]; ok && s.Kind() == types.FieldVal {
							assigned[sel.Sel.Name] = true
						}
					}
				}
			}
			return true
		})
		nilTested := map[string]bool{}
		ast.Inspect(abort.Decl.Body, func(n ast.Node) bool {
			if b, ok := n.(*ast.BinaryExpr); ok && (b.Op == token.NEQ || b.Op == token.EQL) && types.ExprString(b.Y) == "nil" {
				if sel, ok := ast.Unparen(b.X).(*ast.SelectorExpr); ok {
					nilTested[sel.Sel.Name] = true
				}
			}
			return true
		})
		ast.Inspect(abort.Decl.Body, func(n ast.Node) bool {
			if sel, ok := n.(*ast.SelectorExpr); ok {
				if inner, ok := ast.Unparen(sel.X).(*ast.SelectorExpr); ok && assigned[inner.Sel.Name] && !nilTested[inner.Sel.Name] {
					if s, ok := info.Selections[inner]; ok && s.Kind() == types.FieldVal {
						needs = true
					}
				}
			}
			return true
		})
	}
	if !needs {
		c.Ok("C05.udf.openstate", "UDFNode#abort-needs-open", "the Abort implementations do not use what Open creates without a nil test")
		return
	}
	if fn := c.Need("C05.udf.openstate", "", "UDFNode", "stopUDF"); fn != nil {
		eng := &an.Engine{Prog: c.P, TrackCall: track,
			Classify: func(a an.Atom) (string, bool) {
				if an.FieldSel(info, a.Expr, "UDFNode", "opened") {
					return "opened", false
				}
				return "", false
			}}
		paths, err := eng.Run(fn)
		if err != nil {
			c.Undecided("C05.udf.openstate", "UDFNode.stopUDF", fn.Decl.Pos(), "%v", err)
		} else {
			good := true
			for _, p := range paths {
				if !p.Has("Abort") {
					continue
				}
				if v, ok := p.Assign()["opened"]; !ok || !v {
					good = false
					c.Fail("C05.udf.openstate", "UDFNode.stopUDF#abort-opened-only", p.Find("Abort").Pos, "stopUDF aborts the UDF on a path that has not established that the UDF is open (path condition: %s): UDFSocket.Abort/UDFProcess.Abort dereference the server that Open creates — stopping the task while the UDF connection is still being opened (a socket is dialed for up to five minutes) is a nil pointer dereference on the goroutine that stops the task", p.Cond())
					break
				}
			}
			if good {
				c.Ok("C05.udf.openstate", "UDFNode.stopUDF#abort-opened-only")
			}
		}
	}
	// every other method of the node that uses the UDF (snapshot runs on the snapshotter's goroutine, F121): each call on
	// n.udf stands behind a test of the opened flag — directly, or of a local that was read from it — on every path
	for _, f := range core.AllFuncs(root) {
		if core.RecvName(f.Decl) != "UDFNode" {
			continue
		}
		switch f.Decl.Name.Name {
		case "stopUDF", "runUDF":
			continue
		}
		var calls []*ast.CallExpr
		ast.Inspect(f.Decl.Body, func(n ast.Node) bool {
			if call, ok := n.(*ast.CallExpr); ok {
				if sel, ok := call.Fun.(*ast.SelectorExpr); ok && an.FieldSel(info, sel.X, "UDFNode", "udf") {
					calls = append(calls, call)
				}
			}
			return true
		})
		if len(calls) == 0 {
			continue
		}
		c.Analysed(f)
		name := "UDFNode." + f.Decl.Name.Name
		// texts that stand for the flag: the field itself and locals assigned from it
		flagTexts := map[string]bool{}
		recv := an.RecvVarName(f.Decl)
		flagTexts[recv+".opened"] = true
		ast.Inspect(f.Decl.Body, func(n ast.Node) bool {
			if as, ok := n.(*ast.AssignStmt); ok && len(as.Lhs) == len(as.Rhs) {
				for i, r := range as.Rhs {
					if an.FieldSel(info, r, "UDFNode", "opened") {
						if id, ok := as.Lhs[i].(*ast.Ident); ok {
							flagTexts[id.Name] = true
						}
					}
				}
			}
			return true
		})
		for _, call := range calls {
			good := false
			for text := range flagTexts {
				t := text
				if guardedBy(f.Decl.Body, call, t, func(cond ast.Expr, br bool) bool {
					cond = ast.Unparen(cond)
					if u, ok := cond.(*ast.UnaryExpr); ok && u.Op == token.NOT {
						return !br && types.ExprString(ast.Unparen(u.X)) == t
					}
					return br && types.ExprString(cond) == t
				}) {
					good = true
				}
			}
			m := ""
			if sel, ok := call.Fun.(*ast.SelectorExpr); ok {
				m = sel.Sel.Name
			}
			c.Check(good, "C05.udf.openstate", name+"#"+m+"-opened-only", call.Pos(), "%s calls %s on the UDF on a path that has not established that the UDF is open: UDFSocket/UDFProcess hand every request to the server that Open creates — %s runs on another goroutine than runUDF (the snapshotter's), and while the connection is still being opened (a socket is dialed for up to five minutes) the call is a nil pointer dereference on a goroutine without recover: the process dies", name, m, f.Decl.Name.Name)
		}
	}
	if fn := c.Need("C05.udf.openstate", "", "UDFNode", "runUDF"); fn != nil {
		// source order is enough here: runUDF is straight-line up to the go statements
		var open, firstAbort, setOpened token.Pos
		ast.Inspect(fn.Decl.Body, func(n ast.Node) bool {
			switch x := n.(type) {
			case *ast.FuncLit:
				return false
			case *ast.CallExpr:
				switch track(x, core.Callee(info, x)) {
				case "Open":
					open = x.Pos()
				case "Abort":
					if firstAbort == token.NoPos {
						firstAbort = x.Pos()
					}
				}
			case *ast.AssignStmt:
				for _, l := range x.Lhs {
					if an.FieldSel(info, l, "UDFNode", "opened") && setOpened == token.NoPos {
						setOpened = x.Pos()
					}
				}
			}
			return true
		})
		c.Check(open != token.NoPos && setOpened > open && (firstAbort == token.NoPos || firstAbort > open), "C05.udf.openstate", "UDFNode.runUDF#opened-after-open", fn.Decl.Pos(), "runUDF must set the opened flag, and abort, only behind the call of Open (Open at %s, flag set at %s, first Abort at %s)", c.P.Pos(open), c.P.Pos(setOpened), c.P.Pos(firstAbort))
	}
}
