package props

import (
	"go/ast"
	"go/constant"
	"go/token"
	"go/types"
	"sort"
	"strings"

	"golang.org/x/tools/go/packages"

	"kapcheck/an"
	"kapcheck/core"
)

func init() {
	register(&Property{
		ID:       "C08",
		Patterns: []string{"./services/alert", "./alert", "."},
		Run:      runC08,
		Explanation: "Alert state persistence as structure: Service.Collect updates the in-memory topic (and so notifies handlers) before it touches the store, then clears the saved state exactly for OK events and saves it otherwise, returning the store's error; " +
			"a closed topic is restored first, and the restore re-tests the closed flag under the write lock; the persisted record and the in-memory state are converted field by field in both directions and the reused decode buffer is fully reset; " +
			"put, delete and load use the same bucket (topic) and key (event id); Open migrates, then loads saved states, then opens the API; restoreTopic re-registers every handler; restore replaces the topic's index structures by fresh ones; " +
			"the V1→V2 migration sets the version only after the copy transaction and the V1 delete succeeded and registers its restore-from-backup before the first destructive step; AlertNode.restoreEvent lets the anonymous topic's state win exactly when one was found. " +
			"NOT decided: the crash-point quantifier (atomicity of a Bolt transaction is trusted), equality of the final topic state with an uninterrupted run, that handlers hear of every level (histories).",
		Assumptions: []string{"a storage Update closure that returns nil is committed atomically, one that returns an error is rolled back (Bolt)"},
	})
}

func runC08(c *core.Ctx) {
	c.Rule("C08.restoremark", "A1 (sibling agreement): every Service function that calls restoreTopic clears closedTopics[topic] after a successful restore")
	c.Rule("C08.detach", "A1: every Service function that removes the running topic (Topics.DeleteTopic) marks it closed or registers s.handlers[topic] again")
	c.Rule("C08.collect", "A1: Service.Collect: closed topic ⇒ restoreClosedTopic first (its error returned before anything else); then topics.Collect; then on every path, also when a handler could not take the event, PersistTopics∧level=OK ⇒ clearHistory else persistEventState; the delivery error is returned before the storage error; the event passed on is the collected event")
	c.Rule("C08.recheck", "A1/A5: restoreClosedTopic re-reads closedTopics[topic] after taking the write lock and restores only if it is still closed; the flag is cleared only after a successful restore")
	c.Rule("C08.mapping", "A7: convertEventStateFromAlert, convertEventStateToAlert and EventState.AlertEventState copy the same set of fields (every field of the persisted record; ID is the key); EventState.Reset assigns every field of the record")
	c.Rule("C08.seek", "A1 (shared with C15): the storage layer deletes a key (an event state, a topic bucket) only after comparing the key its cursor landed on with the key sought; see C15.seek")
	c.Rule("C08.keybuf", "A1: loadSavedTopicStates re-uses one buffer for the bucket key of every topic: on every path of the walk callback that lets the walk continue (returns nil) the buffer is reset after the key was written, so the next topic's key is that topic alone")
	c.Rule("C08.keys", "A3: persistEventState puts under bucket []byte(event.Topic) and key event.State.ID, clearHistory deletes the same bucket/key; the loaders key the restored map by the stored key and hand it to RestoreTopicNoCopy under the bucket's topic; each runs in one Update/View closure whose storage errors are returned")
	c.Rule("C08.open", "A2: Service.Open runs MigrateTopicStoreV1V2, then loadSavedTopicStates, then APIServer.Open, each only after the previous succeeded")
	c.Rule("C08.rereg", "A2: restoreTopic re-registers every handler of the topic after the states were restored (loop without early exit) and resets the decode buffer after every element")
	c.Rule("C08.fresh", "A2: Topic.restoreEventStatesNoCopy replaces events and sorted by fresh allocations (a topic object is restored more than once over its life)")
	c.Rule("C08.migrate", "A2/A10: MigrateTopicStoreV1V2 returns every storage error, deletes the V1 rows only after the V2 transaction returned nil, sets the version key only after that delete succeeded, and registers the restore-from-backup defer before the delete")
	c.Rule("C08.precedence", "A1: AlertNode.restoreEvent returns the anonymous topic's saved level/time iff a state was found there, else the named topic's; the reconciling UpdateEvent copies the found state into the other topic")

	sp := c.P.Pkg("services/alert")
	if sp == nil {
		c.Undecided("C08.collect", "anchor:services/alert", token.NoPos, "package not loaded")
		return
	}
	c08Collect(c, sp)
	c08Recheck(c, sp)
	c08Mapping(c, sp)
	c08Keys(c, sp)
	c08KeyBuf(c, sp, "C08.keybuf")
	c08Notify(c)
	if st := c.P.Pkg("services/storage"); st != nil {
		c15SeekAs(c, st, "C08.seek")
		// the event states of a topic are written through a bucket handle taken from the one shared store: handles must not share their path
		c15BucketPath(c, "C08.bucketpath")
	} else {
		c.Undecided("C08.seek", "anchor:services/storage", token.NoPos, "package not loaded")
	}
	c08Open(c, sp)
	c08Rereg(c, sp)
	if ap := c.P.Pkg("alert"); ap != nil {
		c09Restore(c, ap, "C08.fresh")
		c09SameObject(c, ap, "C08.sameobj")
	}
	c08Migrate(c, sp)
	c08MigrateRepeat(c, sp)
	c08RestoreMark(c, sp)
	c08Detach(c, sp)
	if r := c.P.Pkg(""); r != nil {
		c08RestoreID(c, r)
	}
	if root := c.P.Pkg(""); root != nil {
		c08Precedence(c, root)
	}
}

func c08Collect(c *core.Ctx, sp *packages.Package) {
	info := sp.TypesInfo
	fn := c.Need("C08.collect", "services/alert", "Service", "Collect")
	if fn == nil {
		return
	}
	ev := an.ParamName(fn.Decl.Type, 0)
	eng := &an.Engine{Prog: c.P,
		TrackCall: func(call *ast.CallExpr, callee *types.Func) string {
			if callee == nil {
				return ""
			}
			switch callee.Name() {
			case "restoreClosedTopic", "clearHistory", "persistEventState":
				return callee.Name()
			case "Collect":
				return "topics.Collect"
			}
			return ""
		},
		Classify: func(a an.Atom) (string, bool) {
			switch {
			case strings.Contains(a.Key, ".closedTopics["):
				return "closed", false
			case an.FieldSel(info, a.Expr, "Service", "PersistTopics"):
				return "persist", false
			case a.Op == token.EQL && a.L == ev+".State.Level" && a.R == "alert.OK":
				return "ok", false
			}
			if k, ok := an.ErrNilAtom(info, a); ok {
				switch {
				case strings.Contains(k, ".restoreClosedTopic("):
					return "rerr", true
				case strings.Contains(k, ".topics.Collect("):
					return "cerr", true
				case strings.Contains(k, ".clearHistory("):
					return "herr", true
				}
			}
			return "", false
		}}
	paths, err := eng.Run(fn)
	if err != nil {
		c.Undecided("C08.collect", "Service.Collect", fn.Decl.Pos(), "%v", err)
		return
	}
	an.CheckTable(c, "C08.collect", "Service.Collect", paths, an.Table{Atoms: []string{"closed", "rerr", "cerr", "ok", "persist", "herr"},
		Outcome: func(p *an.Path) string {
			var s []string
			for _, e := range p.Events {
				a := e.Name
				switch e.Name {
				case "topics.Collect", "persistEventState":
					if len(e.Args) != 1 || e.Args[0] != ev {
						a += "(other event)"
					}
				case "clearHistory":
					if len(e.Args) != 1 || e.Args[0] != "&"+ev {
						a += "(other event)"
					}
				case "restoreClosedTopic":
					if len(e.Args) != 1 || e.Args[0] != ev+".Topic" {
						a += "(other topic)"
					}
				}
				s = append(s, a)
			}
			// which error the caller gets; an error value that the path has tested to be nil is nil
			asg := p.Assign()
			r := "→other"
			if len(p.Rets) == 1 {
				switch k := p.Rets[0]; {
				case k == "nil":
					r = "→nil"
				case strings.HasPrefix(k, "fmt.Errorf(") && strings.Contains(k, ".clearHistory("):
					r = "→clear-err"
				case strings.HasSuffix(k, ".clearHistory(&"+ev+")"):
					r = "→clear-err"
					if v, ok := asg["herr"]; ok && !v {
						r = "→nil"
					}
				case strings.HasSuffix(k, ".persistEventState("+ev+")"):
					r = "→persist-result"
				case strings.HasSuffix(k, ".topics.Collect("+ev+")"):
					r = "→collect-err"
					if v, ok := asg["cerr"]; ok && !v {
						r = "→nil"
					}
				case strings.HasSuffix(k, ".restoreClosedTopic("+ev+".Topic)"):
					r = "→restore-err"
				}
			}
			return strings.Join(s, ",") + r
		},
		// F96: when topics.Collect reports that one handler could not take the event, the topic has
		// taken the state and the other handlers have been told: the state is recorded on every path
		// behind topics.Collect, and the delivery error is what the caller gets.
		Expect: func(a map[string]bool) string {
			pre := ""
			if a["closed"] {
				if a["rerr"] {
					return "restoreClosedTopic→restore-err"
				}
				pre = "restoreClosedTopic,"
			}
			rec, r := "persistEventState", "→persist-result"
			if a["ok"] && a["persist"] {
				rec, r = "clearHistory", "→nil"
				if a["herr"] {
					r = "→clear-err"
				}
			}
			if a["cerr"] {
				r = "→collect-err"
			}
			return pre + "topics.Collect," + rec + r
		}})
	// persistEventState does nothing without PersistTopics and otherwise writes
	if pf := c.Need("C08.collect", "services/alert", "Service", "persistEventState"); pf != nil {
		eng := &an.Engine{Prog: c.P,
			TrackCall: func(call *ast.CallExpr, callee *types.Func) string {
				if callee != nil && callee.Name() == "Update" {
					return "Update"
				}
				return ""
			},
			Classify: func(a an.Atom) (string, bool) {
				if an.FieldSel(info, a.Expr, "Service", "PersistTopics") {
					return "persist", false
				}
				if strings.HasSuffix(a.Key, ".1") && strings.Contains(a.Key, ".Topic(") {
					return "exists", false
				}
				return "", false
			}}
		paths, err := eng.Run(pf)
		if err != nil {
			c.Undecided("C08.collect", "Service.persistEventState", pf.Decl.Pos(), "%v", err)
		} else {
			an.CheckTable(c, "C08.collect", "Service.persistEventState", paths, an.Table{Atoms: []string{"persist", "exists"},
				Outcome: func(p *an.Path) string {
					if p.Has("Update") && len(p.Rets) == 1 && strings.Contains(p.Rets[0], ".Update(") {
						return "update-result"
					}
					if len(p.Rets) == 1 && p.Rets[0] == "nil" && !p.Has("Update") {
						return "nil"
					}
					return "other"
				},
				Expect: func(a map[string]bool) string {
					if a["persist"] && a["exists"] {
						return "update-result"
					}
					return "nil"
				}})
		}
	}
}

func c08Recheck(c *core.Ctx, sp *packages.Package) {
	info := sp.TypesInfo
	fn := c.Need("C08.recheck", "services/alert", "Service", "restoreClosedTopic")
	if fn == nil {
		return
	}
	topic := an.ParamName(fn.Decl.Type, 0)
	eng := &an.Engine{Prog: c.P,
		TrackCall: func(call *ast.CallExpr, callee *types.Func) string {
			if core.IsBuiltin(info, call, "delete") {
				return "clearflag"
			}
			if callee == nil {
				return ""
			}
			switch callee.Name() {
			case "restoreTopic":
				return "restoreTopic"
			case "Lock":
				if sel, ok := call.Fun.(*ast.SelectorExpr); ok && an.FieldSel(info, sel.X, "Service", "mu") {
					return "Lock"
				}
			}
			return ""
		},
		Classify: func(a an.Atom) (string, bool) {
			if strings.HasSuffix(a.Key, ".closedTopics["+topic+"]") {
				return "stillclosed", false
			}
			if k, ok := an.ErrNilAtom(info, a); ok && strings.Contains(k, ".restoreTopic(") {
				return "err", true
			}
			return "", false
		}}
	paths, err := eng.Run(fn)
	if err != nil {
		c.Undecided("C08.recheck", "Service.restoreClosedTopic", fn.Decl.Pos(), "%v", err)
		return
	}
	an.CheckTable(c, "C08.recheck", "Service.restoreClosedTopic", paths, an.Table{Atoms: []string{"stillclosed", "err"},
		Outcome: func(p *an.Path) string { return an.Seq(p, "Lock", "restoreTopic", "clearflag") },
		Expect: func(a map[string]bool) string {
			switch {
			case !a["stillclosed"]:
				return "Lock"
			case a["err"]:
				return "Lock,restoreTopic"
			}
			return "Lock,restoreTopic,clearflag"
		}})
	for _, p := range paths {
		li := p.Index("Lock")
		for _, l := range p.Lits {
			if l.Name == "stillclosed" {
				c.Check(li >= 0 && l.At > li, "C08.recheck", "Service.restoreClosedTopic#under-lock", l.Pos, "the closed flag is tested before the write lock is taken: two publishers that both saw the topic closed both restore it, and the second restore replaces the in-memory states (including an event just collected but not yet saved) by the on-disk snapshot")
			}
		}
	}
}

func litFieldSet(x ast.Expr) map[string]string {
	out := map[string]string{}
	for k, v := range an.FlattenLit(x) {
		out[k] = types.ExprString(v)
	}
	return out
}

func c08Mapping(c *core.Ctx, sp *packages.Package) {
	info := sp.TypesInfo
	obj, _ := sp.Types.Scope().Lookup("EventState").(*types.TypeName)
	if obj == nil {
		c.Undecided("C08.mapping", "anchor:services/alert.EventState", token.NoPos, "type not found")
		return
	}
	st := obj.Type().Underlying().(*types.Struct)
	var fields []string
	for i := 0; i < st.NumFields(); i++ {
		fields = append(fields, st.Field(i).Name())
	}
	sort.Strings(fields)
	retLit := func(fn *core.Func) ast.Expr {
		var x ast.Expr
		ast.Inspect(fn.Decl.Body, func(n ast.Node) bool {
			if r, ok := n.(*ast.ReturnStmt); ok && len(r.Results) == 1 {
				x = r.Results[0]
			}
			return true
		})
		return x
	}
	for _, m := range []struct{ recv, name, src string }{{"", "convertEventStateFromAlert", "param0"}, {"", "convertEventStateToAlert", "param1"}, {"EventState", "AlertEventState", "recv"}} {
		fn := c.Need("C08.mapping", "services/alert", m.recv, m.name)
		if fn == nil {
			continue
		}
		src := ""
		switch m.src {
		case "param0":
			src = an.ParamName(fn.Decl.Type, 0)
		case "param1":
			src = an.ParamName(fn.Decl.Type, 1)
		case "recv":
			src = an.RecvVarName(fn.Decl)
		}
		lit := retLit(fn)
		if lit == nil {
			c.Undecided("C08.mapping", m.name, fn.Decl.Pos(), "no returned literal")
			continue
		}
		got := litFieldSet(lit)
		for _, f := range fields {
			c.Check(got[f] == src+"."+f, "C08.mapping", m.name+"#"+f, lit.Pos(), "field %s of the event state must be copied from %s.%s, is %q: the saved level/time/duration/message would not survive a restart", f, src, f, got[f])
		}
		for f, v := range got {
			if f == "ID" {
				continue
			}
			found := false
			for _, g := range fields {
				if g == f {
					found = true
				}
			}
			if !found {
				c.Fail("C08.mapping", m.name+"#extra:"+f, lit.Pos(), "literal sets %s=%s which is not a field of the persisted record", f, v)
			}
		}
	}
	if fn := c.Need("C08.mapping", "services/alert", "EventState", "Reset"); fn != nil {
		ws := map[string]bool{}
		recv := an.RecvVarName(fn.Decl)
		whole := false
		ast.Inspect(fn.Decl.Body, func(n ast.Node) bool {
			if as, ok := n.(*ast.AssignStmt); ok {
				for _, l := range as.Lhs {
					if sel, ok := l.(*ast.SelectorExpr); ok && types.ExprString(sel.X) == recv && an.FieldSel(info, sel, "EventState", sel.Sel.Name) {
						ws[sel.Sel.Name] = true
					}
					if st, ok := l.(*ast.StarExpr); ok && types.ExprString(st.X) == recv {
						whole = true
					}
				}
			}
			return true
		})
		for _, f := range fields {
			c.Check(whole || ws[f], "C08.mapping", "EventState.Reset#"+f, fn.Decl.Pos(), "Reset does not clear field %s: with omitempty tags a record that lacks the field would inherit the previous event's value from the reused decode buffer", f)
		}
	}
}

func c08Keys(c *core.Ctx, sp *packages.Package) {
	info := sp.TypesInfo
	type spec struct {
		name, op, bucket, key string
	}
	for _, m := range []spec{{"persistEventState", "Put", "[]byte(event.Topic)", "event.State.ID"}, {"clearHistory", "Delete", "[]byte(event.Topic)", "event.State.ID"}} {
		fn := c.Need("C08.keys", "services/alert", "Service", m.name)
		if fn == nil {
			continue
		}
		ev := an.ParamName(fn.Decl.Type, 0)
		fl := findFuncLit(fn.Decl.Body)
		if fl == nil {
			c.Fail("C08.keys", "Service."+m.name+"#closure", fn.Decl.Pos(), "no Update closure found: the write is not one transaction")
			continue
		}
		// the closure is the argument of topicsStore.Update
		inUpdate := false
		ast.Inspect(fn.Decl.Body, func(n ast.Node) bool {
			if call, ok := n.(*ast.CallExpr); ok {
				if f := core.Callee(info, call); f != nil && f.Name() == "Update" && len(call.Args) == 1 && call.Args[0] == fl {
					inUpdate = true
				}
			}
			return true
		})
		c.Check(inUpdate, "C08.keys", "Service."+m.name+"#one-update", fn.Decl.Pos(), "the store mutation must run inside one topicsStore.Update closure")
		eng := &an.Engine{Prog: c.P, Info: info,
			TrackCall: func(call *ast.CallExpr, callee *types.Func) string {
				if callee != nil && (callee.Name() == "Bucket" || callee.Name() == m.op) {
					return callee.Name()
				}
				return ""
			},
			Classify: func(a an.Atom) (string, bool) {
				if k, ok := an.ErrNilAtom(info, a); ok && strings.Contains(k, "."+m.op+"(") {
					return "operr", true
				}
				return "", false
			}}
		paths, err := eng.RunBody(fl.Type, nil, fl.Body)
		if err != nil {
			c.Undecided("C08.keys", "Service."+m.name, fl.Pos(), "%v", err)
			continue
		}
		good := len(paths) > 0
		nOp := 0
		wantB := strings.ReplaceAll(m.bucket, "event", ev)
		wantK := strings.ReplaceAll(m.key, "event", ev)
		for _, p := range paths {
			op := p.Find(m.op)
			if op == nil {
				continue
			}
			nOp++
			b := p.Find("Bucket")
			if b == nil || len(b.Args) != 1 || b.Args[0] != wantB || !strings.Contains(op.Recv, ".Bucket(") {
				good = false
				c.Fail("C08.keys", "Service."+m.name+"#bucket", op.Pos, "%s must address the bucket %s; addresses %v via %s", m.op, wantB, func() []string {
					if b != nil {
						return b.Args
					}
					return nil
				}(), op.Recv)
			}
			if len(op.Args) < 1 || op.Args[0] != wantK {
				good = false
				c.Fail("C08.keys", "Service."+m.name+"#key", op.Pos, "%s must use the key %s; uses %v", m.op, wantK, op.Args)
			}
			// an error of the operation reaches the closure's return
			if a := p.Assign(); a["operr"] {
				if len(p.Rets) != 1 || p.Rets[0] == "nil" {
					good = false
					c.Fail("C08.keys", "Service."+m.name+"#error", p.RetPos, "a failed %s is answered with nil: the transaction commits and the caller believes the state was saved", m.op)
				}
			}
		}
		if nOp == 0 {
			good = false
			c.Fail("C08.keys", "Service."+m.name+"#op", fl.Pos(), "the closure never calls %s", m.op)
		}
		if good {
			c.Ok("C08.keys", "Service."+m.name)
		}
	}
	// loaders: map keyed by b.Key, handed to RestoreTopicNoCopy
	for _, name := range []string{"loadConvertTopicBucket", "restoreTopic"} {
		fn := c.Need("C08.keys", "services/alert", "Service", name)
		if fn == nil {
			continue
		}
		keyed := false
		ast.Inspect(fn.Decl.Body, func(n ast.Node) bool {
			if as, ok := n.(*ast.AssignStmt); ok && len(as.Lhs) == 1 && len(as.Rhs) == 1 {
				if ix, ok := as.Lhs[0].(*ast.IndexExpr); ok && strings.HasSuffix(types.ExprString(ix.Index), ".Key") {
					// the id handed to the converter is the same key
					if call, ok := as.Rhs[0].(*ast.CallExpr); ok && len(call.Args) >= 1 && types.ExprString(call.Args[0]) == types.ExprString(ix.Index) {
						keyed = true
					}
				}
			}
			return true
		})
		c.Check(keyed, "C08.keys", "Service."+name+"#keyed-by-id", fn.Decl.Pos(), "the restored map must be keyed by the stored key and the state must get that same key as its ID")
	}
}

func c08Open(c *core.Ctx, sp *packages.Package) {
	info := sp.TypesInfo
	fn := c.Need("C08.open", "services/alert", "Service", "Open")
	if fn == nil {
		return
	}
	eng := &an.Engine{Prog: c.P,
		TrackCall: func(call *ast.CallExpr, callee *types.Func) string {
			if callee == nil {
				return ""
			}
			switch callee.Name() {
			case "MigrateTopicStoreV1V2", "loadSavedTopicStates", "loadSavedHandlerSpecs":
				return callee.Name()
			case "Open":
				return "APIOpen"
			}
			return ""
		},
		Classify: func(a an.Atom) (string, bool) {
			if k, ok := an.ErrNilAtom(info, a); ok {
				for _, n := range []string{"MigrateTopicStoreV1V2", "loadSavedTopicStates", "loadSavedHandlerSpecs"} {
					if strings.Contains(k, "."+n+"(") {
						return "err:" + n, true
					}
				}
			}
			return "", false
		}}
	paths, err := eng.Run(fn)
	if err != nil {
		c.Undecided("C08.open", "Service.Open", fn.Decl.Pos(), "%v", err)
		return
	}
	good := len(paths) > 0
	reached := false
	for _, p := range paths {
		w := an.Seq(p, "loadSavedHandlerSpecs", "MigrateTopicStoreV1V2", "loadSavedTopicStates", "APIOpen")
		if p.Has("APIOpen") {
			reached = true
			if w != "loadSavedHandlerSpecs,MigrateTopicStoreV1V2,loadSavedTopicStates,APIOpen" {
				good = false
				c.Fail("C08.open", "Service.Open#order", p.RetPos, "the API is opened after [%s]; saved handlers, the store migration and the saved topic states must all be loaded first, in that order", w)
			}
			for k, v := range p.Assign() {
				if strings.HasPrefix(k, "err:") && v {
					good = false
					c.Fail("C08.open", "Service.Open#"+k, p.RetPos, "Open continues after %s failed", strings.TrimPrefix(k, "err:"))
				}
			}
		}
		for k, v := range p.Assign() {
			if strings.HasPrefix(k, "err:") && v && len(p.Rets) == 1 && p.Rets[0] == "nil" {
				good = false
				c.Fail("C08.open", "Service.Open#swallow:"+k, p.RetPos, "a failed %s is not returned", strings.TrimPrefix(k, "err:"))
			}
		}
	}
	if good && reached {
		c.Ok("C08.open", "Service.Open")
	} else if !reached {
		c.Fail("C08.open", "Service.Open#reaches", fn.Decl.Pos(), "no path reaches APIServer.Open")
	}
}

func c08Rereg(c *core.Ctx, sp *packages.Package) {
	info := sp.TypesInfo
	fn := c.Need("C08.rereg", "services/alert", "Service", "restoreTopic")
	if fn == nil {
		return
	}
	topic := an.ParamName(fn.Decl.Type, 0)
	// outer (not closure) loop over s.handlers[topic] calling RegisterHandler
	c09LoopNoExit(c, "C08.rereg", "Service.restoreTopic#handlers", fn, info, ".handlers["+topic+"]", "RegisterHandler", func(rs *ast.RangeStmt, call *ast.CallExpr) string {
		if len(call.Args) != 2 || types.ExprString(call.Args[0]) != topic {
			return "handlers are re-registered on another topic"
		}
		return ""
	})
	// decode buffer Reset in each element loop of the two loaders
	for _, name := range []string{"restoreTopic", "loadConvertTopicBucket"} {
		f := c.Need("C08.rereg", "services/alert", "Service", name)
		if f == nil {
			continue
		}
		okk := false
		ast.Inspect(f.Decl.Body, func(n ast.Node) bool {
			rs, ok := n.(*ast.RangeStmt)
			if !ok {
				return true
			}
			decodes, resets := false, false
			var last ast.Stmt
			for _, st := range rs.Body.List {
				last = st
				ast.Inspect(st, func(m ast.Node) bool {
					if call, ok := m.(*ast.CallExpr); ok {
						if cal := core.Callee(info, call); cal != nil && core.RecvTypeName(cal) == "EventState" {
							switch cal.Name() {
							case "UnmarshalJSON", "UnmarshalEasyJSON":
								decodes = true
							}
						}
					}
					return true
				})
			}
			if es, ok := last.(*ast.ExprStmt); ok {
				if call, ok := es.X.(*ast.CallExpr); ok {
					if cal := core.Callee(info, call); cal != nil && cal.Name() == "Reset" && core.RecvTypeName(cal) == "EventState" {
						resets = true
					}
				}
			}
			if decodes {
				okk = resets
			}
			return true
		})
		c.Check(okk, "C08.rereg", "Service."+name+"#reset-buffer", f.Decl.Pos(), "the decode buffer reused across the loop is not Reset() as the last step of every iteration")
	}
}

func c08Migrate(c *core.Ctx, sp *packages.Package) {
	info := sp.TypesInfo
	fn := c.Need("C08.migrate", "services/alert", "Service", "MigrateTopicStoreV1V2")
	if fn == nil {
		return
	}
	eng := &an.Engine{Prog: c.P,
		TrackCall: func(call *ast.CallExpr, callee *types.Func) string {
			if callee == nil {
				return ""
			}
			switch callee.Name() {
			case "Update":
				return "copyV2"
			case "DeleteMultiple":
				return "deleteV1"
			case "Set":
				return "setVersion"
			case "CopyFile":
				return "backup"
			}
			return ""
		},
		Classify: func(a an.Atom) (string, bool) {
			if k, ok := an.ErrNilAtom(info, a); ok {
				switch {
				case strings.Contains(k, ".Update("):
					return "copyErr", true
				case strings.Contains(k, ".DeleteMultiple("):
					return "delErr", true
				case strings.Contains(k, ".Set("):
					return "setErr", true
				case strings.Contains(k, "CopyFile("):
					return "bakErr", true
				}
			}
			if a.Op == token.EQL && strings.HasSuffix(a.R, "TopicStoreVersion2") {
				return "isV2", false
			}
			return "", false
		}}
	paths, err := eng.Run(fn)
	if err != nil {
		c.Undecided("C08.migrate", "Service.MigrateTopicStoreV1V2", fn.Decl.Pos(), "%v", err)
		return
	}
	good := len(paths) > 0
	done := false
	for _, p := range paths {
		a := p.Assign()
		if a["isV2"] {
			if p.Has("copyV2") || p.Has("deleteV1") || p.Has("setVersion") {
				good = false
				c.Fail("C08.migrate", "MigrateTopicStoreV1V2#idempotent", p.RetPos, "a store already at version 2 is migrated again")
			}
			continue
		}
		w := an.Seq(p, "backup", "copyV2", "deleteV1", "setVersion")
		// errors end the migration and are returned
		for _, k := range []string{"bakErr", "copyErr", "delErr", "setErr"} {
			if a[k] && (len(p.Rets) != 1 || p.Rets[0] == "nil") {
				good = false
				c.Fail("C08.migrate", "MigrateTopicStoreV1V2#"+k, p.RetPos, "a failed step (%s) is not returned", k)
			}
		}
		if a["copyErr"] && (p.Has("deleteV1") || p.Has("setVersion")) {
			good = false
			c.Fail("C08.migrate", "MigrateTopicStoreV1V2#delete-after-copy", p.RetPos, "the V1 rows are deleted / the version is set although the V2 copy transaction failed: [%s]", w)
		}
		if a["delErr"] && p.Has("setVersion") {
			good = false
			c.Fail("C08.migrate", "MigrateTopicStoreV1V2#version-after-delete", p.RetPos, "the version key is set although deleting the V1 rows failed")
		}
		if p.Has("setVersion") {
			done = true
			if w != "backup,copyV2,deleteV1,setVersion" {
				good = false
				c.Fail("C08.migrate", "MigrateTopicStoreV1V2#order", p.RetPos, "steps run as [%s]; required: backup, copy into V2, delete V1, set version", w)
			}
			// the restore-from-backup defer (a deferred func that renames) is registered before deleteV1
			di := p.Index("deleteV1")
			nDefer := 0
			for _, e := range p.Events[:di+1] {
				_ = e
			}
			for _, e := range p.Events {
				if e.Kind == "defer" {
					nDefer++
				}
			}
			if nDefer < 2 {
				good = false
				c.Fail("C08.migrate", "MigrateTopicStoreV1V2#restore-defer", p.RetPos, "fewer than two deferred functions on the success path: the restore-from-backup handler is missing")
			}
		}
	}
	// restore defer position: the defer containing os.Rename precedes the DeleteMultiple call in source order
	var renameDefer, del token.Pos
	ast.Inspect(fn.Decl.Body, func(n ast.Node) bool {
		switch x := n.(type) {
		case *ast.DeferStmt:
			ast.Inspect(x, func(m ast.Node) bool {
				if call, ok := m.(*ast.CallExpr); ok {
					if f := core.Callee(info, call); f != nil && f.Name() == "Rename" {
						renameDefer = x.Pos()
					}
				}
				return true
			})
		case *ast.CallExpr:
			if f := core.Callee(info, x); f != nil && f.Name() == "DeleteMultiple" {
				del = x.Pos()
			}
		}
		return true
	})
	c.Check(renameDefer.IsValid() && del.IsValid() && renameDefer < del, "C08.migrate", "MigrateTopicStoreV1V2#restore-before-delete", del, "the deferred restore of the backup must be registered before the V1 rows are deleted")
	if good && done {
		c.Ok("C08.migrate", "MigrateTopicStoreV1V2")
	}
}

func c08Precedence(c *core.Ctx, root *packages.Package) {
	fn := c.Need("C08.precedence", "", "AlertNode", "restoreEvent")
	if fn == nil {
		return
	}
	eng := &an.Engine{Prog: c.P, Inline: func(*types.Func) bool { return false },
		TrackCall: func(call *ast.CallExpr, callee *types.Func) string {
			if callee != nil && (callee.Name() == "EventState" || callee.Name() == "UpdateEvent") {
				return callee.Name()
			}
			return ""
		},
		Classify: func(a an.Atom) (string, bool) {
			k := a.Key
			switch {
			case strings.HasSuffix(k, ".hasAnonTopic()"):
				return "hasAnon", false
			case strings.HasSuffix(k, ".hasTopic()"):
				return "hasTopic", false
			case strings.Contains(k, ".EventState(") && strings.HasSuffix(k, ").1") && strings.Contains(k, ".anonTopic,"):
				return "anonOK", false
			case strings.Contains(k, ".EventState(") && strings.HasSuffix(k, ").1"):
				return "topicOK", false
			case strings.Contains(k, ".EventState(") && strings.Contains(k, ").2 == nil") && strings.Contains(k, ".anonTopic,"):
				return "anonErr", true
			case strings.Contains(k, ".EventState(") && strings.Contains(k, ").2 == nil"):
				return "topicErr", true
			case a.Op == token.EQL && strings.HasSuffix(a.L, ".Level") && strings.HasSuffix(a.R, ".Level"):
				return "same", false
			}
			return "", false
		}}
	paths, err := eng.Run(fn)
	if err != nil {
		c.Undecided("C08.precedence", "AlertNode.restoreEvent", fn.Decl.Pos(), "%v", err)
		return
	}
	// reconciliation of the two topics (what a crash between their two commits leaves behind)
	c.Rule("C08.reconcile", "A1: restoreEvent: when the levels found differ, an entry found on both topics or only on the anonymous one is written to the named topic (UpdateEvent(n.topic, anon state)), an entry found only on the named topic is written to the anonymous one; nothing is written otherwise")
	an.CheckTable(c, "C08.reconcile", "AlertNode.restoreEvent", paths, an.Table{Atoms: []string{"hasAnon", "anonErr", "anonOK", "hasTopic", "topicErr", "topicOK", "same"},
		Outcome: func(p *an.Path) string {
			var s []string
			for _, e := range p.Events {
				if e.Kind == "call" && e.Name == "UpdateEvent" && len(e.Args) == 2 {
					dst, src := "topic", "topic"
					if strings.HasSuffix(e.Args[0], ".anonTopic") {
						dst = "anon"
					}
					if strings.Contains(e.Args[1], ".anonTopic,") {
						src = "anon"
					}
					s = append(s, dst+"<-"+src)
				}
			}
			return strings.Join(s, ",")
		},
		Expect: func(a map[string]bool) string {
			anonFound := a["hasAnon"] && !a["anonErr"] && a["anonOK"]
			topicFound := a["hasTopic"] && !a["topicErr"] && a["topicOK"]
			switch {
			case a["same"]:
				return ""
			case anonFound && topicFound:
				return "topic<-anon"
			case topicFound && a["hasAnon"]:
				return "anon<-topic"
			case anonFound && a["hasTopic"]:
				return "topic<-anon"
			}
			return ""
		}})
	an.CheckTable(c, "C08.precedence", "AlertNode.restoreEvent", paths, an.Table{Atoms: []string{"hasAnon", "anonErr", "anonOK", "hasTopic", "topicErr", "topicOK"},
		Outcome: func(p *an.Path) string {
			if len(p.Rets) != 2 {
				return "?"
			}
			src := func(k string) string {
				switch {
				case strings.Contains(k, ".anonTopic,"):
					return "anon"
				case strings.Contains(k, ".EventState("):
					return "topic"
				case strings.HasPrefix(k, "zero:"):
					return "zero"
				}
				return k
			}
			a, b := src(p.Rets[0]), src(p.Rets[1])
			if a != b {
				return a + "/" + b
			}
			return a
		},
		Expect: func(a map[string]bool) string {
			anonFound := a["hasAnon"] && !a["anonErr"] && a["anonOK"]
			topicFound := a["hasTopic"] && !a["topicErr"] && a["topicOK"]
			switch {
			case anonFound:
				return "anon"
			case topicFound:
				return "topic"
			}
			return "zero"
		}})
}

// c08Notify: the reconciliation path (UpdateEvent) delivers the level to the topic's handlers.
func c08Notify(c *core.Ctx) {
	c.Rule("C08.notify", "A6: the level written to a lagging topic by the restore-time reconciliation reaches that topic's handlers: Topics.UpdateEvent (the only operation the reconciliation uses) leads to Topic.handleEvent / a handler's Handle")
	ap := c.P.Pkg("alert")
	fn := c.Need("C08.notify", "alert", "Topics", "UpdateEvent")
	if ap == nil || fn == nil {
		return
	}
	info := ap.TypesInfo
	seen := map[*types.Func]bool{}
	delivers := false
	var visit func(f *core.Func)
	visit = func(f *core.Func) {
		if f == nil || seen[f.Obj] || f.Decl.Body == nil {
			return
		}
		seen[f.Obj] = true
		ast.Inspect(f.Decl.Body, func(n ast.Node) bool {
			if call, ok := n.(*ast.CallExpr); ok {
				if g := core.Callee(info, call); g != nil {
					if g.Name() == "handleEvent" || g.Name() == "Handle" {
						delivers = true
					}
					if g.Pkg() == ap.Types {
						visit(declOfFunc(c.P, g))
					}
				}
			}
			return true
		})
	}
	visit(fn)
	c.Check(delivers, "C08.notify", "Topics.UpdateEvent#handlers", fn.Decl.Pos(), "UpdateEvent changes and persists the topic's event state but never calls the topic's handlers: a level that reaches a topic only through the restore-time reconciliation (crash between the anonymous-topic and the named-topic commit) is never told to that topic's handlers")
}

func c08KeyBuf(c *core.Ctx, sp *packages.Package, rule string) {
	info := sp.TypesInfo
	fn := c.Need(rule, "services/alert", "Service", "loadSavedTopicStates")
	if fn == nil {
		return
	}
	fl := findFuncLit(fn.Decl.Body)
	if fl == nil {
		c.Undecided(rule, "Service.loadSavedTopicStates", fn.Decl.Pos(), "walk callback not found")
		return
	}
	// a buffer declared outside the callback and written inside it?
	shared := false
	ast.Inspect(fl.Body, func(n ast.Node) bool {
		if call, ok := n.(*ast.CallExpr); ok {
			if f := core.Callee(info, call); f != nil && core.RecvTypeName(f) == "Buffer" && strings.HasPrefix(f.Name(), "Write") {
				if sel, ok := call.Fun.(*ast.SelectorExpr); ok {
					if id, ok := ast.Unparen(sel.X).(*ast.Ident); ok {
						if obj := info.Uses[id]; obj != nil && !(fl.Pos() <= obj.Pos() && obj.Pos() <= fl.End()) {
							shared = true
						}
					}
				}
			}
		}
		return true
	})
	if !shared {
		c.Ok(rule, "Service.loadSavedTopicStates")
		c.Note("C08.keybuf: the walk callback builds its key without a buffer shared between topics")
		return
	}
	eng := &an.Engine{Prog: c.P, Info: info,
		TrackCall: func(call *ast.CallExpr, callee *types.Func) string {
			if callee != nil && core.RecvTypeName(callee) == "Buffer" {
				switch {
				case strings.HasPrefix(callee.Name(), "Write"):
					return "write"
				case callee.Name() == "Reset":
					return "reset"
				}
			}
			return ""
		}}
	paths, err := eng.RunBody(fl.Type, nil, fl.Body)
	if err != nil {
		c.Undecided(rule, "Service.loadSavedTopicStates", fl.Pos(), "%v", err)
		return
	}
	good := len(paths) > 0
	for _, p := range paths {
		if len(p.Rets) != 1 || p.Rets[0] != "nil" {
			continue // an error ends the walk
		}
		w := an.Seq(p, "write", "reset")
		if !(w == "" || strings.HasSuffix(w, "reset") || strings.HasPrefix(w, "reset,write") && !strings.Contains(w[len("reset,"):], "reset") && strings.Count(w, "write") >= 1 && strings.HasPrefix(w, "reset")) {
			good = false
			c.Fail(rule, "Service.loadSavedTopicStates#reset", p.RetPos, "the walk continues on a path that leaves the previous topic's name in the shared key buffer ([%s]; %s): every later topic is looked up under a concatenated key, found empty, and restored without its event states — those alerts silently restart at OK", w, p.Cond())
		}
	}
	if good {
		c.Ok(rule, "Service.loadSavedTopicStates")
	}
}

// c08RestoreMark (F91): every function of the service that restores a topic from the store (calls restoreTopic) clears the
// topic's closed mark on the path where the restore succeeded. A mark that stays makes the next Collect restore the topic once
// more, over what was updated in between.
func c08RestoreMark(c *core.Ctx, sp *packages.Package) {
	info := sp.TypesInfo
	n := 0
	for _, f := range core.AllFuncs(sp) {
		if core.RecvName(f.Decl) != "Service" || f.Decl.Name.Name == "restoreTopic" {
			continue
		}
		calls := false
		ast.Inspect(f.Decl.Body, func(nd ast.Node) bool {
			if call, ok := nd.(*ast.CallExpr); ok {
				if cal := core.Callee(info, call); cal != nil && cal.Name() == "restoreTopic" && core.RecvTypeName(cal) == "Service" {
					calls = true
				}
			}
			return true
		})
		if !calls {
			continue
		}
		n++
		c.Analysed(f)
		name := "Service." + f.Decl.Name.Name
		eng := &an.Engine{Prog: c.P,
			TrackCall: func(call *ast.CallExpr, callee *types.Func) string {
				if core.IsBuiltin(info, call, "delete") && len(call.Args) == 2 && an.FieldSel(info, call.Args[0], "Service", "closedTopics") {
					return "unmark"
				}
				if callee != nil && callee.Name() == "restoreTopic" && core.RecvTypeName(callee) == "Service" {
					return "restoreTopic"
				}
				return ""
			},
			Classify: func(a an.Atom) (string, bool) {
				if k, ok := an.ErrNilAtom(info, a); ok && strings.Contains(k, ".restoreTopic(") {
					return "err", true
				}
				return "", false
			}}
		paths, err := eng.Run(f)
		if err != nil {
			c.Undecided("C08.restoremark", name, f.Decl.Pos(), "%v", err)
			continue
		}
		good := true
		for _, p := range paths {
			r := p.Find("restoreTopic")
			if r == nil || p.Exit == "panic" {
				continue
			}
			a := p.Assign()
			if v, decided := a["err"]; decided && v {
				continue
			}
			if len(p.Rets) == 1 && strings.Contains(p.Rets[0], ".restoreTopic(") {
				// the result is handed on untested: the path stands for success and failure
				good = false
				c.Fail("C08.restoremark", name+"#unmark", p.RetPos, "%s returns restoreTopic's result without clearing the topic's closed mark on success: a topic that was closed (a task that stopped) and is restored this way stays marked, the next event restores it a second time from the store and wipes what was updated since (the event's previous level becomes OK, other events of the topic are gone)", name)
				continue
			}
			u := p.Find("unmark")
			okk := u != nil && p.Index("unmark") > p.Index("restoreTopic") && len(u.Args) == 2 && len(r.Args) == 1 && u.Args[1] == r.Args[0]
			if !okk {
				good = false
				c.Fail("C08.restoremark", name+"#unmark", p.RetPos, "%s restores the topic (restoreTopic succeeded) without clearing its closed mark (delete(s.closedTopics, topic)) afterwards: the next Collect restores the topic a second time from the store and wipes what was updated since; path condition: %s", name, p.Cond())
			}
		}
		if good {
			c.Ok("C08.restoremark", name+"#unmark")
		}
	}
	c.Floor("C08.restoremark", "callers of Service.restoreTopic", n, 2)
}

// c08Detach (F92): every function of the service that removes the running topic (Topics.DeleteTopic closes the topic's
// handlers) either marks the topic closed, so that the next Collect restores it together with its handlers, or registers the
// handlers that are defined for the topic again.
func c08Detach(c *core.Ctx, sp *packages.Package) {
	info := sp.TypesInfo
	n := 0
	for _, f := range core.AllFuncs(sp) {
		if core.RecvName(f.Decl) != "Service" {
			continue
		}
		var del *ast.CallExpr
		ast.Inspect(f.Decl.Body, func(nd ast.Node) bool {
			if call, ok := nd.(*ast.CallExpr); ok {
				if cal := core.Callee(info, call); cal != nil && cal.Name() == "DeleteTopic" && core.RecvTypeName(cal) == "Topics" {
					del = call
				}
			}
			return true
		})
		if del == nil || len(del.Args) != 1 {
			continue
		}
		n++
		c.Analysed(f)
		topic := types.ExprString(del.Args[0])
		name := "Service." + f.Decl.Name.Name
		marks, unmarkAfter := token.NoPos, token.NoPos
		rereg := false
		ast.Inspect(f.Decl.Body, func(nd ast.Node) bool {
			switch x := nd.(type) {
			case *ast.AssignStmt:
				if len(x.Lhs) == 1 && len(x.Rhs) == 1 {
					if ix, ok := ast.Unparen(x.Lhs[0]).(*ast.IndexExpr); ok && an.FieldSel(info, ix.X, "Service", "closedTopics") && types.ExprString(ix.Index) == topic && types.ExprString(x.Rhs[0]) == "true" && x.Pos() > del.Pos() {
						marks = x.Pos()
					}
				}
			case *ast.CallExpr:
				if core.IsBuiltin(info, x, "delete") && len(x.Args) == 2 && an.FieldSel(info, x.Args[0], "Service", "closedTopics") && types.ExprString(x.Args[1]) == topic {
					unmarkAfter = x.Pos()
				}
			case *ast.RangeStmt:
				ix, ok := ast.Unparen(x.X).(*ast.IndexExpr)
				if !ok || !an.FieldSel(info, ix.X, "Service", "handlers") || types.ExprString(ix.Index) != topic || x.Pos() < del.Pos() {
					return true
				}
				early, reg := false, false
				ast.Inspect(x.Body, func(m ast.Node) bool {
					switch y := m.(type) {
					case *ast.FuncLit:
						return false
					case *ast.ReturnStmt:
						early = true
					case *ast.BranchStmt:
						early = true
					case *ast.CallExpr:
						if cal := core.Callee(info, y); cal != nil && cal.Name() == "RegisterHandler" && core.RecvTypeName(cal) == "Topics" && len(y.Args) == 2 && types.ExprString(y.Args[0]) == topic {
							reg = true
						}
					}
					return true
				})
				if reg && !early {
					rereg = true
				}
			}
			return true
		})
		marked := marks != token.NoPos && !(unmarkAfter != token.NoPos && unmarkAfter > marks)
		c.Check(marked || rereg, "C08.detach", name+"#handlers", del.Pos(), "%s removes the running topic — Topics.DeleteTopic closes the handlers registered on it — and neither marks the topic closed (the next Collect would restore it with its handlers) nor registers the handlers of s.handlers[%s] again: the handler specs stay defined and listed, and get no event until the next restart", name, topic)
	}
	c.Floor("C08.detach", "Service functions that remove a running topic", n, 2)
}

// c08MigrateRepeat (F97): the migration is started again after a crash. Its first step writes the backup with CopyFile; when
// CopyFile creates the destination exclusively (O_EXCL), what an interrupted run left behind has to be removed before, on every
// path, or every later start fails.
func c08MigrateRepeat(c *core.Ctx, sp *packages.Package) {
	info := sp.TypesInfo
	fn := c.Need("C08.migrate", "services/alert", "Service", "MigrateTopicStoreV1V2")
	cp := c.Need("C08.migrate", "services/alert", "", "CopyFile")
	if fn == nil || cp == nil {
		return
	}
	dest := an.ParamName(cp.Decl.Type, 1)
	excl, opens := false, 0
	ast.Inspect(cp.Decl.Body, func(nd ast.Node) bool {
		call, ok := nd.(*ast.CallExpr)
		if !ok {
			return true
		}
		cal := core.Callee(info, call)
		if cal == nil || cal.Pkg() == nil || cal.Pkg().Path() != "os" {
			return true
		}
		switch cal.Name() {
		case "OpenFile":
			if len(call.Args) == 3 && types.ExprString(call.Args[0]) == dest {
				opens++
				tv, ok := info.Types[call.Args[1]]
				if !ok || tv.Value == nil {
					excl = true // flags not constant: assume the strict case
					return true
				}
				v, _ := constant.Int64Val(constant.ToInt(tv.Value))
				if k, ok := cal.Pkg().Scope().Lookup("O_EXCL").(*types.Const); ok {
					if e, exact := constant.Int64Val(constant.ToInt(k.Val())); exact && v&e != 0 {
						excl = true
					}
				} else {
					excl = true
				}
			}
		case "Create":
			if len(call.Args) == 1 && types.ExprString(call.Args[0]) == dest {
				opens++
			}
		}
		return true
	})
	if opens == 0 {
		c.Undecided("C08.migrate", "CopyFile#dest", cp.Decl.Pos(), "CopyFile does not open its destination with os.OpenFile/os.Create: cannot tell whether the copy can be repeated")
		return
	}
	if !excl {
		c.Ok("C08.migrate", "MigrateTopicStoreV1V2#repeatable", "CopyFile does not create exclusively")
		return
	}
	eng := &an.Engine{Prog: c.P,
		TrackCall: func(call *ast.CallExpr, callee *types.Func) string {
			if callee == nil {
				return ""
			}
			if callee.Name() == "CopyFile" {
				return "backup"
			}
			if callee.Pkg() != nil && callee.Pkg().Path() == "os" && (callee.Name() == "Remove" || callee.Name() == "RemoveAll") {
				return "unlink"
			}
			return ""
		}}
	paths, err := eng.Run(fn)
	if err != nil {
		c.Undecided("C08.migrate", "MigrateTopicStoreV1V2#repeatable", fn.Decl.Pos(), "%v", err)
		return
	}
	good, seen := true, false
	for _, p := range paths {
		bi := p.Index("backup")
		if bi < 0 {
			continue
		}
		seen = true
		b := p.Events[bi]
		okk := false
		for _, e := range p.Events[:bi] {
			if e.Name == "unlink" && e.Kind != "defer" && len(e.Args) == 1 && len(b.Args) == 2 && e.Args[0] == b.Args[1] {
				okk = true
			}
		}
		if !okk {
			good = false
			c.Fail("C08.migrate", "MigrateTopicStoreV1V2#repeatable", p.RetPos, "the backup is written with CopyFile, which creates its destination exclusively (O_EXCL), and nothing removes a backup left behind before: after a crash during the migration (the backup is only removed at its end) every later start fails with 'file exists' and the alert service — with all persisted alert state — does not come up")
			break
		}
	}
	if good && seen {
		c.Ok("C08.migrate", "MigrateTopicStoreV1V2#repeatable")
	} else if !seen {
		c.Undecided("C08.migrate", "MigrateTopicStoreV1V2#repeatable", fn.Decl.Pos(), "no path calls CopyFile")
	}
}
