package props

import (
	"fmt"
	"go/ast"
	"go/token"
	"go/types"
	"regexp"
	"strings"

	"golang.org/x/tools/go/packages"

	"kapcheck/an"
	"kapcheck/core"
)

func init() {
	register(&Property{
		ID:       "C09",
		Patterns: []string{"./alert", "./services/alert"},
		Run:      runC09,
		Explanation: "Topic state and delivery as structure: the comparator that keeps a topic's events sorted is a strict order with level descending first (MaxLevel and the early break of EventStates rely on it); updateEvent decides re-sorting from the level before it overwrites the state, " +
			"re-sorts on every insert or level change and returns the previous state it read before the overwrite; collect hands that previous state to the handlers; the fan-out loops (topic handlers, publish targets) visit every element whatever an earlier one returned; " +
			"the min-level boundaries are exactly `< minLevel` / `>= minLevel`; restore rebuilds both index structures from fresh allocations; a missing topic is created and the created one is used; handlers are ended with Close (drain), never Abort; " +
			"one consumer goroutine per handler buffer and Handle only enqueues; topic tables are touched only under their mutex. NOT decided: exactly-once under a full buffer (drops by design), ordering between concurrent publishers, aggregate-handler timing.",
		Assumptions: []string{"sort.Sort with a strict weak order sorts", "a buffered Go channel is FIFO"},
	})
}

func runC09(c *core.Ctx) {
	c.Rule("C09.less", "A8: sortedStates.Less is irreflexive and asymmetric over all orderings of (Level, ID) of two events and equals the documented order: higher level first, ties by ascending ID")
	c.Rule("C09.resort", "A1/A2: Topic.updateEvent re-sorts iff the id is new or its level changed, decides `changed` from the stored level before overwriting it, copies the previous state before the overwrite and returns it with found=true only when one existed")
	c.Rule("C09.collect", "A1/A3: Topic.collect passes what updateEvent returns as previous state (the zero state for an ID that is new on this topic) into the event on every path, before handleEvent, and handles the same event")
	c.Rule("C09.order", "A5 (must-hold over go/cfg): Topic.collect holds one mutex of the topic from updateEvent until handleEvent has queued the event: state order = delivery order for concurrent publishers")
	c.Rule("C09.swap", "A3: Topics.ReplaceHandler changes the handler list of the topic in one critical section of Topic.mu")
	c.Rule("C09.dao", "A3 (sibling agreement): the alert service's DAO write methods forward to the IndexedStore operation of the same name (Create→Create, never Put)")
	c.Rule("C09.fanout", "A2: Topic.handleEvent and publishHandler.Handle visit every handler/topic: no return or break inside the loop, each iteration delivers the event (publish: with Topic set to that iteration's topic)")
	c.Rule("C09.boundary", "A1: Topic.EventStates(minLevel) stops exactly at Level < minLevel; Topics.TopicState keeps a topic iff level >= minLevel")
	c.Rule("C09.restore", "A2: Topic.restoreEventStatesNoCopy replaces both events and sorted by fresh allocations on every path, fills both for every restored state and sorts afterwards")
	c.Rule("C09.ensure", "A1/A3: Topics.UpdateEvent/RegisterHandler/ReplaceHandler/Collect create a missing topic, store it under the requested id and operate on the created topic (never on the nil lookup result)")
	c.Rule("C09.create", "A1/A5: Topics.Collect creates a topic only after it looked the topic up again under the write lock (the first lookup is made under the read lock, which was released): on every path that calls newTopic a miss on s.topics[…] is decided after mu.Lock()")
	c.Rule("C09.table", "A3: Service.UpdateHandlerSpec removes from the service's per-topic handler table the entry of the handler it replaces (the key it looked the old handler up with) and stores the new one under the new spec's id")
	c.Rule("C09.close", "A6: Topic.removeHandler, Topic.close, Topics.Close, Topics.DeleteTopic end handlers with bufHandler.Close (drain); bufHandler.Abort is not reachable from them")
	c.Rule("C09.buffer", "A2: newHandler starts exactly one goroutine running run(); bufHandler.Handle only enqueues on events without blocking; run() delivers every received event to the wrapped handler and returns on the closed channel only")
	c.Rule("C09.locks", "A5: Topic.{events,sorted,handlers} are accessed only under Topic.mu and Topics.topics only under Topics.mu")
	c.Rule("C09.lockflow", "A5 (must-hold lock set over go/cfg): every use of Topic.{events,sorted,handlers} and Topics.topics happens with the owner's mu held on all paths reaching it (an Unlock before the use counts; unexported methods without lock operations are helpers whose call sites carry the obligation; constructors are checked as helpers that nobody calls with a published object)")

	pkg := c.P.Pkg("alert")
	if pkg == nil {
		c.Undecided("C09.less", "anchor:alert", token.NoPos, "package not loaded")
		return
	}
	c09Less(c, pkg, "C09.less", "alert", "sortedStates", []cmpKey{{"Level", true}, {"ID", false}})
	c09Resort(c, pkg)
	c09Collect(c, pkg)
	c09CollectOrder(c, pkg)
	c09Swap(c, pkg)
	c09Dao(c)
	c09MatchScope(c)
	c09Fanout(c, pkg)
	c09Boundary(c, pkg)
	c09Restore(c, pkg, "C09.restore")
	c09SameObject(c, pkg, "C09.sameobj")
	c09Ensure(c, pkg)
	c09Create(c, pkg)
	c09Table(c)
	c09Close(c, pkg)
	c09Buffer(c, pkg)
	ruleGuardedBy(c, "C09.locks", pkg, guardSpec{typ: "Topic", mu: "mu", fields: map[string]bool{"events": true, "sorted": true, "handlers": true},
		requires: map[string]bool{"addHandlerLocked": true, "removeHandlerLocked": true}, exempt: map[string]string{"newTopic": "constructor"}})
	ruleGuardedBy(c, "C09.locks", pkg, guardSpec{typ: "Topics", mu: "mu", fields: map[string]bool{"topics": true},
		requires: map[string]bool{"ensureTopic": true}, exempt: map[string]string{"NewTopics": "constructor"}})
	n := ruleMustHold(c, "C09.lockflow", pkg, holdSpec{Typ: "Topic", Mu: "mu", Fields: map[string]bool{"events": true, "sorted": true, "handlers": true},
		Why: "the topic's event table, its sorted view and its handler list are read by Collect/MaxLevel/EventStates while handlers are registered and events updated from other goroutines: an access outside the lock sees a half-updated table or races with a write (concurrent map access ends the process)"})
	n += ruleMustHold(c, "C09.lockflow", pkg, holdSpec{Typ: "Topics", Mu: "mu", Fields: map[string]bool{"topics": true},
		Why: "the topic map is written by Collect/RegisterHandler/DeleteTopic from several tasks' goroutines"})
	c.Floor("C09.lockflow", "selections of guarded Topic/Topics fields", n, 20)
}

type cmpKey struct {
	field string
	desc  bool
}

var reIdxField = regexp.MustCompile(`^(\w+)\[(\w+)\]\.(\w+)$`)

// c09Less is analysis A8: enumerate the 3^k orderings of the key fields.
func c09Less(c *core.Ctx, pkg *packages.Package, rule, rel, typ string, keys []cmpKey) {
	c09LessWith(c, rule, rel, typ, keys, nil)
}

// c09LessWith: parse maps an operand key to (belongs to the first argument, field name).
func c09LessWith(c *core.Ctx, rule, rel, typ string, keys []cmpKey, parse func(fn *core.Func, operand string) (bool, string, bool)) {
	fn := c.Need(rule, rel, typ, "Less")
	if fn == nil {
		return
	}
	pi, pj := an.ParamName(fn.Decl.Type, 0), an.ParamName(fn.Decl.Type, 1)
	eng := &an.Engine{Prog: c.P, BoolReturns: true}
	paths, err := eng.Run(fn)
	if err != nil {
		c.Undecided(rule, typ+".Less", fn.Decl.Pos(), "%v", err)
		return
	}
	// evaluate the function for an ordering ord[field] ∈ {-1,0,1} of (first arg vs second arg); swapped = roles of i and j exchanged
	eval := func(ord map[string]int, swapped bool) (bool, bool) {
		for _, p := range paths {
			if len(p.Rets) != 1 || (p.Rets[0] != "true" && p.Rets[0] != "false") {
				continue
			}
			match := true
			for _, l := range p.Lits {
				var a, op, b string
				if parts := strings.SplitN(l.Key, " < ", 2); len(parts) == 2 {
					a, op, b = parts[0], "<", parts[1]
				} else if parts := strings.SplitN(l.Key, " == ", 2); len(parts) == 2 {
					a, op, b = parts[0], "==", parts[1]
				} else {
					return false, false
				}
				var aFirst bool
				var fieldA string
				if parse != nil {
					af, fa, ok1 := parse(fn, a)
					bf, fb, ok2 := parse(fn, b)
					if !ok1 || !ok2 || fa != fb || af == bf {
						return false, false
					}
					aFirst, fieldA = af, fa
				} else {
					ma, mb := reIdxField.FindStringSubmatch(a), reIdxField.FindStringSubmatch(b)
					if ma == nil || mb == nil || ma[3] != mb[3] {
						return false, false
					}
					if ma[2] != pi && ma[2] != pj {
						return false, false
					}
					aFirst, fieldA = ma[2] == pi, ma[3]
				}
				o, known := ord[fieldA]
				if !known {
					return false, false
				}
				if swapped {
					aFirst = !aFirst
				}
				if !aFirst {
					o = -o
				}
				var truth bool
				if op == "<" {
					truth = o < 0
				} else {
					truth = o == 0
				}
				if truth != l.Val {
					match = false
					break
				}
			}
			if match {
				return p.Rets[0] == "true", true
			}
		}
		return false, false
	}
	n := len(keys)
	total := 1
	for i := 0; i < n; i++ {
		total *= 3
	}
	good := true
	for m := 0; m < total; m++ {
		ord := map[string]int{}
		x := m
		var desc []string
		for _, k := range keys {
			o := x%3 - 1
			x /= 3
			ord[k.field] = o
			desc = append(desc, fmt.Sprintf("%s%s", k.field, map[int]string{-1: "<", 0: "=", 1: ">"}[o]))
		}
		ij, ok1 := eval(ord, false)
		ji, ok2 := eval(ord, true)
		cons := typ + ".Less#" + strings.Join(desc, ",")
		if !ok1 || !ok2 {
			c.Undecided(rule, cons, fn.Decl.Pos(), "the comparator touches its operands through something other than comparisons of the same field of e[i] and e[j]")
			good = false
			continue
		}
		// expected lexicographic order
		want := false
		for _, k := range keys {
			o := ord[k.field]
			if o == 0 {
				continue
			}
			if k.desc {
				want = o > 0
			} else {
				want = o < 0
			}
			break
		}
		switch {
		case ij && ji:
			good = false
			c.Fail(rule, cons, fn.Decl.Pos(), "Less(i,j) and Less(j,i) are both true for %s: not asymmetric, sort.Sort may leave a lower level in front (MaxLevel() and the early break in EventStates(minLevel) then report wrong states)", strings.Join(desc, ","))
		case ij != want:
			good = false
			c.Fail(rule, cons, fn.Decl.Pos(), "for %s Less is %v; the documented order (level descending, then id ascending) requires %v", strings.Join(desc, ","), ij, want)
		default:
			c.Ok(rule, cons)
		}
	}
	_ = good
}

func c09Resort(c *core.Ctx, pkg *packages.Package) {
	info := pkg.TypesInfo
	fn := c.Need("C09.resort", "alert", "Topic", "updateEvent")
	if fn == nil {
		return
	}
	state := an.ParamName(fn.Decl.Type, 0)
	eng := &an.Engine{Prog: c.P,
		TrackCall: func(call *ast.CallExpr, callee *types.Func) string {
			if callee != nil && callee.Pkg() != nil && callee.Pkg().Path() == "sort" && (callee.Name() == "Sort" || callee.Name() == "Stable" || callee.Name() == "Slice" || callee.Name() == "SliceStable") {
				return "sort"
			}
			if core.IsBuiltin(info, call, "append") {
				return "append"
			}
			return ""
		},
		TrackStore: func(lhs ast.Expr, key string) string {
			switch x := ast.Unparen(lhs).(type) {
			case *ast.StarExpr:
				return "overwrite"
			case *ast.IndexExpr:
				if an.FieldSel(info, x.X, "Topic", "events") {
					return "index"
				}
			case *ast.Ident:
				if x.Name == "prev" || strings.HasPrefix(key, "prev") {
					return "copyprev"
				}
			}
			return ""
		},
		Classify: func(a an.Atom) (string, bool) {
			switch {
			case a.Op == token.EQL && a.R == "nil" && strings.Contains(a.L, ".events["):
				return "isnew", false
			case a.Op == token.EQL && strings.HasSuffix(a.L, ".Level") && strings.HasSuffix(a.R, ".Level"):
				return "samelevel", false
			}
			return "", false
		}}
	paths, err := eng.Run(fn)
	if err != nil {
		c.Undecided("C09.resort", "Topic.updateEvent", fn.Decl.Pos(), "%v", err)
		return
	}
	an.CheckTable(c, "C09.resort", "Topic.updateEvent", paths, an.Table{Atoms: []string{"isnew", "samelevel"},
		Outcome: func(p *an.Path) string {
			s := "nosort"
			if p.Has("sort") {
				s = "sort"
			}
			found := "?"
			if len(p.Rets) == 2 {
				found = p.Rets[1]
			}
			return s + ",found=" + found
		},
		Expect: func(a map[string]bool) string {
			if a["isnew"] {
				return "sort,found=false"
			}
			if !a["samelevel"] {
				return "sort,found=true"
			}
			return "nosort,found=true"
		}})
	// ordering: the level comparison and the copy of the previous state precede the overwrite; the sort follows it
	for _, p := range paths {
		ow := p.Index("overwrite")
		if ow < 0 {
			c.Fail("C09.resort", "Topic.updateEvent#overwrite", p.RetPos, "no path stores the new state")
			continue
		}
		if ev := p.Events[ow]; ev.Args[0] != state {
			c.Fail("C09.resort", "Topic.updateEvent#stores-state", ev.Pos, "the state stored is %s, not the parameter %s", ev.Args[0], state)
		}
		for _, l := range p.Lits {
			if l.Name == "samelevel" {
				c.Check(l.At <= ow, "C09.resort", "Topic.updateEvent#compare-before-overwrite", l.Pos, "the level comparison that decides re-sorting is evaluated after the stored state was overwritten with the new one: it is always 'unchanged', so a level change of a known event never re-sorts")
			}
		}
		if cp := p.Index("copyprev"); cp >= 0 {
			c.Check(cp < ow, "C09.resort", "Topic.updateEvent#prev-before-overwrite", p.Events[cp].Pos, "the previous state is copied after the overwrite: handlers would see the new level as the previous one")
		} else {
			c.Fail("C09.resort", "Topic.updateEvent#prev-before-overwrite", p.RetPos, "the previous state is not copied before the overwrite")
		}
		if si := p.Index("sort"); si >= 0 {
			c.Check(si > ow, "C09.resort", "Topic.updateEvent#sort-after-overwrite", p.Events[si].Pos, "the slice is sorted before the new level is stored")
		}
		if a := p.Assign(); a["isnew"] {
			c.Check(p.Has("index") && p.Has("append"), "C09.resort", "Topic.updateEvent#insert", p.RetPos, "a new id must be entered into both the events map and the sorted slice")
		}
	}
}

func c09Collect(c *core.Ctx, pkg *packages.Package) {
	info := pkg.TypesInfo
	fn := c.Need("C09.collect", "alert", "Topic", "collect")
	if fn == nil {
		return
	}
	ev := an.ParamName(fn.Decl.Type, 0)
	eng := &an.Engine{Prog: c.P,
		TrackCall: func(call *ast.CallExpr, callee *types.Func) string {
			if callee != nil && (callee.Name() == "updateEvent" || callee.Name() == "handleEvent") {
				return callee.Name()
			}
			return ""
		},
		TrackStore: func(lhs ast.Expr, key string) string {
			if an.FieldSel(info, lhs, "Event", "previousState") {
				return "setprev"
			}
			return ""
		},
		Classify: func(a an.Atom) (string, bool) {
			if an.CallResultOf(a.Key, "updateEvent", 1) {
				return "hadprev", false
			}
			return "", false
		}}
	paths, err := eng.Run(fn)
	if err != nil {
		c.Undecided("C09.collect", "Topic.collect", fn.Decl.Pos(), "%v", err)
		return
	}
	an.CheckTable(c, "C09.collect", "Topic.collect", paths, an.Table{Atoms: []string{"hadprev"},
		Outcome: func(p *an.Path) string {
			var s []string
			for _, e := range p.Events {
				switch e.Name {
				case "updateEvent":
					a := "update"
					if len(e.Args) != 1 || e.Args[0] != ev+".State" {
						a += "(other state)"
					}
					s = append(s, a)
				case "setprev":
					a := "setprev"
					if !an.CallResultOf(e.Args[0], "updateEvent", 0) {
						a += "(other value)"
					}
					s = append(s, a)
				case "handleEvent":
					a := "handle"
					if len(e.Args) != 1 || e.Args[0] != ev {
						a += "(other event)"
					}
					s = append(s, a)
				}
			}
			return strings.Join(s, ",")
		},
		// F89: an event republished from another topic carries that topic's previous state; what this topic knew
		// (nothing = the zero state) replaces it whether or not the ID existed here
		Expect: func(a map[string]bool) string { return "update,setprev,handle" }})
}

// rules whose loops may be left by returning an error
var errReturnOK = map[string]bool{"C12.joinfinish": true}

// loopShape: in fn, the range loop over x… contains call `must` and no early exit.
func c09LoopNoExit(c *core.Ctx, rule, cons string, fn *core.Func, info *types.Info, overSuffix, must string, extra func(rs *ast.RangeStmt, call *ast.CallExpr) string) {
	found := false
	ast.Inspect(fn.Decl.Body, func(n ast.Node) bool {
		rs, ok := n.(*ast.RangeStmt)
		if !ok || !strings.HasSuffix(types.ExprString(rs.X), overSuffix) {
			return true
		}
		found = true
		early := ""
		var call *ast.CallExpr
		cond := false
		ast.Inspect(rs.Body, func(m ast.Node) bool {
			switch x := m.(type) {
			case *ast.FuncLit:
				return false
			case *ast.ReturnStmt:
				// returning an error (a non-nil last result) ends the fan-out legitimately when the rule allows it
				last := ""
				if len(x.Results) > 0 {
					last = types.ExprString(x.Results[len(x.Results)-1])
				}
				if !(errReturnOK[rule] && last != "nil" && last != "") {
					early = "return"
				}
			case *ast.BranchStmt:
				if x.Tok == token.BREAK || x.Tok == token.GOTO || x.Tok == token.CONTINUE {
					early = x.Tok.String()
				}
			case *ast.CallExpr:
				if f := core.Callee(info, x); f != nil && f.Name() == must {
					call = x
				}
			}
			return true
		})
		// the delivering call must be a top-level statement of the body (not under a condition)
		if call != nil {
			top := false
			for _, st := range rs.Body.List {
				if st.Pos() <= call.Pos() && call.End() <= st.End() {
					switch y := st.(type) {
					case *ast.ExprStmt, *ast.AssignStmt:
						top = true
					case *ast.IfStmt:
						// `if err := x.M(); err != nil { return err }`: the call is the if's init, executed unconditionally
						if y.Init != nil && y.Init.Pos() <= call.Pos() && call.End() <= y.Init.End() {
							top = true
						}
					}
				}
			}
			cond = !top
		}
		switch {
		case call == nil:
			c.Fail(rule, cons, rs.Pos(), "the loop over %s does not call %s", overSuffix, must)
		case early != "":
			c.Fail(rule, cons, rs.Pos(), "the fan-out loop over %s is left or short-cut by %s: elements after that point (or skipped ones) never get the event", overSuffix, early)
		case cond:
			c.Fail(rule, cons, call.Pos(), "%s is called only under a condition inside the fan-out loop", must)
		default:
			msg := ""
			if extra != nil {
				msg = extra(rs, call)
			}
			c.Check(msg == "", rule, cons, call.Pos(), "%s", msg)
		}
		return true
	})
	if !found {
		c.Fail(rule, cons, fn.Decl.Pos(), "no loop over %s found", overSuffix)
	}
}

func c09Fanout(c *core.Ctx, pkg *packages.Package) {
	if fn := c.Need("C09.fanout", "alert", "Topic", "handleEvent"); fn != nil {
		ev := an.ParamName(fn.Decl.Type, 0)
		c09LoopNoExit(c, "C09.fanout", "Topic.handleEvent", fn, pkg.TypesInfo, ".handlers", "Handle", func(rs *ast.RangeStmt, call *ast.CallExpr) string {
			if len(call.Args) != 1 || types.ExprString(call.Args[0]) != ev {
				return "the handler is not handed the collected event itself"
			}
			if sel, ok := call.Fun.(*ast.SelectorExpr); ok && types.ExprString(sel.X) != types.ExprString(rs.Value) {
				return "Handle is not called on the loop's own handler"
			}
			return ""
		})
	}
	if sp := c.P.Pkg("services/alert"); sp != nil {
		// what a topic lists after a restart is what was loaded for it: the same key-buffer condition as C08.keybuf
		c.Rule("C09.keybuf", "A1: loadSavedTopicStates re-uses one buffer for the bucket key of every topic: on every path of the walk callback that lets the walk continue (returns nil) the buffer is reset after the key was written — otherwise every topic but the first is restored empty and lists no events at level OK")
		c08KeyBuf(c, sp, "C09.keybuf")
		n := ruleMustHold(c, "C09.lockflow", sp, holdSpec{Typ: "Service", Mu: "mu", Fields: map[string]bool{"handlers": true, "closedTopics": true},
			Why: "the service's handler table and closed-topic marks are written by the handler API and by task stop while Collect reads them from every task's goroutine"})
		c.Floor("C09.lockflow", "selections of guarded alert Service fields", n, 15)
		if fn := c.Need("C09.fanout", "services/alert", "publishHandler", "Handle"); fn != nil {
			ev := an.ParamName(fn.Decl.Type, 0)
			c09LoopNoExit(c, "C09.fanout", "publishHandler.Handle", fn, sp.TypesInfo, ".Topics", "Collect", func(rs *ast.RangeStmt, call *ast.CallExpr) string {
				if len(call.Args) != 1 || types.ExprString(call.Args[0]) != ev {
					return "the event republished is not the handled event"
				}
				// event.Topic = t precedes Collect in the body
				set := false
				for _, st := range rs.Body.List {
					if as, ok := st.(*ast.AssignStmt); ok && st.Pos() < call.Pos() && len(as.Lhs) == 1 && len(as.Rhs) == 1 {
						if types.ExprString(as.Lhs[0]) == ev+".Topic" && types.ExprString(as.Rhs[0]) == types.ExprString(rs.Value) {
							set = true
						}
					}
				}
				if !set {
					return "the republished event's Topic is not set to the loop's target topic before Collect"
				}
				return ""
			})
		}
	}
}

func c09Boundary(c *core.Ctx, pkg *packages.Package) {
	if fn := c.Need("C09.boundary", "alert", "Topic", "EventStates"); fn != nil {
		min := an.ParamName(fn.Decl.Type, 0)
		eng := &an.Engine{Prog: c.P,
			TrackStore: func(lhs ast.Expr, key string) string {
				if _, ok := ast.Unparen(lhs).(*ast.IndexExpr); ok {
					return "keep"
				}
				return ""
			},
			Classify: func(a an.Atom) (string, bool) {
				if a.Op == token.LSS && strings.HasSuffix(a.L, ".Level") && a.R == min {
					return "below", false
				}
				return "", false
			}}
		paths, err := eng.Run(fn)
		if err != nil {
			c.Undecided("C09.boundary", "Topic.EventStates", fn.Decl.Pos(), "%v", err)
		} else {
			an.CheckTable(c, "C09.boundary", "Topic.EventStates", paths, an.Table{Atoms: []string{"below"},
				Outcome: func(p *an.Path) string {
					s := ""
					for _, e := range p.Events {
						switch e.Kind {
						case "store":
							s += "keep,"
						case "break":
							s += "stop,"
						case "continue":
							s += "skip,"
						}
					}
					return s
				},
				Expect: func(a map[string]bool) string {
					if a["below"] {
						return "stop, | skip,"
					}
					return "keep,"
				}})
		}
	}
	if fn := c.Need("C09.boundary", "alert", "Topics", "TopicState"); fn != nil {
		min := an.ParamName(fn.Decl.Type, 1)
		eng := &an.Engine{Prog: c.P,
			TrackStore: func(lhs ast.Expr, key string) string {
				if _, ok := ast.Unparen(lhs).(*ast.IndexExpr); ok {
					return "keep"
				}
				return ""
			},
			Classify: func(a an.Atom) (string, bool) {
				if a.Op == token.LSS && strings.HasSuffix(a.L, ".MaxLevel()") && a.R == min {
					return "below", false
				}
				if a.Call != nil && a.Call.Name() == "PatternMatch" {
					return "match", false
				}
				return "", false
			}}
		paths, err := eng.Run(fn)
		if err != nil {
			c.Undecided("C09.boundary", "Topics.TopicState", fn.Decl.Pos(), "%v", err)
		} else {
			an.CheckTable(c, "C09.boundary", "Topics.TopicState", paths, an.Table{Atoms: []string{"match", "below"},
				Outcome: func(p *an.Path) string {
					if p.Has("keep") {
						return "keep"
					}
					return "drop"
				},
				Expect: func(a map[string]bool) string {
					if a["match"] && !a["below"] {
						return "keep"
					}
					return "drop"
				}})
		}
	}
}

func c09Restore(c *core.Ctx, pkg *packages.Package, rule string) {
	info := pkg.TypesInfo
	fn := c.Need(rule, "alert", "Topic", "restoreEventStatesNoCopy")
	if fn == nil {
		return
	}
	eng := &an.Engine{Prog: c.P,
		TrackCall: func(call *ast.CallExpr, callee *types.Func) string {
			if callee != nil && callee.Pkg() != nil && callee.Pkg().Path() == "sort" {
				return "sort"
			}
			return ""
		},
		TrackStore: func(lhs ast.Expr, key string) string {
			switch {
			case an.FieldSel(info, lhs, "Topic", "events"):
				return "events="
			case an.FieldSel(info, lhs, "Topic", "sorted"):
				return "sorted="
			}
			if ix, ok := ast.Unparen(lhs).(*ast.IndexExpr); ok && an.FieldSel(info, ix.X, "Topic", "events") {
				return "events[]"
			}
			return ""
		}}
	paths, err := eng.Run(fn)
	if err != nil {
		c.Undecided(rule, "Topic.restoreEventStatesNoCopy", fn.Decl.Pos(), "%v", err)
		return
	}
	good := len(paths) > 0
	for _, p := range paths {
		var w []string
		inLoop := false
		for _, e := range p.Events {
			switch {
			case e.Kind == "loop":
				inLoop = true
				w = append(w, "each{")
			case e.Kind == "endloop":
				inLoop = false
				w = append(w, "}")
			case e.Kind == "break" || e.Kind == "continue":
				w = append(w, e.Kind)
			case e.Name == "sort":
				w = append(w, "sort")
			case e.Kind == "store" && !inLoop:
				fresh := strings.HasPrefix(e.Args[0], "make(")
				if e.Name == "sorted=" && strings.Contains(e.Args[0], "[:0]") {
					fresh = false
				}
				if fresh {
					w = append(w, e.Name+"fresh")
				} else {
					w = append(w, e.Name+e.Args[0])
				}
			case e.Kind == "store" && inLoop:
				if e.Name == "sorted=" && strings.HasPrefix(e.Args[0], "append(") {
					w = append(w, "append")
				} else {
					w = append(w, e.Name)
				}
			}
		}
		got := strings.Join(w, ",")
		okk := got == "events=fresh,sorted=fresh,each{,events[],append,},sort" || got == "sorted=fresh,events=fresh,each{,events[],append,},sort" ||
			got == "events=fresh,sorted=fresh,each{,append,events[],},sort" || got == "sorted=fresh,events=fresh,each{,append,events[],},sort"
		if !okk {
			good = false
			c.Fail(rule, "Topic.restoreEventStatesNoCopy", p.RetPos, "restore must replace events and sorted by fresh allocations, fill both per state and sort; path [%s] does [%s] (stale entries in `sorted` make MaxLevel and the min-level listing report events that no longer exist)", p.Cond(), got)
		}
	}
	if good {
		c.Ok(rule, "Topic.restoreEventStatesNoCopy")
	}
}

func c09Ensure(c *core.Ctx, pkg *packages.Package) {
	info := pkg.TypesInfo
	for _, m := range []struct {
		name string
		uses []string
	}{{"UpdateEvent", []string{"updateEvent"}}, {"RegisterHandler", []string{"addHandler"}}, {"ReplaceHandler", []string{"removeHandler", "addHandler"}}, {"Collect", []string{"collect"}}, {"ensureTopic", nil}} {
		fn := c.Need("C09.ensure", "alert", "Topics", m.name)
		if fn == nil {
			continue
		}
		useSet := map[string]bool{}
		for _, u := range m.uses {
			useSet[u] = true
		}
		eng := &an.Engine{Prog: c.P,
			TrackCall: func(call *ast.CallExpr, callee *types.Func) string {
				if callee != nil && (callee.Name() == "newTopic" || useSet[callee.Name()]) {
					return callee.Name()
				}
				return ""
			},
			TrackStore: func(lhs ast.Expr, key string) string {
				if ix, ok := ast.Unparen(lhs).(*ast.IndexExpr); ok && an.FieldSel(info, ix.X, "Topics", "topics") {
					return "put"
				}
				return ""
			},
			Classify: func(a an.Atom) (string, bool) {
				if strings.Contains(a.Key, ".topics[") {
					if strings.HasSuffix(a.Key, "].1") {
						return "hit", false
					}
					if a.Op == token.EQL && a.R == "nil" {
						if strings.Contains(a.L, "#") {
							return "hit2", true
						}
						return "hit", true
					}
				}
				return "", false
			}}
		paths, err := eng.Run(fn)
		if err != nil {
			c.Undecided("C09.ensure", "Topics."+m.name, fn.Decl.Pos(), "%v", err)
			continue
		}
		good := len(paths) > 0
		for _, p := range paths {
			a := p.Assign()
			hit, decided := a["hit"]
			if h2, ok := a["hit2"]; ok && h2 {
				hit = true
			}
			if decided && !hit {
				// miss: a topic must be created and stored
				nt := p.Find("newTopic")
				put := p.Find("put")
				if nt == nil || put == nil || !an.CallResultOf(put.Args[0]+".0", "newTopic", 0) && !strings.Contains(put.Args[0], "newTopic(") {
					good = false
					c.Fail("C09.ensure", "Topics."+m.name+"#create", p.RetPos, "on a missing topic no topic is created and stored")
					continue
				}
			}
			for _, e := range p.Events {
				if !useSet[e.Name] {
					continue
				}
				recvOK := strings.Contains(e.Recv, "newTopic(") || (decided && hit && strings.Contains(e.Recv, ".topics["))
				if !recvOK {
					good = false
					c.Fail("C09.ensure", "Topics."+m.name+"#uses-created", e.Pos, "%s is called on %s on path [%s]: on a missing topic that is the nil lookup result, not the topic just created (nil dereference)", e.Name, e.Recv, p.Cond())
				}
			}
		}
		if good {
			c.Ok("C09.ensure", "Topics."+m.name)
		}
	}
}

func c09Close(c *core.Ctx, pkg *packages.Package) { c09CloseAs(c, pkg, "C09.close") }

func c09CloseAs(c *core.Ctx, pkg *packages.Package, rule string) {
	info := pkg.TypesInfo
	// functions reachable (same package) from the graceful entry points
	reach := map[*types.Func]*core.Func{}
	var visit func(fn *core.Func)
	visit = func(fn *core.Func) {
		if fn == nil || reach[fn.Obj] != nil {
			return
		}
		reach[fn.Obj] = fn
		ast.Inspect(fn.Decl.Body, func(n ast.Node) bool {
			if call, ok := n.(*ast.CallExpr); ok {
				if f := core.Callee(info, call); f != nil && f.Pkg() == pkg.Types {
					visit(declOfFunc(c.P, f))
				}
			}
			return true
		})
	}
	for _, e := range [][2]string{{"Topic", "removeHandler"}, {"Topic", "close"}, {"Topics", "Close"}, {"Topics", "DeleteTopic"}, {"Topics", "DeregisterHandler"}, {"Topics", "ReplaceHandler"}} {
		if fn := c.Need(rule, "alert", e[0], e[1]); fn != nil {
			visit(fn)
		}
	}
	closes := 0
	bad := false
	for _, fn := range reach {
		ast.Inspect(fn.Decl.Body, func(n ast.Node) bool {
			call, ok := n.(*ast.CallExpr)
			if !ok {
				return true
			}
			f := core.Callee(info, call)
			if f == nil || core.RecvTypeName(f) != "bufHandler" {
				return true
			}
			switch f.Name() {
			case "Abort":
				bad = true
				c.Fail(rule, fn.Name()+"#Abort", call.Pos(), "a handler is aborted on a graceful path: events already buffered for it are thrown away")
			case "Close":
				closes++
			}
			return true
		})
	}
	c.Floor(rule, "bufHandler.Close calls on graceful paths", closes, 2)
	if !bad {
		c.Ok(rule, "graceful-paths")
	}
}

func c09Buffer(c *core.Ctx, pkg *packages.Package) { c09BufferAs(c, pkg, "C09.buffer") }

func c09BufferAs(c *core.Ctx, pkg *packages.Package, rule string) {
	info := pkg.TypesInfo
	if fn := c.Need(rule, "alert", "", "newHandler"); fn != nil {
		gos := 0
		runs := false
		ast.Inspect(fn.Decl.Body, func(n ast.Node) bool {
			if g, ok := n.(*ast.GoStmt); ok {
				gos++
				ast.Inspect(g, func(m ast.Node) bool {
					if call, ok := m.(*ast.CallExpr); ok {
						if f := core.Callee(info, call); f != nil && f.Name() == "run" && core.RecvTypeName(f) == "bufHandler" {
							runs = true
						}
					}
					return true
				})
			}
			return true
		})
		c.Check(gos == 1 && runs, rule, "newHandler#one-consumer", fn.Decl.Pos(), "newHandler must start exactly one goroutine running run() (found %d go statements, run() started: %v): per-handler FIFO delivery relies on a single consumer", gos, runs)
	}
	if fn := c.Need(rule, "alert", "bufHandler", "Handle"); fn != nil {
		ev := an.ParamName(fn.Decl.Type, 0)
		sends, deflt, other := 0, false, false
		ast.Inspect(fn.Decl.Body, func(n ast.Node) bool {
			switch x := n.(type) {
			case *ast.SendStmt:
				if an.FieldSel(info, x.Chan, "bufHandler", "events") && types.ExprString(x.Value) == ev {
					sends++
				} else {
					other = true
				}
			case *ast.CommClause:
				if x.Comm == nil {
					deflt = true
				}
			case *ast.CallExpr:
				if f := core.Callee(info, x); f != nil && f.Name() == "Handle" {
					other = true // calling the wrapped handler synchronously would bypass the FIFO
				}
			}
			return true
		})
		c.Check(sends == 1 && deflt && !other, rule, "bufHandler.Handle#enqueue-only", fn.Decl.Pos(), "Handle must enqueue the event on h.events in a select with default and do nothing else (sends %d, default %v, other delivery %v)", sends, deflt, other)
	}
	if fn := c.Need(rule, "alert", "bufHandler", "run"); fn != nil {
		eng := &an.Engine{Prog: c.P,
			TrackCall: func(call *ast.CallExpr, callee *types.Func) string {
				if callee != nil && callee.Name() == "Handle" {
					return "deliver"
				}
				return ""
			},
			Classify: func(a an.Atom) (string, bool) {
				if strings.HasSuffix(a.Key, ".events.1") {
					return "open", false
				}
				return "", false
			}}
		paths, err := eng.Run(fn)
		if err != nil {
			c.Undecided(rule, "bufHandler.run", fn.Decl.Pos(), "%v", err)
			return
		}
		good := len(paths) > 0
		delivered := false
		for _, p := range paths {
			a := p.Assign()
			open, decided := a["open"]
			if !decided {
				continue // the aborting arm
			}
			if open {
				if d := p.Find("deliver"); d == nil || len(d.Args) != 1 || !strings.HasSuffix(d.Args[0], ".events.0") {
					good = false
					c.Fail(rule, "bufHandler.run#deliver", p.RetPos, "an event received from the buffer is not handed to the wrapped handler")
				} else {
					delivered = true
				}
				if p.Exit == "return" {
					good = false
					c.Fail(rule, "bufHandler.run#keeps-running", p.RetPos, "run() returns after delivering an event: later events stay in the buffer")
				}
			} else if p.Has("deliver") {
				good = false
				c.Fail(rule, "bufHandler.run#closed", p.RetPos, "the zero event of a closed channel is delivered")
			}
		}
		if good && delivered {
			c.Ok(rule, "bufHandler.run")
		}
	}
}

func c09Create(c *core.Ctx, pkg *packages.Package) {
	info := pkg.TypesInfo
	fn := c.Need("C09.create", "alert", "Topics", "Collect")
	if fn == nil {
		return
	}
	eng := &an.Engine{Prog: c.P,
		TrackCall: func(call *ast.CallExpr, callee *types.Func) string {
			if callee == nil {
				return ""
			}
			if callee.Name() == "newTopic" {
				return "newTopic"
			}
			if callee.Name() == "Lock" {
				if sel, ok := call.Fun.(*ast.SelectorExpr); ok && an.FieldSel(info, sel.X, "Topics", "mu") {
					return "Lock"
				}
			}
			return ""
		},
		TrackExpr: func(x ast.Expr) string {
			if ix, ok := x.(*ast.IndexExpr); ok && an.FieldSel(info, ix.X, "Topics", "topics") {
				return "lookup"
			}
			return ""
		}}
	paths, err := eng.Run(fn)
	if err != nil {
		c.Undecided("C09.create", "Topics.Collect", fn.Decl.Pos(), "%v", err)
		return
	}
	good, n := len(paths) > 0, 0
	for _, p := range paths {
		nt := p.Index("newTopic")
		if nt < 0 {
			continue
		}
		n++
		lock := p.Index("Lock")
		rechecked := false
		for i, e := range p.Events {
			if e.Name == "lookup" && e.Kind != "store" && lock >= 0 && i > lock && i < nt {
				rechecked = true
			}
		}
		if !rechecked {
			good = false
			c.Fail("C09.create", "Topics.Collect#recheck", p.RetPos, "a topic is created without looking it up again under the write lock: two first publishers (or a publisher and a RegisterHandler) each create the topic, the later store replaces the earlier one, and the events and handlers of the replaced topic are lost")
		}
	}
	if good && n > 0 {
		c.Ok("C09.create", "Topics.Collect")
	} else if good {
		c.Fail("C09.create", "Topics.Collect", fn.Decl.Pos(), "no path of Collect creates a missing topic")
	}
}

func c09Table(c *core.Ctx) {
	sp := c.P.Pkg("services/alert")
	if sp == nil {
		c.Note("C09.table: services/alert is not loaded in this run")
		return
	}
	info := sp.TypesInfo
	fn := c.Need("C09.table", "services/alert", "Service", "UpdateHandlerSpec")
	if fn == nil {
		return
	}
	// the table update may live in a helper of the service that UpdateHandlerSpec hands its two specs to, in order
	if helper := c09TableHelper(c, sp, fn); helper != nil {
		fn = helper
	}
	oldP, newP := an.ParamName(fn.Decl.Type, 0), an.ParamName(fn.Decl.Type, 1)
	lookupKey, deleteKey, storeKey := "", "", ""
	ast.Inspect(fn.Decl.Body, func(n ast.Node) bool {
		switch x := n.(type) {
		case *ast.AssignStmt:
			if len(x.Rhs) == 1 {
				if ix, ok := ast.Unparen(x.Rhs[0]).(*ast.IndexExpr); ok {
					if inner, ok := ast.Unparen(ix.X).(*ast.IndexExpr); ok && an.FieldSel(info, inner.X, "Service", "handlers") {
						lookupKey = types.ExprString(ix.Index)
					}
				}
			}
		case *ast.CallExpr:
			if core.IsBuiltin(info, x, "delete") && len(x.Args) == 2 {
				if inner, ok := ast.Unparen(x.Args[0]).(*ast.IndexExpr); ok && an.FieldSel(info, inner.X, "Service", "handlers") {
					deleteKey = types.ExprString(x.Args[1])
				}
			}
			if f := core.Callee(info, x); f != nil && f.Name() == "setTopicHandler" && len(x.Args) == 3 {
				storeKey = types.ExprString(x.Args[1])
			}
		}
		return true
	})
	c.Check(lookupKey == oldP+".ID" && deleteKey == lookupKey && storeKey == newP+".ID", "C09.table", "Service.UpdateHandlerSpec#keys", fn.Decl.Pos(), "the replaced handler is looked up under %q, the table entry deleted is %q, the new handler is stored under %q; they must be %s.ID, %s.ID, %s.ID: otherwise a renamed handler stays in the service's table and is registered again when its topic is restored — every event then also goes to a handler that no longer exists", lookupKey, deleteKey, storeKey, oldP, oldP, newP)
}

// c09TableHelper: the Service method called by entry with entry's first two parameters as its first two arguments, in order,
// that deletes from s.handlers (nil if entry does that itself or no such call exists).
func c09TableHelper(c *core.Ctx, sp *packages.Package, entry *core.Func) *core.Func {
	info := sp.TypesInfo
	deletes := func(f *core.Func) bool {
		found := false
		ast.Inspect(f.Decl.Body, func(n ast.Node) bool {
			if call, ok := n.(*ast.CallExpr); ok && core.IsBuiltin(info, call, "delete") && len(call.Args) == 2 {
				if inner, ok := ast.Unparen(call.Args[0]).(*ast.IndexExpr); ok && an.FieldSel(info, inner.X, "Service", "handlers") {
					found = true
				}
			}
			return true
		})
		return found
	}
	if deletes(entry) {
		return nil
	}
	p0, p1 := an.ParamName(entry.Decl.Type, 0), an.ParamName(entry.Decl.Type, 1)
	var helper *core.Func
	ast.Inspect(entry.Decl.Body, func(n ast.Node) bool {
		call, ok := n.(*ast.CallExpr)
		if !ok || len(call.Args) < 2 {
			return true
		}
		cal := core.Callee(info, call)
		if cal == nil || core.RecvTypeName(cal) != "Service" {
			return true
		}
		if types.ExprString(call.Args[0]) != p0 || types.ExprString(call.Args[1]) != p1 {
			return true
		}
		if f := c.P.FindFunc("services/alert", "Service", cal.Name()); f != nil && deletes(f) {
			helper = f
		}
		return true
	})
	return helper
}
