package props

import (
	"go/ast"
	"go/token"
	"go/types"
	"sort"
	"strings"

	"golang.org/x/tools/go/cfg"
	"golang.org/x/tools/go/packages"

	"kapcheck/an"
	"kapcheck/core"
)

// mutexFieldOp: call is <recv>.<field>.<Lock|Unlock|RLock|RUnlock>() with field a sync mutex field of the named type typ;
// returns the field name and "+" or "-".
func mutexFieldOp(info *types.Info, call *ast.CallExpr, typ string) (string, string) {
	sel, ok := call.Fun.(*ast.SelectorExpr)
	if !ok {
		return "", ""
	}
	op := ""
	switch sel.Sel.Name {
	case "Lock", "RLock":
		op = "+"
	case "Unlock", "RUnlock":
		op = "-"
	default:
		return "", ""
	}
	fs, ok := ast.Unparen(sel.X).(*ast.SelectorExpr)
	if !ok {
		return "", ""
	}
	s, ok := info.Selections[fs]
	if !ok || s.Kind() != types.FieldVal {
		return "", ""
	}
	if n := core.NamedOf(s.Recv()); n == nil || n.Obj().Name() != typ {
		return "", ""
	}
	if !core.TypeIs(s.Type(), "sync", "Mutex") && !core.TypeIs(s.Type(), "sync", "RWMutex") {
		return "", ""
	}
	return fs.Sel.Name, op
}

// c09CollectOrder (F95): Topic.collect changes the topic state (updateEvent) and queues the event on the handlers (handleEvent).
// Two tasks publish to one topic from their own goroutines: unless both steps are one critical section, the handlers can get two
// events in the other order than the state took them. Must-hold analysis over go/cfg: some mutex of the topic is held at
// updateEvent and stays held, on every path, until handleEvent has been called.
func c09CollectOrder(c *core.Ctx, pkg *packages.Package) {
	info := pkg.TypesInfo
	fn := c.Need("C09.order", "alert", "Topic", "collect")
	if fn == nil {
		return
	}
	c.Analysed(fn)
	g := cfg.New(fn.Decl.Body, func(*ast.CallExpr) bool { return true })
	// state per mutex: 0 not held, 1 held, 2 held since updateEvent
	type state map[string]int
	clone := func(s state) state {
		o := state{}
		for k, v := range s {
			o[k] = v
		}
		return o
	}
	meet := func(a, b state) state {
		o := state{}
		for k, v := range a {
			if w, ok := b[k]; ok {
				if w < v {
					v = w
				}
				if v > 0 {
					o[k] = v
				}
			}
		}
		return o
	}
	equal := func(a, b state) bool {
		if len(a) != len(b) {
			return false
		}
		for k, v := range a {
			if b[k] != v {
				return false
			}
		}
		return true
	}
	nUpdate, nHandle := 0, 0
	var bad []token.Pos
	apply := func(b *cfg.Block, st state, report bool) state {
		st = clone(st)
		for _, nd := range b.Nodes {
			if _, ok := nd.(*ast.DeferStmt); ok {
				continue // runs at exit
			}
			var calls []*ast.CallExpr
			ast.Inspect(nd, func(n ast.Node) bool {
				if _, ok := n.(*ast.FuncLit); ok {
					return false
				}
				if call, ok := n.(*ast.CallExpr); ok {
					calls = append(calls, call)
				}
				return true
			})
			// innermost calls are evaluated first: order by end position
			sort.SliceStable(calls, func(i, j int) bool { return calls[i].End() < calls[j].End() })
			for _, call := range calls {
				if f, op := mutexFieldOp(info, call, "Topic"); f != "" {
					if op == "+" {
						st[f] = 1
					} else {
						delete(st, f)
					}
					continue
				}
				callee := core.Callee(info, call)
				if callee == nil || core.RecvTypeName(callee) != "Topic" {
					continue
				}
				switch callee.Name() {
				case "updateEvent":
					if report {
						nUpdate++
					}
					for k := range st {
						st[k] = 2
					}
				case "handleEvent":
					if report {
						nHandle++
						through := false
						for _, v := range st {
							if v == 2 {
								through = true
							}
						}
						if !through {
							bad = append(bad, call.Pos())
						}
					}
				}
			}
		}
		return st
	}
	if len(g.Blocks) == 0 {
		c.Undecided("C09.order", "Topic.collect", fn.Decl.Pos(), "no control-flow graph")
		return
	}
	in := map[*cfg.Block]state{}
	reached := map[*cfg.Block]bool{g.Blocks[0]: true}
	in[g.Blocks[0]] = state{}
	work := []*cfg.Block{g.Blocks[0]}
	for steps := 0; len(work) > 0 && steps < 10000; steps++ {
		b := work[0]
		work = work[1:]
		out := apply(b, in[b], false)
		for _, s := range b.Succs {
			nv := out
			if reached[s] {
				nv = meet(in[s], out)
				if equal(nv, in[s]) {
					continue
				}
			}
			reached[s] = true
			in[s] = nv
			work = append(work, s)
		}
	}
	for _, b := range g.Blocks {
		if reached[b] {
			apply(b, in[b], true)
		}
	}
	if nUpdate == 0 || nHandle == 0 {
		c.Undecided("C09.order", "Topic.collect", fn.Decl.Pos(), "Topic.collect no longer calls updateEvent (%d) and handleEvent (%d) itself: the rule cannot see where the state is taken and where the event is queued", nUpdate, nHandle)
		return
	}
	if len(bad) > 0 {
		c.Fail("C09.order", "Topic.collect#one-step", bad[0], "Topic.collect queues the event on the handlers (handleEvent) without a mutex of the topic held since updateEvent took the state: two goroutines that publish to the topic (two tasks with the same .topic(), a publish handler and a task) can queue their events in the opposite order of their state updates — a handler then sees OK before the CRITICAL that the topic recorded first and keeps the alert open, and the previous levels it is given do not chain")
		return
	}
	c.Ok("C09.order", "Topic.collect#one-step")
}

// c09Swap (F94): replacing a handler is one critical section of the topic: Topics.ReplaceHandler calls one Topic method that
// takes Topic.mu, not two (events collected between the two are handed to neither the old nor the new handler).
func c09Swap(c *core.Ctx, pkg *packages.Package) {
	info := pkg.TypesInfo
	fn := c.Need("C09.swap", "alert", "Topics", "ReplaceHandler")
	if fn == nil {
		return
	}
	c.Analysed(fn)
	locks := map[*types.Func]int{}    // Topic methods that take Topic.mu themselves: number of Lock calls
	touches := map[*types.Func]bool{} // Topic methods that (directly or through helpers) write Topic.handlers
	decls := map[*types.Func]*ast.FuncDecl{}
	for _, f := range core.AllFuncs(pkg) {
		if core.RecvName(f.Decl) != "Topic" {
			continue
		}
		m, _ := info.Defs[f.Decl.Name].(*types.Func)
		if m == nil {
			continue
		}
		decls[m] = f.Decl
		ast.Inspect(f.Decl.Body, func(n ast.Node) bool {
			switch x := n.(type) {
			case *ast.CallExpr:
				if fld, op := mutexFieldOp(info, x, "Topic"); fld == "mu" && op == "+" {
					locks[m]++
				}
			case *ast.AssignStmt:
				for _, l := range x.Lhs {
					if an.FieldSel(info, l, "Topic", "handlers") {
						touches[m] = true
					}
				}
			}
			return true
		})
	}
	// helpers: a method that calls a handlers-writing method writes them too
	for changed := true; changed; {
		changed = false
		for m, d := range decls {
			if touches[m] {
				continue
			}
			ast.Inspect(d.Body, func(n ast.Node) bool {
				if call, ok := n.(*ast.CallExpr); ok {
					if f := core.Callee(info, call); f != nil && touches[f] && !touches[m] {
						touches[m] = true
						changed = true
					}
				}
				return true
			})
		}
	}
	var sections []string
	var first token.Pos
	ast.Inspect(fn.Decl.Body, func(n ast.Node) bool {
		if call, ok := n.(*ast.CallExpr); ok {
			if f := core.Callee(info, call); f != nil && core.RecvTypeName(f) == "Topic" && touches[f] {
				// a helper without lock of its own is reported by C09.lockflow
				for i := 0; i < locks[f]; i++ {
					sections = append(sections, f.Name())
				}
				if first == token.NoPos {
					first = call.Pos()
				}
			}
		}
		return true
	})
	switch {
	case len(sections) == 0:
		c.Undecided("C09.swap", "Topics.ReplaceHandler", fn.Decl.Pos(), "no call of a Topic method that changes Topic.handlers found")
	case len(sections) > 1:
		c.Fail("C09.swap", "Topics.ReplaceHandler#one-section", first, "Topics.ReplaceHandler changes the topic's handler list in %d separate critical sections %v: an event collected between them is handed to neither the handler that is replaced nor the one that replaces it (UpdateHandlerSpec on a busy topic loses events without any error)", len(sections), sections)
	default:
		c.Ok("C09.swap", "Topics.ReplaceHandler#one-section")
	}
}

// c09Dao (F90): the key/value DAOs of the alert service forward Create/Put/Replace/Delete (and their …Tx forms) to the indexed
// store's operation of the same name. Service.UpdateHandlerSpec relies on Create failing for an ID that exists when a handler is
// renamed: with Put the other handler's spec is overwritten while its running handler stays registered.
func c09Dao(c *core.Ctx) {
	sp := c.P.Pkg("services/alert")
	if sp == nil {
		c.Note("C09.dao: services/alert is not loaded in this run")
		return
	}
	info := sp.TypesInfo
	ops := map[string]bool{"Create": true, "Put": true, "Replace": true, "Delete": true, "CreateTx": true, "PutTx": true, "ReplaceTx": true, "DeleteTx": true}
	n := 0
	for _, f := range core.AllFuncs(sp) {
		if f.Decl.Recv == nil || !ops[f.Decl.Name.Name] {
			continue
		}
		recv := core.RecvName(f.Decl)
		var got []string
		var pos token.Pos
		ast.Inspect(f.Decl.Body, func(nd ast.Node) bool {
			call, ok := nd.(*ast.CallExpr)
			if !ok {
				return true
			}
			callee := core.Callee(info, call)
			if callee == nil || core.RecvTypeName(callee) != "IndexedStore" || !strings.HasSuffix(callee.Pkg().Path(), "services/storage") {
				return true
			}
			got = append(got, callee.Name())
			pos = call.Pos()
			return true
		})
		if len(got) == 0 {
			continue // not a store-backed DAO method
		}
		n++
		c.Analysed(f)
		cons := recv + "." + f.Decl.Name.Name
		c.Check(len(got) == 1 && got[0] == f.Decl.Name.Name, "C09.dao", cons, pos, "%s forwards to IndexedStore.%s: the callers of the DAO rely on the semantics in its name (Create fails for an ID that exists — Service.UpdateHandlerSpec uses exactly that when a handler is renamed onto the ID of another one; Replace fails for an ID that does not exist)", cons, strings.Join(got, ","))
	}
	c.Floor("C09.dao", "store-backed DAO write methods in services/alert", n, 8)
}

// c09MatchScope: the match handler evaluates its expression with one scope that it keeps across events. An event must never
// be judged with a value another event left in it: either the scope is reset before anything is set on every path that
// evaluates (A), or the loop over the expression's variables sets each one from the event or leaves the function (B). One of
// the two is enough; with neither, an event that lacks a tag the expression refers to is matched with the previous event's value.
func c09MatchScope(c *core.Ctx) {
	c.Rule("C09.matchscope", "A1: matchHandler.match never evaluates with a value of another event: the kept scope is Reset before anything is set on every evaluating path, or every variable of the expression is set from the event or the function is left")
	sp := c.P.Pkg("services/alert")
	if sp == nil {
		c.Note("C09.matchscope: services/alert is not loaded in this run")
		return
	}
	info := sp.TypesInfo
	fn := c.Need("C09.matchscope", "services/alert", "matchHandler", "match")
	if fn == nil {
		return
	}
	isScope := func(e ast.Expr) bool { return an.FieldSel(info, e, "matchHandler", "scope") }
	eng := &an.Engine{Prog: c.P,
		TrackCall: func(call *ast.CallExpr, callee *types.Func) string {
			if callee == nil {
				return ""
			}
			if sel, ok := call.Fun.(*ast.SelectorExpr); ok && isScope(sel.X) {
				switch callee.Name() {
				case "Reset":
					return "Reset"
				case "Set", "SetDynamicFunc", "SetDynamicMethod":
					return "Set"
				}
			}
			if strings.HasPrefix(callee.Name(), "Eval") && len(call.Args) >= 1 && isScope(call.Args[0]) {
				return "Eval"
			}
			return ""
		}}
	paths, err := eng.Run(fn)
	if err != nil {
		c.Undecided("C09.matchscope", "matchHandler.match", fn.Decl.Pos(), "%v", err)
		return
	}
	evals, resetFirst := 0, true
	for _, p := range paths {
		if !p.Has("Eval") {
			continue
		}
		evals++
		first := ""
		for _, e := range p.Events {
			if e.Name == "Reset" || e.Name == "Set" {
				first = e.Name
				break
			}
		}
		if first == "Set" || !p.Has("Reset") && p.Has("Set") {
			resetFirst = false
		}
		if first == "" && !p.Has("Reset") {
			// nothing set, nothing reset: a scope kept from the last event is evaluated as it is
			resetFirst = false
		}
	}
	if evals == 0 {
		c.Undecided("C09.matchscope", "matchHandler.match", fn.Decl.Pos(), "no path evaluates the expression with the handler's scope")
		return
	}
	// B: the loop over the variables
	setOrLeave := false
	ast.Inspect(fn.Decl.Body, func(n ast.Node) bool {
		rs, ok := n.(*ast.RangeStmt)
		if !ok || !an.FieldSel(info, rs.X, "matchHandler", "vars") {
			return true
		}
		body := an.Effective(rs.Body.List)
		if len(body) != 1 {
			return true
		}
		is, ok := body[0].(*ast.IfStmt)
		if !ok || is.Else == nil {
			return true
		}
		sets := func(b *ast.BlockStmt) bool {
			f := false
			ast.Inspect(b, func(m ast.Node) bool {
				if call, ok := m.(*ast.CallExpr); ok {
					if sel, ok := call.Fun.(*ast.SelectorExpr); ok && sel.Sel.Name == "Set" && isScope(sel.X) {
						f = true
					}
				}
				return true
			})
			return f
		}
		leaves := func(b *ast.BlockStmt) bool {
			l := an.Effective(b.List)
			if len(l) == 0 {
				return false
			}
			_, ok := l[len(l)-1].(*ast.ReturnStmt)
			return ok
		}
		eb, ok := is.Else.(*ast.BlockStmt)
		if !ok {
			return true
		}
		if (sets(is.Body) || leaves(is.Body)) && (sets(eb) || leaves(eb)) {
			setOrLeave = true
		}
		return true
	})
	c.Check(resetFirst || setOrLeave, "C09.matchscope", "matchHandler.match#fresh-values", fn.Decl.Pos(), "matchHandler.match evaluates its expression with the scope it keeps across events, without resetting the scope first on every path (reset first: %v) and without setting every variable of the expression from the event or leaving (set or leave: %v): an event that lacks a tag the expression refers to is judged with the value the previous event left in the scope — it is handed to a handler whose match condition it does not meet", resetFirst, setOrLeave)
}
