package props

import (
	"fmt"
	"go/ast"
	"go/token"
	"go/types"
	"os"
	"regexp"
	"sort"
	"strings"

	"golang.org/x/tools/go/packages"

	"kapcheck/an"
	"kapcheck/core"
)

func init() {
	register(&Property{
		ID:               "C10",
		Patterns:         []string{"."},
		ThoroughPatterns: []string{"./..."},
		Run:              runC10,
		Explanation: "Sharing clause decided by an ownership (copy-on-write) analysis over every mutation site: every Set* call on a message, every store/delete on a models.Fields/models.Tags map and every element store into a batch's point slice " +
			"targets a value the node owns on that path — the result of ShallowCopy()/Copy()/make/a literal/a message constructor, a parameter whose every caller passes an owned value, or a struct field only ever assigned owned values — never a message received from the edge or a map/slice obtained from its getters. " +
			"In-place filtering of a slice obtained from a message's Dimensions() is a mutation of shared storage too. The guard skeletons of the stateful per-point nodes (derivative, changeDetect, sample, stateTracking, eval's drop-on-error) are compared with reference tables. " +
			"NOT decided: the documented function of each node on values (derivative arithmetic, flatten key building, combine combinatorics, eval keep/tags assembly).",
		Assumptions: []string{"messages delivered to receiver callbacks and values returned by message getters are shared with sibling branches", "ShallowCopy/Copy/constructors return values nothing else references"},
	})
}

var c10OwnedCalls = map[string]bool{"ShallowCopy": true, "Copy": true, "NewPointMessage": true, "NewBatchPointMessage": true, "NewBeginBatchMessage": true,
	"NewEndBatchMessage": true, "NewBufferedBatchMessage": true, "NewBarrierMessage": true, "NewDeleteGroupMessage": true, "BatchPointFromPoint": true,
	"make": true, "new": true, "BufferedBatchMessage": true /* BatchBuffer.BufferedBatchMessage builds a new message from buffered parts */}

// calls whose result (and the elements of it) is a message tree nothing else references: Begin()/Points() of it are owned, too
var c10DeepOwnedCalls = map[string]bool{"ResultToBufferedBatches": true, "Decode": true}

var reTrailingIndex = regexp.MustCompile(`\[[^\[\]]*\]$`)

// frozen exceptions, one symbol with one line of reason each
var c10Exempt = map[string]string{
	"kapacitor.replayBatchFromChan": "the replay functions own the batches they are handed: they come from a decoder or a fresh query result and go to exactly one collector",
}

// receiver callbacks: their message parameter is shared
var c10Callbacks = map[string]bool{"Point": true, "BatchPoint": true, "BeginBatch": true, "EndBatch": true, "BufferedBatch": true, "Barrier": true, "DeleteGroup": true, "Collect": true}

type c10Ctx struct {
	c       *core.Ctx
	pkgs    []*packages.Package
	fieldOK map[*types.Var]int // 0 unknown, 1 owned, 2 shared
	paramOK map[string]int
	funcs   map[*types.Func]*core.Func
	callers map[*types.Func][]c10Call
	depth   int
}

type c10Call struct {
	fn   *core.Func
	call *ast.CallExpr
}

func isMsgSetter(info *types.Info, call *ast.CallExpr) (recv ast.Expr, name string, ok bool) {
	sel, isSel := ast.Unparen(call.Fun).(*ast.SelectorExpr)
	if !isSel || !strings.HasPrefix(sel.Sel.Name, "Set") || len(sel.Sel.Name) < 4 {
		return nil, "", false
	}
	s, isS := info.Selections[sel]
	if !isS {
		return nil, "", false
	}
	fn, isF := s.Obj().(*types.Func)
	if !isF || fn.Pkg() == nil || !strings.HasSuffix(fn.Pkg().Path(), "kapacitor/edge") {
		return nil, "", false
	}
	return sel.X, sel.Sel.Name, true
}

func isSharedMapType(t types.Type) bool {
	n := core.NamedOf(t)
	if n == nil || n.Obj().Pkg() == nil || !strings.HasSuffix(n.Obj().Pkg().Path(), "kapacitor/models") {
		return false
	}
	return n.Obj().Name() == "Fields" || n.Obj().Name() == "Tags"
}

func isPointSlice(t types.Type) bool {
	sl, ok := t.Underlying().(*types.Slice)
	if !ok {
		return false
	}
	n := core.NamedOf(sl.Elem())
	return n != nil && n.Obj().Name() == "BatchPointMessage"
}

func runC10(c *core.Ctx) {
	c.Rule("C10.cow", "A4: on every path, the target of every message Set*, of every store/delete on a models.Fields/models.Tags map and of every element store into a []BatchPointMessage is owned: derived from ShallowCopy/Copy/make/literal/constructor, an owned-only parameter, or an owned-only struct field")
	c.Rule("C10.dims", "A4: a slice obtained from a message's Dimensions()/TagNames is not filtered or appended to in place (x[:0], append(x[:i]…)): it is the grouping node's own slice, shared by every point")
	c.Rule("C10.keep", "A1: EvalNode.eval assembles the emitted fields by the documented table: keep(list) takes each kept name from the expression scope exactly when it is the result of an expression (a name of the as() list; F64) and from the raw fields otherwise (unknown name: error); bare keep() copies the raw fields first and stores the expression results over them; without keep only the non-tag results are emitted — a result named like an existing field replaces it in every form")
	c.Rule("C10.skel", "A1: guard skeletons of stateful per-point nodes: every per-group BeginBatch resets its per-batch state on every non-error path (not only when the size hint is positive); state tracking discards a point whose predicate failed without touching the tracker; eval drops a point whose expression failed whatever the quiet flag (quiet only silences the log); derivative resets its previous point at every BeginBatch, stores the previous point iff the current one parses, emits iff both parse ∧ elapsed≠0 ∧ ¬(nonNegative ∧ diff<0)")

	x := &c10Ctx{c: c, fieldOK: map[*types.Var]int{}, paramOK: map[string]int{}, funcs: map[*types.Func]*core.Func{}, callers: map[*types.Func][]c10Call{}}
	for _, p := range c.P.ModPkgs {
		rel := strings.TrimPrefix(strings.TrimPrefix(p.PkgPath, core.Module), "/")
		if c.Tier != "thorough" && rel != "" {
			continue
		}
		if rel == "edge" || strings.HasPrefix(rel, "models") {
			continue // the message implementation itself
		}
		x.pkgs = append(x.pkgs, p)
	}
	// index functions and call sites (for parameter summaries)
	for _, p := range x.pkgs {
		for _, f := range core.AllFuncs(p) {
			x.funcs[f.Obj] = f
		}
	}
	for _, p := range x.pkgs {
		for _, f := range core.AllFuncs(p) {
			f := f
			ast.Inspect(f.Decl.Body, func(n ast.Node) bool {
				if call, ok := n.(*ast.CallExpr); ok {
					if callee := core.Callee(p.TypesInfo, call); callee != nil {
						if x.funcs[callee] != nil {
							x.callers[callee] = append(x.callers[callee], c10Call{f, call})
						} else if core.RecvTypeName(callee) != "" && callee.Pkg() == p.Types {
							// a call through an interface declared in this package reaches every implementation of that method
							for obj := range x.funcs {
								if obj.Name() == callee.Name() && obj.Pkg() == p.Types && core.RecvTypeName(obj) != "" && types.Identical(obj.Type().(*types.Signature).Params(), callee.Type().(*types.Signature).Params()) {
									x.callers[obj] = append(x.callers[obj], c10Call{f, call})
								}
							}
						}
					}
				}
				return true
			})
		}
	}
	nSinks := 0
	for _, p := range x.pkgs {
		for _, f := range core.AllFuncs(p) {
			nSinks += x.checkFunc(p, f)
		}
	}
	c.Sites(nSinks)
	c.Floor("C10.cow", "mutation sinks analysed", nSinks, 80)
	if root := c.P.Pkg(""); root != nil {
		c10Dims(c, x.pkgs)
		c10Skel(c, root)
		c10Keep(c, root)
		c10ProbeRules(c, root)
		// per-group results of eval/where/stateCount rest on the per-group copies of their expressions (round 5)
		ruleCopyReset(c, "C10.copyreset")
		c.Rule("C10.exprs", "A6 (= C06.exprs): a field of a grouped node that holds stateful.Expression values is used only as the receiver of CopyReset(), in len() or in a nil test — never evaluated or passed on")
		c.As("C06.exprs", "C10.exprs", func() { c06Exprs(c, root) })
	}
}

// hasSink: syntactic pre-scan.
func (x *c10Ctx) hasSink(info *types.Info, body ast.Node) bool {
	found := false
	ast.Inspect(body, func(n ast.Node) bool {
		if found {
			return false
		}
		switch y := n.(type) {
		case *ast.CallExpr:
			if _, _, ok := isMsgSetter(info, y); ok {
				found = true
			}
			if core.IsBuiltin(info, y, "delete") && len(y.Args) == 2 {
				if tv, ok := info.Types[y.Args[0]]; ok && isSharedMapType(tv.Type) {
					found = true
				}
			}
		case *ast.AssignStmt:
			for _, l := range y.Lhs {
				if ix, ok := ast.Unparen(l).(*ast.IndexExpr); ok {
					if tv, ok := info.Types[ix.X]; ok && (isSharedMapType(tv.Type) || isPointSlice(tv.Type)) {
						found = true
					}
				}
			}
		}
		return true
	})
	return found
}

func (x *c10Ctx) checkFunc(p *packages.Package, f *core.Func) int {
	info := p.TypesInfo
	if !x.hasSink(info, f.Decl.Body) {
		return 0
	}
	c := x.c
	c.Analysed(f)
	if why, ex := c10Exempt[f.Name()]; ex {
		c.Note("C10.cow: %s exempt: %s", f.Name(), why)
		return 0
	}
	eng := &an.Engine{Prog: c.P, MaxPaths: 6000, Forward: true, ElemKeys: true,
		TrackCall: func(call *ast.CallExpr, callee *types.Func) string {
			if _, name, ok := isMsgSetter(info, call); ok {
				return "set:" + name
			}
			if core.IsBuiltin(info, call, "delete") && len(call.Args) == 2 {
				if tv, ok := info.Types[call.Args[0]]; ok && isSharedMapType(tv.Type) {
					return "mapdel"
				}
			}
			return ""
		},
		TrackStore: func(lhs ast.Expr, key string) string {
			if ix, ok := ast.Unparen(lhs).(*ast.IndexExpr); ok {
				if tv, ok := info.Types[ix.X]; ok {
					if isSharedMapType(tv.Type) {
						return "mapstore"
					}
					if isPointSlice(tv.Type) {
						return "slicestore"
					}
				}
			}
			return ""
		}}
	paths, err := eng.Run(f)
	if err != nil {
		// too many paths: fall back to a flow-insensitive reading of the same sinks
		return x.checkFuncFlat(p, f)
	}
	parents := parentMap(f.Decl)
	type verdict struct {
		ok  bool
		why string
		pos token.Pos
	}
	res := map[string]*verdict{}
	ord := map[token.Pos]int{}
	for _, pth := range paths {
		for _, e := range pth.Events {
			var target string
			var tnode ast.Expr
			switch {
			case e.Kind == "call" && strings.HasPrefix(e.Name, "set:"):
				target = e.Recv
				if call, ok := e.Node.(*ast.CallExpr); ok {
					tnode, _, _ = isMsgSetter(info, call)
				}
			case e.Kind == "call" && e.Name == "mapdel":
				target = e.Args[0]
				if call, ok := e.Node.(*ast.CallExpr); ok {
					tnode = call.Args[0]
				}
			case e.Kind == "store" && (e.Name == "mapstore" || e.Name == "slicestore"):
				target = e.Recv
				if i := strings.LastIndex(target, "["); i > 0 {
					target = target[:i]
				}
				if ix, ok := ast.Unparen(e.Node.(ast.Expr)).(*ast.IndexExpr); ok {
					tnode = ix.X
				}
			default:
				continue
			}
			if _, seen := ord[e.Pos]; !seen {
				ord[e.Pos] = len(ord) + 1
			}
			kind := strings.TrimPrefix(e.Name, "set:")
			cons := f.Name() + "#" + kind + "@" + types.ExprString(tnode)
			owned, why := x.owned(p, f, target, tnode, e.Node, parents, 0)
			v := res[cons]
			if v == nil {
				v = &verdict{ok: true, pos: e.Pos}
				res[cons] = v
			}
			if !owned {
				v.ok = false
				v.why = fmt.Sprintf("%s is mutated here but on path [%s] it is %s", types.ExprString(tnode), shortCondN(pth, 6), why)
			}
		}
	}
	var keys []string
	for k := range res {
		keys = append(keys, k)
	}
	sort.Strings(keys)
	for _, k := range keys {
		v := res[k]
		if v.ok {
			c.Ok("C10.cow", k)
		} else {
			c.Fail("C10.cow", k, v.pos, "%s: the change is visible to sibling branches (and to buffered windows) that hold the same message", v.why)
		}
	}
	return len(keys)
}

func shortCondN(p *an.Path, n int) string {
	s := p.Cond()
	parts := strings.Split(s, " ∧ ")
	if len(parts) > n {
		parts = append(parts[:n], "…")
	}
	return strings.Join(parts, " ∧ ")
}

func parentMap(root ast.Node) map[ast.Node]ast.Node {
	parents := map[ast.Node]ast.Node{}
	var stack []ast.Node
	ast.Inspect(root, func(n ast.Node) bool {
		if n == nil {
			stack = stack[:len(stack)-1]
			return true
		}
		if len(stack) > 0 {
			parents[n] = stack[len(stack)-1]
		}
		stack = append(stack, n)
		return true
	})
	return parents
}

// ownedKey: the canonical key alone shows the value is freshly made.
func c10OwnedKey(k string) bool {
	k = strings.TrimPrefix(k, "&")
	if strings.HasPrefix(k, "make(") || strings.HasPrefix(k, "new(") {
		return true
	}
	// composite literal: Type{…}
	if i := strings.Index(k, "{"); i > 0 && strings.HasSuffix(k, "}") && !strings.ContainsAny(k[:i], "() ") {
		return true
	}
	if strings.HasPrefix(k, "map[") || strings.HasPrefix(k, "[]") {
		if strings.HasSuffix(k, "}") {
			return true
		}
	}
	// result #0 of a call: strip ".0"
	kk := k
	if strings.HasSuffix(kk, ").0") {
		kk = kk[:len(kk)-2]
	}
	if strings.HasSuffix(kk, ")") && c10OwnedCalls[an.LastCall(kk)] {
		return true
	}
	// append to an owned slice
	if strings.HasPrefix(k, "append(") {
		_, args := splitCall(k)
		if len(args) > 0 && c10OwnedKey(args[0]) {
			return true
		}
	}
	return false
}

func (x *c10Ctx) owned(p *packages.Package, f *core.Func, key string, tnode ast.Expr, at ast.Node, parents map[ast.Node]ast.Node, depth int) (bool, string) {
	info := p.TypesInfo
	if c10OwnedKey(key) {
		return true, ""
	}
	// x.Begin() of an owned buffered batch whose begin was replaced by a copy: b.SetBegin(b.Begin().ShallowCopy()) precedes in the function
	if strings.HasSuffix(key, ".Begin()") {
		base := strings.TrimSuffix(key, ".Begin()")
		if c10OwnedKey(base) && c10HasSetBeginCopy(f) {
			return true, ""
		}
	}
	// values (and elements, Begin(), Points()) of a deep-owned result
	{
		k := key
		for _, suf := range []string{".Begin()", ".Points()", "[*]", ".0"} {
			for strings.HasSuffix(k, suf) {
				k = strings.TrimSuffix(k, suf)
			}
		}
		for _, suf := range []string{".Begin()", ".Points()", "[*]", ".0"} {
			for strings.HasSuffix(k, suf) {
				k = strings.TrimSuffix(k, suf)
			}
		}
		// any element of the deep-owned result: x.0[i], x.0[i].Begin() …
		for changed := true; changed; {
			changed = false
			if m := reTrailingIndex.FindString(k); m != "" {
				k, changed = strings.TrimSuffix(k, m), true
			}
			for _, suf := range []string{".Begin()", ".Points()", ".0"} {
				if strings.HasSuffix(k, suf) {
					k, changed = strings.TrimSuffix(k, suf), true
				}
			}
		}
		if strings.HasSuffix(k, ")") && c10DeepOwnedCalls[an.LastCall(k)] {
			return true, ""
		}
	}
	// an element of (or a lookup in) a collection field that only ever receives owned values: recv.field[…] / recv.field[*]
	if fv, rest := x.collectionField(p, f, key); fv != nil {
		if x.fieldOwned(fv) {
			if rest == "" {
				return true, ""
			}
			if rest == ".Begin()" && x.fieldDeepBegin(fv) {
				return true, ""
			}
		}
	}
	// a parameter used as is
	if obj := paramObj(info, f, key); obj != nil {
		if f.Decl.Recv != nil && c10Callbacks[f.Decl.Name.Name] {
			return false, fmt.Sprintf("the message handed to the %s callback by the edge (shared with every other child of the parent node)", f.Decl.Name.Name)
		}
		if depth >= 3 {
			return false, "a parameter whose callers could not be followed further"
		}
		k := f.Name() + "#" + obj.Name()
		switch x.paramOK[k] {
		case 1:
			return true, ""
		case 2:
			return false, "the parameter " + obj.Name() + ", which some caller passes a shared value for"
		}
		x.paramOK[k] = 1 // optimistic for recursion
		ok, why := x.paramOwned(f, obj, depth)
		if ok {
			x.paramOK[k] = 1
			return true, ""
		}
		x.paramOK[k] = 2
		return false, "the parameter " + obj.Name() + " (" + why + ")"
	}
	// a struct field only ever assigned owned values
	if sel, ok := ast.Unparen(tnode).(*ast.SelectorExpr); ok {
		if s, ok := info.Selections[sel]; ok && s.Kind() == types.FieldVal {
			fv := s.Obj().(*types.Var)
			if x.fieldOwned(fv) {
				return true, ""
			}
			return false, "the struct field " + fv.Name() + ", which is also assigned values that are not fresh copies"
		}
	}
	// copy-on-first-write under a flag: `if !copied { x = x.Copy(); copied = true }` precedes the mutation in the same block
	if id, ok := ast.Unparen(tnode).(*ast.Ident); ok {
		if obj := info.Uses[id]; obj != nil && c10CopyOnFirstWrite(info, obj, at, parents) {
			return true, ""
		}
	}
	switch {
	case strings.HasSuffix(key, ".Fields()") || strings.HasSuffix(key, ".Tags()"):
		return false, "the map returned by a message getter (" + an.LastCall(key) + "), which the message still references"
	case strings.HasSuffix(key, ".Points()"):
		return false, "the point slice returned by Points(), which the batch still references"
	}
	return false, "not derived from ShallowCopy()/Copy()/make/a literal/a constructor (value: " + shortKey(key) + ")"
}

func shortKey(k string) string {
	if len(k) > 90 {
		return k[:45] + "…" + k[len(k)-40:]
	}
	return k
}

func paramObj(info *types.Info, f *core.Func, key string) *types.Var {
	for _, fl := range f.Decl.Type.Params.List {
		for _, n := range fl.Names {
			if n.Name == key {
				if v, ok := info.Defs[n].(*types.Var); ok {
					return v
				}
			}
		}
	}
	return nil
}

func (x *c10Ctx) paramOwned(f *core.Func, par *types.Var, depth int) (bool, string) {
	idx := -1
	n := 0
	for _, fl := range f.Decl.Type.Params.List {
		for _, nm := range fl.Names {
			if nm.Name == par.Name() {
				idx = n
			}
			n++
		}
	}
	calls := x.callers[f.Obj]
	if len(calls) == 0 || idx < 0 {
		return false, "no static caller found"
	}
	for _, cs := range calls {
		if idx >= len(cs.call.Args) {
			return false, "variadic/short call"
		}
		arg := cs.call.Args[idx]
		ok, why := x.argOwned(cs.fn, arg, depth+1)
		if !ok {
			return false, fmt.Sprintf("%s passes %s: %s", cs.fn.Name(), types.ExprString(arg), why)
		}
	}
	return true, ""
}

// argOwned: flow-insensitive reading of an argument expression in its caller.
func (x *c10Ctx) argOwned(f *core.Func, arg ast.Expr, depth int) (bool, string) {
	info := f.Pkg.TypesInfo
	arg = ast.Unparen(arg)
	switch a := arg.(type) {
	case *ast.CallExpr:
		if callee := core.Callee(info, a); callee != nil && c10OwnedCalls[callee.Name()] {
			return true, ""
		}
		if core.IsBuiltin(info, a, "make") || core.IsBuiltin(info, a, "new") {
			return true, ""
		}
		return false, "result of " + types.ExprString(a.Fun)
	case *ast.CompositeLit:
		return true, ""
	case *ast.UnaryExpr:
		if a.Op == token.AND {
			return x.argOwned(f, a.X, depth)
		}
	case *ast.Ident:
		obj := info.Uses[a]
		if obj == nil {
			return false, "unresolved"
		}
		// a local: every assignment to it in the caller must be owned (and it must not be a callback parameter used as is)
		assigned := 0
		allOwned := true
		why := ""
		ast.Inspect(f.Decl.Body, func(n ast.Node) bool {
			as, ok := n.(*ast.AssignStmt)
			if !ok {
				return true
			}
			for i, l := range as.Lhs {
				lid, ok := l.(*ast.Ident)
				if !ok || (info.Defs[lid] != obj && info.Uses[lid] != obj) {
					continue
				}
				assigned++
				var rhs ast.Expr
				if len(as.Rhs) == len(as.Lhs) {
					rhs = as.Rhs[i]
				} else {
					rhs = as.Rhs[0]
				}
				if ok2, w := x.argOwned(f, rhs, depth); !ok2 {
					allOwned = false
					why = w
				}
			}
			return true
		})
		if v := paramObj(info, f, a.Name); v != nil && v == obj {
			if assigned > 0 && allOwned {
				// re-assigned to a copy before use (p = p.ShallowCopy()): accepted when the re-assignment precedes the call site is not checked flow-sensitively here
				return true, ""
			}
			if f.Decl.Recv != nil && c10Callbacks[f.Decl.Name.Name] {
				return false, "the callback's shared message"
			}
			if depth >= 3 {
				return false, "caller chain too deep"
			}
			k := f.Name() + "#" + v.Name()
			switch x.paramOK[k] {
			case 1:
				return true, ""
			case 2:
				return false, "shared parameter " + v.Name()
			}
			x.paramOK[k] = 1
			ok, w := x.paramOwned(f, v, depth)
			if ok {
				return true, ""
			}
			x.paramOK[k] = 2
			return false, w
		}
		if assigned > 0 && allOwned {
			return true, ""
		}
		if assigned == 0 {
			// range variable or declared elsewhere
			return false, "a variable never assigned a fresh copy"
		}
		return false, why
	case *ast.SelectorExpr:
		if s, ok := info.Selections[a]; ok && s.Kind() == types.FieldVal {
			if x.fieldOwned(s.Obj().(*types.Var)) {
				return true, ""
			}
			return false, "field " + a.Sel.Name
		}
	case *ast.IndexExpr:
		// a lookup in a collection field yields what the field holds
		if sel, ok := ast.Unparen(a.X).(*ast.SelectorExpr); ok {
			if s, ok := info.Selections[sel]; ok && s.Kind() == types.FieldVal {
				if x.fieldOwned(s.Obj().(*types.Var)) {
					return true, ""
				}
				return false, "element of field " + sel.Sel.Name
			}
		}
	}
	return false, types.ExprString(arg)
}

// fieldOwned: every assignment to the field in the analysed packages stores a fresh value.
func (x *c10Ctx) fieldOwned(fv *types.Var) bool {
	switch x.fieldOK[fv] {
	case 1:
		return true
	case 2:
		return false
	}
	x.fieldOK[fv] = 1
	n := 0
	good := true
	for _, p := range x.pkgs {
		info := p.TypesInfo
		for _, f := range core.AllFuncs(p) {
			ast.Inspect(f.Decl.Body, func(nd ast.Node) bool {
				switch y := nd.(type) {
				case *ast.AssignStmt:
					for i, l := range y.Lhs {
						if ix, isIx := ast.Unparen(l).(*ast.IndexExpr); isIx {
							l = ix.X // a store into the collection held by the field
						}
						sel, ok := ast.Unparen(l).(*ast.SelectorExpr)
						if !ok {
							continue
						}
						if s, ok := info.Selections[sel]; !ok || s.Obj() != fv {
							continue
						}
						n++
						var rhs ast.Expr
						if len(y.Rhs) == len(y.Lhs) {
							rhs = y.Rhs[i]
						} else {
							rhs = y.Rhs[0]
						}
						if tv, ok := info.Types[rhs]; ok && tv.IsNil() {
							continue
						}
						if ok2, _ := x.argOwned(f, rhs, 1); !ok2 {
							good = false
						}
					}
				case *ast.KeyValueExpr:
					if id, ok := y.Key.(*ast.Ident); ok && info.Uses[id] == fv {
						n++
						if tv, ok := info.Types[y.Value]; ok && tv.IsNil() {
							return true
						}
						if ok2, _ := x.argOwned(f, y.Value, 1); !ok2 {
							good = false
						}
					}
				}
				return true
			})
		}
	}
	if n == 0 {
		good = false
	}
	if good {
		x.fieldOK[fv] = 1
	} else {
		x.fieldOK[fv] = 2
	}
	return good
}

func c10HasSetBeginCopy(f *core.Func) bool {
	found := false
	ast.Inspect(f.Decl.Body, func(n ast.Node) bool {
		if call, ok := n.(*ast.CallExpr); ok {
			if sel, ok := call.Fun.(*ast.SelectorExpr); ok && sel.Sel.Name == "SetBegin" && len(call.Args) == 1 {
				if strings.HasSuffix(types.ExprString(call.Args[0]), ".Begin().ShallowCopy()") {
					found = true
				}
			}
		}
		return true
	})
	return found
}

// c10CopyOnFirstWrite: `if !flag { x = x.Copy(); flag = true }` is a statement of an
// enclosing block that precedes the mutation.
func c10CopyOnFirstWrite(info *types.Info, obj types.Object, at ast.Node, parents map[ast.Node]ast.Node) bool {
	for cur := at; cur != nil; cur = parents[cur] {
		blk, ok := parents[cur].(*ast.BlockStmt)
		if !ok {
			continue
		}
		for _, st := range blk.List {
			if st.Pos() >= cur.Pos() {
				break
			}
			ifs, ok := st.(*ast.IfStmt)
			if !ok {
				continue
			}
			u, ok := ast.Unparen(ifs.Cond).(*ast.UnaryExpr)
			if !ok || u.Op != token.NOT {
				continue
			}
			flag, ok := ast.Unparen(u.X).(*ast.Ident)
			if !ok {
				continue
			}
			copies, sets := false, false
			for _, s := range ifs.Body.List {
				as, ok := s.(*ast.AssignStmt)
				if !ok || len(as.Lhs) != 1 || len(as.Rhs) != 1 {
					continue
				}
				if lid, ok := as.Lhs[0].(*ast.Ident); ok {
					if info.Uses[lid] == obj || info.Defs[lid] == obj {
						if call, ok := as.Rhs[0].(*ast.CallExpr); ok {
							if callee := core.Callee(info, call); callee != nil && c10OwnedCalls[callee.Name()] {
								copies = true
							}
						}
					}
					if lid.Name == flag.Name && types.ExprString(as.Rhs[0]) == "true" {
						sets = true
					}
				}
			}
			if copies && sets {
				return true
			}
		}
	}
	return false
}

// checkFuncFlat: the flow-insensitive fallback for functions with too many paths.
func (x *c10Ctx) checkFuncFlat(p *packages.Package, f *core.Func) int {
	info := p.TypesInfo
	n := 0
	parents := parentMap(f.Decl)
	ast.Inspect(f.Decl.Body, func(nd ast.Node) bool {
		var tnode ast.Expr
		kind := ""
		switch y := nd.(type) {
		case *ast.CallExpr:
			if r, name, ok := isMsgSetter(info, y); ok {
				tnode, kind = r, name
			} else if core.IsBuiltin(info, y, "delete") && len(y.Args) == 2 {
				if tv, ok := info.Types[y.Args[0]]; ok && isSharedMapType(tv.Type) {
					tnode, kind = y.Args[0], "mapdel"
				}
			}
		case *ast.AssignStmt:
			for _, l := range y.Lhs {
				if ix, ok := ast.Unparen(l).(*ast.IndexExpr); ok {
					if tv, ok := info.Types[ix.X]; ok && (isSharedMapType(tv.Type) || isPointSlice(tv.Type)) {
						tnode, kind = ix.X, "store"
					}
				}
			}
		}
		if tnode == nil {
			return true
		}
		n++
		cons := f.Name() + "#" + kind + "@" + types.ExprString(tnode)
		ok, why := x.argOwned(f, tnode, 0)
		if !ok {
			if id, isId := ast.Unparen(tnode).(*ast.Ident); isId {
				if obj := info.Uses[id]; obj != nil && c10CopyOnFirstWrite(info, obj, nd, parents) {
					ok = true
				}
			}
		}
		x.c.Check(ok, "C10.cow", cons, nd.Pos(), "%s is mutated but is %s (flow-insensitive reading: the function has too many paths): the change is visible to sibling branches", types.ExprString(tnode), why)
		return true
	})
	return n
}

// ---------------------------------------------------------------- in-place edits of shared dimension slices

func c10Dims(c *core.Ctx, pkgs []*packages.Package) {
	n := 0
	// summaries (seed C06-10-r4): functions that edit a []string parameter in place — re-slice it as an append base or assign
	// the re-slice, append to it, or store into its elements. Handing them a message's tag-name slice is the same defect one call away.
	inPlace := map[*types.Func]map[int]bool{}
	for _, p := range pkgs {
		info := p.TypesInfo
		for _, f := range core.AllFuncs(p) {
			fo, _ := info.Defs[f.Decl.Name].(*types.Func)
			if fo == nil || f.Decl.Type.Params == nil {
				continue
			}
			sig := fo.Type().(*types.Signature)
			for i := 0; i < sig.Params().Len(); i++ {
				pv := sig.Params().At(i)
				sl, ok := pv.Type().Underlying().(*types.Slice)
				if !ok || !types.Identical(sl.Elem(), types.Typ[types.String]) {
					continue
				}
				isP := func(e ast.Expr) bool {
					id, ok := ast.Unparen(e).(*ast.Ident)
					return ok && info.Uses[id] == pv
				}
				edits := false
				ast.Inspect(f.Decl.Body, func(nd ast.Node) bool {
					switch y := nd.(type) {
					case *ast.SliceExpr:
						if isP(y.X) {
							edits = true
						}
					case *ast.CallExpr:
						if core.IsBuiltin(info, y, "append") && len(y.Args) > 0 && isP(y.Args[0]) {
							edits = true
						}
					case *ast.AssignStmt:
						for _, l := range y.Lhs {
							if ix, ok := ast.Unparen(l).(*ast.IndexExpr); ok && isP(ix.X) {
								edits = true
							}
						}
					}
					return true
				})
				if edits {
					if inPlace[fo] == nil {
						inPlace[fo] = map[int]bool{}
					}
					inPlace[fo][i] = true
				}
			}
		}
	}
	for _, p := range pkgs {
		info := p.TypesInfo
		for _, f := range core.AllFuncs(p) {
			// locals bound to <x>.Dimensions() / .TagNames of such a value
			dimVars := map[types.Object]bool{}
			sharedSlice := func(e ast.Expr) bool {
				s := types.ExprString(e)
				if strings.HasSuffix(s, ".Dimensions().TagNames") {
					return true
				}
				if sel, ok := ast.Unparen(e).(*ast.SelectorExpr); ok && sel.Sel.Name == "TagNames" {
					if id, ok := ast.Unparen(sel.X).(*ast.Ident); ok && dimVars[info.Uses[id]] {
						return true
					}
				}
				return false
			}
			ast.Inspect(f.Decl.Body, func(nd ast.Node) bool {
				if as, ok := nd.(*ast.AssignStmt); ok && len(as.Lhs) == len(as.Rhs) {
					for i, r := range as.Rhs {
						if call, ok := ast.Unparen(r).(*ast.CallExpr); ok {
							if sel, ok := call.Fun.(*ast.SelectorExpr); ok && sel.Sel.Name == "Dimensions" && len(call.Args) == 0 {
								if id, ok := as.Lhs[i].(*ast.Ident); ok {
									obj := info.Defs[id]
									if obj == nil {
										obj = info.Uses[id]
									}
									dimVars[obj] = true
								}
							}
						}
					}
				}
				return true
			})
			// parameters of type models.Dimensions in helper functions count as shared, too
			for _, fl := range f.Decl.Type.Params.List {
				if tv, ok := info.Types[fl.Type]; ok {
					if nt := core.NamedOf(tv.Type); nt != nil && nt.Obj().Name() == "Dimensions" {
						for _, nm := range fl.Names {
							dimVars[info.Defs[nm]] = true
						}
					}
				}
			}
			if len(dimVars) == 0 {
				continue
			}
			ast.Inspect(f.Decl.Body, func(nd ast.Node) bool {
				switch y := nd.(type) {
				case *ast.SliceExpr:
					if sharedSlice(y.X) {
						n++
						// x[:0] / x[:i] used as an append base or assigned: in-place reuse of the shared backing array
						c.Fail("C10.dims", f.Name()+"#reslice@"+types.ExprString(y.X), y.Pos(), "%s re-slices the tag-name slice of a message's dimensions; appending to or filtering that slice in place overwrites the grouping node's own slice, which every later point and every sibling branch shares", types.ExprString(y))
					}
				case *ast.CallExpr:
					if core.IsBuiltin(info, y, "append") && len(y.Args) > 0 && sharedSlice(y.Args[0]) {
						n++
						c.Fail("C10.dims", f.Name()+"#append@"+types.ExprString(y.Args[0]), y.Pos(), "append to the tag-name slice of a message's dimensions may write into the grouping node's own backing array")
					}
					if cal := core.Callee(info, y); cal != nil && inPlace[cal] != nil {
						for i, a := range y.Args {
							if inPlace[cal][i] && sharedSlice(a) {
								n++
								c.Fail("C10.dims", f.Name()+"#call:"+cal.Name()+"@"+types.ExprString(a), y.Pos(), "%s hands the tag-name slice of a message's dimensions to %s, which edits that parameter in place (re-slices, appends or stores into it): the slice is the grouping node's own, shared by every later point and every sibling branch — the first point through rewrites the upstream node's dimension list", f.Name(), cal.Name())
							}
						}
					}
				case *ast.AssignStmt:
					for _, l := range y.Lhs {
						if ix, ok := ast.Unparen(l).(*ast.IndexExpr); ok && sharedSlice(ix.X) {
							n++
							c.Fail("C10.dims", f.Name()+"#store@"+types.ExprString(ix.X), y.Pos(), "element store into the tag-name slice of a message's dimensions")
						}
					}
				}
				return true
			})
			c.Ok("C10.dims", f.Name())
		}
	}
}

// ---------------------------------------------------------------- guard skeletons

func c10Skel(c *core.Ctx, root *packages.Package) {
	info := root.TypesInfo
	// eval: a failed expression drops the point regardless of QuietFlag
	if fn := c.Need("C10.skel", "", "evalGroup", "doEval"); fn != nil {
		eng := &an.Engine{Prog: c.P, BoolReturns: true,
			TrackCall: func(call *ast.CallExpr, callee *types.Func) string {
				if callee != nil && callee.Name() == "eval" && core.RecvTypeName(callee) == "EvalNode" {
					return "eval"
				}
				return ""
			},
			Classify: func(a an.Atom) (string, bool) {
				if k, ok := an.ErrNilAtom(info, a); ok && an.LastCall(k) == "eval" {
					return "failed", true
				}
				if an.FieldSel(info, a.Expr, "EvalNode", "QuietFlag") || strings.HasSuffix(a.Key, ".QuietFlag") {
					return "quiet", false
				}
				return "", false
			}}
		paths, err := eng.Run(fn)
		if err != nil {
			c.Undecided("C10.skel", "evalGroup.doEval", fn.Decl.Pos(), "%v", err)
		} else {
			an.CheckTable(c, "C10.skel", "evalGroup.doEval", paths, an.Table{Atoms: []string{"failed", "quiet"},
				Outcome: func(p *an.Path) string {
					if len(p.Rets) == 1 {
						return p.Rets[0]
					}
					return "?"
				},
				Expect: func(a map[string]bool) string {
					if a["failed"] {
						return "false"
					}
					return "true"
				}})
		}
	}
	// derivative: previous point reset at BeginBatch on every path
	if fn := c.Need("C10.skel", "", "derivativeGroup", "BeginBatch"); fn != nil {
		eng := &an.Engine{Prog: c.P,
			TrackStore: func(lhs ast.Expr, key string) string {
				if an.FieldSel(info, lhs, "derivativeGroup", "previous") {
					return "previous"
				}
				return ""
			}}
		paths, err := eng.Run(fn)
		if err != nil {
			c.Undecided("C10.skel", "derivativeGroup.BeginBatch", fn.Decl.Pos(), "%v", err)
		} else {
			good := len(paths) > 0
			for _, p := range paths {
				ev := p.Find("previous")
				if ev == nil || ev.Args[0] != "nil" {
					good = false
					c.Fail("C10.skel", "derivativeGroup.BeginBatch#reset", p.RetPos, "the previous point is not reset on path [%s]: the first point of a batch is differentiated against the last point of the previous batch (begin messages forwarded by where/eval carry size hint 0)", p.Cond())
				}
			}
			if good {
				c.Ok("C10.skel", "derivativeGroup.BeginBatch#reset")
			}
		}
	}
	// every per-group BeginBatch: a field of the group that is reset (nil / zero value / fresh make) on some path is reset
	// on every path that does not end in an error — a per-batch reset must not depend on the begin message's size hint
	nBB := 0
	for _, bf := range core.AllFuncs(c.P.Pkg("")) {
		if bf.Decl.Recv == nil || bf.Decl.Name.Name != "BeginBatch" || bf.Decl.Body == nil {
			continue
		}
		recvT := core.RecvTypeName(bf.Obj)
		if recvT == "derivativeGroup" {
			continue // decided above with its own message
		}
		binfo := bf.Pkg.TypesInfo
		recvName := an.RecvVarName(bf.Decl)
		eng := &an.Engine{Prog: c.P,
			TrackStore: func(lhs ast.Expr, key string) string {
				if sel, ok := ast.Unparen(lhs).(*ast.SelectorExpr); ok {
					if id, ok := sel.X.(*ast.Ident); ok && id.Name == recvName && an.FieldSel(binfo, sel, recvT, sel.Sel.Name) {
						return sel.Sel.Name
					}
				}
				return ""
			}}
		paths, err := eng.Run(bf)
		if err != nil {
			continue // functions the engine does not model are not part of this sweep
		}
		resets := map[string]bool{}
		for _, p := range paths {
			for _, e := range p.Events {
				if e.Kind == "store" && (e.Args[0] == "nil" || e.Args[0] == "0" || e.Args[0] == "false" || strings.HasPrefix(e.Args[0], "zero:")) {
					resets[e.Name] = true
				}
			}
		}
		if len(resets) == 0 {
			continue
		}
		nBB++
		good := true
		for _, p := range paths {
			if n := len(p.Rets); n > 0 && p.Rets[n-1] != "nil" {
				continue
			}
			for f := range resets {
				if !p.Has(f) {
					good = false
					c.Fail("C10.skel", recvT+".BeginBatch#reset-"+f, p.RetPos, "%s.%s is reset at the start of a batch on some paths but not on path [%s]: state of the previous batch leaks into the next one exactly when an upstream node (where, eval, flatten …) forwarded the begin message with size hint 0", recvT, f, p.Cond())
				}
			}
		}
		if good {
			c.Ok("C10.skel", recvT+".BeginBatch#resets")
		}
	}
	c.Floor("C10.skel", "per-group BeginBatch methods that reset state", nBB, 2)
	// state tracking: a point whose predicate cannot be evaluated is discarded without touching the tracker
	if fn := c.Need("C10.skel", "", "stateTrackingGroup", "track"); fn != nil {
		eng := &an.Engine{Prog: c.P,
			TrackCall: func(call *ast.CallExpr, callee *types.Func) string {
				if callee != nil && callee.Name() == "track" && callee != fn.Obj {
					return "tracker"
				}
				if callee != nil && callee.Name() == "SetFields" {
					return "SetFields"
				}
				return ""
			},
			Classify: func(a an.Atom) (string, bool) {
				if a.Op == token.EQL && a.R == "nil" && an.CallResultOf(a.L, "EvalPredicate", 1) {
					return "evalok", false
				}
				return "", false
			}}
		paths, err := eng.Run(fn)
		if err != nil {
			c.Undecided("C10.skel", "stateTrackingGroup.track", fn.Decl.Pos(), "%v", err)
		} else {
			an.CheckTable(c, "C10.skel", "stateTrackingGroup.track", paths, an.Table{Atoms: []string{"evalok"},
				Outcome: func(p *an.Path) string { return an.Seq(p, "tracker", "SetFields") },
				Expect: func(a map[string]bool) string {
					if a["evalok"] {
						return "tracker,SetFields"
					}
					return ""
				}})
		}
	}
	// derivative: doDerivative guard table
	if fn := c.Need("C10.skel", "", "DerivativeNode", "derivative"); fn != nil {
		// (value, store, emit): the reference is the function's own contract ("we only return store=true if current parses
		// successfully") plus the documented drops
		prevP, currP := an.ParamName(fn.Decl.Type, 0), an.ParamName(fn.Decl.Type, 1)
		eng := &an.Engine{Prog: c.P,
			Classify: func(a an.Atom) (string, bool) {
				k := a.Key
				switch {
				case an.CallResultOf(k, "numToFloat", 1) && strings.Contains(k, "("+currP+"["):
					return "currok", false
				case an.CallResultOf(k, "numToFloat", 1) && strings.Contains(k, "("+prevP+"["):
					return "prevok", false
				case strings.HasSuffix(k, ".NonNegativeFlag"):
					return "nonneg", false
				// F62: what nonNegative drops is a negative RESULT (difference divided by elapsed), not a negative difference:
				// the two differ for a late point, whose elapsed time is negative
				case a.Op == token.LSS && a.R == "0" && strings.Contains(a.L, "-") && strings.Contains(a.L, " / "):
					return "negative", false
				case a.Op == token.GTR && a.L == "0" && strings.Contains(a.R, "-") && strings.Contains(a.R, " / "):
					return "negative", false
				case a.Op == token.EQL && a.R == "0" && strings.Contains(a.L, ".Sub("):
					return "noelapsed", false
				case a.Op == token.EQL && a.L == "0" && strings.Contains(a.R, ".Sub("):
					return "noelapsed", false
				}
				return "", false
			}}
		paths, err := eng.Run(fn)
		if err != nil {
			c.Undecided("C10.skel", "DerivativeNode.derivative", fn.Decl.Pos(), "%v", err)
		} else {
			an.CheckTable(c, "C10.skel", "DerivativeNode.derivative", paths, an.Table{Atoms: []string{"currok", "prevok", "noelapsed", "nonneg", "negative"},
				Outcome: func(p *an.Path) string {
					if len(p.Rets) != 3 {
						return "?"
					}
					return "store=" + p.Rets[1] + ",emit=" + p.Rets[2]
				},
				Expect: func(a map[string]bool) string {
					switch {
					case !a["currok"]:
						return "store=false,emit=false"
					case !a["prevok"], a["noelapsed"], a["nonneg"] && a["negative"]:
						// the point is dropped but becomes the new previous: the next derivative is taken against it, not against an older point
						return "store=true,emit=false"
					}
					return "store=true,emit=true"
				}})
		}
	}
	if fn := c.Need("C10.skel", "", "derivativeGroup", "doDerivative"); fn != nil {
		// doDerivative obeys the two flags: previous := p iff store; a result is set and true returned iff emit
		eng := &an.Engine{Prog: c.P, BoolReturns: true,
			TrackStore: func(lhs ast.Expr, key string) string {
				if an.FieldSel(info, lhs, "derivativeGroup", "previous") {
					return "previous"
				}
				return ""
			},
			TrackCall: func(call *ast.CallExpr, callee *types.Func) string {
				if callee != nil && callee.Name() == "SetFields" {
					return "SetFields"
				}
				return ""
			},
			Classify: func(a an.Atom) (string, bool) {
				switch {
				case an.CallResultOf(a.Key, "derivative", 1):
					return "store", false
				case an.CallResultOf(a.Key, "derivative", 2):
					return "emit", false
				}
				return "", false
			}}
		paths, err := eng.Run(fn)
		if err != nil {
			c.Undecided("C10.skel", "derivativeGroup.doDerivative", fn.Decl.Pos(), "%v", err)
		} else {
			cur := an.ParamName(fn.Decl.Type, 0)
			an.CheckTable(c, "C10.skel", "derivativeGroup.doDerivative", paths, an.Table{Atoms: []string{"store", "emit"},
				Outcome: func(p *an.Path) string {
					var w []string
					for _, e := range p.Events {
						if e.Kind == "store" && e.Name == "previous" {
							if len(e.Args) == 1 && e.Args[0] == cur {
								w = append(w, "previous=current")
							} else {
								w = append(w, "previous=other")
							}
						} else if e.Name == "SetFields" {
							w = append(w, "SetFields")
						}
					}
					if len(p.Rets) == 1 {
						w = append(w, "ret="+p.Rets[0])
					}
					return strings.Join(w, ",")
				},
				Expect: func(a map[string]bool) string {
					var w []string
					if a["store"] {
						w = append(w, "previous=current")
					}
					if a["emit"] {
						w = append(w, "SetFields", "ret=true")
					} else {
						w = append(w, "ret=false")
					}
					return strings.Join(w, ",")
				}})
		}
	}
}

// c10Keep: the field set eval emits: keep(list) takes a kept name from the expression scope first and from the raw fields only
// when the scope does not have it; bare keep() copies the raw fields first and the expression results over them; without keep only
// the non-tag results are emitted. (So a result stored under the name of an existing field replaces it in every form.)
func c10Keep(c *core.Ctx, pkg *packages.Package) {
	info := pkg.TypesInfo
	fn := c.Need("C10.keep", "", "EvalNode", "eval")
	if fn == nil {
		return
	}
	// the local that holds the point's raw fields (x := p.Fields())
	raw := ""
	ast.Inspect(fn.Decl.Body, func(nd ast.Node) bool {
		if as, ok := nd.(*ast.AssignStmt); ok && len(as.Lhs) == 1 && len(as.Rhs) == 1 {
			if call, ok := as.Rhs[0].(*ast.CallExpr); ok && len(call.Args) == 0 {
				if sel, ok := call.Fun.(*ast.SelectorExpr); ok && sel.Sel.Name == "Fields" {
					if id, ok := as.Lhs[0].(*ast.Ident); ok && raw == "" {
						raw = id.Name
					}
				}
			}
		}
		return true
	})
	if raw == "" {
		c.Undecided("C10.keep", "EvalNode.eval#raw", fn.Decl.Pos(), "the local holding p.Fields() was not found")
		return
	}
	// the bool local that says whether a kept name is the result of an expression: assigned in a loop over the node's AsList
	var isResultVar types.Object
	ast.Inspect(fn.Decl.Body, func(nd ast.Node) bool {
		rs, ok := nd.(*ast.RangeStmt)
		if !ok || !strings.HasSuffix(types.ExprString(rs.X), ".AsList") {
			return true
		}
		ast.Inspect(rs.Body, func(k ast.Node) bool {
			if as, ok := k.(*ast.AssignStmt); ok && len(as.Lhs) == 1 {
				if id, ok := as.Lhs[0].(*ast.Ident); ok {
					o := info.Uses[id]
					if o == nil {
						o = info.Defs[id]
					}
					if o != nil {
						if b, ok := o.Type().Underlying().(*types.Basic); ok && b.Kind() == types.Bool {
							isResultVar = o
						}
					}
				}
			}
			return true
		})
		return true
	})
	eng := &an.Engine{Prog: c.P, ElemKeys: true,
		TrackStore: func(lhs ast.Expr, key string) string {
			if ix, ok := ast.Unparen(lhs).(*ast.IndexExpr); ok {
				if tv, ok := info.Types[ix.X]; ok && core.NamedOf(tv.Type) != nil && core.NamedOf(tv.Type).Obj().Name() == "Fields" {
					return "put"
				}
			}
			return ""
		},
		Classify: func(a an.Atom) (string, bool) {
			k := a.Key
			switch {
			case strings.HasSuffix(k, ".KeepFlag"):
				return "keep", false
			case a.Op == token.NEQ && a.R == "0" && strings.HasPrefix(a.L, "len(") && strings.Contains(a.L, ".KeepList"):
				return "list", false
			case a.Op == token.EQL && a.R == "0" && strings.HasPrefix(a.L, "len(") && strings.Contains(a.L, ".KeepList"):
				return "list", true
			case a.Call != nil && a.Call.Name() == "Has":
				return "inscope", false
			case isResultVar != nil && func() bool {
				id, ok := ast.Unparen(a.Expr).(*ast.Ident)
				return ok && info.Uses[id] == isResultVar
			}():
				return "isresult", false
			case strings.HasSuffix(k, "].1") && strings.HasPrefix(k, raw+"["):
				return "infields", false
			case a.Op == token.EQL && a.R == "nil" && an.CallResultOf(a.L, "Get", 1):
				return "getok", false
			case a.Op == token.NEQ && a.R == "nil" && an.CallResultOf(a.L, "Get", 1):
				return "getok", true
			case strings.Contains(k, ".tags["):
				return "istag", false
			}
			return "", false
		}}
	paths, err := eng.RunRegion(fn, func(st ast.Stmt) bool {
		is, ok := st.(*ast.IfStmt)
		return ok && is.Init == nil && strings.HasSuffix(types.ExprString(is.Cond), ".KeepFlag")
	})
	if err != nil {
		c.Undecided("C10.keep", "EvalNode.eval", fn.Decl.Pos(), "%v", err)
		return
	}
	src := func(v string) string {
		switch {
		case strings.Contains(v, ".Get("):
			return "scope"
		case strings.HasPrefix(v, raw+"["):
			return "raw"
		}
		return "other:" + v
	}
	// F64: whether a kept name is read from the scope is decided by its being the result of an expression (a name of the as()
	// list), not by the scope having it: the scope also holds the tags the expressions refer to and the marker of a missing field
	for _, p := range paths {
		for _, l := range p.Lits {
			if l.Name == "inscope" {
				c.Fail("C10.keep", "EvalNode.eval#keep-source", l.Pos, "a kept name is taken from the expression scope whenever the scope has it (vars.Has): the scope also holds referenced tags and the marker of a missing referenced field — keep('hx','host') turns the tag host into a field (every later expression on \"host\" then fails), keep('x') for a missing x emits the marker instead of the error 'field does not exist'")
				return
			}
		}
	}
	an.CheckTable(c, "C10.keep", "EvalNode.eval", paths, an.Table{Atoms: []string{"keep", "list", "isresult", "infields", "getok", "istag"},
		Outcome: func(p *an.Path) string {
			var w []string
			for _, e := range p.Events {
				if e.Kind == "store" && e.Name == "put" && len(e.Args) == 1 {
					w = append(w, src(e.Args[0]))
				}
			}
			if len(p.Rets) == 1 && p.Rets[0] != "nil" && p.Rets[0] != "err" && p.Rets[0] != "" {
				w = append(w, "error")
			}
			if os.Getenv("KAPDEBUG_KEEP") != "" {
				fmt.Fprintf(os.Stderr, "KEEP cond=[%s] word=%v rets=%v events=%s\n", p.Cond(), w, p.Rets, p.Word())
			}
			return strings.Join(w, ",")
		},
		Expect: func(a map[string]bool) string {
			switch {
			case a["keep"] && a["list"]:
				switch {
				case a["isresult"] && a["getok"]:
					return "scope"
				case a["isresult"]:
					return "error"
				case a["infields"]:
					return "raw"
				}
				return "error"
			case a["keep"]:
				if a["getok"] {
					return "raw,scope"
				}
				return "raw,error"
			}
			switch {
			case a["istag"]:
				return ""
			case a["getok"]:
				return "scope"
			}
			return "error"
		}})
}

// collectionField: key is <recv>.<field>[…]<rest> for a field of the receiver's struct → (field, rest).
func (x *c10Ctx) collectionField(p *packages.Package, f *core.Func, key string) (*types.Var, string) {
	recv := an.RecvVarName(f.Decl)
	if recv == "" || !strings.HasPrefix(key, recv+".") {
		return nil, ""
	}
	r := key[len(recv)+1:]
	i := strings.IndexAny(r, "[.#")
	if i <= 0 || r[i] != '[' {
		return nil, ""
	}
	name := r[:i]
	// matching bracket
	depth, j := 0, i
	for ; j < len(r); j++ {
		if r[j] == '[' {
			depth++
		} else if r[j] == ']' {
			depth--
			if depth == 0 {
				break
			}
		}
	}
	if j >= len(r) {
		return nil, ""
	}
	rest := strings.TrimPrefix(r[j+1:], ".0")
	obj := f.Pkg.TypesInfo.Defs[f.Decl.Recv.List[0].Names[0]]
	if obj == nil {
		return nil, ""
	}
	st := structOfType(obj.Type())
	if st == nil {
		return nil, ""
	}
	for k := 0; k < st.NumFields(); k++ {
		if st.Field(k).Name() == name {
			return st.Field(k), rest
		}
	}
	return nil, ""
}

func structOfType(t types.Type) *types.Struct {
	if pt, ok := t.Underlying().(*types.Pointer); ok {
		t = pt.Elem()
	}
	st, _ := t.Underlying().(*types.Struct)
	return st
}

// fieldDeepBegin: every value stored into the collection field is NewBufferedBatchMessage(<owned begin>, …).
func (x *c10Ctx) fieldDeepBegin(fv *types.Var) bool {
	good, n := true, 0
	for _, p := range x.pkgs {
		info := p.TypesInfo
		for _, f := range core.AllFuncs(p) {
			ast.Inspect(f.Decl.Body, func(nd ast.Node) bool {
				as, ok := nd.(*ast.AssignStmt)
				if !ok || len(as.Lhs) != len(as.Rhs) {
					return true
				}
				for i, l := range as.Lhs {
					ix, ok := ast.Unparen(l).(*ast.IndexExpr)
					if !ok {
						continue
					}
					sel, ok := ast.Unparen(ix.X).(*ast.SelectorExpr)
					if !ok {
						continue
					}
					if s, ok := info.Selections[sel]; !ok || s.Obj() != fv {
						continue
					}
					n++
					rhs := ast.Unparen(as.Rhs[i])
					if id, ok := rhs.(*ast.Ident); ok {
						// resolve the local to its (single) constructor assignment in this function
						obj := info.Uses[id]
						ast.Inspect(f.Decl.Body, func(m ast.Node) bool {
							if a2, ok := m.(*ast.AssignStmt); ok && len(a2.Lhs) == 1 && len(a2.Rhs) == 1 {
								if lid, ok := a2.Lhs[0].(*ast.Ident); ok && (info.Uses[lid] == obj || info.Defs[lid] == obj) {
									if call, ok := ast.Unparen(a2.Rhs[0]).(*ast.CallExpr); ok {
										if callee := core.Callee(info, call); callee != nil && callee.Name() == "NewBufferedBatchMessage" {
											rhs = call
										}
									}
								}
							}
							return true
						})
					}
					call, ok := rhs.(*ast.CallExpr)
					if !ok {
						good = false
						continue
					}
					callee := core.Callee(info, call)
					if callee == nil || callee.Name() != "NewBufferedBatchMessage" || len(call.Args) < 1 {
						good = false
						continue
					}
					if ok2, _ := x.argOwned(f, call.Args[0], 1); !ok2 {
						good = false
					}
				}
				return true
			})
		}
	}
	return good && n > 0
}

// c10ProbeRules: structural necessary conditions for the defects the C10 differential probe found (F61, F63, F65-F68).
func c10ProbeRules(c *core.Ctx, root *packages.Package) {
	info := root.TypesInfo
	c.Rule("C10.grow", "A9b: F61: no slice is grown by re-slicing it beyond its length with a constant bound (x = x[0:1]; x[0] = v): that relies on capacity the slice need not have (a buffer started with size hint 0, or never filled) and panics; append(x[0:0], v) is the form")
	c.Rule("C10.evalrefs", "A3: F63: in newEvalNode the names filled into the scope before expression i (refVarList[i]) are filtered against the as() names of the earlier expressions (AsList[:i]): an earlier result stored under the name of a field is not overwritten by the raw field before a later expression reads it")
	c.Rule("C10.flatten", "A1/A2: F65-F67: FlattenNode.flatten leaves every iteration over the points (end of body, continue) with the pooled prefix buffer reset; flattenBuffer.EndBatch emits only a non-empty field set (as every other path does); flattenBuffer.Point does not assign the run's time (addPoint owns it)")
	c.Rule("C10.stable", "A3: F68: GroupByNode.emit orders the points of a regrouped batch with a stable sort (points of one series with equal times keep their order)")

	c.Rule("C10.floatquot", "A4: no conversion to a floating-point type has an integer quotient as its operand (float64(d / unit) with integer-typed, non-constant operands): the division truncates before the value becomes a float — a duration in units, a rate, a ratio loses its fraction; float64(d) / float64(unit) is the form")
	nConv := 0
	for _, f := range core.AllFuncs(root) {
		ast.Inspect(f.Decl.Body, func(nd ast.Node) bool {
			call, ok := nd.(*ast.CallExpr)
			if !ok || len(call.Args) != 1 {
				return true
			}
			tv, ok := info.Types[call.Fun]
			if !ok || !tv.IsType() {
				return true
			}
			bt, ok := tv.Type.Underlying().(*types.Basic)
			if !ok || bt.Info()&types.IsFloat == 0 {
				return true
			}
			nConv++
			q, ok := ast.Unparen(call.Args[0]).(*ast.BinaryExpr)
			if !ok || q.Op != token.QUO {
				return true
			}
			if qt, ok := info.Types[q]; ok && qt.Value != nil {
				return true // a constant expression
			}
			lt, lok := info.TypeOf(q.X).Underlying().(*types.Basic)
			rt, rok := info.TypeOf(q.Y).Underlying().(*types.Basic)
			if !lok || !rok || lt.Info()&types.IsInteger == 0 || rt.Info()&types.IsInteger == 0 {
				return true
			}
			name := f.Decl.Name.Name
			if r := core.RecvName(f.Decl); r != "" {
				name = r + "." + name
			}
			c.Fail("C10.floatquot", name+"#"+types.ExprString(call.Fun), call.Pos(), "%s converts the integer quotient %s to %s: the division is done on integers (%s), so the fraction is gone before the value is a float — a duration of 90s in .unit(1m) becomes 1 instead of 1.5", name, types.ExprString(q), types.ExprString(call.Fun), types.TypeString(info.TypeOf(q.X), nil))
			return true
		})
	}
	if nConv > 0 {
		c.Ok("C10.floatquot", "root#conversions", "no float conversion of an integer quotient")
	}
	c.Floor("C10.floatquot", "conversions to a floating-point type examined", nConv, 10)

	// F61
	nGrow := 0
	for _, f := range core.AllFuncs(root) {
		ast.Inspect(f.Decl.Body, func(nd ast.Node) bool {
			as, ok := nd.(*ast.AssignStmt)
			if !ok || len(as.Lhs) != 1 || len(as.Rhs) != 1 {
				return true
			}
			sl, ok := ast.Unparen(as.Rhs[0]).(*ast.SliceExpr)
			if !ok || sl.High == nil || types.ExprString(sl.X) != types.ExprString(as.Lhs[0]) {
				return true
			}
			tv, ok := info.Types[sl.High]
			if !ok || tv.Value == nil || tv.Value.String() == "0" {
				return true
			}
			if _, isSlice := info.TypeOf(sl.X).Underlying().(*types.Slice); !isSlice {
				return true
			}
			nGrow++
			c.Fail("C10.grow", f.Name()+"#"+types.ExprString(as.Lhs[0]), as.Pos(), "%s is re-sliced to the constant length %s: when it has no capacity (combine's buffer at the start of a run after a begin with size hint 0 — every batch that went through where/eval/flatten — or at a group's first unaligned point) this panics with 'slice bounds out of range' and the task dies", types.ExprString(as.Lhs[0]), types.ExprString(sl.High))
			return true
		})
	}
	if nGrow == 0 {
		c.Ok("C10.grow", "root#no-reslice-growth")
	}

	// F63
	if fn := c.Need("C10.evalrefs", "", "", "newEvalNode"); fn != nil {
		var loop *ast.RangeStmt
		ast.Inspect(fn.Decl.Body, func(nd ast.Node) bool {
			if rs, ok := nd.(*ast.RangeStmt); ok && loop == nil && strings.HasSuffix(types.ExprString(rs.X), ".Lambdas") {
				loop = rs
			}
			return true
		})
		if loop == nil || loop.Key == nil {
			c.Undecided("C10.evalrefs", "newEvalNode#loop", fn.Decl.Pos(), "loop over the lambdas not found")
		} else {
			idx := info.Defs[loop.Key.(*ast.Ident)]
			filtered, direct := false, false
			ast.Inspect(loop.Body, func(nd ast.Node) bool {
				switch x := nd.(type) {
				case *ast.SliceExpr:
					if strings.HasSuffix(types.ExprString(x.X), ".AsList") && x.Low == nil && x.High != nil {
						if id, ok := ast.Unparen(x.High).(*ast.Ident); ok && info.Uses[id] == idx {
							filtered = true
						}
					}
				case *ast.AssignStmt:
					for i, l := range x.Lhs {
						if ix, ok := ast.Unparen(l).(*ast.IndexExpr); ok && strings.HasSuffix(types.ExprString(ix.X), ".refVarList") && i < len(x.Rhs) {
							if call, ok := ast.Unparen(x.Rhs[i]).(*ast.CallExpr); ok {
								if m := core.Callee(info, call); m != nil && m.Name() == "FindReferenceVariables" {
									direct = true
								}
							}
						}
					}
				}
				return true
			})
			c.Check(filtered && !direct, "C10.evalrefs", "newEvalNode#earlier-results", loop.Pos(), "the names filled into the scope before each expression are all its references (filtered against AsList[:i]: %v, stored directly from FindReferenceVariables: %v): when an earlier expression stored its result under the name of an existing field or tag, filling the scope for the next expression overwrites the result with the raw value, which is also what is emitted — eval(lambda: \"value\"*2.0, lambda: \"value\"+1.0).as('value','v1') on value=10 gives value=10, v1=11", filtered, direct)
		}
	}

	// F65
	if fn := c.Need("C10.flatten", "", "FlattenNode", "flatten"); fn != nil {
		eng := &an.Engine{Prog: c.P,
			TrackCall: func(call *ast.CallExpr, callee *types.Func) string {
				if callee != nil && core.RecvTypeName(callee) == "Buffer" {
					switch callee.Name() {
					case "WriteString", "WriteByte", "WriteRune", "Write":
						return "write"
					case "Reset":
						return "reset"
					}
				}
				return ""
			}}
		paths, err := eng.Run(fn)
		if err != nil {
			c.Undecided("C10.flatten", "FlattenNode.flatten#prefix", fn.Decl.Pos(), "%v", err)
		} else {
			bad := ""
			var badPos token.Pos
			n := 0
			// does the inner loop over the dimensions write to the buffer on any path?
			innerWrites := false
			for _, p := range paths {
				d := 0
				for _, e := range p.Events {
					switch {
					case e.Kind == "loop":
						d++
					case e.Kind == "endloop":
						d--
					case e.Kind == "call" && e.Name == "write" && d >= 2:
						innerWrites = true
					}
				}
			}
			for _, p := range paths {
				// dirty: the buffer may hold something. Inside an inner loop the body stands for any iteration, so what the
				// inner body may write in an earlier iteration counts from the inner loop's head on.
				dirty, depth := false, 0
				for i, e := range p.Events {
					switch {
					case e.Kind == "loop":
						depth++
						if depth >= 2 && innerWrites && strings.Contains(e.Name, "Dimensions") {
							dirty = true // an earlier iteration of this inner loop may have written
						}
					case e.Kind == "call" && e.Name == "write":
						dirty = true
					case e.Kind == "call" && e.Name == "reset":
						dirty = false
					case e.Kind == "continue" && depth == 1, e.Kind == "endloop" && depth == 1:
						n++
						if dirty && bad == "" {
							bad, badPos = p.Cond(), e.Pos
						}
						if e.Kind == "endloop" {
							depth--
						}
					case e.Kind == "endloop":
						depth--
						// an inner loop that ran to its end normally: its writes are real writes (already counted)
						_ = i
					}
				}
			}
			c.Check(bad == "" && n > 0, "C10.flatten", "FlattenNode.flatten#prefix", badPos, "an iteration over the points is left with what was written to the pooled prefix buffer still in it (path [%s], iteration ends seen: %d): the fields of the next point are named with the leftover in front (AB.80.bytes for B.80.bytes), and the leftover survives across calls through the pool", bad, n)
		}
	}
	// F66
	if fn := c.Need("C10.flatten", "", "flattenBuffer", "EndBatch"); fn != nil {
		eng := &an.Engine{Prog: c.P,
			TrackCall: func(call *ast.CallExpr, callee *types.Func) string {
				if callee != nil && callee.Name() == "emitBatchPoint" {
					return "emit"
				}
				return ""
			},
			Classify: func(a an.Atom) (string, bool) {
				isLenFields := func(k string) bool { return strings.HasPrefix(k, "len(") && strings.Contains(k, ".flatten(") }
				switch {
				case a.Op == token.LSS && a.L == "0" && isLenFields(a.R):
					return "nonempty", false
				case a.Op == token.GTR && a.R == "0" && isLenFields(a.L):
					return "nonempty", false
				case a.Op == token.EQL && a.R == "0" && isLenFields(a.L):
					return "nonempty", true
				case a.Op == token.NEQ && a.R == "0" && isLenFields(a.L):
					return "nonempty", false
				}
				return "", false
			}}
		paths, err := eng.Run(fn)
		if err != nil {
			c.Undecided("C10.flatten", "flattenBuffer.EndBatch#non-empty", fn.Decl.Pos(), "%v", err)
		} else {
			good, n := true, 0
			for _, p := range paths {
				if !p.Has("emit") {
					continue
				}
				n++
				if v, ok := p.Assign()["nonempty"]; !ok || !v {
					good = false
				}
			}
			c.Check(good && n > 0, "C10.flatten", "flattenBuffer.EndBatch#non-empty", fn.Decl.Pos(), "the last run of a batch is emitted without a test that anything could be flattened (emitting paths: %d): a batch whose last point lacks the tag yields a point without fields, which every other path of the node suppresses", n)
		}
	}
	// F67
	if fn := c.Need("C10.flatten", "", "flattenBuffer", "Point"); fn != nil {
		stores := false
		ast.Inspect(fn.Decl.Body, func(nd ast.Node) bool {
			if as, ok := nd.(*ast.AssignStmt); ok {
				for _, l := range as.Lhs {
					if an.FieldSel(info, l, "flattenBuffer", "time") {
						stores = true
					}
				}
			}
			return true
		})
		c.Check(!stores, "C10.flatten", "flattenBuffer.Point#run-time", fn.Decl.Pos(), "flattenBuffer.Point assigns the time of the run itself: addPoint already moved it to the new point's time, Point moves it back to the emitted run's — for a late point the following points of the new time are stamped with the old one and never merged")
	}
	// F68
	if fn := c.Need("C10.stable", "", "GroupByNode", "emit"); fn != nil {
		kind := ""
		ast.Inspect(fn.Decl.Body, func(nd ast.Node) bool {
			if call, ok := nd.(*ast.CallExpr); ok {
				if m := core.Callee(info, call); m != nil && m.Pkg() != nil && m.Pkg().Path() == "sort" {
					kind = m.Name()
				}
			}
			return true
		})
		c.Check(kind == "Stable" || kind == "SliceStable", "C10.stable", "GroupByNode.emit#sort", fn.Decl.Pos(), "the points of a regrouped batch are ordered with sort.%s: an unstable sort lets points with equal times change places (in batches of more than 12 points even points of one series), which every order dependent child sees", kind)
	}
}
