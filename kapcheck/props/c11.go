package props

import (
	"bytes"
	"fmt"
	"go/ast"
	"go/printer"
	"go/token"
	"go/types"
	"regexp"
	"sort"
	"strings"

	"golang.org/x/tools/go/packages"

	"kapcheck/an"
	"kapcheck/core"
)

func init() {
	register(&Property{
		ID:       "C11",
		Patterns: []string{".", "./pipeline"},
		Run:      runC11,
		Explanation: "Aggregation plumbing as structure (the arithmetic itself lives in influxdb/query and is not analysed): every chaining method names its node after itself, stores reducers whose constructor/reduce function carries the method's stem and the type family of the ReduceCreater field, and its per-type closures are identical up to type words (so int and float variants get the same constant arguments); " +
			"the batch life cycle counts the points it aggregates from zero and EndBatch emits nothing for an empty batch unless the function is defined on empty input; the stream form resets its context on a time advance before aggregating the new point; " +
			"the generated emitters stamp the selected point's time iff point times are requested and present, else the context time, name the value by as(), carry the group's (aggregate) or the selected point's (selector) tags, and the four type families of the generated file are structurally identical; the reduce context is seeded from the node's configuration in the right roles. " +
			"NOT decided / not applicable: that count, mean, median, percentile, stddev, top/bottom… equal their mathematical definition.",
		Assumptions: []string{"github.com/influxdata/influxdb/query reducers compute their documented InfluxQL function"},
	})
}

var reFamily = regexp.MustCompile(`Float|Integer|String|Boolean|float64|int64|string|bool\b|float|integer|boolean`)

func runC11(c *core.Ctx) {
	c.Rule("C11.wiring", "A7: each chaining method M of pipeline/influxql.go creates its node with the name lowerFirst(M) and every reducer it stores in ReduceCreater.Create<A>[<B>]Reducer is built by a constructor that (or whose function argument) carries M's stem (the aggregator/emitter type family is enforced by the field's Go type)")
	c.Rule("C11.families", "A11: within one ReduceCreater literal the per-type closures are identical once type-family words are removed (same constructor shape, same constant arguments for float/int/string/bool variants)")
	c.Rule("C11.lifecycle", "A2/A1: influxqlGroup.BeginBatch stores rc=nil, batchSize=0 (the constant), bc.time=begin.Time() and bc.name=begin.Name(); a stream transformation emits nothing on the path where AggregatePoint failed; BatchPoint increments batchSize on every path that aggregated the point; EndBatch emits nothing iff batchSize==0 ∧ ¬IsEmptyOK; the stream Point emits the finished context on a time advance, resets name/time/rc, then aggregates the new point")
	c.Rule("C11.emit", "A1/A3: <T>PointEmitter.EmitPoint yields nothing unless exactly one value was reduced; stamps ap.Time iff pointTimes ∧ ap.Time≠ZeroTime else e.time; aggregates carry {e.as: ap.Value} and the group's tags, selectors the selected point's tags and a copy of its fields with field renamed to as; the message carries e.name and the group's dimensions")
	c.Rule("C11.gen", "A11: the float, integer, string and boolean families of influxql.gen.go (convert<T>Point, <t>PopulateAuxFieldsAndTags, AggregatePoint, EmitPoint, EmitBatch) are structurally identical modulo type words")
	c.Rule("C11.convert", "A1: convert<T>Point takes the value at `field`, returns an error (no point) when the field is missing or not of the family's Go type, and stamps p.Time().UnixNano()")
	c.Rule("C11.context", "A7: InfluxQLNode.newGroup seeds the reduce context with as←n.n.As, field←n.n.Field, name←first.Name(), groupInfo←first.GroupInfo(), time←first.Time(), pointTimes←(n.n.PointTimes ∧ (simple selector ∨ provides a batch)) ∨ isStreamTransformation, compared as a truth table (F52)")

	if pp := c.P.Pkg("pipeline"); pp != nil {
		c11Wiring(c, pp)
	} else {
		c.Undecided("C11.wiring", "anchor:pipeline", token.NoPos, "package not loaded")
	}
	root := c.P.Pkg("")
	if root == nil {
		c.Undecided("C11.lifecycle", "anchor:root", token.NoPos, "root package not loaded")
		return
	}
	c11Lifecycle(c, root)
	c11KeepState(c, root)
	c11Emit(c, root)
	c11Gen(c, root)
	c11Context(c, root)
}

func c11Wiring(c *core.Ctx, pp *packages.Package) {
	info := pp.TypesInfo
	nM, nR := 0, 0
	for _, f := range core.AllFuncs(pp) {
		if core.RecvName(f.Decl) != "chainnode" {
			continue
		}
		var call *ast.CallExpr
		ast.Inspect(f.Decl.Body, func(n ast.Node) bool {
			if cl, ok := n.(*ast.CallExpr); ok {
				if fn := core.Callee(info, cl); fn != nil && fn.Name() == "newInfluxQLNode" {
					call = cl
				}
			}
			return true
		})
		if call == nil || len(call.Args) < 5 {
			continue
		}
		M := f.Decl.Name.Name
		nM++
		c.Analysed(f)
		// node name
		if name, ok := strLit(info, call.Args[0]); ok {
			c.Check(name == lowerFirst(M), "C11.wiring", M+"#name", call.Pos(), "method %s creates a node named %q; the method name literal must be %q (the JSON registry and the TICKscript renderer key on it)", M, name, lowerFirst(M))
		} else if !ast.IsExported(M) {
			// internal helper (holtWinters) takes the name from its callers
		} else {
			c.Check(types.ExprString(call.Args[0]) != "", "C11.wiring", M+"#name", call.Pos(), "node name is not a constant")
		}
		lit, ok := ast.Unparen(call.Args[4]).(*ast.CompositeLit)
		if !ok {
			continue
		}
		stem := strings.ToLower(M)
		stemAlias := map[string][]string{"stddev": {"stddev"}, "top": {"top"}, "bottom": {"bottom"}, "holtwinters": {"holtwinters"}, "movingaverage": {"movingaverage"}, "cumulativesum": {"cumulativesum"}}
		_ = stemAlias
		var shapes []string
		var shapeOf = map[string]string{}
		for _, el := range lit.Elts {
			kv, ok := el.(*ast.KeyValueExpr)
			if !ok {
				continue
			}
			key := types.ExprString(kv.Key)
			if !strings.HasPrefix(key, "Create") || !strings.HasSuffix(key, "Reducer") {
				continue
			}
			fl, ok := ast.Unparen(kv.Value).(*ast.FuncLit)
			if !ok {
				continue
			}
			nR++
			fam := reFamily.FindAllString(strings.TrimSuffix(strings.TrimPrefix(key, "Create"), "Reducer"), -1)
			if len(fam) == 0 {
				c.Undecided("C11.wiring", M+"."+key, kv.Pos(), "no type family in the field name")
				continue
			}
			agg := fam[0]
			// constructor calls into the query package inside the closure
			var ctor *ast.CallExpr
			ast.Inspect(fl.Body, func(n ast.Node) bool {
				if cl, ok := n.(*ast.CallExpr); ok && ctor == nil {
					if fn := core.Callee(info, cl); fn != nil && strings.HasPrefix(fn.Name(), "New") {
						ctor = cl
					}
				}
				return true
			})
			if ctor == nil {
				c.Undecided("C11.wiring", M+"."+key, fl.Pos(), "no reducer constructor call found in the closure")
				continue
			}
			cname := core.Callee(info, ctor).Name()
			text := cname
			for _, a := range ctor.Args {
				text += " " + types.ExprString(a)
			}
			famOK := strings.HasPrefix(cname, "New"+agg)
			stemOK := strings.Contains(strings.ToLower(text), stem) || (stem == "holtwinters" && strings.Contains(strings.ToLower(text), "holtwinters"))
			_ = famOK // the aggregator family is enforced by the field's Go type (FloatHoltWintersReducer aggregates integers, too): not re-checked by name
			c.Check(stemOK, "C11.wiring", M+"."+key+"#stem", ctor.Pos(), "the reducer stored for %s() is %s, which does not name %s: another function's reducer is wired in", lowerFirst(M), text, M)
			// family-word-free shape of the whole closure
			var buf bytes.Buffer
			printer.Fprint(&buf, c.P.Fset, fl.Body)
			shape := reFamily.ReplaceAllString(buf.String(), "")
			shape = strings.Join(strings.Fields(shape), " ")
			shapes = append(shapes, shape)
			shapeOf[key] = shape
		}
		// sibling agreement: the majority shape is the reference
		if len(shapes) >= 2 {
			cnt := map[string]int{}
			for _, s := range shapes {
				cnt[s]++
			}
			best, bestN := "", 0
			for s, n := range cnt {
				if n > bestN || (n == bestN && s < best) {
					best, bestN = s, n
				}
			}
			keys := an.SortedKeys(shapeOf)
			for _, k := range keys {
				if shapeOf[k] == best {
					c.Ok("C11.families", M+"."+k)
					continue
				}
				if bestN == 1 && len(shapes) == 2 {
					// two variants that differ: report both sides once
					c.Fail("C11.families", M+"."+k, lit.Pos(), "the per-type reducers of %s() differ beyond their type words: %s", lowerFirst(M), diffShapes(best, shapeOf[k]))
					continue
				}
				c.Fail("C11.families", M+"."+k, lit.Pos(), "the %s variant of %s() differs from its siblings beyond type words (%s): one type family gets other constant arguments or another reducer", k, lowerFirst(M), diffShapes(best, shapeOf[k]))
			}
		}
	}
	c.Floor("C11.wiring", "chaining methods that create InfluxQL nodes", nM, 18)
	c.Floor("C11.wiring", "reducer closures", nR, 40)
}

func diffShapes(a, b string) string {
	fa, fb := strings.Fields(a), strings.Fields(b)
	for i := 0; i < len(fa) && i < len(fb); i++ {
		if fa[i] != fb[i] {
			return "`" + fa[i] + "` vs `" + fb[i] + "`"
		}
	}
	return "different length"
}

func c11Lifecycle(c *core.Ctx, root *packages.Package) {
	info := root.TypesInfo
	fieldStore := func(typ string, fields ...string) func(ast.Expr, string) string {
		return func(lhs ast.Expr, key string) string {
			for _, f := range fields {
				if an.FieldSel(info, lhs, typ, f) {
					return f
				}
			}
			if sel, ok := ast.Unparen(lhs).(*ast.SelectorExpr); ok && an.FieldSel(info, sel, "baseReduceContext", sel.Sel.Name) {
				return "bc." + sel.Sel.Name
			}
			return ""
		}
	}
	if fn := c.Need("C11.lifecycle", "", "influxqlGroup", "BeginBatch"); fn != nil {
		begin := an.ParamName(fn.Decl.Type, 0)
		eng := &an.Engine{Prog: c.P, TrackStore: fieldStore("influxqlGroup", "rc", "batchSize", "begin")}
		paths, err := eng.Run(fn)
		if err != nil {
			c.Undecided("C11.lifecycle", "influxqlGroup.BeginBatch", fn.Decl.Pos(), "%v", err)
		}
		for _, p := range paths {
			got := map[string]string{}
			for _, e := range p.Events {
				if e.Kind == "store" {
					got[e.Name] = e.Args[0]
				}
			}
			c.Check(got["rc"] == "nil", "C11.lifecycle", "influxqlGroup.BeginBatch#rc", fn.Decl.Pos(), "BeginBatch must reset rc to nil (is %q): the previous batch's values would leak into this one", got["rc"])
			c.Check(got["batchSize"] == "0", "C11.lifecycle", "influxqlGroup.BeginBatch#batchSize", fn.Decl.Pos(), "BeginBatch must start counting at the constant 0 (is %q); a size hint is only a hint (0 = unknown after where/eval) and does not say how many points will be aggregated", got["batchSize"])
			c.Check(got["bc.time"] == begin+".Time()", "C11.lifecycle", "influxqlGroup.BeginBatch#time", fn.Decl.Pos(), "the context time must be the batch's time (is %q)", got["bc.time"])
			c.Check(got["begin"] == begin, "C11.lifecycle", "influxqlGroup.BeginBatch#begin", fn.Decl.Pos(), "the begin message must be remembered (is %q)", got["begin"])
			// F53: the stream path takes the result's name from the current point; the batch path must take it from the batch
			c.Check(got["bc.name"] == begin+".Name()", "C11.lifecycle", "influxqlGroup.BeginBatch#name", fn.Decl.Pos(), "the context name must be the batch's name (is %q): the result of every batch is otherwise named after the first batch the group ever saw — in a group that is not by measurement the aggregate of a batch named mem is emitted as cpu", got["bc.name"])
		}
	}
	// F51: a stream transformation that could not aggregate the point emits nothing (the reducer would hand out its previous
	// result again, with its old time)
	for _, mname := range []string{"Point", "BatchPoint"} {
		fn := c.Need("C11.lifecycle", "", "influxqlStreamingTransformGroup", mname)
		if fn == nil {
			continue
		}
		eng := &an.Engine{Prog: c.P,
			TrackCall: func(call *ast.CallExpr, callee *types.Func) string {
				if callee == nil {
					return ""
				}
				switch callee.Name() {
				case "AggregatePoint":
					return "aggregate"
				case "EmitPoint", "EmitBatch", "emit":
					return "emit"
				}
				return ""
			},
			Classify: func(a an.Atom) (string, bool) {
				if k, ok := an.ErrNilAtom(info, a); ok && strings.Contains(k, ".AggregatePoint(") {
					return "aggerr", true
				}
				return "", false
			}}
		paths, err := eng.Run(fn)
		if err != nil {
			c.Undecided("C11.lifecycle", "influxqlStreamingTransformGroup."+mname, fn.Decl.Pos(), "%v", err)
			continue
		}
		good, seen := true, false
		for _, p := range paths {
			if !p.Has("aggregate") {
				continue
			}
			v, decided := p.Assign()["aggerr"]
			if !decided {
				good = false
				c.Fail("C11.lifecycle", "influxqlStreamingTransformGroup."+mname+"#aggregate-error", p.RetPos, "the error of AggregatePoint is not looked at on path [%s]", p.Cond())
				continue
			}
			seen = true
			if v && p.Has("emit") {
				good = false
				c.Fail("C11.lifecycle", "influxqlStreamingTransformGroup."+mname+"#no-emit-after-error", p.RetPos, "the point could not be aggregated (missing field, other type) and the reducer is still asked to emit: cumulativeSum, elapsed and movingAverage hand out their previous result again, the last value is repeated with its old time for every such point; path [%s]", p.Cond())
			}
		}
		if good && seen {
			c.Ok("C11.lifecycle", "influxqlStreamingTransformGroup."+mname+"#no-emit-after-error")
		}
	}
	if fn := c.Need("C11.lifecycle", "", "influxqlGroup", "BatchPoint"); fn != nil {
		eng := &an.Engine{Prog: c.P, TrackStore: fieldStore("influxqlGroup", "batchSize"),
			TrackCall: func(call *ast.CallExpr, callee *types.Func) string {
				if callee != nil && callee.Name() == "AggregatePoint" {
					return "aggregate"
				}
				return ""
			}}
		paths, err := eng.Run(fn)
		if err != nil {
			c.Undecided("C11.lifecycle", "influxqlGroup.BatchPoint", fn.Decl.Pos(), "%v", err)
		}
		good := len(paths) > 0
		for _, p := range paths {
			if p.Has("aggregate") {
				ev := p.Find("batchSize")
				if ev == nil || !strings.Contains(ev.Args[0], "++") && !strings.Contains(ev.Args[0], "+ 1") {
					good = false
					c.Fail("C11.lifecycle", "influxqlGroup.BatchPoint#count", p.RetPos, "a point is aggregated without incrementing batchSize: EndBatch's empty-batch rule then looks at something else than the points actually aggregated")
				}
			} else if p.Has("batchSize") {
				good = false
				c.Fail("C11.lifecycle", "influxqlGroup.BatchPoint#count-only-aggregated", p.RetPos, "batchSize is incremented on a path that does not aggregate the point (%s): a batch in which no point carries the field then counts as non-empty, and EndBatch calls Emit on an empty reducer (NaN, -Inf, or a nil dereference in first/last/min/max)", p.Cond())
			}
		}
		if good {
			c.Ok("C11.lifecycle", "influxqlGroup.BatchPoint#count")
		}
	}
	if fn := c.Need("C11.lifecycle", "", "influxqlGroup", "EndBatch"); fn != nil {
		eng := &an.Engine{Prog: c.P,
			TrackCall: func(call *ast.CallExpr, callee *types.Func) string {
				if callee != nil && (callee.Name() == "emit" || callee.Name() == "realizeReduceContext") {
					return callee.Name()
				}
				return ""
			},
			Classify: func(a an.Atom) (string, bool) {
				switch {
				case a.Op == token.EQL && strings.HasSuffix(a.L, ".batchSize") && a.R == "0":
					return "empty", false
				case strings.HasSuffix(a.Key, ".IsEmptyOK"):
					return "emptyok", false
				case a.Op == token.EQL && strings.HasSuffix(a.L, ".rc") && a.R == "nil":
					return "norc", false
				}
				if k, ok := an.ErrNilAtom(info, a); ok {
					switch an.LastCall(k) {
					case "realizeReduceContext":
						return "rerr", true
					case "emit":
						return "eerr", true
					}
				}
				return "", false
			}}
		paths, err := eng.Run(fn)
		if err != nil {
			c.Undecided("C11.lifecycle", "influxqlGroup.EndBatch", fn.Decl.Pos(), "%v", err)
		} else {
			an.CheckTable(c, "C11.lifecycle", "influxqlGroup.EndBatch", paths, an.Table{Atoms: []string{"empty", "emptyok", "norc", "rerr", "eerr"},
				Outcome: func(p *an.Path) string {
					s := an.Seq(p, "realizeReduceContext", "emit")
					r := "→nil"
					if len(p.Rets) == 2 && p.Rets[0] != "nil" {
						r = "→msg"
					} else if len(p.Rets) == 2 && p.Rets[1] != "nil" {
						r = "→err"
					}
					return s + r
				},
				Expect: func(a map[string]bool) string {
					if a["empty"] && !a["emptyok"] {
						return "→nil"
					}
					pre := ""
					if a["norc"] {
						if a["rerr"] {
							return "realizeReduceContext→err"
						}
						pre = "realizeReduceContext,"
					}
					if a["eerr"] {
						return pre + "emit→nil"
					}
					return pre + "emit→msg"
				}})
		}
	}
	if fn := c.Need("C11.lifecycle", "", "influxqlGroup", "Point"); fn != nil {
		p0 := an.ParamName(fn.Decl.Type, 0)
		eng := &an.Engine{Prog: c.P, TrackStore: fieldStore("influxqlGroup", "rc"),
			TrackCall: func(call *ast.CallExpr, callee *types.Func) string {
				if callee != nil && (callee.Name() == "emit" || callee.Name() == "aggregatePoint") {
					return callee.Name()
				}
				return ""
			},
			Classify: func(a an.Atom) (string, bool) {
				switch {
				case strings.HasPrefix(a.Key, p0+".Time().Equal(") && strings.HasSuffix(a.Key, ".bc.time)"):
					return "sametime", false
				case a.Op == token.EQL && strings.HasSuffix(a.L, ".rc") && a.R == "nil":
					return "norc", false
				}
				return "", false
			}}
		paths, err := eng.Run(fn)
		if err != nil {
			c.Undecided("C11.lifecycle", "influxqlGroup.Point", fn.Decl.Pos(), "%v", err)
		} else {
			an.CheckTable(c, "C11.lifecycle", "influxqlGroup.Point", paths, an.Table{Atoms: []string{"sametime", "norc"},
				Outcome: func(p *an.Path) string {
					var s []string
					for _, e := range p.Events {
						switch {
						case e.Kind == "call":
							s = append(s, e.Name)
						case e.Kind == "store":
							s = append(s, e.Name+"="+e.Args[0])
						}
					}
					return strings.Join(s, ",")
				},
				Expect: func(a map[string]bool) string {
					if a["sametime"] {
						return "aggregatePoint"
					}
					reset := "bc.name=" + p0 + ".Name(),bc.time=" + p0 + ".Time(),rc=nil,aggregatePoint"
					if a["norc"] {
						return reset
					}
					return "emit," + reset
				}})
		}
	}
}

func c11Emit(c *core.Ctx, root *packages.Package) {
	n := 0
	for _, fam := range []string{"float", "integer", "string", "boolean"} {
		fn := c.Need("C11.emit", "", fam+"PointEmitter", "EmitPoint")
		if fn == nil {
			continue
		}
		n++
		e := an.RecvVarName(fn.Decl)
		eng := &an.Engine{Prog: c.P, Forward: true,
			TrackCall: func(call *ast.CallExpr, callee *types.Func) string {
				if callee != nil && callee.Name() == "NewPointMessage" {
					return "NewPointMessage"
				}
				return ""
			},
			Classify: func(a an.Atom) (string, bool) {
				k := a.Key
				switch {
				case a.Op == token.EQL && strings.HasPrefix(a.L, "len(") && a.R == "1":
					return "one", false
				case k == e+".pointTimes":
					return "pointTimes", false
				case a.Op == token.EQL && strings.HasSuffix(a.L, ".Time") && a.R == "query.ZeroTime":
					return "zerotime", false
				case k == e+".isSimpleSelector":
					return "selector", false
				case a.Op == token.EQL && ((a.L == e+".as" && a.R == e+".field") || (a.R == e+".as" && a.L == e+".field")):
					return "sameName", false
				}
				return "", false
			}}
		paths, err := eng.Run(fn)
		if err != nil {
			c.Undecided("C11.emit", fam+"PointEmitter.EmitPoint", fn.Decl.Pos(), "%v", err)
			continue
		}
		an.CheckTable(c, "C11.emit", fam+"PointEmitter.EmitPoint", paths, an.Table{Atoms: []string{"one", "pointTimes", "zerotime", "selector", "sameName"},
			Outcome: func(p *an.Path) string {
				ev := p.Find("NewPointMessage")
				if ev == nil {
					if len(p.Rets) == 2 && p.Rets[0] == "nil" {
						return "nothing"
					}
					return "?"
				}
				if len(ev.Args) != 7 {
					return "bad-arity"
				}
				var s []string
				// name, db, rp, dims
				if ev.Args[0] == e+".name" && ev.Args[3] == e+".groupInfo.Dimensions" {
					s = append(s, "name+dims")
				} else {
					s = append(s, "name/dims="+ev.Args[0]+"/"+ev.Args[3])
				}
				// fields
				f := ev.Args[4]
				switch {
				case strings.HasPrefix(f, "map[string]interface{}{"+e+".as: ") && strings.HasSuffix(f, ".Value}"), strings.HasPrefix(f, "models.Fields{"+e+".as: ") && strings.HasSuffix(f, ".Value}"):
					s = append(s, "fields={as:value}")
				case strings.HasSuffix(f, ".Aux[1].(models.Fields).Copy()"):
					s = append(s, "fields=copy(selected)")
				case strings.HasSuffix(f, ".Aux[1].(models.Fields)"):
					s = append(s, "fields=selected")
				default:
					s = append(s, "fields="+f)
				}
				// tags
				switch t := ev.Args[5]; {
				case t == e+".groupInfo.Tags":
					s = append(s, "tags=group")
				case strings.HasSuffix(t, ".Aux[0].(models.Tags)"):
					s = append(s, "tags=selected")
				default:
					s = append(s, "tags="+t)
				}
				// time
				switch t := ev.Args[6]; {
				case t == e+".time":
					s = append(s, "t=context")
				case strings.HasPrefix(t, "time.Unix(0, ") && strings.HasSuffix(t, ".Time).UTC()"):
					s = append(s, "t=point")
				default:
					s = append(s, "t="+t)
				}
				return strings.Join(s, ",")
			},
			Expect: func(a map[string]bool) string {
				if !a["one"] {
					return "nothing"
				}
				t := "t=context"
				if a["pointTimes"] && !a["zerotime"] {
					t = "t=point"
				}
				if a["selector"] {
					if a["sameName"] {
						return "name+dims,fields=selected,tags=selected," + t
					}
					return "name+dims,fields=copy(selected),tags=selected," + t
				}
				return "name+dims,fields={as:value},tags=group," + t
			}})
	}
	c.Floor("C11.emit", "EmitPoint families", n, 4)
}

func c11Gen(c *core.Ctx, root *packages.Package) {
	fams := []string{"float", "integer", "string", "boolean"}
	title := map[string]string{"float": "Float", "integer": "Integer", "string": "String", "boolean": "Boolean"}
	find := func(recv, name string) *core.Func { return c.P.FindFunc("", recv, name) }
	type member struct{ recv, name string }
	members := func(f string) []member {
		return []member{{"", "convert" + title[f] + "Point"}, {"", f + "PopulateAuxFieldsAndTags"}, {f + "PointAggregator", "AggregatePoint"}, {f + "PointEmitter", "EmitPoint"}, {f + "PointEmitter", "EmitBatch"}}
	}
	n := 0
	for i := range members("float") {
		shapes := map[string]string{}
		for _, f := range fams {
			m := members(f)[i]
			fn := find(m.recv, m.name)
			if fn == nil {
				c.Undecided("C11.gen", f+":"+m.name, token.NoPos, "generated function not found")
				continue
			}
			c.Analysed(fn)
			var buf bytes.Buffer
			printer.Fprint(&buf, c.P.Fset, fn.Decl.Body)
			s := reFamily.ReplaceAllString(buf.String(), "T")
			shapes[f] = strings.Join(strings.Fields(s), " ")
		}
		cnt := map[string]int{}
		for _, s := range shapes {
			cnt[s]++
		}
		best, bestN := "", 0
		for s, k := range cnt {
			if k > bestN || (k == bestN && s < best) {
				best, bestN = s, k
			}
		}
		keys := an.SortedKeys(shapes)
		sort.Strings(keys)
		for _, f := range keys {
			n++
			m := members(f)[i]
			c.Check(shapes[f] == best, "C11.gen", f+":"+m.name, token.NoPos, "the %s variant of %s differs from the other type families beyond type words (%s): the generated file was edited by hand for one family", f, m.name, diffShapes(best, shapes[f]))
		}
	}
	c.Floor("C11.gen", "generated family members compared", n, 20)
	// C11.convert on the representative (×4 by C11.gen)
	info := root.TypesInfo
	if fn := c.Need("C11.convert", "", "", "convertFloatPoint"); fn != nil {
		p0, field := an.ParamName(fn.Decl.Type, 1), an.ParamName(fn.Decl.Type, 2)
		eng := &an.Engine{Prog: c.P,
			Classify: func(a an.Atom) (string, bool) {
				switch a.Key {
				case p0 + ".Fields()[" + field + "].1":
					return "present", false
				case p0 + ".Fields()[" + field + "].0.(float64).1":
					return "typed", false
				}
				return "", false
			}}
		paths, err := eng.Run(fn)
		if err != nil {
			c.Undecided("C11.convert", "convertFloatPoint", fn.Decl.Pos(), "%v", err)
			return
		}
		an.CheckTable(c, "C11.convert", "convertFloatPoint", paths, an.Table{Atoms: []string{"present", "typed"},
			Outcome: func(p *an.Path) string {
				if len(p.Rets) != 2 {
					return "?"
				}
				if p.Rets[0] == "nil" && p.Rets[1] != "nil" {
					return "error"
				}
				lit := resolveLit(fn, p.RetX[0])
				if u, ok := ast.Unparen(p.RetX[0]).(*ast.UnaryExpr); ok {
					lit = u.X
				}
				if lit == nil {
					// `ap := &query.FloatPoint{…}` returned through a local
					ast.Inspect(fn.Decl.Body, func(n ast.Node) bool {
						if cl, ok := n.(*ast.CompositeLit); ok && an.TypeNamed(info, cl, "query", "FloatPoint") {
							lit = cl
						}
						return true
					})
				}
				if lit == nil {
					return "point?"
				}
				fl := an.FlattenLit(lit)
				ok := fl["Value"] != nil && fl["Time"] != nil && types.ExprString(fl["Time"]) == p0+".Time().UnixNano()" && fl["Name"] != nil && types.ExprString(fl["Name"]) == an.ParamName(fn.Decl.Type, 0)
				if ok {
					return "point"
				}
				return "point(wrong fields)"
			},
			Expect: func(a map[string]bool) string {
				if a["present"] && a["typed"] {
					return "point"
				}
				return "error"
			}})
	}
}

func c11Context(c *core.Ctx, root *packages.Package) {
	fn := c.Need("C11.context", "", "InfluxQLNode", "newGroup")
	if fn == nil {
		return
	}
	first := an.ParamName(fn.Decl.Type, 0)
	n := an.RecvVarName(fn.Decl)
	var lit *ast.CompositeLit
	ast.Inspect(fn.Decl.Body, func(nd ast.Node) bool {
		if cl, ok := nd.(*ast.CompositeLit); ok && an.TypeNamed(root.TypesInfo, cl, "kapacitor", "baseReduceContext") {
			lit = cl
		}
		return true
	})
	if lit == nil {
		c.Fail("C11.context", "InfluxQLNode.newGroup#literal", fn.Decl.Pos(), "no baseReduceContext literal")
		return
	}
	got := litFieldSet(lit)
	want := map[string][]string{"as": {n + ".n.As"}, "field": {n + ".n.Field"}, "name": {first + ".Name()"}, "groupInfo": {first + ".GroupInfo()"}, "time": {first + ".Time()"}}
	for _, f := range an.SortedKeys(want) {
		c.Check(matchAny(got[f], want[f]), "C11.context", "InfluxQLNode.newGroup#"+f, lit.Pos(), "the reduce context's %s must be %s, is %q", f, want[f][0], got[f])
	}
	// pointTimes is a boolean function of four facts; it is compared as a truth table, not as text. Reference (F52, the property's
	// documentation: "only applies to selector functions … aggregation functions always use the batch time"; stream
	// transformations always carry their point's time): (PointTimes ∧ (simple selector ∨ provides a batch)) ∨ stream transformation
	var ptx ast.Expr
	for _, el := range lit.Elts {
		if kv, ok := el.(*ast.KeyValueExpr); ok {
			if k, ok := kv.Key.(*ast.Ident); ok && k.Name == "pointTimes" {
				ptx = kv.Value
			}
		}
	}
	if ptx == nil {
		c.Fail("C11.context", "InfluxQLNode.newGroup#pointTimes", lit.Pos(), "the reduce context's pointTimes is not set")
		return
	}
	atomOf := func(e ast.Expr) string {
		s := types.ExprString(ast.Unparen(e))
		switch {
		case strings.HasSuffix(s, ".PointTimes"):
			return "pt"
		case strings.HasSuffix(s, ".isStreamTransformation"):
			return "st"
		case strings.HasSuffix(s, ".IsSimpleSelector"):
			return "sel"
		case strings.Contains(s, ".Provides()") && strings.Contains(s, "BatchEdge") && strings.Contains(s, "=="):
			return "batch"
		case strings.Contains(s, ".Provides()") && strings.Contains(s, "StreamEdge") && strings.Contains(s, "!="):
			return "batch"
		}
		return ""
	}
	extra := map[string]bool{}
	var eval func(e ast.Expr, a map[string]bool) (bool, bool)
	eval = func(e ast.Expr, a map[string]bool) (bool, bool) {
		e = ast.Unparen(e)
		switch x := e.(type) {
		case *ast.BinaryExpr:
			if x.Op == token.LAND || x.Op == token.LOR {
				l, ok1 := eval(x.X, a)
				r, ok2 := eval(x.Y, a)
				if x.Op == token.LAND {
					return l && r, ok1 && ok2
				}
				return l || r, ok1 && ok2
			}
		case *ast.UnaryExpr:
			if x.Op == token.NOT {
				v, ok := eval(x.X, a)
				return !v, ok
			}
		}
		if k := atomOf(e); k != "" {
			return a[k], true
		}
		// any other boolean operand is a fact of its own (n.Wants() == BatchEdge is not n.Provides() == BatchEdge): it is
		// enumerated too, so an expression whose value depends on it differs from the reference for some assignment
		if b, ok := root.TypesInfo.TypeOf(e).Underlying().(*types.Basic); ok && b.Info()&types.IsBoolean != 0 {
			k := "?" + types.ExprString(e)
			if _, seen := a[k]; !seen {
				extra[k] = true
			}
			return a[k], true
		}
		return false, false
	}
	bad := ""
	names := []string{"pt", "st", "sel", "batch"}
	// first pass to collect the extra facts
	eval(ptx, map[string]bool{})
	for _, k := range an.SortedKeys(extra) {
		if len(names) < 8 {
			names = append(names, k)
		}
	}
	for m := 0; m < 1<<len(names) && bad == ""; m++ {
		a := map[string]bool{}
		for i, k := range names {
			a[k] = m&(1<<i) != 0
		}
		got, ok := eval(ptx, a)
		if !ok {
			c.Undecided("C11.context", "InfluxQLNode.newGroup#pointTimes", ptx.Pos(), "pointTimes is not a boolean combination of the four known facts: %s", types.ExprString(ptx))
			return
		}
		ref := (a["pt"] && (a["sel"] || a["batch"])) || a["st"]
		if got != ref {
			bad = fmt.Sprintf("usePointTimes=%v, stream transformation=%v, simple selector=%v, provides batch=%v: is %v, must be %v", a["pt"], a["st"], a["sel"], a["batch"], got, ref)
			for _, k := range an.SortedKeys(extra) {
				bad += fmt.Sprintf(" (with %s = %v, which the rule does not depend on)", k[1:], a[k])
			}
		}
	}
	c.Check(bad == "", "C11.context", "InfluxQLNode.newGroup#pointTimes", ptx.Pos(), "the reduce context's pointTimes differs from the documented rule ((usePointTimes ∧ the function selects points) ∨ stream transformation) at %s — with usePointTimes a pure aggregation would take the time of its seed point (count and sum start from a point at time 0: every window is stamped 1970-01-01T00:00:00Z)", bad)
}
