package props

import (
	"fmt"
	"go/ast"
	"go/token"
	"go/types"
	"strings"

	"golang.org/x/tools/go/packages"

	"kapcheck/an"
	"kapcheck/core"
)

func init() {
	register(&Property{
		ID:       "C12",
		Patterns: []string{"."},
		Run:      runC12,
		Explanation: "Interleaving independence as structure: the per-parent reader goroutines of the multi-consumer only buffer and forward (in arrival order, one fresh batch buffer per batch) — every MultiReceiver method runs on the single Consume loop, which calls Finish() when all parents ended; " +
			"union's Finish drains (emitReady(true)) and, when draining, the remembered low mark of an empty parent never holds back what other parents still buffer; join's Finish flushes every group; " +
			"a join set's `first` is the lowest parent index present (not the first to arrive), a message goes into the first set of its rounded time that lacks its parent, else a new set behind; JoinIntoPoint prefixes every field with the prefix of the parent it came from, fills null/number or drops the set (inner) for a missing parent, and carries name, rounded time and the first parent's tags/dimensions; newJoinset's positional arguments keep their roles. " +
			"NOT decided: that pairing, tolerance rounding, low-water marks and emit conditions are right for every arrival order; CircularQueue arithmetic; equality of output multisets across schedules.",
		Assumptions: []string{"Go channels are FIFO per sender"},
	})
}

func runC12(c *core.Ctx) {
	c.Rule("C12.confine", "A6: multiConsumer.readEdge (one goroutine per parent) calls no MultiReceiver method: it only buffers batch parts and sends on c.messages; the MultiReceiver methods are called from Consume only; Consume returns c.r.Finish() on the closed-channel exit")
	c.Rule("C12.forward", "A2: readEdge forwards every message kind (a completed batch for begin/points/end, everything else as is) with its own source index, in one loop without early exit on success")
	c.Rule("C12.buffer", "A4: BatchBuffer.BeginBatch replaces its point slice by a fresh make(...) on every path and copies the begin message; BufferedBatchMessage hands those out (a batch already handed to the join/union must not share storage with the next one)")
	c.Rule("C12.drain", "A1: UnionNode.Finish calls emitReady(true); inside emitReady the remembered low mark of a parent is folded into the emit mark only when not draining, and the wait for all parents applies only when not draining")
	c.Rule("C12.joinfinish", "A2: JoinNode.Finish calls Finish on every group (loop left only on error); joinGroup.Finish reaches emitAll")
	c.Rule("C12.first", "A1: joinset.Set lowers `first` exactly when the parent index is smaller than the current first (First() is the lowest-index parent present, independent of arrival order), stores the value under its parent index and counts it; newJoinset starts first at len(prefixes)")
	c.Rule("C12.place", "A2: joinGroup.Collect puts the message into the first existing set of its rounded time that does not have this parent yet (break at the first free set), else into a new set enqueued behind; it is stored under the message's own parent index")
	c.Rule("C12.prefix", "A1/A3: JoinIntoPoint: every field key is prefixes[i]+delimiter+k with i the index of the value it came from; a missing parent yields nil keys (null fill), fillValue keys (number fill) or no output (inner); the output carries js.name, js.time and the first value's dimensions and group tags")
	c.Rule("C12.passed", "A1: joinGroup.checkOnlyReadSets allows incomplete sets to be emitted (returns false) only on paths where every parent head examined is strictly After the oldest buffered time: a head equal to it may still be followed by a message of the same rounded time")
	c.Rule("C12.queue", "A3: CircularQueue (the buffer behind union sources and join sets) keeps FIFO order when it grows: unwrapped, the live segment data[head:tail] is copied to the front; wrapped, data[head:] is copied first and data[:tail] directly behind it; head becomes 0, tail the old capacity, the new element goes to that tail; Peek(i) reads (head+i) wrapped by len(data)")
	c.Rule("C12.roles", "A7: joinGroup.newJoinset passes (node, StreamName, fill, fillValue, Names, Delimiter, Tolerance, t, diag) to newJoinset's parameters of the same roles, and newJoinset stores each parameter in the field of its role")

	c.Rule("C12.oldest", "A3: F47: joinGroup.oldestTime stays a key of g.sets: every store of a non-zero time into it is the key of an enclosing range over g.sets or comes with a store g.sets[<that time>] = … in the same method (emit dereferences g.sets[g.oldestTime])")
	c.Rule("C12.onflush", "A2: F48: every JoinNode buffer whose entries matchPoints may send alone (sendSpecificPoint on a Peek of it) is sent and dequeued by JoinNode.Finish")
	c.Rule("C12.lowmark", "A1: F49: in matchPoints' loop over all parents the low mark map is read with comma-ok and a parent without an entry for the group leaves the loop (blocks purging) instead of contributing the zero time")
	c.Rule("C12.bucket", "A7: every place in the join (JoinNode, joinGroup, joinset methods) that maps a timestamp to its tolerance bucket uses the same time.Time method (Round): a site that buckets differently (Truncate) compares times that the other sites made, so whether two points meet depends on which parent was read first")

	root := c.P.Pkg("")
	edge := c.P.Pkg("edge")
	if root == nil || edge == nil {
		c.Undecided("C12.confine", "anchor:packages", token.NoPos, "root/edge not loaded")
		return
	}
	c12Consumer(c, edge)
	c12Buffer(c, edge)
	c12Union(c, root)
	c12Join(c, root)
	c12Passed(c, root)
	c12Queue(c, root)
	c12Bucket(c, root)
	c12Units(c, root)
	c12Oldest(c, root)
	c12OnBuffers(c, root)
}

// c12ReleasedReturn: the `return nil` inside readEdge's loop is the arm `case <-done:` of a select whose other arm forwards
// the message, where done is a channel parameter that Consume passes and only ever closes by a deferred close — i.e. the reader
// gives up a message only after Consume itself has returned (F104: before, the readers of a failed consumer leaked).
func c12ReleasedReturn(info *types.Info, edge *packages.Package, fn *core.Func, ret *ast.ReturnStmt) bool {
	var clause *ast.CommClause
	ast.Inspect(fn.Decl.Body, func(n ast.Node) bool {
		if cc, ok := n.(*ast.CommClause); ok && cc.Pos() <= ret.Pos() && ret.End() <= cc.End() {
			clause = cc
		}
		return true
	})
	if clause == nil {
		return false
	}
	if body := an.Effective(clause.Body); len(body) != 1 || body[0] != ast.Stmt(ret) {
		return false
	}
	es, ok := clause.Comm.(*ast.ExprStmt)
	if !ok {
		return false
	}
	u, ok := ast.Unparen(es.X).(*ast.UnaryExpr)
	if !ok || u.Op != token.ARROW {
		return false
	}
	id, ok := ast.Unparen(u.X).(*ast.Ident)
	if !ok {
		return false
	}
	pv, _ := info.Uses[id].(*types.Var)
	idx := -1
	if fo, ok := info.Defs[fn.Decl.Name].(*types.Func); ok {
		sig := fo.Type().(*types.Signature)
		for i := 0; i < sig.Params().Len(); i++ {
			if sig.Params().At(i) == pv {
				idx = i
			}
		}
	}
	if idx < 0 {
		return false
	}
	// every caller passes a channel it only closes by defer
	callers := 0
	good := true
	for _, f := range core.AllFuncs(edge) {
		ast.Inspect(f.Decl.Body, func(n ast.Node) bool {
			call, ok := n.(*ast.CallExpr)
			if !ok {
				return true
			}
			if cal := core.Callee(info, call); cal == nil || cal.Name() != "readEdge" || core.RecvTypeName(cal) != "multiConsumer" {
				return true
			}
			callers++
			if idx >= len(call.Args) {
				good = false
				return true
			}
			aid, ok := ast.Unparen(call.Args[idx]).(*ast.Ident)
			if !ok {
				good = false
				return true
			}
			obj := info.Uses[aid]
			deferredClose := false
			ast.Inspect(f.Decl.Body, func(m ast.Node) bool {
				switch y := m.(type) {
				case *ast.DeferStmt:
					if core.IsBuiltin(info, y.Call, "close") && len(y.Call.Args) == 1 {
						if cid, ok := y.Call.Args[0].(*ast.Ident); ok && info.Uses[cid] == obj {
							deferredClose = true
							return false
						}
					}
				case *ast.CallExpr:
					if core.IsBuiltin(info, y, "close") && len(y.Args) == 1 {
						if cid, ok := y.Args[0].(*ast.Ident); ok && info.Uses[cid] == obj {
							good = false // closed before the consumer returns
						}
					}
				case *ast.SendStmt:
					if cid, ok := ast.Unparen(y.Chan).(*ast.Ident); ok && info.Uses[cid] == obj {
						good = false
					}
				}
				return true
			})
			if !deferredClose {
				good = false
			}
			return true
		})
	}
	return callers > 0 && good
}

func c12Consumer(c *core.Ctx, edge *packages.Package) {
	info := edge.TypesInfo
	mr, _ := edge.Types.Scope().Lookup("MultiReceiver").(*types.TypeName)
	if mr == nil {
		c.Undecided("C12.confine", "anchor:edge.MultiReceiver", token.NoPos, "interface not found")
		return
	}
	isMRCall := func(call *ast.CallExpr) string {
		sel, ok := call.Fun.(*ast.SelectorExpr)
		if !ok {
			return ""
		}
		s, ok := info.Selections[sel]
		if !ok {
			return ""
		}
		if n := core.NamedOf(s.Recv()); n != nil && n.Obj() == mr {
			return sel.Sel.Name
		}
		return ""
	}
	if fn := c.Need("C12.confine", "edge", "multiConsumer", "readEdge"); fn != nil {
		bad := ""
		sends := 0
		early := ""
		ast.Inspect(fn.Decl.Body, func(n ast.Node) bool {
			switch x := n.(type) {
			case *ast.CallExpr:
				if m := isMRCall(x); m != "" {
					bad = m
				}
			case *ast.SendStmt:
				if an.FieldSel(info, x.Chan, "multiConsumer", "messages") {
					sends++
					// the Src of what is sent is the function's own src parameter
					fl := an.FlattenLit(x.Value)
					src := an.ParamName(fn.Decl.Type, 0)
					if fl["Src"] == nil || types.ExprString(fl["Src"]) != src {
						c.Fail("C12.forward", "multiConsumer.readEdge#src", x.Pos(), "a message is forwarded under another source index than the reader's own (%s)", src)
					}
				}
			case *ast.BranchStmt:
				if x.Tok == token.BREAK || x.Tok == token.GOTO {
					early = x.Tok.String()
				}
			case *ast.ReturnStmt:
				if len(x.Results) == 1 && types.ExprString(x.Results[0]) == "nil" && x.End() < fn.Decl.Body.Rbrace-2 {
					// a success return inside the loop
					inLoop := false
					ast.Inspect(fn.Decl.Body, func(m ast.Node) bool {
						if fs, ok := m.(*ast.ForStmt); ok && fs.Pos() < x.Pos() && x.End() <= fs.End() {
							inLoop = true
						}
						return true
					})
					if inLoop && !c12ReleasedReturn(info, edge, fn, x) {
						early = "return nil"
					}
				}
			}
			return true
		})
		// the state a reader mutates is its own: no unsynchronised mutating method on something reached from the shared consumer
		shared := c12SharedMutation(edge, fn)
		c.Check(shared == "", "C12.confine", "multiConsumer.readEdge#own-state", fn.Decl.Pos(), "the per-parent reader goroutine mutates state reached from the consumer all readers share (%s), without a lock: two parents assembling batches at the same time overwrite each other's begin message and points, a batch is delivered under the other parent's name with mixed points, and which one depends on the interleaving", shared)
		c.Check(bad == "", "C12.confine", "multiConsumer.readEdge#no-receiver-call", fn.Decl.Pos(), "the per-parent reader goroutine calls MultiReceiver.%s: union/join state would be mutated from several goroutines and the result would depend on the interleaving", bad)
		c.Check(sends >= 2 && early == "", "C12.forward", "multiConsumer.readEdge", fn.Decl.Pos(), "readEdge must forward completed batches and all other messages in one loop that is only left on error or end of input (sends %d, early exit %q)", sends, early)
		// default arm forwards everything that is not a batch part
		hasDefault := false
		ast.Inspect(fn.Decl.Body, func(n ast.Node) bool {
			if cc, ok := n.(*ast.CaseClause); ok && cc.List == nil {
				for _, s := range cc.Body {
					if _, ok := s.(*ast.SendStmt); ok {
						hasDefault = true
					}
					// or the send is one arm of a select whose other arm is the consumer's release signal
					if sel, ok := s.(*ast.SelectStmt); ok {
						for _, cl := range sel.Body.List {
							if cm, ok := cl.(*ast.CommClause); ok {
								if snd, ok := cm.Comm.(*ast.SendStmt); ok && an.FieldSel(info, snd.Chan, "multiConsumer", "messages") {
									hasDefault = true
								}
							}
						}
					}
				}
			}
			return true
		})
		c.Check(hasDefault, "C12.forward", "multiConsumer.readEdge#default", fn.Decl.Pos(), "messages that are not batch parts (points, barriers, deletes) must be forwarded by the default arm")
	}
	// MultiReceiver methods are called in Consume only
	n := 0
	for _, f := range core.AllFuncs(edge) {
		ast.Inspect(f.Decl.Body, func(nd ast.Node) bool {
			if call, ok := nd.(*ast.CallExpr); ok {
				if m := isMRCall(call); m != "" {
					n++
					inGo := false
					ast.Inspect(f.Decl.Body, func(m2 ast.Node) bool {
						if g, ok := m2.(*ast.GoStmt); ok && g.Pos() <= call.Pos() && call.End() <= g.End() {
							inGo = true
						}
						return true
					})
					okk := core.RecvName(f.Decl) == "multiConsumer" && f.Decl.Name.Name == "Consume" && !inGo
					c.Check(okk, "C12.confine", f.Name()+"→"+m, call.Pos(), "MultiReceiver.%s is called outside the single select loop of multiConsumer.Consume", m)
				}
			}
			return true
		})
	}
	c.Floor("C12.confine", "MultiReceiver call sites", n, 5)
	if fn := c.Need("C12.confine", "edge", "multiConsumer", "Consume"); fn != nil {
		// the last statement returns c.r.Finish()
		last := fn.Decl.Body.List[len(fn.Decl.Body.List)-1]
		okk := false
		if r, ok := last.(*ast.ReturnStmt); ok && len(r.Results) == 1 {
			if call, ok := r.Results[0].(*ast.CallExpr); ok && isMRCall(call) == "Finish" {
				okk = true
			}
		}
		c.Check(okk, "C12.confine", "multiConsumer.Consume#finish", fn.Decl.Pos(), "when all parents ended Consume must return c.r.Finish(): what is still buffered would never be flushed")
	}
}

func c12Buffer(c *core.Ctx, edge *packages.Package) {
	info := edge.TypesInfo
	fn := c.Need("C12.buffer", "edge", "BatchBuffer", "BeginBatch")
	if fn == nil {
		return
	}
	eng := &an.Engine{Prog: c.P,
		TrackStore: func(lhs ast.Expr, key string) string {
			for _, f := range []string{"points", "begin"} {
				if an.FieldSel(info, lhs, "BatchBuffer", f) {
					return f
				}
			}
			return ""
		}}
	paths, err := eng.Run(fn)
	if err != nil {
		c.Undecided("C12.buffer", "BatchBuffer.BeginBatch", fn.Decl.Pos(), "%v", err)
		return
	}
	good := len(paths) > 0
	for _, p := range paths {
		var pts, beg *an.Event
		for i := range p.Events {
			switch p.Events[i].Name {
			case "points":
				pts = &p.Events[i]
			case "begin":
				beg = &p.Events[i]
			}
		}
		if pts == nil || !strings.HasPrefix(pts.Args[0], "make(") {
			good = false
			v := "nothing"
			if pts != nil {
				v = pts.Args[0]
			}
			c.Fail("C12.buffer", "BatchBuffer.BeginBatch#fresh-points", p.RetPos, "on path [%s] the point slice is %s, not a fresh make(...): the batch already handed to a join/union still references the old backing array and is overwritten by the next batch's points", p.Cond(), v)
		}
		if beg == nil || !strings.HasSuffix(beg.Args[0], ".ShallowCopy()") {
			good = false
			c.Fail("C12.buffer", "BatchBuffer.BeginBatch#begin-copy", p.RetPos, "the begin message is kept without a copy (BufferedBatchMessage sets its size hint)")
		}
	}
	if good {
		c.Ok("C12.buffer", "BatchBuffer.BeginBatch")
	}
}

func c12Union(c *core.Ctx, root *packages.Package) {
	info := root.TypesInfo
	if fn := c.Need("C12.drain", "", "UnionNode", "Finish"); fn != nil {
		okk := false
		ast.Inspect(fn.Decl.Body, func(n ast.Node) bool {
			if call, ok := n.(*ast.CallExpr); ok {
				if f := core.Callee(info, call); f != nil && f.Name() == "emitReady" && len(call.Args) == 1 && types.ExprString(call.Args[0]) == "true" {
					okk = true
				}
			}
			return true
		})
		c.Check(okk, "C12.drain", "UnionNode.Finish", fn.Decl.Pos(), "Finish must drain: emitReady(true)")
	}
	fn := c.Need("C12.drain", "", "UnionNode", "emitReady")
	if fn == nil {
		return
	}
	drain := an.ParamName(fn.Decl.Type, 0)
	// the emit mark by role: the time the emit loop compares a buffered value against (`!v.Time().After(mark)` guarding emit)
	var markObj types.Object
	ast.Inspect(fn.Decl.Body, func(n ast.Node) bool {
		ifs, ok := n.(*ast.IfStmt)
		if !ok {
			return true
		}
		emits := false
		ast.Inspect(ifs.Body, func(m ast.Node) bool {
			if call, ok := m.(*ast.CallExpr); ok {
				if f := core.Callee(info, call); f != nil && f.Name() == "emit" {
					emits = true
				}
			}
			return true
		})
		if !emits {
			return true
		}
		ast.Inspect(ifs.Cond, func(m ast.Node) bool {
			if call, ok := m.(*ast.CallExpr); ok && len(call.Args) == 1 {
				if sel, ok := call.Fun.(*ast.SelectorExpr); ok && (sel.Sel.Name == "After" || sel.Sel.Name == "Before") {
					if id, ok := ast.Unparen(call.Args[0]).(*ast.Ident); ok {
						markObj = info.Uses[id]
					}
				}
			}
			return true
		})
		return true
	})
	eng := &an.Engine{Prog: c.P, Alias: map[string]string{an.RecvVarName(fn.Decl): "n"},
		TrackStore: func(lhs ast.Expr, key string) string {
			if id, ok := ast.Unparen(lhs).(*ast.Ident); ok && markObj != nil && (info.Uses[id] == markObj || info.Defs[id] == markObj) {
				return "mark"
			}
			return ""
		},
		TrackCall: func(call *ast.CallExpr, callee *types.Func) string {
			if callee != nil && callee.Name() == "emit" {
				return "emit"
			}
			return ""
		},
		Classify: func(a an.Atom) (string, bool) {
			if a.Key == drain {
				return "drain", false
			}
			return "", false
		}}
	paths, err := eng.Run(fn)
	if err != nil {
		c.Undecided("C12.drain", "UnionNode.emitReady", fn.Decl.Pos(), "%v", err)
		return
	}
	good := len(paths) > 0
	folds := 0
	for _, p := range paths {
		a := p.Assign()
		for _, e := range p.Events {
			if e.Kind != "store" || e.Name != "mark" {
				continue
			}
			// a fold of the *remembered* mark: the value does not come from the head of the queue (Peek)
			if strings.Contains(e.Args[0], ".Peek(") || strings.HasPrefix(e.Args[0], "zero:") {
				continue
			}
			folds++
			d, decided := a["drain"]
			if !decided || d {
				good = false
				c.Fail("C12.drain", "UnionNode.emitReady#remembered-mark", e.Pos, "the remembered low mark of a parent (%s) is folded into the emit mark while draining: a parent that ended earlier pins the mark and everything the other parents still buffer beyond it is dropped at Finish instead of flushed", shortKey(e.Args[0]))
			}
		}
		// an early `return nil` because not every parent has a value is only allowed when not draining
		if len(p.Rets) == 1 && p.Rets[0] == "nil" && p.Exit == "return" && !p.Has("emit") {
			for _, l := range p.Lits {
				if strings.Contains(l.Key, "len(n.sources)") {
					d, decided := a["drain"]
					if (!decided || d) && l.Val == false && strings.Contains(l.Key, "==") {
						good = false
						c.Fail("C12.drain", "UnionNode.emitReady#wait-all", p.RetPos, "emitReady gives up waiting for all parents even while draining")
					}
				}
			}
		}
	}
	c.Floor("C12.drain", "folds of a remembered mark on paths", folds, 1)
	if good {
		c.Ok("C12.drain", "UnionNode.emitReady")
	}
}

func c12Join(c *core.Ctx, root *packages.Package) {
	info := root.TypesInfo
	if fn := c.Need("C12.joinfinish", "", "JoinNode", "Finish"); fn != nil {
		c09LoopNoExit(c, "C12.joinfinish", "JoinNode.Finish", fn, info, ".groups", "Finish", nil)
		_ = fn
	}
	if fn := c.Need("C12.joinfinish", "", "joinGroup", "Finish"); fn != nil {
		okk := false
		ast.Inspect(fn.Decl.Body, func(n ast.Node) bool {
			if call, ok := n.(*ast.CallExpr); ok {
				if f := core.Callee(info, call); f != nil && f.Name() == "emitAll" {
					okk = true
				}
			}
			return true
		})
		c.Check(okk, "C12.joinfinish", "joinGroup.Finish", fn.Decl.Pos(), "a group's Finish must emit everything still buffered (emitAll)")
	}
	// C12.first
	if fn := c.Need("C12.first", "", "joinset", "Set"); fn != nil {
		i, v := an.ParamName(fn.Decl.Type, 0), an.ParamName(fn.Decl.Type, 1)
		js := an.RecvVarName(fn.Decl)
		eng := &an.Engine{Prog: c.P,
			TrackStore: func(lhs ast.Expr, key string) string {
				switch {
				case an.FieldSel(info, lhs, "joinset", "first"):
					return "first"
				case an.FieldSel(info, lhs, "joinset", "size"):
					return "size"
				}
				if ix, ok := ast.Unparen(lhs).(*ast.IndexExpr); ok && an.FieldSel(info, ix.X, "joinset", "values") {
					return "values[" + types.ExprString(ix.Index) + "]"
				}
				return ""
			},
			Classify: func(a an.Atom) (string, bool) {
				if a.Op == token.LSS && a.L == i && a.R == js+".first" {
					return "lower", false
				}
				return "", false
			}}
		paths, err := eng.Run(fn)
		if err != nil {
			c.Undecided("C12.first", "joinset.Set", fn.Decl.Pos(), "%v", err)
		} else {
			an.CheckTable(c, "C12.first", "joinset.Set", paths, an.Table{Atoms: []string{"lower"},
				Outcome: func(p *an.Path) string {
					var s []string
					for _, e := range p.Events {
						if e.Kind == "store" {
							val := e.Args[0]
							if e.Name == "size" {
								val = "+1"
								if !strings.Contains(e.Args[0], "++") && !strings.Contains(e.Args[0], "+ 1") {
									val = e.Args[0]
								}
							}
							s = append(s, e.Name+"="+val)
						}
					}
					return strings.Join(s, ",")
				},
				Expect: func(a map[string]bool) string {
					rest := "values[" + i + "]=" + v + ",size=+1"
					if a["lower"] {
						return "first=" + i + "," + rest
					}
					return rest
				}})
		}
	}
	if fn := c.Need("C12.first", "", "", "newJoinset"); fn != nil {
		var lit *ast.CompositeLit
		ast.Inspect(fn.Decl.Body, func(n ast.Node) bool {
			if cl, ok := n.(*ast.CompositeLit); ok && an.TypeNamed(info, cl, "kapacitor", "joinset") {
				lit = cl
			}
			return true
		})
		if lit == nil {
			c.Fail("C12.roles", "newJoinset#literal", fn.Decl.Pos(), "no joinset literal")
		} else {
			got := litFieldSet(lit)
			prefixesP := an.ParamName(fn.Decl.Type, 4)
			firstInit := got["first"]
			// a local holding the count: resolve it to its definition
			ast.Inspect(fn.Decl.Body, func(n ast.Node) bool {
				if as, ok := n.(*ast.AssignStmt); ok && as.Tok == token.DEFINE && len(as.Lhs) == 1 && len(as.Rhs) == 1 && types.ExprString(as.Lhs[0]) == firstInit {
					firstInit = types.ExprString(as.Rhs[0])
				}
				return true
			})
			c.Check(firstInit == "len("+prefixesP+")", "C12.first", "newJoinset#first", lit.Pos(), "first must start at the number of parents (no parent present yet), starts at %q", got["first"])
			// parameter → field roles
			want := map[string]string{"j": an.ParamName(fn.Decl.Type, 0), "name": an.ParamName(fn.Decl.Type, 1), "fill": an.ParamName(fn.Decl.Type, 2), "fillValue": an.ParamName(fn.Decl.Type, 3),
				"prefixes": an.ParamName(fn.Decl.Type, 4), "delimiter": an.ParamName(fn.Decl.Type, 5), "tolerance": an.ParamName(fn.Decl.Type, 6), "time": an.ParamName(fn.Decl.Type, 7), "diag": an.ParamName(fn.Decl.Type, 8)}
			for _, f := range an.SortedKeys(want) {
				c.Check(got[f] == want[f], "C12.roles", "newJoinset#"+f, lit.Pos(), "field %s must hold parameter %s, holds %q", f, want[f], got[f])
			}
		}
	}
	if fn := c.Need("C12.roles", "", "joinGroup", "newJoinset"); fn != nil {
		var call *ast.CallExpr
		ast.Inspect(fn.Decl.Body, func(n ast.Node) bool {
			if cl, ok := n.(*ast.CallExpr); ok {
				if f := core.Callee(info, cl); f != nil && f.Name() == "newJoinset" && core.RecvTypeName(f) == "" {
					call = cl
				}
			}
			return true
		})
		g := an.RecvVarName(fn.Decl)
		t := an.ParamName(fn.Decl.Type, 0)
		want := []string{g + ".n", g + ".n.j.StreamName", g + ".n.fill", g + ".n.fillValue", g + ".n.j.Names", g + ".n.j.Delimiter", g + ".n.j.Tolerance", t, g + ".n.diag"}
		if call == nil || len(call.Args) != len(want) {
			c.Fail("C12.roles", "joinGroup.newJoinset#call", fn.Decl.Pos(), "newJoinset is not called with %d arguments", len(want))
		} else {
			for k, w := range want {
				c.Check(types.ExprString(call.Args[k]) == w, "C12.roles", "joinGroup.newJoinset#arg"+string(rune('0'+k)), call.Args[k].Pos(), "argument %d must be %s, is %s (same-typed neighbours compile silently when swapped)", k, w, types.ExprString(call.Args[k]))
			}
		}
	}
	// C12.place
	if fn := c.Need("C12.place", "", "joinGroup", "Collect"); fn != nil {
		src, msg := an.ParamName(fn.Decl.Type, 0), an.ParamName(fn.Decl.Type, 1)
		eng := &an.Engine{Prog: c.P,
			TrackCall: func(call *ast.CallExpr, callee *types.Func) string {
				if callee == nil {
					return ""
				}
				switch callee.Name() {
				case "Set", "Enqueue", "newJoinset", "Has":
					return callee.Name()
				}
				return ""
			},
			Classify: func(a an.Atom) (string, bool) {
				switch {
				case strings.HasSuffix(a.Key, ".Has("+src+")"):
					return "has", false
				case a.Op == token.EQL && a.R == "nil" && (a.L == "zero:*kapacitor.joinset" || strings.Contains(a.L, "Peek(")):
					return "", false
				}
				return "", false
			}}
		paths, err := eng.Run(fn)
		if err != nil {
			c.Undecided("C12.place", "joinGroup.Collect", fn.Decl.Pos(), "%v", err)
		} else {
			good := len(paths) > 0
			sawFree, sawNew := false, false
			for _, p := range paths {
				set := p.Find("Set")
				if set == nil {
					good = false
					c.Fail("C12.place", "joinGroup.Collect#stored", p.RetPos, "a path never stores the message in a set")
					continue
				}
				if len(set.Args) != 2 || set.Args[0] != src || set.Args[1] != msg {
					good = false
					c.Fail("C12.place", "joinGroup.Collect#own-index", set.Pos, "the message must be stored as Set(%s, %s); is Set(%v)", src, msg, set.Args)
				}
				// a set that was just asked Has(src) is not nil: paths that decide `<that set> == nil` true are infeasible
				infeasible := false
				for _, l := range p.Lits {
					if l.Name == "" && strings.Contains(l.Key, ".Peek(") && strings.HasSuffix(l.Key, " == nil") && l.Val {
						infeasible = true
					}
				}
				if infeasible {
					continue
				}
				a := p.Assign()
				has, decided := a["has"]
				brk := false
				for _, e := range p.Events {
					if e.Kind == "break" {
						brk = true
					}
				}
				if decided && !has {
					// a free existing set: must leave the search at once and use that set
					sawFree = true
					if !brk || !strings.Contains(set.Recv, "Peek(") {
						good = false
						c.Fail("C12.place", "joinGroup.Collect#first-free", set.Pos, "a set of this time without the parent was found but the search goes on or the message goes elsewhere (stored into %s): the k-th message of a parent would no longer pair with the k-th of the others", shortKey(set.Recv))
					}
				}
				if p.Has("Enqueue") {
					sawNew = true
				}
			}
			c.Check(sawFree && sawNew, "C12.place", "joinGroup.Collect#both-arms", fn.Decl.Pos(), "Collect must have both arms: reuse the first free set, or enqueue a new one (free %v, new %v)", sawFree, sawNew)
			if good {
				c.Ok("C12.place", "joinGroup.Collect")
			}
		}
	}
	// C12.prefix
	if fn := c.Need("C12.prefix", "", "joinset", "JoinIntoPoint"); fn != nil {
		js := an.RecvVarName(fn.Decl)
		// the index variable of the loop over the set's values
		idxName := "i"
		ast.Inspect(fn.Decl.Body, func(n ast.Node) bool {
			if rs, ok := n.(*ast.RangeStmt); ok && rs.Key != nil && types.ExprString(rs.X) == js+".values" {
				idxName = types.ExprString(rs.Key)
			}
			return true
		})
		eng := &an.Engine{Prog: c.P, ElemKeys: false,
			TrackCall: func(call *ast.CallExpr, callee *types.Func) string {
				if callee != nil && callee.Name() == "NewPointMessage" {
					return "NewPointMessage"
				}
				return ""
			},
			TrackStore: func(lhs ast.Expr, key string) string {
				if ix, ok := ast.Unparen(lhs).(*ast.IndexExpr); ok {
					if tv, ok := info.Types[ix.X]; ok && isSharedMapType(tv.Type) {
						return "field"
					}
				}
				return ""
			},
			Classify: func(a an.Atom) (string, bool) {
				switch {
				case a.Op == token.EQL && a.R == "nil" && !strings.Contains(a.L, "("):
					return "missing", false
				case a.Op == token.EQL && a.L == js+".fill" && a.R == "influxql.NullFill":
					return "nullfill", false
				case a.Op == token.EQL && a.L == js+".fill" && a.R == "influxql.NumberFill":
					return "numfill", false
				}
				return "", false
			}}
		paths, err := eng.Run(fn)
		if err != nil {
			c.Undecided("C12.prefix", "joinset.JoinIntoPoint", fn.Decl.Pos(), "%v", err)
			return
		}
		good := len(paths) > 0
		nStores := 0
		for _, p := range paths {
			a := p.Assign()
			// the index variable of the loop over js.values on this path
			for _, e := range p.Events {
				if e.Kind != "store" || e.Name != "field" {
					continue
				}
				nStores++
				// Recv is fields[<key>]
				k := e.Recv
				i0 := strings.Index(k, "[")
				key := k[i0+1 : len(k)-1]
				// expected: (( js.prefixes[i~n] + js.delimiter) + k~m)
				okKey := strings.HasPrefix(key, "(("+js+".prefixes[") && strings.Contains(key, "] + "+js+".delimiter) + ")
				if !okKey {
					good = false
					c.Fail("C12.prefix", "joinset.JoinIntoPoint#key", e.Pos, "a joined field is stored under %s, not under prefixes[i]+delimiter+name", key)
					continue
				}
				idx := key[len("(("+js+".prefixes["):strings.Index(key, "] + ")]
				miss, decided := a["missing"]
				switch {
				case decided && miss:
					wantVal := ""
					if a["nullfill"] {
						wantVal = "nil"
					} else if a["numfill"] {
						wantVal = js + ".fillValue"
					}
					if wantVal == "" || e.Args[0] != wantVal {
						good = false
						c.Fail("C12.prefix", "joinset.JoinIntoPoint#fill", e.Pos, "for a missing parent the value stored is %s on path [%s]", e.Args[0], p.Cond())
					}
				case decided && !miss:
					// the value comes from the fields of values[idx]: v~ is the range value, p.Fields() of it; index must be the same loop index variable
					if !strings.HasPrefix(idx, idxName+"~") && idx != idxName {
						good = false
						c.Fail("C12.prefix", "joinset.JoinIntoPoint#index", e.Pos, "the prefix index %s is not the index of the value being joined", idx)
					}
				}
			}
			if miss, ok := a["missing"]; ok && miss && !a["nullfill"] && !a["numfill"] {
				if len(p.Rets) != 2 || p.Rets[0] != "nil" || p.Rets[1] != "nil" {
					good = false
					c.Fail("C12.prefix", "joinset.JoinIntoPoint#inner", p.RetPos, "with a missing parent and no fill (inner join) a point is still produced")
				}
			}
			if np := p.Find("NewPointMessage"); np != nil && len(np.Args) == 7 {
				okk := np.Args[0] == js+".name" && np.Args[6] == js+".time" && strings.HasSuffix(np.Args[3], ".Dimensions()") && strings.HasSuffix(np.Args[5], ".GroupInfo().Tags") && strings.Contains(np.Args[3], ".First()") && strings.Contains(np.Args[5], ".First()")
				if !okk {
					good = false
					c.Fail("C12.prefix", "joinset.JoinIntoPoint#meta", np.Pos, "the joined point must carry js.name, js.time and the first value's dimensions and group tags; carries (%s, %s, %s, %s)", np.Args[0], shortKey(np.Args[3]), shortKey(np.Args[5]), np.Args[6])
				}
			}
		}
		c.Floor("C12.prefix", "joined field stores on paths", nStores, 3)
		if good {
			c.Ok("C12.prefix", "joinset.JoinIntoPoint")
		}
	}
}

func c12Passed(c *core.Ctx, pkg *packages.Package) {
	fn := c.Need("C12.passed", "", "joinGroup", "checkOnlyReadSets")
	if fn == nil {
		return
	}
	info := pkg.TypesInfo
	eng := &an.Engine{Prog: c.P, ElemKeys: true, BoolReturns: true, Alias: map[string]string{an.RecvVarName(fn.Decl): "g"},
		TrackStore: func(lhs ast.Expr, key string) string {
			if id, ok := ast.Unparen(lhs).(*ast.Ident); ok {
				if v, ok := info.Uses[id].(*types.Var); ok && types.Identical(v.Type(), types.Typ[types.Bool]) {
					return "hold"
				}
			}
			return ""
		},
		Classify: func(a an.Atom) (string, bool) {
			if strings.HasSuffix(a.Key, ".After(g.oldestTime)") && (strings.Contains(a.Key, ".head[*]") || strings.Contains(a.Key, "~")) {
				return "after", false
			}
			return "", false
		}}
	paths, err := eng.Run(fn)
	if err != nil {
		c.Undecided("C12.passed", "joinGroup.checkOnlyReadSets", fn.Decl.Pos(), "%v", err)
		return
	}
	good, seen := len(paths) > 0, false
	for _, p := range paths {
		if len(p.Rets) != 1 || p.Rets[0] != "false" {
			continue
		}
		entered := false
		for _, e := range p.Events {
			if e.Kind == "loop" {
				entered = true
			}
		}
		if !entered {
			continue
		}
		seen = true
		if v, dec := p.Assign()["after"]; !dec || !v {
			good = false
			c.Fail("C12.passed", "joinGroup.checkOnlyReadSets#strict", p.RetPos, "incomplete join sets are released on a path where a parent head is not established to be strictly after the oldest buffered time (%s): a parent that delivers a second message with the same rounded timestamp finds its set already emitted, matched pairs are dropped or come out half-filled", p.Cond())
		}
	}
	if good && seen {
		c.Ok("C12.passed", "joinGroup.checkOnlyReadSets")
	} else if !seen {
		c.Fail("C12.passed", "joinGroup.checkOnlyReadSets", fn.Decl.Pos(), "no path releases incomplete sets after looking at the heads")
	}
}

func c12Queue(c *core.Ctx, pkg *packages.Package) {
	info := pkg.TypesInfo
	if fn := c.Need("C12.queue", "", "CircularQueue", "Enqueue"); fn != nil {
		eng := &an.Engine{Prog: c.P, Alias: map[string]string{an.RecvVarName(fn.Decl): "q"},
			TrackCall: func(call *ast.CallExpr, callee *types.Func) string {
				if core.IsBuiltin(info, call, "copy") {
					return "copy"
				}
				return ""
			},
			TrackStore: func(lhs ast.Expr, key string) string {
				for _, f := range []string{"head", "tail", "data"} {
					if an.FieldSel(info, lhs, "CircularQueue", f) {
						return f
					}
				}
				if ix, ok := ast.Unparen(lhs).(*ast.IndexExpr); ok {
					if id, ok := ix.X.(*ast.Ident); ok && id.Name != "" {
						if _, isVar := info.Uses[id].(*types.Var); isVar && !an.FieldSel(info, ix.X, "CircularQueue", "data") {
							return "put"
						}
					}
				}
				return ""
			},
			Classify: func(a an.Atom) (string, bool) {
				switch a.Key {
				case "q.Len < cap(q.data)":
					return "room", false
				case "q.head < q.tail":
					return "flat", false
				}
				return "", false
			}}
		paths, err := eng.Run(fn)
		if err != nil {
			c.Undecided("C12.queue", "CircularQueue.Enqueue", fn.Decl.Pos(), "%v", err)
		} else {
			good, grows := len(paths) > 0, 0
			for _, p := range paths {
				a := p.Assign()
				if v, dec := a["room"]; !dec || v {
					continue
				}
				grows++
				var copies []an.Event
				for _, e := range p.Events {
					if e.Kind == "call" && e.Name == "copy" {
						copies = append(copies, e)
					}
				}
				flat, dec := a["flat"]
				switch {
				case !dec:
					good = false
					c.Fail("C12.queue", "CircularQueue.Enqueue#grow", p.RetPos, "the grow path does not distinguish a wrapped ring (head >= tail) from a flat one")
				case flat:
					if len(copies) != 1 || !strings.HasPrefix(copies[0].Args[0], "make(") || copies[0].Args[1] != "q.data[q.head:q.tail]" {
						good = false
						c.Fail("C12.queue", "CircularQueue.Enqueue#grow-flat", p.RetPos, "growing a flat ring must copy data[head:tail] to the front of the new buffer")
					}
				default:
					okk := len(copies) == 2 && strings.HasPrefix(copies[0].Args[0], "make(") && copies[0].Args[1] == "q.data[q.head:]" &&
						copies[1].Args[1] == "q.data[:q.tail]" && strings.HasPrefix(copies[1].Args[0], "make(") && strings.Contains(copies[1].Args[0], "[copy(") && strings.HasSuffix(copies[1].Args[0], ":]")
					if !okk {
						good = false
						got := ""
						for _, cp := range copies {
							got += "copy(" + shortKey(cp.Args[0]) + ", " + shortKey(cp.Args[1]) + ") "
						}
						c.Fail("C12.queue", "CircularQueue.Enqueue#grow-wrapped", p.RetPos, "growing a wrapped ring must copy the older segment data[head:] to the front and the newer segment data[:tail] directly behind it; it does %s— the queue comes out in another order than it went in, a parent's buffered messages are reordered", got)
					}
				}
				// head=0, tail=cap(old), element at new tail, data=buf
				var seq []string
				for _, e := range p.Events {
					if e.Kind == "store" {
						switch e.Name {
						case "head", "tail":
							seq = append(seq, e.Name+"="+e.Args[0])
						case "data":
							if strings.HasPrefix(e.Args[0], "make(") {
								seq = append(seq, "data=buf")
							} else {
								seq = append(seq, "data=?")
							}
						case "put":
							seq = append(seq, "put")
						}
					}
				}
				w := strings.Join(seq, ",")
				if !strings.HasPrefix(w, "head=0,tail=cap(q.data),put,data=buf,tail=") {
					good = false
					c.Fail("C12.queue", "CircularQueue.Enqueue#grow-indices", p.RetPos, "after growing head must be 0, tail the old capacity, the new element stored at that tail and the buffer swapped in; path does [%s]", w)
				}
			}
			c.Floor("C12.queue", "grow paths of Enqueue", grows, 2)
			if good {
				c.Ok("C12.queue", "CircularQueue.Enqueue")
			}
		}
	}
	if fn := c.Need("C12.queue", "", "CircularQueue", "Peek"); fn != nil {
		eng := &an.Engine{Prog: c.P, Alias: map[string]string{an.RecvVarName(fn.Decl): "q", an.ParamName(fn.Decl.Type, 0): "i"},
			Classify: func(a an.Atom) (string, bool) {
				if strings.HasSuffix(a.Key, "< len(q.data)") && strings.Contains(a.Key, "q.head + ") {
					return "inrange", false
				}
				return "", false
			}}
		paths, err := eng.Run(fn)
		if err != nil {
			c.Undecided("C12.queue", "CircularQueue.Peek", fn.Decl.Pos(), "%v", err)
			return
		}
		good, n := len(paths) > 0, 0
		i := "i"
		for _, p := range paths {
			if len(p.Rets) != 1 || p.Exit != "return" {
				continue
			}
			n++
			v, dec := p.Assign()["inrange"]
			want := "q.data[(q.head + " + i + ")]"
			if dec && !v {
				want = "q.data[((q.head + " + i + ") - len(q.data))]"
			}
			if !dec || p.Rets[0] != want {
				good = false
				c.Fail("C12.queue", "CircularQueue.Peek", p.RetPos, "Peek(%s) must read data[head+%s], wrapped by len(data) when that is past the end; path returns %s (expected %s)", i, i, p.Rets[0], want)
			}
		}
		if good && n >= 2 {
			c.Ok("C12.queue", "CircularQueue.Peek")
		} else if good {
			c.Fail("C12.queue", "CircularQueue.Peek", fn.Decl.Pos(), "Peek has no wrapped and unwrapped return path")
		}
	}
}

// c12SharedMutation looks, in a goroutine body that is a method of a shared value, for a call of a receiver-mutating method of a
// lock-free type of the same package on something reached from the method's receiver (directly, or through a local initialised
// from it). It returns a description of the first one, or "".
func c12SharedMutation(pkg *packages.Package, fn *core.Func) string {
	info := pkg.TypesInfo
	if fn.Decl.Recv == nil || len(fn.Decl.Recv.List) != 1 || len(fn.Decl.Recv.List[0].Names) != 1 {
		return ""
	}
	recv := info.Defs[fn.Decl.Recv.List[0].Names[0]]
	rooted := map[types.Object]bool{recv: true}
	base := func(e ast.Expr) types.Object {
		for {
			switch x := ast.Unparen(e).(type) {
			case *ast.SelectorExpr:
				e = x.X
			case *ast.IndexExpr:
				e = x.X
			case *ast.StarExpr:
				e = x.X
			case *ast.UnaryExpr:
				e = x.X
			case *ast.Ident:
				return info.Uses[x]
			default:
				return nil
			}
		}
	}
	for changed := true; changed; {
		changed = false
		ast.Inspect(fn.Decl.Body, func(nd ast.Node) bool {
			as, ok := nd.(*ast.AssignStmt)
			if !ok || len(as.Lhs) != len(as.Rhs) {
				return true
			}
			for i, l := range as.Lhs {
				id, ok := l.(*ast.Ident)
				if !ok {
					continue
				}
				obj := info.Defs[id]
				if obj == nil {
					obj = info.Uses[id]
				}
				if obj == nil || rooted[obj] {
					continue
				}
				// only reference-like values carry the sharing on: pointers, maps, slices, interfaces
				switch obj.Type().Underlying().(type) {
				case *types.Pointer, *types.Map, *types.Slice, *types.Interface:
				default:
					continue
				}
				if b := base(as.Rhs[i]); b != nil && rooted[b] {
					rooted[obj] = true
					changed = true
				}
			}
			return true
		})
	}
	mutates := func(m *types.Func) bool {
		for _, f := range core.AllFuncs(pkg) {
			if info.Defs[f.Decl.Name] != m || f.Decl.Recv == nil || len(f.Decl.Recv.List[0].Names) != 1 {
				continue
			}
			r := info.Defs[f.Decl.Recv.List[0].Names[0]]
			if _, ptr := r.Type().(*types.Pointer); !ptr {
				return false
			}
			mut := false
			ast.Inspect(f.Decl.Body, func(nd ast.Node) bool {
				switch x := nd.(type) {
				case *ast.AssignStmt:
					for _, l := range x.Lhs {
						if _, isIdent := ast.Unparen(l).(*ast.Ident); !isIdent && base(l) == r {
							mut = true
						}
					}
				case *ast.IncDecStmt:
					if _, isIdent := ast.Unparen(x.X).(*ast.Ident); !isIdent && base(x.X) == r {
						mut = true
					}
				}
				return !mut
			})
			return mut
		}
		return false
	}
	hasLock := func(t types.Type) bool {
		n := core.NamedOf(t)
		if n == nil {
			return false
		}
		st, ok := n.Underlying().(*types.Struct)
		if !ok {
			return false
		}
		for i := 0; i < st.NumFields(); i++ {
			if fn := core.NamedOf(st.Field(i).Type()); fn != nil && fn.Obj().Pkg() != nil && fn.Obj().Pkg().Path() == "sync" {
				return true
			}
		}
		return false
	}
	found := ""
	ast.Inspect(fn.Decl.Body, func(nd ast.Node) bool {
		call, ok := nd.(*ast.CallExpr)
		if !ok || found != "" {
			return found == ""
		}
		sel, ok := call.Fun.(*ast.SelectorExpr)
		if !ok {
			return true
		}
		s, ok := info.Selections[sel]
		if !ok || s.Kind() != types.MethodVal {
			return true
		}
		m, ok := s.Obj().(*types.Func)
		if !ok || m.Pkg() != pkg.Types {
			return true
		}
		if b := base(sel.X); b == nil || !rooted[b] {
			return true
		}
		if hasLock(s.Recv()) || !mutates(m) {
			return true
		}
		found = types.ExprString(sel.X) + "." + m.Name() + " on " + types.TypeString(s.Recv(), types.RelativeTo(pkg.Types))
		return false
	})
	return found
}

// c12Bucket: sibling agreement between the sites that bucket a time by the join tolerance.
func c12Bucket(c *core.Ctx, root *packages.Package) {
	info := root.TypesInfo
	type site struct {
		cons, method string
		pos          token.Pos
	}
	var sites []site
	count := map[string]int{}
	for _, f := range core.AllFuncs(root) {
		switch core.RecvName(f.Decl) {
		case "JoinNode", "joinGroup", "joinset":
		default:
			continue
		}
		k := 0
		ast.Inspect(f.Decl.Body, func(nd ast.Node) bool {
			call, ok := nd.(*ast.CallExpr)
			if !ok || len(call.Args) != 1 {
				return true
			}
			sel, ok := call.Fun.(*ast.SelectorExpr)
			if !ok || (sel.Sel.Name != "Round" && sel.Sel.Name != "Truncate") {
				return true
			}
			s, ok := info.Selections[sel]
			if !ok {
				return true
			}
			if n := core.NamedOf(s.Recv()); n == nil || n.Obj().Pkg() == nil || n.Obj().Pkg().Path() != "time" || n.Obj().Name() != "Time" {
				return true
			}
			k++
			sites = append(sites, site{fmt.Sprintf("%s.%s#bucket%d", core.RecvName(f.Decl), f.Decl.Name.Name, k), sel.Sel.Name, call.Pos()})
			count[sel.Sel.Name]++
			return true
		})
	}
	major := "Round"
	if count["Truncate"] > count["Round"] {
		major = "Truncate"
	}
	for _, st := range sites {
		c.Check(st.method == major, "C12.bucket", st.cons, st.pos, "this site buckets the time with %s while the other %d sites use %s: a point in the upper half of a tolerance interval lands in another bucket here than where its partner was filed, so the pair is found only under one arrival order (inner join drops it, outer join emits a filled row)", st.method, count[major], major)
	}
	c.Floor("C12.bucket", "tolerance bucketing sites in the join", len(sites), 5)
}

// c12Oldest: F47. emit reads g.sets[g.oldestTime] and dereferences it whenever sets is not empty, so oldestTime must be a key of
// sets. Every store of a non-zero time into joinGroup.oldestTime is therefore the key of an enclosing range over g.sets, or is
// accompanied, in the same method, by a store g.sets[<that time>] = … (the set list is created when it is missing).
func c12Oldest(c *core.Ctx, root *packages.Package) {
	info := root.TypesInfo
	n := 0
	for _, f := range core.AllFuncs(root) {
		if core.RecvName(f.Decl) != "joinGroup" {
			continue
		}
		// range statements over the sets map, with their key variables
		rangeKeys := map[types.Object]bool{}
		created := map[types.Object]bool{}
		ast.Inspect(f.Decl.Body, func(nd ast.Node) bool {
			switch x := nd.(type) {
			case *ast.RangeStmt:
				if an.FieldSel(info, x.X, "joinGroup", "sets") {
					if id, ok := x.Key.(*ast.Ident); ok {
						if o := info.Defs[id]; o != nil {
							rangeKeys[o] = true
						}
					}
				}
			case *ast.AssignStmt:
				for _, l := range x.Lhs {
					if ix, ok := ast.Unparen(l).(*ast.IndexExpr); ok && an.FieldSel(info, ix.X, "joinGroup", "sets") {
						if id, ok := ast.Unparen(ix.Index).(*ast.Ident); ok {
							created[info.Uses[id]] = true
						}
					}
				}
			}
			return true
		})
		ast.Inspect(f.Decl.Body, func(nd ast.Node) bool {
			as, ok := nd.(*ast.AssignStmt)
			if !ok {
				return true
			}
			for i, l := range as.Lhs {
				if !an.FieldSel(info, l, "joinGroup", "oldestTime") || i >= len(as.Rhs) {
					continue
				}
				n++
				rhs := ast.Unparen(as.Rhs[i])
				cons := "joinGroup." + f.Decl.Name.Name + "#oldestTime"
				if cl, ok := rhs.(*ast.CompositeLit); ok && len(cl.Elts) == 0 {
					c.Ok("C12.oldest", cons+"=zero")
					continue
				}
				id, ok := rhs.(*ast.Ident)
				good := ok && (rangeKeys[info.Uses[id]] || created[info.Uses[id]])
				c.Check(good, "C12.oldest", cons, as.Pos(), "joinGroup.%s stores %s into oldestTime without that time being a key of g.sets (it is neither the key of a range over g.sets nor given a set list by a store g.sets[…] = … in this method): the next emit reads g.sets[g.oldestTime], gets nil and dereferences it — a barrier between two points kills the task with a nil pointer panic", f.Decl.Name.Name, types.ExprString(rhs))
			}
			return true
		})
	}
	c.Floor("C12.oldest", "stores into joinGroup.oldestTime", n, 3)
}

// c12OnBuffers: F48/F49, the join on dimensions. (a) A buffer whose entries matchPoints may send alone (sendSpecificPoint on a
// Peek of it) holds points that have not reached any group yet: Finish must send and dequeue what is left in it. (b) In the loop
// that takes the minimum low mark over all parents, a parent without an entry for the group must block purging: the map is read
// with comma-ok and the miss leaves the loop (a single-value read yields the zero time, which the minimum takes for "unset").
func c12OnBuffers(c *core.Ctx, root *packages.Package) {
	info := root.TypesInfo
	mp := c.Need("C12.onflush", "", "JoinNode", "matchPoints")
	fin := c.Need("C12.onflush", "", "JoinNode", "Finish")
	if mp == nil || fin == nil {
		return
	}
	// (a) fields whose queue elements are sent alone
	fieldOf := func(e ast.Expr) string {
		for {
			switch x := ast.Unparen(e).(type) {
			case *ast.IndexExpr:
				e = x.X
			case *ast.SelectorExpr:
				if s, ok := info.Selections[x]; ok && s.Kind() == types.FieldVal {
					if nn := core.NamedOf(s.Recv()); nn != nil && nn.Obj().Name() == "JoinNode" {
						return x.Sel.Name
					}
				}
				return ""
			default:
				return ""
			}
		}
	}
	alone := func(fn *core.Func) map[string]bool {
		// locals bound to a buffer field, locals bound to a Peek of such a local
		buf := map[types.Object]string{}
		elem := map[types.Object]string{}
		out := map[string]bool{}
		for round := 0; round < 3; round++ {
			ast.Inspect(fn.Decl.Body, func(nd ast.Node) bool {
				switch x := nd.(type) {
				case *ast.AssignStmt:
					if len(x.Lhs) == len(x.Rhs) {
						for i, l := range x.Lhs {
							id, ok := l.(*ast.Ident)
							if !ok {
								continue
							}
							o := info.Defs[id]
							if o == nil {
								o = info.Uses[id]
							}
							if fld := fieldOf(x.Rhs[i]); fld != "" {
								buf[o] = fld
							}
							if call, ok := ast.Unparen(x.Rhs[i]).(*ast.CallExpr); ok {
								if sel, ok := call.Fun.(*ast.SelectorExpr); ok && sel.Sel.Name == "Peek" {
									if rid, ok := ast.Unparen(sel.X).(*ast.Ident); ok && buf[info.Uses[rid]] != "" {
										elem[o] = buf[info.Uses[rid]]
									}
								}
							}
						}
					}
				case *ast.RangeStmt:
					if fld := fieldOf(x.X); fld != "" {
						if id, ok := x.Value.(*ast.Ident); ok && x.Value != nil {
							buf[info.Defs[id]] = fld
						}
					}
				case *ast.CallExpr:
					if m := core.Callee(info, x); m != nil && m.Name() == "sendSpecificPoint" && len(x.Args) == 1 {
						a := ast.Unparen(x.Args[0])
						if id, ok := a.(*ast.Ident); ok && elem[info.Uses[id]] != "" {
							out[elem[info.Uses[id]]] = true
						}
						if call, ok := a.(*ast.CallExpr); ok {
							if sel, ok := call.Fun.(*ast.SelectorExpr); ok && sel.Sel.Name == "Peek" {
								if rid, ok := ast.Unparen(sel.X).(*ast.Ident); ok && buf[info.Uses[rid]] != "" {
									out[buf[info.Uses[rid]]] = true
								}
							}
						}
					}
				}
				return true
			})
		}
		return out
	}
	need := alone(mp)
	have := alone(fin)
	c.Floor("C12.onflush", "buffers whose entries matchPoints may send alone", len(need), 1)
	for _, fld := range an.SortedKeys(need) {
		dq := false
		ast.Inspect(fin.Decl.Body, func(nd ast.Node) bool {
			if call, ok := nd.(*ast.CallExpr); ok {
				if sel, ok := call.Fun.(*ast.SelectorExpr); ok && sel.Sel.Name == "Dequeue" {
					dq = true
				}
			}
			return true
		})
		c.Check(have[fld] && dq, "C12.onflush", "JoinNode.Finish#"+fld, fin.Decl.Pos(), "matchPoints caches points in JoinNode.%s and sends them alone once no match can arrive; Finish neither sends nor dequeues what is still cached there (sends: %v, dequeues: %v): with a fill, the last unmatched specific point of every join group is lost when the parents end (end of a replay, a batch task, a stopped task)", fld, have[fld], dq)
	}
	// the order: sendSpecificPoint collects into the groups (and may create groups), so everything cached is sent before any
	// group is told to finish — a group that has run its emitAll never emits what arrives afterwards (seed C12-15-r5)
	sendAt, finishAt := -1, -1
	for i, st := range an.Effective(fin.Decl.Body.List) {
		ast.Inspect(st, func(nd ast.Node) bool {
			call, ok := nd.(*ast.CallExpr)
			if !ok {
				return true
			}
			m := core.Callee(info, call)
			if m == nil {
				return true
			}
			if m.Name() == "sendSpecificPoint" && sendAt < 0 {
				sendAt = i
			}
			if m.Name() == "Finish" && core.RecvTypeName(m) == "joinGroup" && finishAt < 0 {
				finishAt = i
			}
			return true
		})
	}
	if sendAt >= 0 && finishAt >= 0 {
		c.Check(sendAt < finishAt, "C12.onflush", "JoinNode.Finish#order", fin.Decl.Pos(), "Finish tells the groups to finish before it sends the specific points still cached: those points are collected into groups that have already emitted everything (or into new groups nobody finishes) and are never emitted — with an outer fill the unmatched points at the end of the parents are lost")
	} else if len(need) > 0 {
		c.Check(false, "C12.onflush", "JoinNode.Finish#order", fin.Decl.Pos(), "Finish does not both send the cached specific points and finish the groups (send at statement %d, finish at statement %d)", sendAt, finishAt)
	}
	// (b)
	nReads := 0
	ast.Inspect(mp.Decl.Body, func(nd ast.Node) bool {
		fs, ok := nd.(*ast.ForStmt)
		if !ok {
			return true
		}
		ast.Inspect(fs.Body, func(m ast.Node) bool {
			ix, ok := m.(*ast.IndexExpr)
			if !ok || !an.FieldSel(info, ix.X, "JoinNode", "lowMarks") {
				return true
			}
			nReads++
			// the read must be the sole RHS of a two-value assignment whose ok is tested with a loop exit
			commaOK, exits := false, false
			var okObj types.Object
			ast.Inspect(fs.Body, func(k ast.Node) bool {
				if as, ok := k.(*ast.AssignStmt); ok && len(as.Lhs) == 2 && len(as.Rhs) == 1 && ast.Unparen(as.Rhs[0]) == ix {
					commaOK = true
					if id, ok := as.Lhs[1].(*ast.Ident); ok {
						okObj = info.Defs[id]
						if okObj == nil {
							okObj = info.Uses[id]
						}
					}
				}
				return true
			})
			if commaOK && okObj != nil {
				ast.Inspect(fs.Body, func(k ast.Node) bool {
					is, ok := k.(*ast.IfStmt)
					if !ok {
						return true
					}
					un, ok := ast.Unparen(is.Cond).(*ast.UnaryExpr)
					if !ok || un.Op != token.NOT {
						return true
					}
					if id, ok := ast.Unparen(un.X).(*ast.Ident); !ok || info.Uses[id] != okObj {
						return true
					}
					ast.Inspect(is.Body, func(b ast.Node) bool {
						switch y := b.(type) {
						case *ast.BranchStmt:
							if y.Tok == token.BREAK {
								exits = true
							}
						case *ast.ReturnStmt:
							exits = true
						}
						return true
					})
					return true
				})
			}
			c.Check(commaOK && exits, "C12.lowmark", "JoinNode.matchPoints#all-parents", ix.Pos(), "the minimum low mark over all parents reads n.lowMarks with a single-value read or does not stop at a parent without an entry (comma-ok: %v, miss leaves the loop: %v): the missing parent's zero time is taken for 'unset' when it is the first parent, the low mark becomes the other parent's time and cached specific points are sent alone before their match arrives — the result depends on which parent is numbered first and on the interleaving", commaOK, exits)
			return true
		})
		return true
	})
	c.Floor("C12.lowmark", "reads of lowMarks in the all-parents loop", nReads, 1)
}
