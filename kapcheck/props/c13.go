package props

import (
	"fmt"
	"go/ast"
	"go/constant"
	"go/token"
	"go/types"
	"sort"
	"strings"
	"unicode"

	"golang.org/x/tools/go/packages"

	"kapcheck/an"
	"kapcheck/core"
)

func init() {
	register(&Property{
		ID:       "C13",
		Patterns: []string{"./tick", "./tick/ast", "./pipeline", "./pipeline/tick"},
		Run:      runC13,
		Explanation: "Writer/reader table agreement for the serialisations behind the round trips: for all AST node types the typeOf written by MarshalJSON, the typeOf checked by unmarshal and the " +
			"factory case of JSONNode.getNode agree; the key sets written and read are equal, bind the same struct field with a reader of the setter's kind, and cover every field Equal compares; " +
			"the factory never calls a method on a nil interface. For pipeline nodes: the typeOf literal written equals the one checked on read, is constructible through exactly one registry " +
			"whose factory yields that node type, factories pass arguments of a dynamic type the callee's type switch accepts, and every overridden JSON field written from a node field is parsed back into that field. " +
			"For pipeline→TICKscript builders: every emitted chain/property name exists on the node (or a handler it returns) with an arity that accepts the arguments. " +
			"NOT decided: escaping, operator precedence/parenthesisation, comment placement, idempotence of formatting (properties of all programs).",
		Assumptions: []string{"encoding/json behaves as documented for embedded alias structs", "tick's reflection describer maps a property name to the capitalised method or field of that name"},
	})
}

func runC13(c *core.Ctx) {
	c13Rules4(c)
	c13Rules4b(c)
	c13MarshalPure(c)
	c13RefEscape(c)
	c13ZeroArgs(c)
	c.Rule("C13.typeof", "A7: per AST node type, MarshalJSON's Type(x) = unmarshal's CheckTypeOf(x), and getNode has a case x constructing that Go type; every typeOf a MarshalJSON can emit has a factory case")
	c.Rule("C13.keys", "A7: per AST node type, the keys written by MarshalJSON and read by unmarshal are the same set, bind the same struct field, and the reader is of the setter's kind")
	c.Rule("C13.formatfields", "A7: every field of an AST node that its Format prints from (and that therefore decides what the formatted script says) is written by MarshalJSON and assigned by unmarshal, or Format has a fallback for the field's zero value: a node read back from JSON must format to the text it came from (parentheses of a binary expression, the literal of a regex)")
	c.Rule("C13.equalfields", "A7: every field a node's Equal compares is written by MarshalJSON and assigned by unmarshal")
	c.Rule("C13.factory", "A9: JSONNode.getNode never reaches n.unmarshal with n unset (unknown typeOf ⇒ error)")
	c.Rule("C13.codec", "A7: a value written with pkg.Format<S> is read back with pkg.Parse<S> of the same package (JSONNode.SetDuration/Duration and every pipeline node's MarshalJSON/UnmarshalJSON pair): two duration syntaxes (influxql: w,d,u vs. Go: none of them) do not round-trip")
	c.Rule("C13.strescape", "A1: StringNode.Format writes the literal raw between triple quotes when TripleQuotes is set or the literal ends in a backslash (and has no triple quote inside; F43: such a literal has no single-quoted form), and otherwise single-quoted rune by rune with a backslash in front of a rune exactly when that rune is the quote (the parser's newString removes a backslash exactly in front of a quote)")
	c.Rule("C13.quoted", "A3: F42: the text of a ReferenceNode reaches formatted output only through the escaping loop of ReferenceNode.Format (a range over the text that tests each rune against the double quote); no Format method, nor a helper it calls, writes or concatenates ReferenceNode.Reference otherwise")
	c.Rule("C13.mlspan", "A3: F44: in parser.precedence the value passed as newBinary's multi-line flag does not derive from the Position() of an operand node (an operand's position is its operator, so such a span contains the operand's own line breaks and formatting never stabilises)")
	c.Rule("C13.fmtinput", "A3: tick.Format hands exactly its parameter to ast.Parse (once, never reassigned or rewritten before): nothing edits the raw text, whose string literals the formatter copies verbatim")
	c.Rule("C13.regexliteral", "A3: RegexNode.Literal — which Format writes verbatim between slashes — is only ever assigned text sliced out of a string parameter (the script source in newRegex); a node from JSON or built in code keeps it empty so that Format escapes the pattern")
	c.Rule("C13.pipetype", "A7: per pipeline node type, the typeOf literal(s) written by MarshalJSON equal those accepted by UnmarshalJSON")
	c.Rule("C13.jsonargs", "A7: F136: the pipeline JSON reader constructs every InfluxQL node with the arguments decoded from the document — no argument of the constructor call in an influxFunctions entry or in unmarshalTopBottom is a constant placeholder: what a node computes is fixed when it is constructed, the Args copied in afterwards are only listed")
	c.Rule("C13.registry", "A7: every typeOf a pipeline node marshals is a key of exactly one construction registry, and a chainFunctions/multiParents factory yields the node type that marshals that key")
	c.Rule("C13.parent", "A7: every chain node type that can be marshalled is accepted as a parent on read: it implements chainnodeAlias or isChainNode has a case for it")
	c.Rule("C13.factoryargs", "A7: registry factories pass constants whose dynamic type is accepted by the type switch of the constructor they reach")
	c.Rule("C13.override", "A7: a JSON field a pipeline node overrides on write from node field F is parsed back into F on read")
	c.Rule("C13.flags", "A7: every boolean property flag of a pipeline node (a bool field named …Flag, set by a parameterless or list property such as .keep(), .align(), .all()) is read by the node's pipeline→TICKscript builder: a flag the builder never looks at cannot be rendered, and a rendering that depends on something else (e.g. a non-empty argument list) loses the flag when it is set alone")
	c.Rule("C13.build", "A7: every name a pipeline→TICKscript builder emits (Pipe/Dot/DotIf/…) exists as chaining method, property method or field on the node type (or a handler type it returns), with fitting arity")

	if pkg := c.P.Pkg("tick/ast"); pkg != nil {
		c13AST(c, pkg)
		c13JSONRead(c, pkg)
		c13Codec(c, pkg, "JSONNode", "SetDuration", "JSONNode", "Duration")
		c13StrEscape(c, pkg)
		c13Quoted(c, pkg)
		c13MultiLineSpan(c, pkg)
		c13RegexLiteral(c, pkg)
	} else {
		c.Undecided("C13.typeof", "anchor:tick/ast", token.NoPos, "package not loaded")
	}
	if pkg := c.P.Pkg("tick"); pkg != nil {
		c13FmtInput(c, pkg)
	} else {
		c.Undecided("C13.fmtinput", "anchor:tick", token.NoPos, "package not loaded")
	}
	if pkg := c.P.Pkg("pipeline"); pkg != nil {
		c13Pipeline(c, pkg)
		if tp := c.P.Pkg("pipeline/tick"); tp != nil {
			c13Build(c, tp, pkg)
		}
	} else {
		c.Undecided("C13.pipetype", "anchor:pipeline", token.NoPos, "package not loaded")
	}
}

func strLit(info *types.Info, x ast.Expr) (string, bool) {
	if tv, ok := info.Types[x]; ok && tv.Value != nil && tv.Value.Kind() == constant.String {
		return constant.StringVal(tv.Value), true
	}
	return "", false
}

// recvField: x is `recv.F` for the method's receiver variable → F.
func recvField(info *types.Info, fd *ast.FuncDecl, x ast.Expr) string {
	sel, ok := ast.Unparen(x).(*ast.SelectorExpr)
	if !ok {
		return ""
	}
	id, ok := ast.Unparen(sel.X).(*ast.Ident)
	if !ok || fd.Recv == nil || len(fd.Recv.List) != 1 || len(fd.Recv.List[0].Names) != 1 {
		return ""
	}
	if info.Uses[id] != info.Defs[fd.Recv.List[0].Names[0]] {
		return ""
	}
	if s, ok := info.Selections[sel]; ok && s.Kind() == types.FieldVal {
		return sel.Sel.Name
	}
	return ""
}

func methodsByRecv(pkg *packages.Package, name string) map[string]*core.Func {
	out := map[string]*core.Func{}
	for _, f := range core.AllFuncs(pkg) {
		if f.Decl.Name.Name == name && f.Decl.Recv != nil {
			out[core.RecvName(f.Decl)] = f
		}
	}
	return out
}

var c13Readers = map[string]bool{"Field": true, "String": true, "Int64": true, "Float64": true, "Strings": true, "Duration": true, "Regex": true, "Bool": true,
	"Operator": true, "FunctionType": true, "NodeList": true, "Node": true, "IDNode": true, "RefNode": true}

var c13ReaderForSetter = map[string][]string{
	"SetDuration": {"Duration"}, "SetRegex": {"Regex"}, "SetOperator": {"Operator"}, "SetFunctionType": {"FunctionType"},
}

func c13ReaderForType(t types.Type) []string {
	switch u := t.Underlying().(type) {
	case *types.Basic:
		switch {
		case u.Info()&types.IsBoolean != 0:
			return []string{"Bool"}
		case u.Info()&types.IsString != 0:
			return []string{"String"}
		case u.Info()&types.IsInteger != 0:
			return []string{"Int64"}
		case u.Info()&types.IsFloat != 0:
			return []string{"Float64"}
		}
	case *types.Slice:
		if b, ok := u.Elem().Underlying().(*types.Basic); ok && b.Info()&types.IsString != 0 {
			return []string{"Strings"}
		}
		return []string{"NodeList"}
	case *types.Interface:
		return []string{"Node"}
	case *types.Pointer:
		return []string{"Node", "IDNode", "RefNode"}
	}
	return nil
}

// fields that choose between two spellings of the same program (reviewed; one line of reason each)
var c13LayoutOnly = map[string]string{
	"BinaryNode.MultiLine":    "only decides whether the operands are put on separate lines",
	"FunctionNode.MultiLine":  "only decides whether the arguments are put on separate lines",
	"StringNode.TripleQuotes": "chooses the quoting style; the single-quoted form escapes exactly what the parser unescapes (C13.strescape)",
}

func c13AST(c *core.Ctx, pkg *packages.Package) {
	info := pkg.TypesInfo
	marsh := methodsByRecv(pkg, "MarshalJSON")
	unm := methodsByRecv(pkg, "unmarshal")
	equal := methodsByRecv(pkg, "Equal")
	formatM := methodsByRecv(pkg, "Format")
	typeOfM := methodsByRecv(pkg, "TypeOf")

	resolveType := func(fd *ast.FuncDecl, x ast.Expr) (string, bool) {
		if s, ok := strLit(info, x); ok {
			return s, true
		}
		// n.TypeOf() → the constant that method returns
		if call, ok := ast.Unparen(x).(*ast.CallExpr); ok {
			if fn := core.Callee(info, call); fn != nil && fn.Name() == "TypeOf" {
				if m := typeOfM[core.RecvTypeName(fn)]; m != nil && len(an.Effective(m.Decl.Body.List)) == 1 {
					if r, ok := an.Effective(m.Decl.Body.List)[0].(*ast.ReturnStmt); ok && len(r.Results) == 1 {
						return strLit(info, r.Results[0])
					}
				}
			}
		}
		return "", false
	}

	// factory cases
	factory := map[string]string{} // typeOf -> Go type
	if fn := c.Need("C13.factory", "tick/ast", "JSONNode", "getNode"); fn != nil {
		ast.Inspect(fn.Decl.Body, func(n ast.Node) bool {
			cc, ok := n.(*ast.CaseClause)
			if !ok {
				return true
			}
			for _, e := range cc.List {
				s, ok := strLit(info, e)
				if !ok {
					continue
				}
				ast.Inspect(cc, func(m ast.Node) bool {
					if cl, ok := m.(*ast.CompositeLit); ok {
						if tv, ok := info.Types[cl]; ok {
							if nt := core.NamedOf(tv.Type); nt != nil {
								factory[s] = nt.Obj().Name()
							}
						}
					}
					return true
				})
			}
			return true
		})
		// nil fall-through: a path on which no case matched must not reach unmarshal
		eng := &an.Engine{Prog: c.P,
			TrackCall: func(call *ast.CallExpr, callee *types.Func) string {
				if callee != nil && callee.Name() == "unmarshal" {
					return "unmarshal"
				}
				return ""
			},
			TrackStore: func(lhs ast.Expr, key string) string {
				if id, ok := ast.Unparen(lhs).(*ast.Ident); ok {
					if v, ok := info.Uses[id].(*types.Var); ok && types.IsInterface(v.Type()) && v.Type().String() == pkg.PkgPath+".Node" {
						return "setnode"
					}
				}
				return ""
			}}
		paths, err := eng.Run(fn)
		if err != nil {
			c.Undecided("C13.factory", "JSONNode.getNode", fn.Decl.Pos(), "%v", err)
		}
		bad := false
		for _, p := range paths {
			ui := p.Index("unmarshal")
			if ui < 0 {
				continue
			}
			set := false
			for _, e := range p.Events[:ui] {
				if e.Kind == "store" && e.Name == "setnode" && e.Args[0] != "nil" {
					set = true
				}
			}
			if !set {
				bad = true
				c.Fail("C13.factory", "JSONNode.getNode#nil-node", p.Events[ui].Pos, "n.unmarshal is reached with n never assigned (typeOf matched no case): a method call on a nil interface panics")
				break
			}
		}
		if !bad && len(paths) > 0 {
			c.Ok("C13.factory", "JSONNode.getNode#nil-node")
		}
	}
	c.Floor("C13.typeof", "getNode factory cases", len(factory), 15)

	var names []string
	for n := range marsh {
		names = append(names, n)
	}
	sort.Strings(names)
	c.Floor("C13.typeof", "AST node types with MarshalJSON", len(names), 15)
	for _, tn := range names {
		m := marsh[tn]
		u := unm[tn]
		c.Analysed(m)
		if u == nil {
			c.Fail("C13.typeof", tn, m.Decl.Pos(), "type has MarshalJSON but no unmarshal")
			continue
		}
		c.Analysed(u)
		// --- marshal side
		type wr struct {
			fields map[string]bool
			setter string
			pos    token.Pos
			ftype  types.Type
			want   []string // readers that fit any of the writes of this key
		}
		written := map[string]*wr{}
		var mType string
		var mTypeOK bool
		ast.Inspect(m.Decl.Body, func(n ast.Node) bool {
			call, ok := n.(*ast.CallExpr)
			if !ok {
				return true
			}
			fn := core.Callee(info, call)
			if fn == nil || core.RecvTypeName(fn) != "JSONNode" {
				return true
			}
			switch fn.Name() {
			case "Type":
				mType, mTypeOK = resolveType(m.Decl, call.Args[0])
			case "Set", "SetDuration", "SetRegex", "SetOperator", "SetFunctionType":
				k, ok := strLit(info, call.Args[0])
				if !ok {
					c.Undecided("C13.keys", tn+"#dynamic-key", call.Pos(), "key is not a constant")
					return true
				}
				w := written[k]
				if w == nil {
					w = &wr{fields: map[string]bool{}, setter: fn.Name(), pos: call.Pos()}
					written[k] = w
				}
				if f := recvField(info, m.Decl, call.Args[1]); f != "" {
					w.fields[f] = true
					if tv, ok := info.Types[call.Args[1]]; ok {
						w.ftype = tv.Type
					}
				}
				if rs := c13ReaderForSetter[fn.Name()]; rs != nil {
					w.want = append(w.want, rs...)
				} else if tv, ok := info.Types[call.Args[1]]; ok && tv.Type != nil {
					if rs := c13ReaderForType(tv.Type); rs != nil {
						w.want = append(w.want, rs...)
					} else {
						w.want = append(w.want, "*")
					}
				}
			}
			return true
		})
		// --- unmarshal side
		type rd struct {
			field  string
			reader string
			pos    token.Pos
		}
		read := map[string]*rd{}
		var uType string
		var uTypeOK bool
		propsObj := types.Object(nil)
		if len(u.Decl.Type.Params.List) == 1 && len(u.Decl.Type.Params.List[0].Names) == 1 {
			propsObj = info.Defs[u.Decl.Type.Params.List[0].Names[0]]
		}
		localFor := map[types.Object]string{} // local var -> key it was read from
		ast.Inspect(u.Decl.Body, func(n ast.Node) bool {
			switch s := n.(type) {
			case *ast.CallExpr:
				if fn := core.Callee(info, s); fn != nil && core.RecvTypeName(fn) == "JSONNode" && fn.Name() == "CheckTypeOf" {
					uType, uTypeOK = resolveType(u.Decl, s.Args[0])
				}
			case *ast.AssignStmt:
				if len(s.Rhs) != 1 {
					return true
				}
				if call, ok := ast.Unparen(s.Rhs[0]).(*ast.CallExpr); ok {
					fn := core.Callee(info, call)
					if fn != nil && core.RecvTypeName(fn) == "JSONNode" && len(call.Args) == 1 && c13Readers[fn.Name()] {
						if sel, ok := call.Fun.(*ast.SelectorExpr); ok {
							if id, ok := sel.X.(*ast.Ident); ok && info.Uses[id] == propsObj {
								if k, ok := strLit(info, call.Args[0]); ok {
									r := &rd{reader: fn.Name(), pos: call.Pos()}
									if f := recvField(info, u.Decl, s.Lhs[0]); f != "" {
										r.field = f
									} else if lid, ok := s.Lhs[0].(*ast.Ident); ok {
										obj := info.Defs[lid]
										if obj == nil {
											obj = info.Uses[lid]
										}
										localFor[obj] = k
									}
									read[k] = r
								}
							}
						}
						return true
					}
				}
				// n.F = conv(local)
				for i, l := range s.Lhs {
					f := recvField(info, u.Decl, l)
					if f == "" || i >= len(s.Rhs) {
						continue
					}
					ast.Inspect(s.Rhs[i], func(m ast.Node) bool {
						if id, ok := m.(*ast.Ident); ok {
							if k, ok := localFor[info.Uses[id]]; ok && read[k] != nil && read[k].field == "" {
								read[k].field = f
							}
						}
						return true
					})
				}
			}
			return true
		})

		// typeOf three-way
		switch {
		case !mTypeOK || !uTypeOK:
			c.Undecided("C13.typeof", tn, m.Decl.Pos(), "typeOf argument is not a resolvable constant (marshal %v, unmarshal %v)", mTypeOK, uTypeOK)
		case mType != uType:
			c.Fail("C13.typeof", tn+"#marshal-vs-unmarshal", m.Decl.Pos(), "MarshalJSON writes typeOf %q but unmarshal checks %q", mType, uType)
		default:
			c.Ok("C13.typeof", tn+"#marshal-vs-unmarshal")
		}
		if mTypeOK {
			got, ok := factory[mType]
			switch {
			case !ok:
				c.Fail("C13.typeof", tn+"#factory-case", m.Decl.Pos(), "MarshalJSON emits typeOf %q for which JSONNode.getNode has no case: the node cannot be read back", mType)
			case got != tn:
				c.Fail("C13.typeof", tn+"#factory-case", m.Decl.Pos(), "getNode case %q constructs %s, not %s", mType, got, tn)
			default:
				c.Ok("C13.typeof", tn+"#factory-case")
			}
		}
		// key agreement
		for _, k := range an.SortedKeys(written) {
			w := written[k]
			r := read[k]
			if r == nil {
				c.Fail("C13.keys", tn+"."+k+"#read", w.pos, "key %q is written by MarshalJSON but never read by unmarshal", k)
				continue
			}
			if len(w.fields) > 0 && r.field != "" && !w.fields[r.field] {
				c.Fail("C13.keys", tn+"."+k+"#field", r.pos, "key %q is written from field(s) %v but read into field %s", k, an.SortedKeys(w.fields), r.field)
				continue
			}
			want := w.want
			if matchAny("*", want) {
				want = nil
			}
			if want != nil && !matchAny(r.reader, want) {
				c.Fail("C13.keys", tn+"."+k+"#reader", r.pos, "key %q is written with %s (Go type %v) but read with %s; expected %v", k, w.setter, w.ftype, r.reader, want)
				continue
			}
			c.Ok("C13.keys", tn+"."+k)
		}
		for _, k := range an.SortedKeys(read) {
			if written[k] == nil {
				c.Fail("C13.keys", tn+"."+k+"#written", read[k].pos, "key %q is read by unmarshal but never written by MarshalJSON", k)
			}
		}
		// Format-field completeness
		if fm := formatM[tn]; fm != nil {
			wf, rf := map[string]bool{}, map[string]bool{}
			for _, w := range written {
				for f := range w.fields {
					wf[f] = true
				}
			}
			for _, r := range read {
				if r.field != "" {
					rf[r.field] = true
				}
			}
			fields := map[string]token.Pos{}
			locals := map[types.Object]string{} // local := n.Field
			ast.Inspect(fm.Decl.Body, func(n ast.Node) bool {
				switch x := n.(type) {
				case *ast.SelectorExpr:
					if f := recvField(info, fm.Decl, x); f != "" {
						fields[f] = x.Pos()
					}
				case *ast.AssignStmt:
					if len(x.Lhs) == 1 && len(x.Rhs) == 1 {
						if sel, ok := ast.Unparen(x.Rhs[0]).(*ast.SelectorExpr); ok {
							if f := recvField(info, fm.Decl, sel); f != "" {
								if id, ok := x.Lhs[0].(*ast.Ident); ok && info.Defs[id] != nil {
									locals[info.Defs[id]] = f
								}
							}
						}
					}
				}
				return true
			})
			fallback := map[string]bool{}
			ast.Inspect(fm.Decl.Body, func(n ast.Node) bool {
				be, ok := n.(*ast.BinaryExpr)
				if !ok || (be.Op != token.EQL && be.Op != token.NEQ) {
					return true
				}
				zero := func(x ast.Expr) bool {
					s := types.ExprString(x)
					return s == `""` || s == "nil" || s == "0"
				}
				for _, pair := range [][2]ast.Expr{{be.X, be.Y}, {be.Y, be.X}} {
					if !zero(pair[1]) || be.Op != token.EQL {
						continue
					}
					if sel, ok := ast.Unparen(pair[0]).(*ast.SelectorExpr); ok {
						if f := recvField(info, fm.Decl, sel); f != "" {
							fallback[f] = true
						}
					}
					if id, ok := ast.Unparen(pair[0]).(*ast.Ident); ok {
						if f, ok := locals[info.Uses[id]]; ok {
							fallback[f] = true
						}
					}
				}
				return true
			})
			for _, f := range an.SortedKeys(fields) {
				if f == "Comment" || f == "position" {
					continue // comments are separate nodes of the program; positions are not part of what a script says
				}
				if why, ok := c13LayoutOnly[tn+"."+f]; ok {
					c.Ok("C13.formatfields", tn+"."+f)
					c.Note("C13.formatfields: %s.%s is not in the JSON form: %s", tn, f, why)
					continue
				}
				switch {
				case wf[f] && rf[f], fallback[f]:
					c.Ok("C13.formatfields", tn+"."+f)
				default:
					c.Fail("C13.formatfields", tn+"."+f, fields[f], "Format prints from field %s, which the JSON form does not carry (written %v, read %v) and for which Format has no zero-value fallback: a %s read back from JSON is formatted differently from the script it came from", f, wf[f], rf[f], tn)
				}
			}
		}
		// Equal-field completeness
		if eq := equal[tn]; eq != nil {
			c.Analysed(eq)
			fields := map[string]token.Pos{}
			ast.Inspect(eq.Decl.Body, func(n ast.Node) bool {
				if sel, ok := n.(*ast.SelectorExpr); ok {
					if f := recvField(info, eq.Decl, sel); f != "" {
						fields[f] = sel.Pos()
					}
				}
				return true
			})
			wf, rf := map[string]bool{}, map[string]bool{}
			for _, w := range written {
				for f := range w.fields {
					wf[f] = true
				}
			}
			for _, r := range read {
				if r.field != "" {
					rf[r.field] = true
				}
			}
			for _, f := range an.SortedKeys(fields) {
				switch {
				case !wf[f]:
					c.Fail("C13.equalfields", tn+"."+f, fields[f], "Equal compares field %s but MarshalJSON does not write it: the node does not survive a JSON round trip", f)
				case !rf[f]:
					c.Fail("C13.equalfields", tn+"."+f, fields[f], "Equal compares field %s but unmarshal does not assign it", f)
				default:
					c.Ok("C13.equalfields", tn+"."+f)
				}
			}
		}
	}
}

// ---------------------------------------------------------------- pipeline JSON

func c13Pipeline(c *core.Ctx, pkg *packages.Package) {
	info := pkg.TypesInfo
	marsh := methodsByRecv(pkg, "MarshalJSON")
	unm := methodsByRecv(pkg, "UnmarshalJSON")
	typeLits := func(f *core.Func, marshal bool) (map[string]token.Pos, bool) {
		out := map[string]token.Pos{}
		dynamic := false
		ast.Inspect(f.Decl.Body, func(n ast.Node) bool {
			if marshal {
				kv, ok := n.(*ast.KeyValueExpr)
				if !ok {
					return true
				}
				id, ok := kv.Key.(*ast.Ident)
				if !ok || id.Name != "Type" {
					return true
				}
				// must be a field of pipeline.TypeOf
				if v, ok := info.Uses[id].(*types.Var); !ok || !v.IsField() {
					return true
				}
				if s, ok := strLit(info, kv.Value); ok {
					out[s] = kv.Pos()
				} else {
					dynamic = true
				}
				return true
			}
			be, ok := n.(*ast.BinaryExpr)
			if !ok || (be.Op != token.NEQ && be.Op != token.EQL) {
				return true
			}
			sel, ok := ast.Unparen(be.X).(*ast.SelectorExpr)
			if !ok || sel.Sel.Name != "Type" {
				return true
			}
			if s, ok := strLit(info, be.Y); ok {
				out[s] = be.Pos()
			} else {
				dynamic = true
			}
			return true
		})
		return out, dynamic
	}

	// registries
	registries := map[string]map[string]ast.Expr{}
	for _, f := range core.AllFuncs(pkg) {
		if f.Decl.Name.Name != "init" || f.Decl.Recv != nil {
			continue
		}
		for _, s := range f.Decl.Body.List {
			as, ok := s.(*ast.AssignStmt)
			if !ok || len(as.Lhs) != 1 || len(as.Rhs) != 1 {
				continue
			}
			id, ok := as.Lhs[0].(*ast.Ident)
			cl, ok2 := as.Rhs[0].(*ast.CompositeLit)
			if !ok || !ok2 {
				continue
			}
			if _, isMap := info.Types[cl].Type.Underlying().(*types.Map); !isMap {
				continue
			}
			reg := map[string]ast.Expr{}
			for _, el := range cl.Elts {
				if kv, ok := el.(*ast.KeyValueExpr); ok {
					if k, ok := strLit(info, kv.Key); ok {
						reg[k] = kv.Value
					}
				}
			}
			registries[id.Name] = reg
		}
	}
	c.Floor("C13.registry", "construction registries", len(registries), 6)

	typeOfNode := map[string]string{} // typeOf literal -> node type
	var names []string
	for n := range marsh {
		names = append(names, n)
	}
	sort.Strings(names)
	nLits := 0
	for _, tn := range names {
		m := marsh[tn]
		// only pipeline nodes (types with an ID() method)
		u := unm[tn]
		ml, mdyn := typeLits(m, true)
		if len(ml) == 0 && !mdyn {
			continue
		}
		c.Analysed(m)
		for s := range ml {
			typeOfNode[s] = tn
		}
		nLits += len(ml)
		if u == nil {
			c.Fail("C13.pipetype", tn, m.Decl.Pos(), "MarshalJSON without UnmarshalJSON")
			continue
		}
		c.Analysed(u)
		ul, udyn := typeLits(u, false)
		if mdyn || udyn {
			c.Note("C13.pipetype: %s uses a computed typeOf (marshal dynamic=%v, unmarshal dynamic=%v)", tn, mdyn, udyn)
		}
		for _, s := range an.SortedKeys(ml) {
			if _, ok := ul[s]; ok || udyn {
				c.Ok("C13.pipetype", tn+"#"+s)
			} else {
				c.Fail("C13.pipetype", tn+"#"+s, ml[s], "MarshalJSON writes typeOf %q which UnmarshalJSON of %s does not accept (accepts %v)", s, tn, an.SortedKeys(ul))
			}
		}
		for _, s := range an.SortedKeys(ul) {
			if _, ok := ml[s]; !ok && !mdyn {
				c.Fail("C13.pipetype", tn+"#"+s+"#unwritten", ul[s], "UnmarshalJSON of %s accepts typeOf %q which its MarshalJSON never writes (writes %v)", tn, s, an.SortedKeys(ml))
			}
		}
		c13Override(c, pkg, tn, m, u)
		c13CodecFuncs(c, pkg, tn, m, u)
	}
	c.Floor("C13.pipetype", "typeOf literals written by pipeline nodes", nLits, 28)

	// registry membership
	for _, s := range an.SortedKeys(typeOfNode) {
		var in []string
		for rn, reg := range registries {
			if _, ok := reg[s]; ok {
				in = append(in, rn)
			}
		}
		sort.Strings(in)
		switch len(in) {
		case 1:
			c.Ok("C13.registry", "member:"+s)
		case 0:
			c.Fail("C13.registry", "member:"+s, token.NoPos, "%s marshals typeOf %q but no construction registry has that key: a pipeline JSON containing the node cannot be read back", typeOfNode[s], s)
		default:
			c.Fail("C13.registry", "member:"+s, token.NoPos, "typeOf %q is a key of several registries %v (the first lookup wins)", s, in)
		}
	}
	// factories yield the right node type
	for _, rn := range []string{"chainFunctions", "multiParents", "sourceFunctions"} {
		for _, k := range an.SortedKeys(registries[rn]) {
			fl, ok := registries[rn][k].(*ast.FuncLit)
			if !ok {
				continue
			}
			sig, _ := info.Types[fl].Type.(*types.Signature)
			_ = sig
			var ret ast.Expr
			ast.Inspect(fl.Body, func(n ast.Node) bool {
				if r, ok := n.(*ast.ReturnStmt); ok && len(r.Results) == 1 {
					ret = r.Results[0]
				}
				return true
			})
			if ret == nil {
				continue
			}
			tv := info.Types[ret]
			nt := core.NamedOf(tv.Type)
			if nt == nil {
				continue
			}
			want, known := typeOfNode[k]
			if !known {
				c.Fail("C13.registry", rn+"["+k+"]#unknown-key", fl.Pos(), "registry key %q is not a typeOf any node marshals", k)
				continue
			}
			c.Check(nt.Obj().Name() == want, "C13.registry", rn+"["+k+"]#yields", fl.Pos(), "factory for %q yields %s but the typeOf is written by %s", k, nt.Obj().Name(), want)
			c13FactoryArgs(c, pkg, rn+"["+k+"]", fl)
		}
	}
	c13Parent(c, pkg, typeOfNode)
	// influxFunctions: key = lowerFirst(method called)
	nInflux := 0
	for _, k := range an.SortedKeys(registries["influxFunctions"]) {
		// the entry is a function literal, a literal wrapped by a helper of the table (noArgs(func…)), or a declared function
		var fl *ast.FuncLit
		shared := false
		switch v := ast.Unparen(registries["influxFunctions"][k]).(type) {
		case *ast.FuncLit:
			fl = v
		case *ast.CallExpr:
			for _, a := range v.Args {
				if l, ok := ast.Unparen(a).(*ast.FuncLit); ok {
					fl = l
				}
			}
		case *ast.Ident:
			if fo, ok := info.Uses[v].(*types.Func); ok {
				if d := declOfFunc(c.P, fo); d != nil && d.Decl.Body != nil {
					fl = &ast.FuncLit{Type: d.Decl.Type, Body: d.Decl.Body}
					shared = true
				}
			}
		}
		if fl == nil {
			c.Undecided("C13.registry", "influxFunctions["+k+"]#method", token.NoPos, "the entry is neither a function literal, a wrapped literal nor a declared function")
			continue
		}
		nInflux++
		var called string
		ast.Inspect(fl.Body, func(n ast.Node) bool {
			if call, ok := n.(*ast.CallExpr); ok {
				if fn := core.Callee(info, call); fn != nil && core.RecvTypeName(fn) != "" {
					called = fn.Name()
				}
			}
			return true
		})
		// F136: the node is constructed with what the document says, not with placeholders: no argument of the constructor call
		// is a constant (what the node computes is fixed by the constructor, the Args copied in afterwards are only listed)
		ast.Inspect(fl.Body, func(n ast.Node) bool {
			call, ok := n.(*ast.CallExpr)
			if !ok {
				return true
			}
			if fn := core.Callee(info, call); fn == nil || core.RecvTypeName(fn) == "" || fn.Name() != called {
				return true
			}
			for i, a := range call.Args {
				if tv, ok := info.Types[a]; ok && tv.Value != nil {
					c.Fail("C13.jsonargs", "influxFunctions["+k+"]#arg"+fmt.Sprint(i), a.Pos(), "the JSON reader constructs %s with the constant %s for an argument the document carries: the node read back lists the document's arguments and computes with the placeholder — percentile('value', 90.0) computes the 0th percentile, top(1, 'value') indexes an empty list when it runs", k, types.ExprString(a))
					return true
				}
			}
			c.Ok("C13.jsonargs", "influxFunctions["+k+"]")
			return true
		})
		// a declared function shared by two keys (holtWinters, holtWintersWithFit) calls the method both are variants of
		okKey := lowerFirst(called) == k || (shared && called != "" && strings.HasPrefix(k, lowerFirst(called)))
		c.Check(okKey, "C13.registry", "influxFunctions["+k+"]#method", fl.Body.Pos(), "key %q constructs the node through %s()", k, called)
		c13FactoryArgs(c, pkg, "influxFunctions["+k+"]", fl)
	}
	c.Floor("C13.registry", "entries of influxFunctions", nInflux, 19)
	// top and bottom have a reader of their own
	if fn := c.Need("C13.jsonargs", "pipeline", "", "unmarshalTopBottom"); fn != nil {
		ast.Inspect(fn.Decl.Body, func(n ast.Node) bool {
			call, ok := n.(*ast.CallExpr)
			if !ok {
				return true
			}
			cal := core.Callee(info, call)
			if cal == nil || (cal.Name() != "Top" && cal.Name() != "Bottom") || len(call.Args) == 0 {
				return true
			}
			tv, isConst := info.Types[call.Args[0]]
			c.Check(!(isConst && tv.Value != nil), "C13.jsonargs", "unmarshalTopBottom#"+cal.Name(), call.Pos(), "the JSON reader constructs %s with a constant number of points: the node read back lists the document's number and selects %s points — top(1, 'value') indexes an empty list when it runs", lowerFirst(cal.Name()), types.ExprString(call.Args[0]))
			return true
		})
	}
}

func lowerFirst(s string) string {
	if s == "" {
		return s
	}
	r := []rune(s)
	r[0] = unicode.ToLower(r[0])
	return string(r)
}
func upperFirst(s string) string {
	if s == "" {
		return s
	}
	r := []rune(s)
	r[0] = unicode.ToUpper(r[0])
	return string(r)
}

// c13FactoryArgs: constants passed to interface{} parameters must have a
// dynamic type some case of the type switch they reach accepts.
func c13FactoryArgs(c *core.Ctx, pkg *packages.Package, where string, fl *ast.FuncLit) {
	info := pkg.TypesInfo
	ast.Inspect(fl.Body, func(n ast.Node) bool {
		call, ok := n.(*ast.CallExpr)
		if !ok {
			return true
		}
		fn := core.Callee(info, call)
		if fn == nil {
			return true
		}
		sig := fn.Type().(*types.Signature)
		for i, a := range call.Args {
			if i >= sig.Params().Len() {
				break
			}
			pt := sig.Params().At(i).Type()
			if it, ok := pt.Underlying().(*types.Interface); !ok || it.NumMethods() != 0 {
				continue
			}
			tv := info.Types[a]
			if tv.Value == nil && !tv.IsNil() {
				continue
			}
			dyn := "nil"
			if !tv.IsNil() {
				dyn = types.Default(tv.Type).String()
			}
			cases, pos := typeSwitchCases(c, fn, i, 2)
			if cases == nil {
				continue
			}
			good := false
			for _, cs := range cases {
				if cs == dyn {
					good = true
				}
			}
			if dyn == "nil" {
				good = true // nil selects no case; constructors treat it as "unset"
			}
			c.Check(good, "C13.factoryargs", where+"#"+fn.Name()+".arg"+fmt.Sprint(i), call.Pos(),
				"passes a constant of dynamic type %s to %s, whose type switch (%s) accepts only %v and panics/errors otherwise", dyn, fn.Name(), c.P.Pos(pos), cases)
		}
		return true
	})
}

// typeSwitchCases finds a type switch on parameter i of fn (following the
// parameter through direct forwarding calls up to depth) and returns its case types.
func typeSwitchCases(c *core.Ctx, fn *types.Func, i int, depth int) ([]string, token.Pos) {
	d := declOfFunc(c.P, fn)
	if d == nil && fn.Pkg() != nil {
		// interface method: use the implementation declared in the same package
		if pkg := c.P.ByPath[fn.Pkg().Path()]; pkg != nil {
			for _, f := range core.AllFuncs(pkg) {
				if f.Decl.Recv != nil && f.Decl.Name.Name == fn.Name() && types.Identical(f.Obj.Type().(*types.Signature).Params(), fn.Type().(*types.Signature).Params()) {
					d = f
					break
				}
			}
		}
	}
	if d == nil || d.Decl.Body == nil {
		return nil, token.NoPos
	}
	info := d.Pkg.TypesInfo
	var par types.Object
	n := 0
	for _, f := range d.Decl.Type.Params.List {
		for _, id := range f.Names {
			if n == i {
				par = info.Defs[id]
			}
			n++
		}
	}
	if par == nil {
		return nil, token.NoPos
	}
	var cases []string
	var pos token.Pos
	var fwd *types.Func
	fwdIdx := -1
	ast.Inspect(d.Decl.Body, func(nd ast.Node) bool {
		switch s := nd.(type) {
		case *ast.TypeSwitchStmt:
			var x ast.Expr
			switch a := s.Assign.(type) {
			case *ast.ExprStmt:
				x = a.X.(*ast.TypeAssertExpr).X
			case *ast.AssignStmt:
				x = a.Rhs[0].(*ast.TypeAssertExpr).X
			}
			if id, ok := ast.Unparen(x).(*ast.Ident); ok && info.Uses[id] == par {
				pos = s.Pos()
				hasDefaultOK := false
				for _, cl := range s.Body.List {
					cc := cl.(*ast.CaseClause)
					if cc.List == nil {
						// a default that neither panics nor returns an error accepts everything
						bad := false
						ast.Inspect(cc, func(m ast.Node) bool {
							if call, ok := m.(*ast.CallExpr); ok && core.IsBuiltin(info, call, "panic") {
								bad = true
							}
							if _, ok := m.(*ast.ReturnStmt); ok {
								bad = true
							}
							return true
						})
						if !bad {
							hasDefaultOK = true
						}
						continue
					}
					for _, t := range cc.List {
						if tv, ok := info.Types[t]; ok && tv.Type != nil {
							cases = append(cases, tv.Type.String())
						} else {
							cases = append(cases, types.ExprString(t))
						}
					}
				}
				if hasDefaultOK {
					cases = nil
					pos = token.NoPos
				}
			}
		case *ast.CallExpr:
			for j, a := range s.Args {
				if id, ok := ast.Unparen(a).(*ast.Ident); ok && info.Uses[id] == par {
					if f := core.Callee(info, s); f != nil {
						fwd, fwdIdx = f, j
					}
				}
			}
		}
		return true
	})
	if cases != nil {
		return cases, pos
	}
	if fwd != nil && depth > 0 {
		return typeSwitchCases(c, fwd, fwdIdx, depth-1)
	}
	return nil, token.NoPos
}

func declOfFunc(p *core.Prog, fn *types.Func) *core.Func {
	if fn == nil || fn.Pkg() == nil {
		return nil
	}
	pkg := p.ByPath[fn.Pkg().Path()]
	if pkg == nil {
		return nil
	}
	for _, f := range pkg.Syntax {
		if f.Pos() <= fn.Pos() && fn.Pos() < f.End() {
			for _, d := range f.Decls {
				if fd, ok := d.(*ast.FuncDecl); ok && fd.Name.Pos() == fn.Pos() {
					return &core.Func{Pkg: pkg, Decl: fd, Obj: fn}
				}
			}
		}
	}
	return nil
}

// c13Override: fields of the anonymous wrapper struct written from n.F must be parsed back into n.F.
func c13Override(c *core.Ctx, pkg *packages.Package, tn string, m, u *core.Func) {
	info := pkg.TypesInfo
	// marshal: composite literal fields X: expr mentioning recv.F
	over := map[string]map[string]bool{} // wrapper field -> node fields it is computed from
	pos := map[string]token.Pos{}
	ast.Inspect(m.Decl.Body, func(n ast.Node) bool {
		kv, ok := n.(*ast.KeyValueExpr)
		if !ok {
			return true
		}
		id, ok := kv.Key.(*ast.Ident)
		if !ok || id.Name == "TypeOf" || id.Name == "Alias" || id.Name == "Type" || id.Name == "ID" {
			return true
		}
		ast.Inspect(kv.Value, func(x ast.Node) bool {
			if sel, ok := x.(*ast.SelectorExpr); ok {
				if f := recvField(info, m.Decl, sel); f != "" {
					if over[id.Name] == nil {
						over[id.Name] = map[string]bool{}
					}
					over[id.Name][f] = true
					pos[id.Name] = kv.Pos()
				}
			}
			return true
		})
		return true
	})
	if len(over) == 0 {
		return
	}
	// unmarshal: assignments to recv.F whose RHS mentions <raw>.X
	back := map[string]map[string]bool{} // wrapper field -> node fields assigned from it
	ast.Inspect(u.Decl.Body, func(n ast.Node) bool {
		as, ok := n.(*ast.AssignStmt)
		if !ok {
			return true
		}
		for i, l := range as.Lhs {
			f := recvField(info, u.Decl, l)
			if f == "" {
				continue
			}
			rhs := as.Rhs[0]
			if i < len(as.Rhs) {
				rhs = as.Rhs[i]
			}
			ast.Inspect(rhs, func(x ast.Node) bool {
				if sel, ok := x.(*ast.SelectorExpr); ok {
					if back[sel.Sel.Name] == nil {
						back[sel.Sel.Name] = map[string]bool{}
					}
					back[sel.Sel.Name][f] = true
				}
				return true
			})
		}
		return true
	})
	for _, w := range an.SortedKeys(over) {
		for _, f := range an.SortedKeys(over[w]) {
			// a wrapper field that merely re-exposes an exported field of the same name is decoded by the alias itself
			if back[w][f] {
				c.Ok("C13.override", tn+"."+w+"->"+f)
				continue
			}
			// accepted: the field is unexported on the node only if it is restored some other way; otherwise report
			if len(back[w]) == 0 && ast.IsExported(f) && w == f {
				c.Ok("C13.override", tn+"."+w+"->"+f)
				continue
			}
			c.Fail("C13.override", tn+"."+w+"->"+f, pos[w], "MarshalJSON writes wrapper field %s from node field %s, but UnmarshalJSON does not assign %s from it (assigns %v)", w, f, f, an.SortedKeys(back[w]))
		}
	}
}

// ---------------------------------------------------------------- pipeline → TICKscript builders

func c13Build(c *core.Ctx, tp, pp *packages.Package) {
	info := tp.TypesInfo
	emitters := map[string]bool{"Pipe": true, "At": true, "Dot": true, "DotZeroValueOK": true, "DotRemoveZeroValue": true, "DotIf": true, "DotNotNil": true, "DotNotEmpty": true}
	nBuild, nEmit := 0, 0
	for _, f := range core.AllFuncs(tp) {
		if f.Decl.Name.Name != "Build" || f.Decl.Recv == nil {
			continue
		}
		// the pipeline node type rendered: the (first) parameter of pointer-to-pipeline-struct type
		var node *types.Named
		for _, p := range f.Decl.Type.Params.List {
			if tv, ok := info.Types[p.Type]; ok {
				if nt := core.NamedOf(tv.Type); nt != nil && nt.Obj().Pkg() == pp.Types {
					node = nt
					break
				}
			}
		}
		if node == nil {
			continue
		}
		nBuild++
		c.Analysed(f)
		cands := c13Candidates(pp, node)
		ast.Inspect(f.Decl.Body, func(n ast.Node) bool {
			call, ok := n.(*ast.CallExpr)
			if !ok {
				return true
			}
			fn := core.Callee(info, call)
			if fn == nil || core.RecvTypeName(fn) != "Function" || !emitters[fn.Name()] || len(call.Args) == 0 {
				return true
			}
			name, ok := strLit(info, call.Args[0])
			if !ok {
				return true // computed name (e.g. the InfluxQL method): not readable here
			}
			nEmit++
			nargs := len(call.Args) - 1
			if call.Ellipsis.IsValid() {
				nargs = -1
			}
			if fn.Name() == "DotIf" {
				nargs = 0
			}
			cons := core.RecvName(f.Decl) + "." + fn.Name() + "(" + name + ")"
			if fn.Name() == "Pipe" || fn.Name() == "At" {
				// chaining method: some type of the pipeline package has a method Capitalised(name) returning the node type
				good := c13ChainMethodExists(pp, upperFirst(name), node)
				c.Check(good, "C13.build", cons, call.Pos(), "no pipeline type has a chaining method %s returning *%s: the rendered script would not evaluate back to this node", upperFirst(name), node.Obj().Name())
				return true
			}
			good, why := c13PropertyExists(cands, upperFirst(name), nargs, fn.Name() == "DotIf")
			c.Check(good, "C13.build", cons, call.Pos(), "property %q: %s on %s or a handler type it returns", name, why, node.Obj().Name())
			return true
		})
	}
	// C13.flags
	// flags rendered in one place for all node types: the function that dispatches to the builders (it calls their Build) reads
	// the flag — directly or through an accessor method of the pipeline package that returns it — and is not made conditional
	// on the node type, except for the types it excludes by a type assertion (their builders must read the flag themselves)
	central := map[*types.Var]map[string]bool{} // flag -> excluded node type names
	for _, f := range core.AllFuncs(tp) {
		if f.Decl.Body == nil || f.Decl.Name.Name == "Build" {
			continue
		}
		// does it (or a same-package function it returns through) dispatch to the builders?
		dispatches := false
		ast.Inspect(f.Decl.Body, func(n ast.Node) bool {
			if call, ok := n.(*ast.CallExpr); ok {
				if g := core.Callee(info, call); g != nil && g.Pkg() == tp.Types {
					if g.Name() == "Build" && g.Type().(*types.Signature).Recv() != nil {
						dispatches = true
					}
					if d := declOfFunc(c.P, g); d != nil && d.Decl.Body != nil && g.Name() != f.Decl.Name.Name {
						n := 0
						ast.Inspect(d.Decl.Body, func(m ast.Node) bool {
							if c2, ok := m.(*ast.CallExpr); ok {
								if h := core.Callee(info, c2); h != nil && h.Name() == "Build" && h.Pkg() == tp.Types {
									n++
								}
							}
							return true
						})
						if n >= 10 {
							dispatches = true
						}
					}
				}
			}
			return true
		})
		if !dispatches {
			continue
		}
		excluded := map[string]bool{}
		ast.Inspect(f.Decl.Body, func(n ast.Node) bool {
			if ta, ok := n.(*ast.TypeAssertExpr); ok && ta.Type != nil {
				if nt := core.NamedOf(info.TypeOf(ta.Type)); nt != nil && nt.Obj().Pkg() == pp.Types {
					excluded[nt.Obj().Name()] = true
				}
			}
			return true
		})
		ast.Inspect(f.Decl.Body, func(n ast.Node) bool {
			call, ok := n.(*ast.CallExpr)
			if !ok || len(call.Args) != 0 {
				return true
			}
			g := core.Callee(info, call)
			if g == nil || g.Pkg() != pp.Types {
				return true
			}
			// the accessor's implementations in the pipeline package: `return n.<Flag>`
			for _, pf := range core.AllFuncs(pp) {
				if pf.Decl.Name.Name != g.Name() || pf.Decl.Recv == nil || pf.Decl.Body == nil {
					continue
				}
				body := an.Effective(pf.Decl.Body.List)
				if len(body) != 1 {
					continue
				}
				ret, ok := body[0].(*ast.ReturnStmt)
				if !ok || len(ret.Results) != 1 {
					continue
				}
				if sel, ok := ast.Unparen(ret.Results[0]).(*ast.SelectorExpr); ok {
					if sl := pp.TypesInfo.Selections[sel]; sl != nil && sl.Kind() == types.FieldVal {
						if v, ok := sl.Obj().(*types.Var); ok {
							central[v] = excluded
						}
					}
				}
			}
			return true
		})
	}
	nFlags := 0
	for _, f := range core.AllFuncs(tp) {
		if f.Decl.Name.Name != "Build" || f.Decl.Recv == nil || f.Decl.Body == nil {
			continue
		}
		var node *types.Named
		for _, p := range f.Decl.Type.Params.List {
			if tv, ok := info.Types[p.Type]; ok {
				if nt := core.NamedOf(tv.Type); nt != nil && nt.Obj().Pkg() == pp.Types {
					node = nt
					break
				}
			}
		}
		if node == nil {
			continue
		}
		st, ok := node.Underlying().(*types.Struct)
		if !ok {
			continue
		}
		// fields read in Build and in the same-package functions it calls
		read := map[*types.Var]bool{}
		seen := map[*types.Func]bool{}
		var scan func(body ast.Node)
		scan = func(body ast.Node) {
			ast.Inspect(body, func(n ast.Node) bool {
				switch x := n.(type) {
				case *ast.SelectorExpr:
					if sl := info.Selections[x]; sl != nil && sl.Kind() == types.FieldVal {
						if v, ok := sl.Obj().(*types.Var); ok {
							read[v] = true
						}
					}
				case *ast.CallExpr:
					if g := core.Callee(info, x); g != nil && g.Pkg() == tp.Types && !seen[g] {
						seen[g] = true
						if d := declOfFunc(c.P, g); d != nil && d.Decl.Body != nil {
							scan(d.Decl.Body)
						}
					}
				}
				return true
			})
		}
		scan(f.Decl.Body)
		var fields []*types.Var
		var collect func(s *types.Struct, depth int)
		collect = func(s *types.Struct, depth int) {
			for i := 0; i < s.NumFields(); i++ {
				fl := s.Field(i)
				if fl.Embedded() && depth < 2 {
					if es, ok := fl.Type().Underlying().(*types.Struct); ok {
						collect(es, depth+1)
					} else if pt, ok := fl.Type().Underlying().(*types.Pointer); ok {
						if es, ok := pt.Elem().Underlying().(*types.Struct); ok {
							collect(es, depth+1)
						}
					}
					continue
				}
				if strings.HasSuffix(fl.Name(), "Flag") && types.Identical(fl.Type(), types.Typ[types.Bool]) && fl.Exported() {
					fields = append(fields, fl)
				}
			}
		}
		collect(st, 0)
		for _, fl := range fields {
			nFlags++
			if ex, ok := central[fl]; ok && !ex[node.Obj().Name()] {
				c.Ok("C13.flags", core.RecvName(f.Decl)+"."+fl.Name(), "rendered for all node types by the dispatcher")
				continue
			}
			c.Check(read[fl], "C13.flags", core.RecvName(f.Decl)+"."+fl.Name(), f.Decl.Pos(), "the builder of %s never reads %s: a script that sets this flag is rendered without it (the property's arguments, if any, do not tell whether the flag was set)", node.Obj().Name(), fl.Name())
		}
	}
	c.Floor("C13.flags", "boolean property flags of rendered nodes", nFlags, 15)
	c.Floor("C13.build", "Build functions", nBuild, 30)
	c.Floor("C13.build", "emitted names", nEmit, 150)
	c.Sites(nEmit)
}

// c13Candidates: the node type plus every pipeline struct type one of its methods returns (handlers).
func c13Candidates(pp *packages.Package, node *types.Named) []*types.Named {
	out := []*types.Named{node}
	seen := map[*types.Named]bool{node: true}
	for i := 0; i < len(out); i++ {
		ms := types.NewMethodSet(types.NewPointer(out[i]))
		for j := 0; j < ms.Len(); j++ {
			fn, ok := ms.At(j).Obj().(*types.Func)
			if !ok || !fn.Exported() {
				continue
			}
			sig := fn.Type().(*types.Signature)
			if sig.Results().Len() != 1 {
				continue
			}
			rt := core.NamedOf(sig.Results().At(0).Type())
			if rt == nil || rt.Obj().Pkg() != pp.Types || seen[rt] {
				continue
			}
			if _, isStruct := rt.Underlying().(*types.Struct); !isStruct {
				continue
			}
			// only handler-like results: not other pipeline nodes (those have an ID method)
			if strings.HasSuffix(rt.Obj().Name(), "Node") {
				continue
			}
			seen[rt] = true
			out = append(out, rt)
		}
	}
	return out
}

func hasMethod(t *types.Named, name string) bool {
	ms := types.NewMethodSet(types.NewPointer(t))
	for i := 0; i < ms.Len(); i++ {
		if ms.At(i).Obj().Name() == name {
			return true
		}
	}
	return false
}

func c13ChainMethodExists(pp *packages.Package, name string, node *types.Named) bool {
	sc := pp.Types.Scope()
	for _, n := range sc.Names() {
		tn, ok := sc.Lookup(n).(*types.TypeName)
		if !ok {
			continue
		}
		nt, ok := tn.Type().(*types.Named)
		if !ok {
			continue
		}
		ms := types.NewMethodSet(types.NewPointer(nt))
		for i := 0; i < ms.Len(); i++ {
			fn, ok := ms.At(i).Obj().(*types.Func)
			if !ok || fn.Name() != name {
				continue
			}
			sig := fn.Type().(*types.Signature)
			for j := 0; j < sig.Results().Len(); j++ {
				if core.NamedOf(sig.Results().At(j).Type()) == node {
					return true
				}
			}
		}
	}
	return false
}

func c13PropertyExists(cands []*types.Named, name string, nargs int, flag bool) (bool, string) {
	why := "no method or field " + name
	for _, t := range cands {
		ms := types.NewMethodSet(types.NewPointer(t))
		for i := 0; i < ms.Len(); i++ {
			fn, ok := ms.At(i).Obj().(*types.Func)
			if !ok || fn.Name() != name {
				continue
			}
			sig := fn.Type().(*types.Signature)
			switch {
			case nargs < 0:
				return true, ""
			case sig.Variadic() && nargs >= sig.Params().Len()-1:
				return true, ""
			case !sig.Variadic() && nargs == sig.Params().Len():
				return true, ""
			}
			why = fmt.Sprintf("method %s takes %d parameter(s), the builder passes %d", name, sig.Params().Len(), nargs)
		}
		if st, ok := t.Underlying().(*types.Struct); ok {
			if f := findField(st, name); f != nil {
				if flag {
					if b, ok := f.Type().Underlying().(*types.Basic); ok && b.Info()&types.IsBoolean != 0 {
						return true, ""
					}
					why = "field " + name + " is not a bool flag"
					continue
				}
				if nargs <= 1 {
					return true, ""
				}
				why = fmt.Sprintf("field %s takes one value, the builder passes %d", name, nargs)
			}
		}
	}
	return false, why
}

func findField(st *types.Struct, name string) *types.Var {
	for i := 0; i < st.NumFields(); i++ {
		f := st.Field(i)
		if f.Name() == name && f.Exported() {
			return f
		}
		if f.Embedded() {
			t := f.Type()
			if p, ok := t.(*types.Pointer); ok {
				t = p.Elem()
			}
			if es, ok := t.Underlying().(*types.Struct); ok {
				if r := findField(es, name); r != nil {
					return r
				}
			}
		}
	}
	return nil
}

var _ = strings.Contains

// c13Parent: a node type that embeds chainnode but does not satisfy the
// chainnodeAlias interface (a field hides a chain method) needs a case in isChainNode.
func c13Parent(c *core.Ctx, pkg *packages.Package, typeOfNode map[string]string) {
	info := pkg.TypesInfo
	aliasObj, _ := pkg.Types.Scope().Lookup("chainnodeAlias").(*types.TypeName)
	fn := c.Need("C13.parent", "pipeline", "", "isChainNode")
	if aliasObj == nil || fn == nil {
		if aliasObj == nil {
			c.Undecided("C13.parent", "anchor:pipeline.chainnodeAlias", token.NoPos, "interface not found")
		}
		return
	}
	iface, _ := aliasObj.Type().Underlying().(*types.Interface)
	cases := map[string]bool{}
	ast.Inspect(fn.Decl.Body, func(n ast.Node) bool {
		if ta, ok := n.(*ast.TypeAssertExpr); ok && ta.Type != nil {
			if tv, ok := info.Types[ta.Type]; ok {
				if nt := core.NamedOf(tv.Type); nt != nil {
					cases[nt.Obj().Name()] = true
				}
			}
		}
		return true
	})
	seen := map[string]bool{}
	n := 0
	for _, s := range an.SortedKeys(typeOfNode) {
		tn := typeOfNode[s]
		if seen[tn] {
			continue
		}
		seen[tn] = true
		obj, _ := pkg.Types.Scope().Lookup(tn).(*types.TypeName)
		if obj == nil {
			continue
		}
		// only chain nodes: types that embed chainnode (directly or through an embedded data struct)
		if !embedsNamed(obj.Type(), "chainnode", 3) {
			continue
		}
		n++
		impl := types.Implements(types.NewPointer(obj.Type()), iface)
		c.Check(impl || cases[tn], "C13.parent", tn, obj.Pos(), "%s embeds chainnode but does not implement chainnodeAlias (a field hides a chain method) and isChainNode has no case for it: its children cannot be read back from JSON", tn)
	}
	c.Floor("C13.parent", "chain node types", n, 20)
}

func embedsNamed(t types.Type, name string, depth int) bool {
	if p, ok := t.Underlying().(*types.Pointer); ok {
		t = p.Elem()
	}
	st, ok := t.Underlying().(*types.Struct)
	if !ok || depth < 0 {
		return false
	}
	for i := 0; i < st.NumFields(); i++ {
		f := st.Field(i)
		if !f.Embedded() {
			continue
		}
		ft := f.Type()
		if nt := core.NamedOf(ft); nt != nil && nt.Obj().Name() == name {
			return true
		}
		if embedsNamed(ft, name, depth-1) {
			return true
		}
	}
	return false
}

// fmtParseCalls: qualified names of the Format<S>/Parse<S> functions called in a body.
func fmtParseCalls(info *types.Info, body ast.Node, prefix string) map[string]string {
	out := map[string]string{} // suffix S -> package path
	ast.Inspect(body, func(n ast.Node) bool {
		if call, ok := n.(*ast.CallExpr); ok {
			if f := core.Callee(info, call); f != nil && f.Pkg() != nil && strings.HasPrefix(f.Name(), prefix) && len(f.Name()) > len(prefix) && core.RecvTypeName(f) == "" {
				out[strings.TrimPrefix(f.Name(), prefix)] = f.Pkg().Path()
			}
		}
		return true
	})
	return out
}

func c13Codec(c *core.Ctx, pkg *packages.Package, wrecv, wname, rrecv, rname string) {
	w := c.Need("C13.codec", "tick/ast", wrecv, wname)
	r := c.Need("C13.codec", "tick/ast", rrecv, rname)
	if w == nil || r == nil {
		return
	}
	c13CodecFuncs(c, pkg, wrecv+"."+wname, w, r)
}

func c13CodecFuncs(c *core.Ctx, pkg *packages.Package, what string, w, r *core.Func) {
	info := pkg.TypesInfo
	fm := fmtParseCalls(info, w.Decl.Body, "Format")
	pm := fmtParseCalls(info, r.Decl.Body, "Parse")
	for _, s := range an.SortedKeys(fm) {
		got, ok := pm[s]
		switch {
		case !ok:
			// the reader may parse differently named; only report when it parses the same kind with another package
			continue
		case got != fm[s]:
			c.Fail("C13.codec", what+"#"+s, r.Decl.Pos(), "%s is written with %s.Format%s but read with %s.Parse%s: the two syntaxes differ (influxql durations use d, w and u, which time.ParseDuration rejects), so some values cannot be read back", s, fm[s], s, got, s)
		default:
			c.Ok("C13.codec", what+"#"+s)
		}
	}
}

func c13StrEscape(c *core.Ctx, pkg *packages.Package) {
	fn := c.Need("C13.strescape", "tick/ast", "StringNode", "Format")
	if fn == nil {
		return
	}
	recv := an.RecvVarName(fn.Decl)
	eng := &an.Engine{Prog: c.P, ElemKeys: true,
		TrackCall: func(call *ast.CallExpr, callee *types.Func) string {
			if callee != nil && core.RecvTypeName(callee) == "Buffer" {
				switch callee.Name() {
				case "WriteByte", "WriteRune", "WriteString":
					return callee.Name()
				}
			}
			return ""
		},
		Classify: func(a an.Atom) (string, bool) {
			switch {
			case a.Key == recv+".TripleQuotes":
				return "triple", false
			case a.Op == token.EQL && a.L == recv+".Literal[*]" && a.R == `'\''`:
				return "isquote", false
			case a.Op == token.EQL && strings.HasSuffix(a.L, ".Comment") && a.R == "nil":
				return "nocomment", false
			case a.Call != nil && a.Call.Name() == "HasSuffix" && strings.Contains(a.Key, "("+recv+".Literal, ") && (strings.Contains(a.Key, "`\\`") || strings.Contains(a.Key, `"\\\\"`)):
				return "endsbs", false
			case a.Call != nil && a.Call.Name() == "Contains" && strings.Contains(a.Key, "("+recv+".Literal, ") && strings.Contains(a.Key, "'''"):
				return "hastriple", false
			}
			return "", false
		}}
	paths, err := eng.Run(fn)
	if err != nil {
		c.Undecided("C13.strescape", "StringNode.Format", fn.Decl.Pos(), "%v", err)
		return
	}
	an.CheckTable(c, "C13.strescape", "StringNode.Format", paths, an.Table{Atoms: []string{"triple", "endsbs", "hastriple", "isquote"},
		Outcome: func(p *an.Path) string {
			var s []string
			in := false
			form, rawText := "", false
			for _, e := range p.Events {
				switch {
				case e.Kind == "loop":
					in = true
				case e.Kind == "endloop":
					in = false
				case in && e.Kind == "call":
					switch {
					case e.Name == "WriteByte" && len(e.Args) == 1 && e.Args[0] == `'\\'`:
						s = append(s, "backslash")
					case e.Name == "WriteRune" && len(e.Args) == 1 && e.Args[0] == recv+".Literal[*]":
						s = append(s, "rune")
					default:
						s = append(s, e.Name+"("+strings.Join(e.Args, ",")+")")
					}
				case in && (e.Kind == "break" || e.Kind == "continue"):
					s = append(s, e.Kind)
				case !in && e.Kind == "call" && len(e.Args) == 1:
					switch {
					case form == "" && e.Name == "WriteString" && e.Args[0] == `"'''"`:
						form = "raw"
					case form == "" && e.Name == "WriteByte" && e.Args[0] == `'\''`:
						form = "single"
					case e.Name == "WriteString" && e.Args[0] == recv+".Literal":
						rawText = true
					}
				}
			}
			switch {
			case form == "raw" && rawText && len(s) == 0:
				return "raw"
			case form == "single" && !rawText:
				return "single:" + strings.Join(s, ",")
			}
			return form + "?:" + strings.Join(s, ",")
		},
		Expect: func(a map[string]bool) string {
			// F43: a literal that ends in a backslash has no single-quoted form (the backslash would escape the closing quote and
			// there is no escape for the backslash): it is written raw between triple quotes, unless it contains a triple quote
			if a["triple"] || (a["endsbs"] && !a["hastriple"]) {
				return "raw"
			}
			if a["isquote"] {
				return "single:backslash,rune"
			}
			return "single:rune"
		}})
}

// c13JSONRead: reader-side rules of the generic JSON carrier of AST nodes.
func c13JSONRead(c *core.Ctx, pkg *packages.Package) {
	info := pkg.TypesInfo
	c.Rule("C13.nulllist", "A7: what MarshalJSON can write for a list of nodes, NodeList can read: a nil list marshals as null, so NodeList returns an empty list (not an error) when the field's value is nil")
	c.Rule("C13.numbers", "A7: integers of the JSON form are read exactly: the carrier decodes with UseNumber (JSONNode has its own UnmarshalJSON) and JSONNode.Int64 converts a json.Number with Int64() before any float64 path")
	c.Rule("C13.lexcomment", "A1: the lexer continues a comment onto the next line only when that line starts with two slashes (one slash starts a regex literal), and lexRegex hands a following `//` to the comment state")
	if fn := c.Need("C13.nulllist", "tick/ast", "JSONNode", "NodeList"); fn != nil {
		// the value fetched from the map
		val := ""
		ast.Inspect(fn.Decl.Body, func(n ast.Node) bool {
			if as, ok := n.(*ast.AssignStmt); ok && len(as.Lhs) == 2 && len(as.Rhs) == 1 && val == "" {
				val = types.ExprString(as.Lhs[0])
			}
			return true
		})
		okk := false
		var assertPos, nilPos token.Pos
		ast.Inspect(fn.Decl.Body, func(n ast.Node) bool {
			switch x := n.(type) {
			case *ast.IfStmt:
				if types.ExprString(x.Cond) == val+" == nil" && len(an.Effective(x.Body.List)) == 1 {
					if r, ok := an.Effective(x.Body.List)[0].(*ast.ReturnStmt); ok && len(r.Results) == 2 && types.ExprString(r.Results[1]) == "nil" {
						okk = true
						nilPos = x.Pos()
					}
				}
			case *ast.TypeAssertExpr:
				if types.ExprString(x.X) == val && assertPos == token.NoPos {
					assertPos = x.Pos()
				}
			}
			return true
		})
		c.Check(okk && (assertPos == token.NoPos || nilPos < assertPos), "C13.nulllist", "JSONNode.NodeList#null", fn.Decl.Pos(), "NodeList rejects a null value: a function call without arguments (count(), sigma() without …) marshals its nil argument list as null and cannot be read back from its own JSON")
	}
	// numbers
	jn := pkg.Types.Scope().Lookup("JSONNode")
	hasUN, usesNumber := false, false
	if jn != nil {
		if fn := c.P.FindFunc("tick/ast", "JSONNode", "UnmarshalJSON"); fn != nil {
			hasUN = true
			c.Analysed(fn)
			ast.Inspect(fn.Decl.Body, func(n ast.Node) bool {
				if call, ok := n.(*ast.CallExpr); ok {
					if f := core.Callee(info, call); f != nil && f.Name() == "UseNumber" {
						usesNumber = true
					}
				}
				return true
			})
		}
	}
	exact := false
	if fn := c.Need("C13.numbers", "tick/ast", "JSONNode", "Int64"); fn != nil {
		// a json.Number branch that calls Int64() and returns its result
		ast.Inspect(fn.Decl.Body, func(n ast.Node) bool {
			if call, ok := n.(*ast.CallExpr); ok {
				if f := core.Callee(info, call); f != nil && f.Name() == "Int64" && core.RecvTypeName(f) == "Number" {
					exact = true
				}
			}
			return true
		})
	}
	c.Check(hasUN && usesNumber && exact, "C13.numbers", "JSONNode#int64", token.NoPos, "the JSON form of an AST is decoded through float64 (own UnmarshalJSON %v, UseNumber %v, exact Int64 conversion %v): 9007199254740993 reads back as 9007199254740992 and MaxInt64 as MinInt64", hasUN, usesNumber, exact)
	// lexer
	if fn := c.Need("C13.lexcomment", "tick/ast", "", "lexComment"); fn != nil {
		// the condition under which the comment continues on the next line
		cont := ""
		ast.Inspect(fn.Decl.Body, func(n ast.Node) bool {
			if ifs, ok := n.(*ast.IfStmt); ok {
				for _, st := range ifs.Body.List {
					if b, ok := st.(*ast.BranchStmt); ok && b.Tok == token.CONTINUE {
						cont = types.ExprString(ifs.Cond)
					}
				}
			}
			return true
		})
		c.Check(strings.Count(cont, "'/'") >= 2, "C13.lexcomment", "lexComment#continuation", fn.Decl.Pos(), "the comment continues onto the next line under `%s`; it must require two slashes: a line that starts with one slash is a regex literal, which is otherwise swallowed into the comment (the argument disappears from the formatted script)", cont)
	}
	if fn := c.Need("C13.lexcomment", "tick/ast", "", "lexRegex"); fn != nil {
		hands := false
		ast.Inspect(fn.Decl.Body, func(n ast.Node) bool {
			if r, ok := n.(*ast.ReturnStmt); ok && len(r.Results) == 1 && types.ExprString(r.Results[0]) == "lexComment" {
				hands = true
			}
			return true
		})
		c.Check(hands, "C13.lexcomment", "lexRegex#comment", fn.Decl.Pos(), "after =~, !~ or = the lexer goes straight to lexRegex; a `// comment` there must be handed to lexComment, otherwise it is read as the empty regex and the script no longer parses")
	}
}

// c13Quoted: F42. The text of a reference ("name") may contain the quote; it reaches formatted output only through
// ReferenceNode.Format's escaping loop. Any Format method (or a helper it calls that is not itself a Format) that puts
// ReferenceNode.Reference into the output by concatenation or a plain write produces text that does not parse back.
func c13Quoted(c *core.Ctx, pkg *packages.Package) {
	info := pkg.TypesInfo
	byObj := map[*types.Func]*core.Func{}
	for _, f := range core.AllFuncs(pkg) {
		if o, ok := info.Defs[f.Decl.Name].(*types.Func); ok {
			byObj[o] = f
		}
	}
	isRefText := func(e ast.Expr) bool {
		sel, ok := ast.Unparen(e).(*ast.SelectorExpr)
		if !ok || sel.Sel.Name != "Reference" {
			return false
		}
		s, ok := info.Selections[sel]
		if !ok || s.Kind() != types.FieldVal {
			return false
		}
		n := core.NamedOf(s.Recv())
		return n != nil && n.Obj().Name() == "ReferenceNode" && n.Obj().Pkg() == pkg.Types
	}
	sites, escaped := 0, 0
	for _, f := range core.AllFuncs(pkg) {
		if f.Decl.Name.Name != "Format" || f.Decl.Recv == nil {
			continue
		}
		// the method and the non-Format helpers it calls
		units := []*core.Func{f}
		seen := map[*core.Func]bool{f: true}
		for i := 0; i < len(units) && i < 50; i++ {
			ast.Inspect(units[i].Decl.Body, func(nd ast.Node) bool {
				if call, ok := nd.(*ast.CallExpr); ok {
					if m := core.Callee(info, call); m != nil && byObj[m] != nil && m.Name() != "Format" && !seen[byObj[m]] {
						seen[byObj[m]] = true
						units = append(units, byObj[m])
					}
				}
				return true
			})
		}
		for _, u := range units {
			// range expressions whose loop tests the element against the double quote: the escaping loop
			okRange := map[ast.Expr]bool{}
			ast.Inspect(u.Decl.Body, func(nd ast.Node) bool {
				rs, ok := nd.(*ast.RangeStmt)
				if !ok || !isRefText(rs.X) || rs.Value == nil {
					return true
				}
				v, _ := rs.Value.(*ast.Ident)
				tests := false
				ast.Inspect(rs.Body, func(x ast.Node) bool {
					if be, ok := x.(*ast.BinaryExpr); ok && be.Op == token.EQL && v != nil {
						if id, ok := ast.Unparen(be.X).(*ast.Ident); ok && info.Uses[id] == info.Defs[v] {
							if lit, ok := ast.Unparen(be.Y).(*ast.BasicLit); ok && lit.Value == `'"'` {
								tests = true
							}
						}
					}
					return true
				})
				if tests {
					okRange[rs.X] = true
				}
				return true
			})
			ast.Inspect(u.Decl.Body, func(nd ast.Node) bool {
				e, ok := nd.(ast.Expr)
				if !ok || !isRefText(e) {
					return true
				}
				sites++
				cons := core.RecvName(f.Decl) + ".Format"
				if u != f {
					cons += "→" + u.Decl.Name.Name
				}
				if okRange[e] {
					escaped++
					c.Ok("C13.quoted", cons)
					return false
				}
				c.Fail("C13.quoted", cons+"#raw-reference", e.Pos(), "%s puts the text of a reference into the formatted script without escaping the double quote: a name that contains one (dbrp \"a\\\"b\".\"rp\") is written as \"a\"b\", which does not parse; references are written by ReferenceNode.Format only", cons)
				return false
			})
		}
	}
	c.Floor("C13.quoted", "places where a Format method writes reference text", sites, 1)
	c.Floor("C13.quoted", "escaping loops over reference text", escaped, 1)
}

// c13MultiLineSpan: F44. A binary node's position is its operator, so a span that starts or ends at an operand's Position()
// contains the line breaks inside that operand; Format writes this node's own line break right after its operator. The
// span whose line breaks make a binary node multi line therefore must not be bounded by an operand's Position(): otherwise the
// line break of an inner expression is counted for the outer one and moves up one operator with every format pass.
func c13MultiLineSpan(c *core.Ctx, pkg *packages.Package) {
	info := pkg.TypesInfo
	fn := c.Need("C13.mlspan", "tick/ast", "parser", "precedence")
	nb := c.Need("C13.mlspan", "tick/ast", "", "newBinary")
	if fn == nil || nb == nil {
		return
	}
	// the bool parameter of newBinary
	bi := -1
	k := 0
	for _, fl := range nb.Decl.Type.Params.List {
		for range fl.Names {
			if b, ok := info.Types[fl.Type].Type.Underlying().(*types.Basic); ok && b.Kind() == types.Bool {
				bi = k
			}
			k++
		}
	}
	if bi < 0 {
		c.Undecided("C13.mlspan", "newBinary#multiline-param", nb.Decl.Pos(), "no bool parameter")
		return
	}
	def := map[types.Object]ast.Expr{}
	ast.Inspect(fn.Decl.Body, func(nd ast.Node) bool {
		if as, ok := nd.(*ast.AssignStmt); ok && len(as.Lhs) == len(as.Rhs) {
			for i, l := range as.Lhs {
				if id, ok := l.(*ast.Ident); ok {
					o := info.Defs[id]
					if o == nil {
						o = info.Uses[id]
					}
					if o != nil {
						def[o] = as.Rhs[i]
					}
				}
			}
		}
		return true
	})
	n := 0
	ast.Inspect(fn.Decl.Body, func(nd ast.Node) bool {
		call, ok := nd.(*ast.CallExpr)
		if !ok {
			return true
		}
		if m := core.Callee(info, call); m == nil || m != info.Defs[nb.Decl.Name] || bi >= len(call.Args) {
			return true
		}
		n++
		arg := ast.Unparen(call.Args[bi])
		for i := 0; i < 3; i++ {
			if id, ok := arg.(*ast.Ident); ok {
				if d, ok := def[info.Uses[id]]; ok {
					arg = ast.Unparen(d)
					continue
				}
			}
			break
		}
		bad := ""
		ast.Inspect(arg, func(x ast.Node) bool {
			pc, ok := x.(*ast.CallExpr)
			if !ok {
				return true
			}
			sel, ok := pc.Fun.(*ast.SelectorExpr)
			if !ok || sel.Sel.Name != "Position" || len(pc.Args) != 0 {
				return true
			}
			if tv, ok := info.Types[sel.X]; ok {
				if nn := core.NamedOf(tv.Type); nn != nil && nn.Obj().Name() == "Node" && nn.Obj().Pkg() == pkg.Types {
					bad = types.ExprString(pc)
				}
			}
			return true
		})
		c.Check(bad == "", "C13.mlspan", "parser.precedence#multiline", call.Pos(), "the text span that decides whether a binary expression is multi line is bounded by %s, the position of an operand node — for a binary operand that is its operator, so line breaks inside the operand (a nested multi line expression, a string with a new line) count for this node; Format writes this node's line break after its own operator, the next parse counts it for the node above: the line break moves up one operator per pass and formatting is never stable", bad)
		return true
	})
	c.Floor("C13.mlspan", "newBinary calls in parser.precedence", n, 1)
}

// c13FmtInput: tick.Format parses the text it was given. Any rewriting of the raw text before parsing (line endings, trimming,
// case) also rewrites the inside of string literals, which the formatter otherwise copies verbatim: the formatted script then
// defines a task with other property values.
func c13FmtInput(c *core.Ctx, pkg *packages.Package) {
	fn := c.Need("C13.fmtinput", "tick", "", "Format")
	if fn == nil {
		return
	}
	info := pkg.TypesInfo
	if fn.Decl.Type.Params == nil || len(fn.Decl.Type.Params.List) == 0 || len(fn.Decl.Type.Params.List[0].Names) == 0 {
		c.Undecided("C13.fmtinput", "tick.Format", fn.Decl.Pos(), "no named parameter")
		return
	}
	param := info.Defs[fn.Decl.Type.Params.List[0].Names[0]]
	reassigned, parsed, parsedOther := false, 0, ""
	ast.Inspect(fn.Decl.Body, func(nd ast.Node) bool {
		switch x := nd.(type) {
		case *ast.AssignStmt:
			for _, l := range x.Lhs {
				if id, ok := l.(*ast.Ident); ok && info.Uses[id] == param {
					reassigned = true
				}
			}
		case *ast.CallExpr:
			if m := core.Callee(info, x); m != nil && m.Name() == "Parse" && m.Pkg() != nil && strings.HasSuffix(m.Pkg().Path(), "tick/ast") && len(x.Args) == 1 {
				parsed++
				if id, ok := ast.Unparen(x.Args[0]).(*ast.Ident); !ok || info.Uses[id] != param {
					parsedOther = types.ExprString(x.Args[0])
				}
			}
		}
		return true
	})
	c.Check(parsed == 1 && !reassigned && parsedOther == "", "C13.fmtinput", "tick.Format", fn.Decl.Pos(), "tick.Format must parse exactly the text it was given (Parse calls: %d, parameter reassigned: %v, parses %q instead): a textual rewrite before parsing (e.g. CRLF → LF) also changes the inside of multi-line string literals, so the formatted script defines a task with other .message()/.details()/.post() values than the original", parsed, reassigned, parsedOther)
}

// c13RegexLiteral: RegexNode has two forms. A node from the parser carries Literal = the source text between the slashes (still
// escaped) and Format writes it verbatim; any other node has Literal == "" and Format escapes the pattern. So Literal may only
// ever receive text sliced out of the script source: a pattern string (Regex.String()) stored there is written unescaped.
func c13RegexLiteral(c *core.Ctx, pkg *packages.Package) {
	info := pkg.TypesInfo
	n := 0
	for _, f := range core.AllFuncs(pkg) {
		// string parameters of the function, and locals sliced from them
		src := map[types.Object]bool{}
		if f.Decl.Type.Params != nil {
			for _, fl := range f.Decl.Type.Params.List {
				for _, nm := range fl.Names {
					if b, ok := info.Defs[nm].Type().Underlying().(*types.Basic); ok && b.Kind() == types.String {
						src[info.Defs[nm]] = true
					}
				}
			}
		}
		fromSource := func(e ast.Expr) bool {
			e = ast.Unparen(e)
			if sl, ok := e.(*ast.SliceExpr); ok {
				e = ast.Unparen(sl.X)
			}
			id, ok := e.(*ast.Ident)
			return ok && src[info.Uses[id]]
		}
		ast.Inspect(f.Decl.Body, func(nd ast.Node) bool {
			if as, ok := nd.(*ast.AssignStmt); ok && len(as.Lhs) == len(as.Rhs) {
				for i, l := range as.Lhs {
					if id, ok := l.(*ast.Ident); ok && fromSource(as.Rhs[i]) {
						if o := info.Defs[id]; o != nil {
							src[o] = true
						}
					}
				}
			}
			return true
		})
		check := func(val ast.Expr, pos token.Pos) {
			n++
			cons := f.Name() + "#RegexNode.Literal"
			c.Check(fromSource(val), "C13.regexliteral", cons, pos, "RegexNode.Literal receives %s, which is not text sliced out of the script source: Format writes Literal verbatim between slashes (it is the already escaped source form) and escapes only when Literal is empty, so a pattern stored here (Regex.String()) is rendered with bare slashes — \"path\" =~ /^\\/api\\// read from JSON is rendered as /^/api//, which does not parse", types.ExprString(val))
		}
		ast.Inspect(f.Decl.Body, func(nd ast.Node) bool {
			switch x := nd.(type) {
			case *ast.AssignStmt:
				for i, l := range x.Lhs {
					if an.FieldSel(info, l, "RegexNode", "Literal") && i < len(x.Rhs) {
						check(x.Rhs[i], x.Pos())
					}
				}
			case *ast.CompositeLit:
				if tv, ok := info.Types[x]; ok {
					if nn := core.NamedOf(tv.Type); nn != nil && nn.Obj().Name() == "RegexNode" {
						for _, el := range x.Elts {
							if kv, ok := el.(*ast.KeyValueExpr); ok {
								if k, ok := kv.Key.(*ast.Ident); ok && k.Name == "Literal" {
									check(kv.Value, kv.Pos())
								}
							}
						}
					}
				}
			}
			return true
		})
	}
	c.Floor("C13.regexliteral", "writes of RegexNode.Literal", n, 1)
}
