package props

import (
	"go/ast"
	"go/token"
	"go/types"
	"sort"
	"strings"

	"golang.org/x/tools/go/packages"

	"kapcheck/an"
	"kapcheck/core"
)

func init() {
	register(&Property{
		ID:       "C14",
		Patterns: []string{"./services/task_store"},
		Run:      runC14,
		Explanation: "Catalogue vs. running state as structure: on Open every stored enabled task reaches startTask and a start error is recorded, not fatal; startTask stops the task master's task again on every error after StartTask succeeded and when the task finishes with an error; " +
			"after the store write, handleUpdateTask starts/stops exactly per its reference table (enable ⇒ start the updated task; disable ⇒ stop the original id; rename of an enabled task ⇒ stop old id, start new); handleCreateTask starts iff enabled after the store accepted the task; " +
			"deleteTask stops the running task iff enabled and always deletes the definition; inside the DAOs' transaction bodies no storage error is dropped or answered with nil; prefix scans over per-template keys end with the key delimiter; " +
			"updateAllAssociatedTasks registers its rollback before the first write and the rollback restores the old definition of every task with index 0..i. NOT decided: equality of API view and model over all histories, restarts at transaction boundaries.",
		Assumptions: []string{"TaskMaster.StartTask/StopTask/DeleteTask behave as in C02/C07"},
	})
}

func runC14(c *core.Ctx) {
	c.Rule("C14.open", "A2: Service.Open visits every page of stored tasks; each task with Status==Enabled reaches startTask; a start error does not leave the loop or fail Open")
	c.Rule("C14.start", "A2: startTask: newKapacitorTask error ⇒ return before StartTask; StartTask error ⇒ returned; StartBatching error ⇒ tm.StopTask(t.ID) before returning it; the watcher goroutine stops the task when Wait returns an error")
	c.Rule("C14.update", "A1: handleUpdateTask after validation: rename ⇒ Create(updated), then the template association is moved, then Delete(original.ID) (create/association error aborts), else Replace(updated) then the association (error aborts); no association call before the store write (F73); rename∧both enabled ⇒ stopTask(original.ID),startTask(updated); status changed∧Enabled ⇒ startTask(updated); status changed∧Disabled ⇒ stopTask(original.ID)")
	c.Rule("C14.create", "A2: handleCreateTask starts the new task only after tasks.Create succeeded, and exactly when its status is Enabled")
	c.Rule("C14.delete", "A1: deleteTask: task not found ⇒ nil without side effect; else DeleteTask on the task master iff Status==Enabled, and tasks.Delete(id) on every other path, whose error is returned")
	c.Rule("C14.txerr", "A10: in every transaction body of services/task_store no error of tx.Put/Delete/Get/List/Exists is dropped or answered with nil")
	c.Rule("C14.prefix", "A12: every tx.List over keys that embed a template/task id ends the prefix with the constant delimiter \"/\" (otherwise template \"cpu\" also lists the keys of template \"cpu_alert\")")
	c.Rule("C14.rollback", "A2/A3: updateAllAssociatedTasks registers its deferred rollback before the update loop; the rollback loop runs j=0..i, addresses taskIds[j], restores TemplateID/TICKscript/Type from the old template, replaces the task and reloads it if enabled; the rollback is skipped only when i reached len(taskIds)")

	pkg := c.P.Pkg("services/task_store")
	if pkg == nil {
		c.Undecided("C14.open", "anchor:services/task_store", token.NoPos, "package not loaded")
		return
	}
	c14Open(c, pkg)
	c14Start(c, pkg)
	c14Update(c, pkg)
	c14Create(c, pkg)
	c14Atomic(c, pkg)
	c14ProbeRules(c, pkg)
	c14Rules4(c, pkg)
	// Open pages through the stored tasks by 100 with DoListFunc: the paging arithmetic is a necessary condition of "every enabled
	// task is started" (seed C14-15-r5)
	if st := c.P.Pkg("services/storage"); st != nil {
		c.Rule("C14.paging", "A1 (= C15.dolist): DoListFunc skips non-matching entries before counting; the counter, incremented once per matching entry, is compared with the offset so that the entry whose count equals the offset belongs to the previous page; an entry beyond the offset is appended, one before it is not — pages neither overlap nor leave out the last entry (Open starts the enabled tasks page by page)")
		c.As("C15.dolist", "C14.paging", func() { c15DoList(c, st) })
	} else {
		c.Undecided("C14.paging", "anchor:services/storage", token.NoPos, "package not loaded")
	}
	c14Delete(c, pkg)
	n := ruleTxErr(c, "C14.txerr", pkg, map[string]string{})
	c.Floor("C14.txerr", "transaction-method error sites", n, 15)
	c14Prefix(c, pkg)
	c14Rollback(c, pkg)
}

func c14Open(c *core.Ctx, pkg *packages.Package) {
	info := pkg.TypesInfo
	fn := c.Need("C14.open", "services/task_store", "Service", "Open")
	if fn == nil {
		return
	}
	// the paging loop: for { tasks := ts.tasks.List(...); for _, task := range tasks {...}; if len(tasks) != limit {break}; offset += limit }
	var inner *ast.RangeStmt
	var outer *ast.ForStmt
	ast.Inspect(fn.Decl.Body, func(n ast.Node) bool {
		if fs, ok := n.(*ast.ForStmt); ok {
			ast.Inspect(fs.Body, func(m ast.Node) bool {
				if rs, ok := m.(*ast.RangeStmt); ok {
					found := false
					ast.Inspect(rs.Body, func(x ast.Node) bool {
						if call, ok := x.(*ast.CallExpr); ok {
							if f := core.Callee(info, call); f != nil && f.Name() == "startTask" {
								found = true
							}
						}
						return true
					})
					if found {
						inner, outer = rs, fs
					}
				}
				return true
			})
		}
		return true
	})
	if inner == nil {
		c.Fail("C14.open", "Service.Open#loop", fn.Decl.Pos(), "no loop over the stored tasks that calls startTask")
		return
	}
	early := ""
	ast.Inspect(inner.Body, func(n ast.Node) bool {
		switch x := n.(type) {
		case *ast.FuncLit:
			return false
		case *ast.ReturnStmt:
			early = "return"
		case *ast.BranchStmt:
			early = x.Tok.String()
		}
		return true
	})
	c.Check(early == "", "C14.open", "Service.Open#every-task", inner.Pos(), "the loop over the stored tasks is left or short-cut by %s: enabled tasks after that point are not started after a restart", early)
	// startTask sits directly under `if task.Status == Enabled`
	guardOK := false
	for _, st := range inner.Body.List {
		if ifs, ok := st.(*ast.IfStmt); ok && ifs.Else == nil && ifs.Init == nil {
			cond := types.ExprString(ifs.Cond)
			if cond == types.ExprString(inner.Value)+".Status == Enabled" {
				for _, s := range ifs.Body.List {
					ast.Inspect(s, func(x ast.Node) bool {
						if call, ok := x.(*ast.CallExpr); ok {
							if f := core.Callee(info, call); f != nil && f.Name() == "startTask" && len(call.Args) == 1 && types.ExprString(call.Args[0]) == types.ExprString(inner.Value) {
								// must be a statement of the if body itself (not nested under another condition)
								if as, ok := s.(*ast.AssignStmt); ok && len(as.Rhs) == 1 && as.Rhs[0] == call {
									guardOK = true
								}
								if es, ok := s.(*ast.ExprStmt); ok && es.X == call {
									guardOK = true
								}
							}
						}
						return true
					})
				}
			}
		}
	}
	c.Check(guardOK, "C14.open", "Service.Open#enabled-start", inner.Pos(), "startTask(task) must be called for exactly the tasks with Status == Enabled")
	// paging: the outer loop breaks only on a short page and advances the offset by the limit
	brk, adv := false, false
	// the page is what the loop ranges over; offset and limit are the last two arguments of the List call that produced it
	offName, limName := "offset", "limit"
	ast.Inspect(outer.Body, func(n ast.Node) bool {
		if as, ok := n.(*ast.AssignStmt); ok && len(as.Rhs) == 1 && len(as.Lhs) >= 1 && types.ExprString(as.Lhs[0]) == types.ExprString(inner.X) {
			if call, ok := as.Rhs[0].(*ast.CallExpr); ok && len(call.Args) >= 2 {
				offName, limName = types.ExprString(call.Args[len(call.Args)-2]), types.ExprString(call.Args[len(call.Args)-1])
			}
		}
		return true
	})
	for _, st := range outer.Body.List {
		if ifs, ok := st.(*ast.IfStmt); ok {
			if strings.Contains(types.ExprString(ifs.Cond), "len(") && strings.Contains(types.ExprString(ifs.Cond), "!= "+limName) {
				for _, s := range ifs.Body.List {
					if b, ok := s.(*ast.BranchStmt); ok && b.Tok == token.BREAK {
						brk = true
					}
				}
			}
		}
		if as, ok := st.(*ast.AssignStmt); ok && as.Tok == token.ADD_ASSIGN && types.ExprString(as.Lhs[0]) == offName && types.ExprString(as.Rhs[0]) == limName {
			adv = true
		}
	}
	c.Check(brk && adv, "C14.open", "Service.Open#all-pages", outer.Pos(), "the paging loop must stop only on a short page and advance offset by limit (break on short page: %v, offset += limit: %v)", brk, adv)
}

func c14Start(c *core.Ctx, pkg *packages.Package) {
	info := pkg.TypesInfo
	fn := c.Need("C14.start", "services/task_store", "Service", "startTask")
	if fn == nil {
		return
	}
	eng := &an.Engine{Prog: c.P,
		TrackCall: func(call *ast.CallExpr, callee *types.Func) string {
			if callee == nil {
				return ""
			}
			switch callee.Name() {
			case "newKapacitorTask", "StartTask", "StartBatching", "StopTask":
				return callee.Name()
			}
			return ""
		},
		Classify: func(a an.Atom) (string, bool) {
			if k, ok := an.ErrNilAtom(info, a); ok {
				switch an.LastCall(k) {
				case "newKapacitorTask":
					return "invalid", true
				case "StartTask":
					return "startErr", true
				case "StartBatching":
					return "batchErr", true
				}
			}
			if a.Op == token.EQL && strings.HasSuffix(a.L, ".Type") && strings.HasSuffix(a.R, "BatchTask") {
				return "batch", false
			}
			return "", false
		}}
	paths, err := eng.Run(fn)
	if err != nil {
		c.Undecided("C14.start", "Service.startTask", fn.Decl.Pos(), "%v", err)
		return
	}
	an.CheckTable(c, "C14.start", "Service.startTask", paths, an.Table{Atoms: []string{"invalid", "startErr", "batch", "batchErr"},
		Outcome: func(p *an.Path) string {
			s := an.Seq(p, "newKapacitorTask", "StartTask", "StartBatching", "StopTask")
			for _, e := range p.Events {
				if e.Kind == "go" {
					s += ",watch"
				}
			}
			r := "→err"
			if len(p.Rets) == 1 && p.Rets[0] == "nil" {
				r = "→nil"
			}
			return s + r
		},
		Expect: func(a map[string]bool) string {
			switch {
			case a["invalid"]:
				return "newKapacitorTask→err"
			case a["startErr"]:
				return "newKapacitorTask,StartTask→err"
			case a["batch"] && a["batchErr"]:
				return "newKapacitorTask,StartTask,StartBatching,StopTask→err"
			case a["batch"]:
				return "newKapacitorTask,StartTask,StartBatching,watch→nil"
			}
			return "newKapacitorTask,StartTask,watch→nil"
		}})
	// the watcher: Wait error ⇒ StopTask
	var gofn *ast.FuncLit
	ast.Inspect(fn.Decl.Body, func(n ast.Node) bool {
		if g, ok := n.(*ast.GoStmt); ok {
			gofn, _ = g.Call.Fun.(*ast.FuncLit)
		}
		return true
	})
	if gofn == nil {
		c.Fail("C14.start", "Service.startTask#watcher", fn.Decl.Pos(), "no watcher goroutine")
		return
	}
	weng := &an.Engine{Prog: c.P, Info: info,
		TrackCall: func(call *ast.CallExpr, callee *types.Func) string {
			if callee != nil && (callee.Name() == "Wait" || callee.Name() == "StopTask" || callee.Name() == "saveLastError") {
				return callee.Name()
			}
			return ""
		},
		Classify: func(a an.Atom) (string, bool) {
			if k, ok := an.ErrNilAtom(info, a); ok && an.LastCall(k) == "Wait" {
				return "failed", true
			}
			return "", false
		}}
	wpaths, err := weng.RunBody(gofn.Type, nil, gofn.Body)
	if err != nil {
		c.Undecided("C14.start", "Service.startTask#watcher", gofn.Pos(), "%v", err)
		return
	}
	an.CheckTable(c, "C14.start", "Service.startTask#watcher", wpaths, an.Table{Atoms: []string{"failed"},
		Outcome: func(p *an.Path) string { return an.Seq(p, "Wait", "StopTask", "saveLastError") },
		Expect: func(a map[string]bool) string {
			if a["failed"] {
				return "Wait,StopTask,saveLastError"
			}
			return "Wait"
		}})
}

func c14Update(c *core.Ctx, pkg *packages.Package) {
	info := pkg.TypesInfo
	fn := c.Need("C14.update", "services/task_store", "Service", "handleUpdateTask")
	if fn == nil {
		return
	}
	// the handler's variables by role: the stored task (first result of tasks.Get), its edited copy (defined as a copy of
	// it), the status-changed flag (the bool the status comparison is stored in); keys are rewritten to the names used below
	origN, updN, chgN := "original", "updated", "statusChanged"
	ast.Inspect(fn.Decl.Body, func(n ast.Node) bool {
		as, ok := n.(*ast.AssignStmt)
		if !ok || as.Tok != token.DEFINE {
			return true
		}
		if len(as.Lhs) == 2 && len(as.Rhs) == 1 {
			if call, ok := as.Rhs[0].(*ast.CallExpr); ok {
				if sel, ok := call.Fun.(*ast.SelectorExpr); ok && sel.Sel.Name == "Get" && an.FieldSel(info, sel.X, "Service", "tasks") {
					origN = types.ExprString(as.Lhs[0])
				}
			}
		}
		if len(as.Lhs) == 1 && len(as.Rhs) == 1 {
			if types.ExprString(as.Rhs[0]) == origN && origN != "" {
				updN = types.ExprString(as.Lhs[0])
			}
			if be, ok := as.Rhs[0].(*ast.BinaryExpr); ok && be.Op == token.NEQ && (strings.HasSuffix(types.ExprString(be.X), ".Status") || strings.HasSuffix(types.ExprString(be.Y), ".Status")) {
				chgN = types.ExprString(as.Lhs[0])
			}
		}
		return true
	})
	canon := func(k string) string {
		k = replaceIdent(k, origN, "original")
		k = replaceIdent(k, updN, "updated")
		return replaceIdent(k, chgN, "statusChanged")
	}
	eng := &an.Engine{Prog: c.P,
		TrackCall: func(call *ast.CallExpr, callee *types.Func) string {
			if callee == nil {
				return ""
			}
			switch callee.Name() {
			case "startTask", "stopTask":
				return callee.Name()
			case "updateTaskAssociation":
				return "associate"
			case "AssociateTask", "DisassociateTask":
				return "associate-direct"
			case "Create", "Delete", "Replace":
				if sel, ok := call.Fun.(*ast.SelectorExpr); ok && an.FieldSel(info, sel.X, "Service", "tasks") {
					return callee.Name()
				}
			}
			return ""
		},
		Classify: func(a an.Atom) (string, bool) {
			a.L, a.R, a.Key = canon(a.L), canon(a.R), canon(a.Key)
			switch {
			case a.Op == token.EQL && ((a.L == "original.ID" && a.R == "updated.ID") || (a.R == "original.ID" && a.L == "updated.ID")):
				return "sameid", false
			case a.Key == "statusChanged":
				return "chg", false
			case a.Op == token.EQL && a.L == "updated.Status" && strings.HasSuffix(a.R, "Enabled"):
				return "en", false
			case a.Op == token.EQL && a.L == "updated.Status" && strings.HasSuffix(a.R, "Disabled"):
				return "dis", false
			case a.Op == token.EQL && a.L == "original.Status" && strings.HasSuffix(a.R, "Enabled"):
				return "was", false
			}
			if k, ok := an.ErrNilAtom(info, a); ok {
				switch an.LastCall(k) {
				case "Create":
					return "createErr", true
				case "Replace":
					return "replaceErr", true
				case "startTask":
					return "startErr", true
				case "updateTaskAssociation":
					return "assocErr", true
				}
			}
			return "", false
		}}
	paths, err := eng.RunRegion(fn, func(s ast.Stmt) bool {
		ifs, ok := s.(*ast.IfStmt)
		if !ok {
			return false
		}
		cond := canon(types.ExprString(ifs.Cond))
		return cond == "original.ID != updated.ID" || cond == "updated.ID != original.ID"
	})
	if err != nil {
		c.Undecided("C14.update", "Service.handleUpdateTask", fn.Decl.Pos(), "%v", err)
		return
	}
	c.Sites(len(paths))
	an.CheckTable(c, "C14.update", "Service.handleUpdateTask", paths, an.Table{Atoms: []string{"sameid", "createErr", "replaceErr", "assocErr", "was", "en", "dis", "chg", "startErr"},
		Outcome: func(p *an.Path) string {
			var s []string
			for _, e := range p.Events {
				if e.Kind != "call" {
					continue
				}
				if e.Name == "associate" {
					s = append(s, "associate")
					continue
				}
				s = append(s, e.Name+"("+strings.Join(e.Args, ",")+")")
			}
			w := canon(strings.Join(s, ","))
			if p.Assign()["sameid"] {
				w = strings.ReplaceAll(w, "updated.ID", "original.ID") // the same id on this path
			}
			return w
		},
		Expect: func(a map[string]bool) string {
			var s []string
			if !a["sameid"] {
				s = append(s, "Create(updated)")
				if a["createErr"] {
					return strings.Join(s, ",")
				}
				// F73: the template association follows the saved definition (a rejected request leaves no association behind)
				s = append(s, "associate")
				if a["assocErr"] {
					return strings.Join(s, ",")
				}
				s = append(s, "Delete(original.ID)")
				if a["was"] && a["en"] {
					if a["chg"] {
						return "*" // status cannot have changed when both are enabled
					}
					s = append(s, "stopTask(original.ID)", "startTask(updated)")
					if a["startErr"] {
						return strings.Join(s, ",")
					}
				}
			} else {
				s = append(s, "Replace(updated)")
				if a["replaceErr"] {
					return strings.Join(s, ",")
				}
				s = append(s, "associate")
				if a["assocErr"] {
					return strings.Join(s, ",")
				}
			}
			if a["chg"] {
				if a["en"] && a["dis"] {
					return "*"
				}
				if a["en"] {
					s = append(s, "startTask(updated)")
				} else if a["dis"] {
					s = append(s, "stopTask(original.ID)")
				}
			}
			return strings.Join(s, ",")
		}})
}

func c14Create(c *core.Ctx, pkg *packages.Package) {
	info := pkg.TypesInfo
	fn := c.Need("C14.create", "services/task_store", "Service", "handleCreateTask")
	if fn == nil {
		return
	}
	// the start call sits under `if <task>.Status == Enabled` and after tasks.Create in source order, in the top-level statement list
	var createPos, startPos token.Pos
	guard := false
	ast.Inspect(fn.Decl.Body, func(n ast.Node) bool {
		switch x := n.(type) {
		case *ast.CallExpr:
			if f := core.Callee(info, x); f != nil {
				if sel, ok := x.Fun.(*ast.SelectorExpr); ok && f.Name() == "Create" && an.FieldSel(info, sel.X, "Service", "tasks") {
					createPos = x.Pos()
				}
			}
		case *ast.IfStmt:
			if strings.HasSuffix(types.ExprString(x.Cond), ".Status == Enabled") {
				ast.Inspect(x.Body, func(m ast.Node) bool {
					if call, ok := m.(*ast.CallExpr); ok {
						if f := core.Callee(info, call); f != nil && f.Name() == "startTask" {
							startPos = call.Pos()
							guard = true
						}
					}
					return true
				})
			}
		}
		return true
	})
	c.Check(guard && createPos.IsValid() && createPos < startPos, "C14.create", "Service.handleCreateTask", fn.Decl.Pos(), "the new task must be started under `Status == Enabled`, after tasks.Create (guarded: %v, create precedes start: %v)", guard, createPos.IsValid() && createPos < startPos)
	// every startTask call in the handler is under that guard
	unguarded := 0
	ast.Inspect(fn.Decl.Body, func(n ast.Node) bool {
		if call, ok := n.(*ast.CallExpr); ok {
			if f := core.Callee(info, call); f != nil && f.Name() == "startTask" && call.Pos() != startPos {
				unguarded++
			}
		}
		return true
	})
	c.Check(unguarded == 0, "C14.create", "Service.handleCreateTask#only-guarded", fn.Decl.Pos(), "%d further startTask call(s) outside the enabled guard", unguarded)
}

func c14Delete(c *core.Ctx, pkg *packages.Package) {
	info := pkg.TypesInfo
	fn := c.Need("C14.delete", "services/task_store", "Service", "deleteTask")
	if fn == nil {
		return
	}
	id := an.ParamName(fn.Decl.Type, 0)
	eng := &an.Engine{Prog: c.P,
		TrackCall: func(call *ast.CallExpr, callee *types.Func) string {
			if callee == nil {
				return ""
			}
			switch callee.Name() {
			case "DeleteTask":
				return "tm.DeleteTask"
			case "Get", "Delete":
				if sel, ok := call.Fun.(*ast.SelectorExpr); ok && an.FieldSel(info, sel.X, "Service", "tasks") {
					return "tasks." + callee.Name()
				}
			}
			return ""
		},
		Classify: func(a an.Atom) (string, bool) {
			switch {
			case a.Op == token.EQL && strings.HasSuffix(a.L, ".Status") && strings.HasSuffix(a.R, "Enabled"):
				return "enabled", false
			case a.Op == token.EQL && strings.Contains(a.Key, "ErrNoTaskExists"):
				return "notfound", false
			}
			if k, ok := an.ErrNilAtom(info, a); ok && an.LastCall(k) == "Get" && strings.Contains(k, ".tasks.") {
				return "getErr", true
			}
			return "", false
		}}
	paths, err := eng.Run(fn)
	if err != nil {
		c.Undecided("C14.delete", "Service.deleteTask", fn.Decl.Pos(), "%v", err)
		return
	}
	an.CheckTable(c, "C14.delete", "Service.deleteTask", paths, an.Table{Atoms: []string{"getErr", "notfound", "enabled"},
		Outcome: func(p *an.Path) string {
			var s []string
			for _, e := range p.Events {
				if e.Kind == "call" {
					a := e.Name
					if len(e.Args) != 1 || e.Args[0] != id {
						a += "(other id)"
					}
					s = append(s, a)
				}
			}
			r := "→other"
			if len(p.Rets) == 1 {
				switch {
				case p.Rets[0] == "nil":
					r = "→nil"
				case strings.Contains(p.Rets[0], ".tasks.Delete("):
					r = "→delete-result"
				case strings.Contains(p.Rets[0], ".tasks.Get("):
					r = "→get-error"
				}
			}
			return strings.Join(s, ",") + r
		},
		Expect: func(a map[string]bool) string {
			switch {
			case a["getErr"] && a["notfound"]:
				return "tasks.Get→nil"
			case a["getErr"]:
				return "tasks.Get→get-error"
			case a["enabled"]:
				return "tasks.Get,tm.DeleteTask,tasks.Delete→delete-result"
			}
			return "tasks.Get,tasks.Delete→delete-result"
		}})
}

func c14Prefix(c *core.Ctx, pkg *packages.Package) {
	info := pkg.TypesInfo
	n := 0
	for _, b := range txBodies(pkg) {
		ast.Inspect(b.body, func(nd ast.Node) bool {
			call, ok := nd.(*ast.CallExpr)
			if !ok || len(call.Args) != 1 {
				return true
			}
			sel, ok := call.Fun.(*ast.SelectorExpr)
			if !ok || sel.Sel.Name != "List" {
				return true
			}
			s, ok := info.Selections[sel]
			if !ok || !isTxType(s.Recv()) {
				return true
			}
			arg := ast.Unparen(call.Args[0])
			// dynamic component?
			dynamic := false
			ast.Inspect(arg, func(m ast.Node) bool {
				if id, ok := m.(*ast.Ident); ok {
					if v, ok := info.Uses[id].(*types.Var); ok && !v.IsField() && v.Parent() != pkg.Types.Scope() {
						dynamic = true
					}
				}
				return true
			})
			if !dynamic {
				return true
			}
			n++
			// must be a + … + "/" chain ending in the delimiter constant
			ends := false
			if be, ok := arg.(*ast.BinaryExpr); ok && be.Op == token.ADD {
				if v, ok := strLit(info, be.Y); ok && strings.HasSuffix(v, "/") {
					ends = true
				}
			}
			c.Check(ends, "C14.prefix", b.name+"#List("+types.ExprString(arg)+")", call.Pos(), "the scan prefix %s embeds an id but does not end with the \"/\" delimiter: ids that merely start with this id (\"cpu\" vs \"cpu_alert\") are listed too, so an operation on one template touches the tasks of another", types.ExprString(arg))
			return true
		})
	}
	c.Floor("C14.prefix", "id-embedding prefix scans", n, 2)
}

func c14Rollback(c *core.Ctx, pkg *packages.Package) {
	info := pkg.TypesInfo
	fn := c.Need("C14.rollback", "services/task_store", "Service", "updateAllAssociatedTasks")
	if fn == nil {
		return
	}
	old, ids := an.ParamName(fn.Decl.Type, 0), an.ParamName(fn.Decl.Type, 2)
	var def *ast.DeferStmt
	var mainLoop *ast.ForStmt
	for _, st := range fn.Decl.Body.List {
		switch x := st.(type) {
		case *ast.DeferStmt:
			def = x
		case *ast.ForStmt:
			mainLoop = x
		}
	}
	if def == nil || mainLoop == nil {
		c.Fail("C14.rollback", "updateAllAssociatedTasks#shape", fn.Decl.Pos(), "no deferred rollback or no update loop at the top level of the function")
		return
	}
	c.Check(def.Pos() < mainLoop.Pos(), "C14.rollback", "updateAllAssociatedTasks#registered-first", def.Pos(), "the rollback must be registered before the update loop")
	fl, _ := def.Call.Fun.(*ast.FuncLit)
	if fl == nil {
		c.Undecided("C14.rollback", "updateAllAssociatedTasks#closure", def.Pos(), "the deferred call is not a closure")
		return
	}
	// the progress variable of the main loop
	iv := ""
	if mainLoop.Cond != nil {
		if be, ok := mainLoop.Cond.(*ast.BinaryExpr); ok {
			iv = types.ExprString(be.X)
		}
	}
	// skip condition
	skipOK := false
	var rb *ast.ForStmt
	for _, st := range fl.Body.List {
		switch x := st.(type) {
		case *ast.IfStmt:
			if types.ExprString(x.Cond) == iv+" == len("+ids+")" {
				for _, s := range x.Body.List {
					if _, ok := s.(*ast.ReturnStmt); ok {
						skipOK = true
					}
				}
			}
		case *ast.ForStmt:
			rb = x
		}
	}
	c.Check(skipOK, "C14.rollback", "updateAllAssociatedTasks#skip-only-when-done", fl.Pos(), "the rollback must be skipped exactly when %s == len(%s)", iv, ids)
	if rb == nil {
		c.Fail("C14.rollback", "updateAllAssociatedTasks#loop", fl.Pos(), "the rollback has no loop over the updated tasks")
		return
	}
	jv := ""
	if as, ok := rb.Init.(*ast.AssignStmt); ok && len(as.Lhs) == 1 && types.ExprString(as.Rhs[0]) == "0" {
		jv = types.ExprString(as.Lhs[0])
	}
	cond := ""
	if rb.Cond != nil {
		cond = types.ExprString(rb.Cond)
	}
	c.Check(jv != "" && (cond == jv+" <= "+iv || cond == jv+" < "+iv+" + 1" || cond == jv+" < "+iv+"+1"), "C14.rollback", "updateAllAssociatedTasks#range", rb.Pos(), "the rollback loop must run %s = 0..%s (the task at index %s may already be written); runs `%s`", "j", iv, iv, cond)
	// every index into taskIds inside the rollback loop uses the loop variable
	okIdx, nIdx := true, 0
	ast.Inspect(rb.Body, func(n ast.Node) bool {
		if ix, ok := n.(*ast.IndexExpr); ok && types.ExprString(ix.X) == ids {
			nIdx++
			if types.ExprString(ix.Index) != jv {
				okIdx = false
				c.Fail("C14.rollback", "updateAllAssociatedTasks#index", ix.Pos(), "the rollback addresses %s[%s] instead of %s[%s]: tasks 0..%s-1 keep the rejected template's definition (a rejected template update changes some tasks and not others)", ids, types.ExprString(ix.Index), ids, jv, iv)
			}
		}
		return true
	})
	if okIdx && nIdx > 0 {
		c.Ok("C14.rollback", "updateAllAssociatedTasks#index")
	}
	// restores the old definition and reloads
	restored := map[string]bool{}
	replace, reload := false, false
	ast.Inspect(rb.Body, func(n ast.Node) bool {
		switch x := n.(type) {
		case *ast.AssignStmt:
			if len(x.Lhs) == 1 && len(x.Rhs) == 1 {
				l, r := types.ExprString(x.Lhs[0]), types.ExprString(x.Rhs[0])
				for _, f := range []string{"TemplateID", "TICKscript", "Type"} {
					src := f
					if f == "TemplateID" {
						src = "ID"
					}
					if strings.HasSuffix(l, "."+f) && r == old+"."+src {
						restored[f] = true
					}
				}
			}
		case *ast.CallExpr:
			if f := core.Callee(info, x); f != nil {
				switch f.Name() {
				case "Replace":
					replace = true
				case "startTask":
					reload = true
				}
			}
		}
		return true
	})
	// per task rolled back, on paths: fetched ⇒ Replace; enabled ⇒ stopTask then startTask, whatever else holds
	eng := &an.Engine{Prog: c.P, Info: info,
		TrackCall: func(call *ast.CallExpr, callee *types.Func) string {
			if callee == nil {
				return ""
			}
			switch callee.Name() {
			case "Get", "Replace", "stopTask", "startTask":
				return callee.Name()
			}
			return ""
		},
		Classify: func(a an.Atom) (string, bool) {
			switch {
			case a.Op == token.EQL && a.R == "nil" && an.LastCall(a.L) == "Get":
				return "fetched", false
			case a.Op == token.EQL && strings.HasSuffix(a.L, ".Status") && strings.HasSuffix(a.R, "Enabled"):
				return "enabled", false
			}
			return "", false
		}}
	if paths, err := eng.RunBody(fl.Type, nil, rb.Body); err != nil {
		c.Undecided("C14.rollback", "updateAllAssociatedTasks#restart", rb.Pos(), "%v", err)
	} else {
		good := len(paths) > 0
		for _, p := range paths {
			a := p.Assign()
			if v, dec := a["fetched"]; !dec || !v {
				continue
			}
			w := an.Seq(p, "Replace", "stopTask", "startTask")
			want := "Replace"
			if en, dec := a["enabled"]; !dec {
				good = false
				c.Fail("C14.rollback", "updateAllAssociatedTasks#restart", p.RetPos, "a rolled-back task is not tested for being enabled")
				continue
			} else if en {
				want = "Replace,stopTask,startTask"
			}
			if w != want {
				good = false
				c.Fail("C14.rollback", "updateAllAssociatedTasks#restart", p.RetPos, "a rolled-back task that is enabled=%v goes through [%s], must go through [%s] (%s): the task the update failed on was already stopped by the forward pass; if the rollback does not restart it, it stays enabled with a valid definition and is not executing", a["enabled"], w, want, p.Cond())
			}
		}
		if good {
			c.Ok("C14.rollback", "updateAllAssociatedTasks#restart")
		}
	}
	c.Check(restored["TemplateID"] && restored["TICKscript"] && restored["Type"] && replace && reload, "C14.rollback", "updateAllAssociatedTasks#restores", rb.Pos(), "the rollback must restore TemplateID, TICKscript and Type from the old template, Replace the task and reload it if enabled (restored %v, replace %v, reload %v)", restored, replace, reload)
}

// c14ProbeRules: structural necessary conditions for the defects the C14 history probe found (F71-F75).
func c14ProbeRules(c *core.Ctx, pkg *packages.Package) {
	info := pkg.TypesInfo
	c.Rule("C14.ids", "A3: F71/F72: every handler that takes an ID from a request for a task or template (create and update alike) tests it with the package's ID matcher before using it, and the matcher rejects the path elements . and ..")
	c.Rule("C14.assoc", "A2: F73: in handleCreateTask and handleUpdateTask the template association (AssociateTask/DisassociateTask, directly or through a helper) is changed only on paths where the task definition was already saved (tasks.Create/Replace returned nil)")
	c.Rule("C14.rollback", "A2: F74/F75: when updateAllAssociatedTasks fails, handleUpdateTemplate restores the template it saved before (Replace(original), or Create(original) after an ID change); the roll back of a task restores the dbrps remembered from the forward pass, not ones derived from the old script")

	// F71: handlers that assign <x>.ID = <request>.ID must test the matcher on that value
	n := 0
	for _, name := range []string{"handleCreateTask", "handleUpdateTask", "handleCreateTemplate", "handleUpdateTemplate"} {
		fn := c.Need("C14.ids", "services/task_store", "Service", name)
		if fn == nil {
			continue
		}
		matched := false
		ast.Inspect(fn.Decl.Body, func(nd ast.Node) bool {
			if call, ok := nd.(*ast.CallExpr); ok {
				if sel, ok := call.Fun.(*ast.SelectorExpr); ok && sel.Sel.Name == "MatchString" && len(call.Args) == 1 && strings.HasSuffix(types.ExprString(call.Args[0]), ".ID") {
					if id, ok := ast.Unparen(sel.X).(*ast.Ident); ok && strings.HasPrefix(id.Name, "valid") {
						matched = true
					}
				}
			}
			return true
		})
		n++
		c.Check(matched, "C14.ids", "Service."+name+"#validated", fn.Decl.Pos(), "%s takes an ID from the request and never tests it against the ID pattern: PATCH {\"id\": \"a/b\"} is accepted; Open lists the tasks to start with the pattern *, which does not match a /, so after a restart the enabled task is neither started nor counted", name)
	}
	c.Floor("C14.ids", "handlers that take an ID from a request", n, 4)
	// F72: the matchers reject . and ..
	dot := false
	for _, f := range core.AllFuncs(pkg) {
		if f.Decl.Name.Name != "MatchString" || f.Decl.Recv == nil {
			continue
		}
		one, two := false, false
		ast.Inspect(f.Decl.Body, func(nd ast.Node) bool {
			if bl, ok := nd.(*ast.BasicLit); ok {
				one = one || bl.Value == `"."`
				two = two || bl.Value == `".."`
			}
			return true
		})
		dot = dot || (one && two)
	}
	c.Check(dot, "C14.ids", "idMatcher#dots", token.NoPos, "the ID matcher of the task store accepts . and ..: both match the pattern, but links are built with path.Join and request paths are cleaned — a task created with the ID .. is listed and running, its link is /kapacitor/v1, and GET/PATCH/DELETE on /tasks/.. are redirected: it can never be disabled or deleted")

	// F73: association only after a successful save
	for _, name := range []string{"handleCreateTask", "handleUpdateTask"} {
		fn := c.Need("C14.assoc", "services/task_store", "Service", name)
		if fn == nil {
			continue
		}
		assocHelpers := map[string]bool{"AssociateTask": true, "DisassociateTask": true, "updateTaskAssociation": true}
		eng := &an.Engine{Prog: c.P,
			TrackCall: func(call *ast.CallExpr, callee *types.Func) string {
				if callee == nil {
					return ""
				}
				if assocHelpers[callee.Name()] {
					return "assoc"
				}
				if sel, ok := call.Fun.(*ast.SelectorExpr); ok && (callee.Name() == "Create" || callee.Name() == "Replace") && an.FieldSel(info, sel.X, "Service", "tasks") {
					return "save"
				}
				return ""
			},
			Classify: func(a an.Atom) (string, bool) {
				if k, ok := an.ErrNilAtom(info, a); ok {
					switch an.LastCall(k) {
					case "Create", "Replace":
						if strings.Contains(k, ".tasks.") {
							return "saveErr", true
						}
					}
				}
				return "", false
			}}
		var paths []*an.Path
		var err error
		early := token.NoPos
		if name == "handleUpdateTask" {
			// too many paths as a whole: the part from the ID comparison on is explored, and no association call may stand
			// before it
			var start ast.Stmt
			for _, st := range fn.Decl.Body.List {
				if ifs, ok := st.(*ast.IfStmt); ok && start == nil {
					cs := types.ExprString(ifs.Cond)
					if strings.Contains(cs, ".ID != ") && strings.HasSuffix(cs, ".ID") {
						start = st
					}
				}
			}
			if start == nil {
				c.Undecided("C14.assoc", "Service."+name, fn.Decl.Pos(), "the statement that compares the old and the new ID was not found")
				continue
			}
			ast.Inspect(fn.Decl.Body, func(nd ast.Node) bool {
				if call, ok := nd.(*ast.CallExpr); ok && call.Pos() < start.Pos() {
					if m := core.Callee(info, call); m != nil && assocHelpers[m.Name()] && early == token.NoPos {
						early = call.Pos()
					}
				}
				return true
			})
			paths, err = eng.RunRegion(fn, func(st ast.Stmt) bool { return st == start })
		} else {
			paths, err = eng.Run(fn)
		}
		if err != nil {
			c.Undecided("C14.assoc", "Service."+name, fn.Decl.Pos(), "%v", err)
			continue
		}
		good, seen := true, 0
		if early != token.NoPos {
			good = false
			seen++
			c.Fail("C14.assoc", "Service."+name+"#after-save", early, "%s changes the template association of the task before its definition was validated and saved: a rejected request (PATCH {id: t2} → 500 on a conflict) has already moved the association, the next update of the template rewrites the wrong task; when only the template changes, the test whether anything changed compares the old template with itself and the task stays with the old template", name)
		}
		for _, p := range paths {
			ai := p.Index("assoc")
			if ai < 0 {
				continue
			}
			seen++
			si := p.Index("save")
			se, decided := p.Assign()["saveErr"]
			if si < 0 || si > ai || !decided || se {
				if good {
					c.Fail("C14.assoc", "Service."+name+"#after-save", p.Events[ai].Pos, "%s changes the template association of the task before its definition was validated and saved (path [%s]): a rejected request leaves the association behind, and the next update of the template overwrites an unrelated task of that ID with the template script (POST /tasks {id t1, template-id T1} → 400, POST plain t1, PATCH T1: t1 is rewritten)", name, p.Cond())
				}
				good = false
			}
		}
		if good && seen > 0 {
			c.Ok("C14.assoc", "Service."+name+"#after-save")
		}
		if seen == 0 {
			c.Undecided("C14.assoc", "Service."+name+"#after-save", fn.Decl.Pos(), "no association call found on any path")
		}
	}

	// F75: restore the template when the tasks were rolled back
	if fn := c.Need("C14.rollback", "services/task_store", "Service", "handleUpdateTemplate"); fn != nil {
		eng := &an.Engine{Prog: c.P,
			TrackCall: func(call *ast.CallExpr, callee *types.Func) string {
				if callee == nil {
					return ""
				}
				if callee.Name() == "updateAllAssociatedTasks" {
					return "reload"
				}
				if sel, ok := call.Fun.(*ast.SelectorExpr); ok && (callee.Name() == "Replace" || callee.Name() == "Create") && an.FieldSel(info, sel.X, "Service", "templates") {
					return "template." + callee.Name()
				}
				return ""
			},
			Classify: func(a an.Atom) (string, bool) {
				if k, ok := an.ErrNilAtom(info, a); ok && an.LastCall(k) == "updateAllAssociatedTasks" {
					return "reloadErr", true
				}
				return "", false
			}}
		paths, err := eng.Run(fn)
		if err != nil {
			c.Undecided("C14.rollback", "Service.handleUpdateTemplate", fn.Decl.Pos(), "%v", err)
		} else {
			good, seen := true, 0
			for _, p := range paths {
				ri := p.Index("reload")
				if ri < 0 || !p.Assign()["reloadErr"] {
					continue
				}
				seen++
				restored := false
				for _, e := range p.Events[ri+1:] {
					if strings.HasPrefix(e.Name, "template.") {
						restored = true
					}
				}
				if !restored && good {
					good = false
					c.Fail("C14.rollback", "Service.handleUpdateTemplate#restore-template", p.RetPos, "the reload of the associated tasks failed and rolled them back, but the template saved before stays (path [%s]): the template shows the rejected script while its tasks run the old one, and every later update of such a task — disabling it included — re-reads the template and fails; with a new ID the old template and its associations are gone", p.Cond())
				}
			}
			if good && seen > 0 {
				c.Ok("C14.rollback", "Service.handleUpdateTemplate#restore-template")
			}
			c.Floor("C14.rollback", "paths of handleUpdateTemplate on which the reload failed", seen, 1)
		}
	}
	// F74: the roll back restores remembered dbrps
	if fn := c.Need("C14.rollback", "services/task_store", "Service", "updateAllAssociatedTasks"); fn != nil {
		// a map local keyed by task id that the forward pass fills from task.DBRPs and the roll back reads
		var m types.Object
		ast.Inspect(fn.Decl.Body, func(nd ast.Node) bool {
			as, ok := nd.(*ast.AssignStmt)
			if !ok || len(as.Lhs) != 1 || len(as.Rhs) != 1 {
				return true
			}
			if ix, ok := ast.Unparen(as.Lhs[0]).(*ast.IndexExpr); ok && strings.HasSuffix(types.ExprString(as.Rhs[0]), ".DBRPs") {
				if id, ok := ast.Unparen(ix.X).(*ast.Ident); ok {
					m = info.Uses[id]
				}
			}
			return true
		})
		restored := false
		if m != nil {
			ast.Inspect(fn.Decl.Body, func(nd ast.Node) bool {
				if as, ok := nd.(*ast.AssignStmt); ok {
					for _, r := range as.Rhs {
						if ix, ok := ast.Unparen(r).(*ast.IndexExpr); ok {
							if id, ok := ast.Unparen(ix.X).(*ast.Ident); ok && info.Uses[id] == m {
								restored = true
							}
						}
					}
				}
				return true
			})
		}
		c.Check(m != nil && restored, "C14.rollback", "Service.updateAllAssociatedTasks#dbrps", fn.Decl.Pos(), "the roll back of a task does not restore the dbrps the task had before the update (remembered per task: %v, read back: %v): it derives them from dbrp statements of the old script, so a task created with explicit dbrps from a template without statements is restarted with the dbrps of the rejected template and silently stops receiving its data", m != nil, restored)
	}
}

// c14Atomic: F76 (known). A request that needs several store writes (rename: Create + association + Delete; template update: the
// template + every task made from it) is atomic with respect to a crash only if the writes share one storage transaction. The
// DAO methods each open their own (tasks.Create, tasks.Delete, templates.Replace …): a handler path with two or more of them is
// several transactions, and a restart from the file between them shows a state no request ever asked for.
func c14Atomic(c *core.Ctx, pkg *packages.Package) {
	info := pkg.TypesInfo
	c.Rule("C14.atomic", "A10: F76: no path of handleUpdateTask/handleUpdateTemplate performs two or more committing DAO calls (tasks.Create/Replace/Delete, templates.Create/Replace/Delete, a helper that replaces the associated tasks) outside one shared storage transaction")
	for _, name := range []string{"handleUpdateTask", "handleUpdateTemplate"} {
		fn := c.Need("C14.atomic", "services/task_store", "Service", name)
		if fn == nil {
			continue
		}
		// syntactic: committing DAO calls in the handler, by kind; two different kinds in one if/else arm or sequence = several
		// transactions (the DAOs take no transaction parameter here)
		kinds := map[string]token.Pos{}
		sharedTx := false
		ast.Inspect(fn.Decl.Body, func(nd ast.Node) bool {
			call, ok := nd.(*ast.CallExpr)
			if !ok {
				return true
			}
			m := core.Callee(info, call)
			if m == nil {
				return true
			}
			if sel, ok := call.Fun.(*ast.SelectorExpr); ok {
				for _, dao := range []string{"tasks", "templates"} {
					if an.FieldSel(info, sel.X, "Service", dao) {
						switch m.Name() {
						case "Create", "Replace", "Delete":
							kinds[dao+"."+m.Name()] = call.Pos()
						case "CreateTx", "ReplaceTx", "DeleteTx":
							sharedTx = true
						}
					}
				}
			}
			if m.Name() == "updateAllAssociatedTasks" {
				kinds["tasks.Replace(each associated task)"] = call.Pos()
			}
			return true
		})
		var ks []string
		var pos token.Pos
		for k, p := range kinds {
			ks = append(ks, k)
			if pos == token.NoPos || p < pos {
				pos = p
			}
		}
		sort.Strings(ks)
		multi := false
		switch name {
		case "handleUpdateTask":
			_, a := kinds["tasks.Create"]
			_, b := kinds["tasks.Delete"]
			multi = a && b
		case "handleUpdateTemplate":
			_, a := kinds["tasks.Replace(each associated task)"]
			multi = a && len(kinds) >= 2
		}
		c.Check(!multi || sharedTx, "C14.atomic", "Service."+name+"#one-transaction", pos, "%s commits %v as separate storage transactions: a restart from the storage file between them shows a state no request asked for — after PATCH {id: t2} of an enabled t1, the file as of the first transaction has both t1 and t2, both enabled and both executing; a template update leaves the template new and its tasks old", name, ks)
	}
}
